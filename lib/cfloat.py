"""chrony's 32-bit wire float: exact decoding (Fraction) and the lossy encoder of chrony-candm."""
import math
from fractions import Fraction


def decode(w):
    e = w >> 25
    if e >= 64:
        e -= 128
    e -= 25
    c = w % (1 << 25)
    if c >= 1 << 24:
        c -= 1 << 25
    return Fraction(c) * (Fraction(2) ** e)


def word(coef, exp):
    """word with signed coefficient `coef` (25 bits) and exponent field `exp` (-64..63):
    value = coef * 2^(exp-25)"""
    return ((exp & 0x7f) << 25) | (coef & 0x1ffffff)


def encode(f):
    neg = 1 if f < 0 else 0
    x = abs(f)
    if x < 1e-100:
        return 0
    exp = int(math.log2(x)) + 1
    coef = int(x * 2.0 ** (-exp + 25) + 0.5)
    while coef > (1 << 24) - 1 + neg:
        coef >>= 1
        exp += 1
    if exp > 63:
        exp, coef = 63, (1 << 24) - 1 + neg
    elif exp < -64:
        if exp + 25 >= -64:
            coef >>= (-64 - exp)
            exp = -64
        else:
            exp, coef = 0, 0
    if neg:
        coef = (-coef) & 0x1ffffff
    return ((exp & 0x7f) << 25) | coef
