"""Shared machinery of ./check: builds, model/implementation runners, audit of the Coq
development, evidence and replay writers, known-findings handling."""
import fcntl
import hashlib
import json
import os
import re
import shutil
import subprocess
import sys
import time

VERIF = os.path.dirname(os.path.dirname(os.path.abspath(__file__)))
REPO = os.environ.get("VERIF_REPO", "/repo")
BUILD = os.path.join(VERIF, ".build")
COQ = os.path.join(VERIF, "coq")
OCAML = os.path.join(VERIF, "ocaml")
HARNESS = os.path.join(VERIF, "harness")
TARGET = os.path.join(BUILD, "target")
EVIDENCE = os.path.join(VERIF, "evidence")
REPLAYS = os.path.join(VERIF, "replays")
CORPUS = os.path.join(VERIF, "corpus")
KNOWN = os.path.join(VERIF, "KNOWN_FINDINGS.txt")

ENV = dict(os.environ)
ENV.update({"CARGO_NET_OFFLINE": "true", "GOPROXY": "off", "PIP_NO_INDEX": "1"})

# Axioms that may appear under Print Assumptions (all declared by Coq's standard library and
# used by Flocq / Reals); anything else fails the audit.
AXIOM_ALLOW = {
    "ClassicalDedekindReals.sig_forall_dec",
    "ClassicalDedekindReals.sig_not_dec",
    "FunctionalExtensionality.functional_extensionality_dep",
    "Classical_Prop.classic",
}

FORBIDDEN = re.compile(
    r"\b(Admitted|admit|Axiom|Axioms|Parameter|Parameters|Conjecture|Conjectures|Admit Obligations|"
    r"Unset Guard Checking|Unset Positivity Checking|Unset Universe Checking|bypass_check|"
    r"type-in-type|impredicative-set|native_compute)\b")


class CheckError(Exception):
    """The machinery itself failed (exit 2) - never reported as a violation."""


def log(*a):
    print(*a, file=sys.stderr, flush=True)


def sh(cmd, cwd=None, timeout=1800, env=None, input=None, check=True):
    p = subprocess.run(cmd, cwd=cwd, env=env or ENV, input=input, stdout=subprocess.PIPE,
                       stderr=subprocess.STDOUT, timeout=timeout, text=True)
    if check and p.returncode != 0:
        raise CheckError("command failed (%d): %s\n%s" % (p.returncode, " ".join(cmd), p.stdout[-4000:]))
    return p


class Lock:
    def __init__(self, name="build"):
        os.makedirs(BUILD, exist_ok=True)
        self.path = os.path.join(BUILD, name + ".lock")

    def __enter__(self):
        self.f = open(self.path, "w")
        fcntl.flock(self.f, fcntl.LOCK_EX)
        return self

    def __exit__(self, *a):
        fcntl.flock(self.f, fcntl.LOCK_UN)
        self.f.close()


def file_hash(paths):
    h = hashlib.sha256()
    for p in sorted(paths):
        h.update(p.encode())
        with open(p, "rb") as f:
            h.update(f.read())
    return h.hexdigest()


# ----------------------------------------------------------------------------- Coq + OCaml

def coq_sources():
    out = []
    for root, _, files in os.walk(COQ):
        for f in files:
            if f.endswith(".v"):
                out.append(os.path.join(root, f))
    return sorted(out)


def build_coq(pid=None):
    """Full .vo build (incremental through make) of the model + extraction, then of the theorems
    of property `pid` (everything when pid is None), then the model driver.
    A failure of the model/extraction part is a machinery error; a failure of the property part
    is a broken proof obligation and is returned as (False, log, dt)."""
    with Lock("coq"):
        t0 = time.time()
        mk = os.path.join(COQ, "Makefile")
        proj = os.path.join(COQ, "_CoqProject")
        if not os.path.exists(mk) or os.path.getmtime(mk) < os.path.getmtime(proj):
            sh(["coq_makefile", "-f", "_CoqProject", "-o", "Makefile"], cwd=COQ)
        p = sh(["timeout", "3000", "make", "-j16", "Extract/Extract.vo"], cwd=COQ, timeout=3100, check=False)
        if p.returncode != 0:
            raise CheckError("the executable model does not build/extract:\n" + p.stdout[-6000:])
        tgt = ["Properties/%s.vo" % pid] if pid else []
        p = sh(["timeout", "3000", "make", "-j16"] + tgt, cwd=COQ, timeout=3100, check=False)
        prop_ok, prop_log = p.returncode == 0, p.stdout[-6000:]
        # extracted files land in coq/ (cwd of coqc); move them next to the driver
        gen = os.path.join(OCAML, "gen")
        os.makedirs(gen, exist_ok=True)
        moved = False
        for f in os.listdir(COQ):
            if f.endswith(".ml") or f.endswith(".mli"):
                src = os.path.join(COQ, f)
                dst = os.path.join(gen, f)
                if not os.path.exists(dst) or open(src, "rb").read() != open(dst, "rb").read():
                    shutil.copyfile(src, dst)
                    moved = True
                os.remove(src)
        srcs = [os.path.join(gen, f) for f in os.listdir(gen)] + \
               [os.path.join(OCAML, f) for f in ("io.ml", "driver.ml", "build.sh")]
        h = file_hash(srcs)
        stamp = os.path.join(OCAML, ".stamp")
        drv = os.path.join(OCAML, "model_driver")
        if moved or not os.path.exists(drv) or not os.path.exists(stamp) or open(stamp).read() != h:
            sh(["timeout", "600", "./build.sh"], cwd=OCAML, timeout=700)
            open(stamp, "w").write(h)
        return prop_ok, prop_log, time.time() - t0


def forbidden_tokens():
    """Grep the whole development for anything that would declare an axiom or skip a check."""
    hits = []
    for p in coq_sources() + [os.path.join(COQ, "_CoqProject")]:
        txt = open(p).read()
        # strip comments (non-nested is enough for our files; nested handled by a small loop)
        prev = None
        while prev != txt:
            prev = txt
            txt = re.sub(r"\(\*[^()]*?\*\)", " ", txt, flags=re.S)
        for m in FORBIDDEN.finditer(txt):
            hits.append("%s: %s" % (os.path.relpath(p, VERIF), m.group(0)))
    return hits


def theorems_of(prop_file):
    txt = open(prop_file).read()
    return re.findall(r"^\s*(?:Theorem|Corollary)\s+([A-Za-z0-9_']+)", txt, flags=re.M)


def audit_property(pid, extra_files=()):
    """Compile an audit file that prints the assumptions of every theorem of Properties/<pid>.v.
    Returns (obligations, discharged, axioms, problems)."""
    pf = os.path.join(COQ, "Properties", pid + ".v")
    problems = []
    if not os.path.exists(pf):
        return [], [], [], ["no property file " + pf]
    thms = theorems_of(pf)
    vo = pf + "o"
    if not os.path.exists(vo) or os.path.getmtime(vo) < os.path.getmtime(pf):
        problems.append("Properties/%s.vo missing or stale" % pid)
        return thms, [], [], problems
    adir = os.path.join(BUILD, "audit")
    os.makedirs(adir, exist_ok=True)
    af = os.path.join(adir, "Audit_%s.v" % pid)
    with open(af, "w") as f:
        f.write("From CB.Properties Require Import %s.\n" % pid)
        for t in thms:
            f.write('Goal True. idtac "@@THM %s". exact I. Qed.\n' % t)
            f.write("Print Assumptions %s.\n" % t)
    p = sh(["timeout", "600", "coqc", "-noglob", "-Q", COQ, "CB", af], cwd=adir, timeout=700, check=False)
    if p.returncode != 0:
        problems.append("audit file does not compile: " + p.stdout[-1500:])
        return thms, [], [], problems
    out = p.stdout
    blocks = out.split("@@THM ")[1:]
    discharged, axioms = [], set()
    for b in blocks:
        name, _, rest = b.partition("\n")
        name = name.strip()
        if "Closed under the global context" in rest:
            discharged.append(name)
            continue
        # "Axioms:\nname : type\n   continuation..." -> names start at column 0
        ax = re.findall(r"^([A-Za-z_][A-Za-z0-9_.']*)\s*(?::|$)", rest.split("Axioms:", 1)[-1], flags=re.M)
        ax = [a for a in ax if a not in ("Axioms",)]
        bad = [a for a in ax if a not in AXIOM_ALLOW]
        axioms.update(ax)
        if bad:
            problems.append("theorem %s depends on non-allow-listed axioms %s" % (name, bad))
        else:
            discharged.append(name)
    missing = [t for t in thms if t not in discharged and not any(t in pr for pr in problems)]
    for t in missing:
        problems.append("no assumption report for theorem " + t)
    return thms, discharged, sorted(axioms), problems


# ----------------------------------------------------------------------------- harness

def build_harness(profile="debug"):
    with Lock("cargo"):
        t0 = time.time()
        lock_src = os.path.join(REPO, "Cargo.lock")
        lock_dst = os.path.join(HARNESS, "Cargo.lock")
        # The harness lock file is committed; it pins the same versions as /repo's.
        args = ["timeout", "1500", "cargo", "build", "--offline"]
        if profile == "release":
            args.append("--release")
        env = dict(ENV)
        env["CARGO_TARGET_DIR"] = TARGET       # overrides harness/.cargo/config.toml when /verif is a snapshot elsewhere
        p = sh(args, cwd=HARNESS, timeout=1600, check=False, env=env)
        if p.returncode != 0 and os.path.exists(lock_src):
            # lock drifted (dependency change in /repo): refresh from /repo's lock once
            shutil.copyfile(lock_src, lock_dst)
            p = sh(args, cwd=HARNESS, timeout=1600, check=False, env=env)
        if p.returncode != 0:
            raise CheckError("harness does not build against %s (profile %s):\n%s" % (REPO, profile, p.stdout[-6000:]))
        return os.path.join(TARGET, profile, "cbverif-harness"), time.time() - t0


CHUNK = 1500      # cases per harness process (ShmWriter::new keeps one descriptor per call; also gives parallelism)


def _run_chunk(binary, lines, args, timeout, env):
    data = "\n".join(lines) + "\n"
    e = dict(ENV)
    if env:
        e.update(env)
    p = subprocess.run(["timeout", str(timeout), binary, *args], input=data, stdout=subprocess.PIPE,
                       stderr=subprocess.PIPE, text=True, env=e, timeout=timeout + 30)
    if p.returncode != 0:
        raise CheckError("%s exited %d: %s" % (binary, p.returncode, p.stderr[-3000:]))
    out = p.stdout.split("\n")
    if out and out[-1] == "":
        out.pop()
    if len(out) != len(lines):
        raise CheckError("%s: %d result lines for %d cases\n%s" % (binary, len(out), len(lines), p.stderr[-2000:]))
    return out


def run_lines(binary, lines, args=("lines",), timeout=900, env=None):
    if len(lines) <= CHUNK:
        return _run_chunk(binary, lines, args, timeout, env)
    from concurrent.futures import ThreadPoolExecutor
    chunks = [lines[i:i + CHUNK] for i in range(0, len(lines), CHUNK)]
    with ThreadPoolExecutor(max_workers=8) as ex:
        outs = list(ex.map(lambda ch: _run_chunk(binary, ch, args, timeout, env), chunks))
    return [x for o in outs for x in o]


def run_lines_hang_aware(binary, lines, hang_output, args=("lines",), chunk_timeout=60, case_timeout=5, env=None):
    """run_lines for operations that must return promptly: when a chunk does not finish within
    chunk_timeout the cases of that chunk are run one at a time; a case that does not return within
    case_timeout yields hang_output instead of aborting the check."""
    size = 250
    chunks = [lines[i:i + size] for i in range(0, len(lines), size)]
    # 124: timeout(1) ended it; 137 / -9: killed (a spinning call can also exhaust memory first)
    HUNG = ("exited 124", "exited 137", "exited -9")
    # the process died of a signal (segmentation fault, abort, bus error, illegal instruction): the case that
    # did it yields the hang output with "crash" for "hang", the others are run again one at a time
    DIED = ("exited -11", "exited -6", "exited -7", "exited -4", "exited 139", "exited 134")
    crash_output = hang_output.replace("hang", "crash")

    def one(ch):
        try:
            return _run_chunk(binary, ch, args, chunk_timeout, env)
        except CheckError as e:
            if not any(x in str(e) for x in HUNG + DIED):
                raise
        except subprocess.TimeoutExpired:
            pass
        def single(ln):
            try:
                return _run_chunk(binary, [ln], args, case_timeout, env)[0]
            except CheckError as e:
                if any(x in str(e) for x in DIED):
                    return crash_output
                if not any(x in str(e) for x in HUNG):
                    raise
                return hang_output
            except subprocess.TimeoutExpired:
                return hang_output
        from concurrent.futures import ThreadPoolExecutor as _TP
        with _TP(max_workers=16) as ex2:
            return list(ex2.map(single, ch))
    from concurrent.futures import ThreadPoolExecutor
    with ThreadPoolExecutor(max_workers=8) as ex:
        outs = list(ex.map(one, chunks))
    return [x for o in outs for x in o]


def run_model(lines, timeout=900):
    return run_lines(os.path.join(OCAML, "model_driver"), lines, args=(), timeout=timeout)


# ----------------------------------------------------------------------------- findings

def known_findings():
    known, fixed = [], []
    if os.path.exists(KNOWN):
        for ln in open(KNOWN):
            ln = ln.strip()
            if not ln or ln.startswith("#"):
                continue
            m = re.match(r"known:\s+property=(\S+)\s+key=(\S+)\s+(.*)", ln)
            if m:
                known.append({"property": m.group(1), "key": m.group(2), "what": m.group(3)})
                continue
            m = re.match(r"fixed:\s+property=(\S+)\s+(\S+)\s+(.*)", ln)
            if m:
                fixed.append({"property": m.group(1), "commit": m.group(2), "what": m.group(3)})
    return known, fixed


class Result:
    """Accumulates what one check run did; turns into evidence + exit code."""

    def __init__(self, pid, tier, seed):
        self.pid, self.tier, self.seed = pid, tier, seed
        self.t0 = time.time()
        self.obligations = []      # names
        self.discharged = []
        self.violations = []       # (replay path, suffix)
        self.known_seen = []
        self.evaluations = 0
        self.nontrivial = set()
        self.samples = []
        self.rule = ""
        self.histogram = {}
        self.traces_validated = 0
        self.axioms = []
        self.checker_cmd = ""
        self.trusted_base = []
        self.assumptions = []
        self.extra = {}
        self.exhaustive = False
        self.known = [k for k in known_findings()[0] if k["property"] == pid]

    def oblige(self, name, ok):
        self.obligations.append(name)
        if ok:
            self.discharged.append(name)

    def count(self, key, n=1):
        self.histogram[key] = self.histogram.get(key, 0) + n

    def nontriv(self, case):
        self.nontrivial.add(hashlib.sha1(repr(case).encode()).hexdigest())

    def known_finding(self, key, what):
        if not any(k["key"] == key for k in self.known):
            return False
        if key not in [k for k, _ in self.known_seen]:
            self.known_seen.append((key, what))
        return True

    def violation(self, replay, found_input=True):
        os.makedirs(REPLAYS, exist_ok=True)
        blob = json.dumps(replay, sort_keys=True, indent=1, default=str)
        h = hashlib.sha1(blob.encode()).hexdigest()[:12]
        path = os.path.join(REPLAYS, "%s-%s.json" % (self.pid, h))
        with open(path, "w") as f:
            f.write(blob + "\n")
        self.violations.append((path, "" if found_input else " no-failing-input-found"))

    def finish(self):
        for key, what in self.known_seen:
            print("KNOWN-FINDING: property=%s key=%s %s" % (self.pid, key, what))
        for path, suffix in self.violations:
            print("VIOLATION property=%s replay=%s%s" % (self.pid, path, suffix))
        cov = {
            "obligations": len(self.obligations),
            "discharged": len(self.discharged),
            "obligation_names": self.obligations,
            "undischarged": [o for o in self.obligations if o not in self.discharged],
            "checker_cmd": self.checker_cmd,
            "trusted_base": self.trusted_base,
            "axioms": self.axioms,
            "evaluations": self.evaluations,
            "distinct_nontrivial": len(self.nontrivial),
            "rule": self.rule,
            "samples": self.samples[:8],
            "input_distribution": self.histogram,
            "traces_validated_against_impl": self.traces_validated,
            "known_findings_seen": [k for k, _ in self.known_seen],
            "exhaustive": self.exhaustive,
        }
        cov.update(self.extra)
        ev = {
            "property_id": self.pid,
            "tier": self.tier,
            "seed": self.seed,
            "level": "proof",
            "coverage": cov,
            "assumptions": self.assumptions,
            "wall_s": round(time.time() - self.t0, 2),
            "violations": len(self.violations),
        }
        os.makedirs(EVIDENCE, exist_ok=True)
        with open(os.path.join(EVIDENCE, self.pid + ".json"), "w") as f:
            json.dump(ev, f, indent=1, sort_keys=True, default=str)
            f.write("\n")
        return 1 if self.violations else 0


TRUSTED_COMMON = [
    "Coq 8.16.1 kernel (coqc, full .vo build, vm_compute used in reflection proofs; no native_compute)",
    "hand-written Gallina model tied to the code by differential correspondence on this run's cases",
    "extraction with ExtrOcamlBasic only (bool, option, unit, list, prod, sumbool, sumor, andb, orb) + OCaml 4.13",
    "harness built from /repo's working tree with --cfg clockbound_verif; hooks are pass-through without a controller",
    "Python driver: generators, canonicalisation, diffing",
]


def standard_proof_part(res, pid, coq_ok, coq_log):
    """Obligations common to every property: the development builds, no forbidden token,
    every theorem of Properties/<pid>.v is closed or within the axiom allow-list."""
    res.checker_cmd = "make -j16 (coq_makefile, full .vo) in /verif/coq; coqc .build/audit/Audit_%s.v (Print Assumptions)" % pid
    res.trusted_base = list(TRUSTED_COMMON)
    if not coq_ok:
        res.oblige("coq-development-builds", False)
        return False, "Coq development does not build:\n" + coq_log
    res.oblige("coq-development-builds", True)
    hits = forbidden_tokens()
    res.oblige("no-admitted-axiom-parameter", not hits)
    if hits:
        return False, "forbidden tokens: " + "; ".join(hits)
    thms, discharged, axioms, problems = audit_property(pid)
    res.axioms = axioms
    for t in thms:
        res.oblige("theorem:" + t, t in discharged)
    if axioms:
        res.trusted_base.append("standard-library axioms used (via Reals/Flocq): " + ", ".join(axioms))
    if problems:
        return False, "; ".join(problems)
    if res.tier == "thorough":
        ok, why = coqchk_property(res, pid)
        if not ok:
            return False, why
    return True, ""


def coqchk_property(res, pid):
    """thorough tier: the compiled property file and everything it depends on is re-checked by the
    independent checker coqchk; its report must name no axiom outside the allow-list and nothing
    under type-in-type / unsafe fixpoints / assumed positivity."""
    p = sh(["timeout", "1500", "coqchk", "-o", "-silent", "-Q", COQ, "CB", "CB.Properties." + pid], cwd=COQ, timeout=1600, check=False)
    out = p.stdout
    name = "coqchk -o: Properties/%s.vo and its dependencies re-checked; axioms within the allow-list; no type-in-type, unsafe fixpoint, assumed positivity" % pid
    if p.returncode != 0:
        res.oblige(name, False)
        return False, "coqchk failed on Properties/%s.vo: %s" % (pid, out[-1500:])
    sections = {}
    cur = None
    for ln in out.splitlines():
        m = re.match(r"\* (.*?):\s*(.*)$", ln.strip())
        if m:
            cur = m.group(1)
            sections[cur] = [m.group(2)] if m.group(2) else []
        elif cur and ln.strip():
            sections[cur].append(ln.strip())
    ax = [x.split()[0] for x in sections.get("Axioms", []) if x and x != "<none>"]
    bad_ax = [a for a in ax if a.split(".")[-1] not in [x.split(".")[-1] for x in AXIOM_ALLOW] and a not in AXIOM_ALLOW]
    others = {k: v for k, v in sections.items() if k.startswith("Constants/Inductives relying") or k.startswith("Inductives whose positivity")}
    bad_other = {k: v for k, v in others.items() if v and v != ["<none>"]}
    ok = not bad_ax and not bad_other
    res.oblige(name, ok)
    res.extra["coqchk_axioms"] = ax
    res.checker_cmd += "; coqchk -o -silent -Q coq CB CB.Properties.%s (thorough tier)" % pid
    if not ok:
        return False, "coqchk report for Properties/%s.vo: axioms outside the allow-list %s; %s" % (pid, bad_ax, bad_other)
    return True, ""


def corpus_lines(name):
    """Committed minimised cases (one case line per line) that run before the generated ones."""
    d = os.path.join(CORPUS, name)
    out = []
    if os.path.isdir(d):
        for f in sorted(os.listdir(d)):
            if f.endswith(".txt"):
                for ln in open(os.path.join(d, f)):
                    ln = ln.strip()
                    if ln and not ln.startswith("#"):
                        out.append(ln)
    return out


def build_repo_binary(package="clock-bound-d", profile="release", binary="clockbound"):
    """The project's own artefact exactly as shipped (no verification cfg), from /repo's working tree."""
    with Lock("cargo-repo"):
        tdir = os.path.join(BUILD, "target-repo")
        args = ["timeout", "1500", "cargo", "build", "--offline", "-p", package]
        if profile == "release":
            args.append("--release")
        env = dict(ENV)
        env["CARGO_TARGET_DIR"] = tdir
        p = sh(args, cwd=REPO, timeout=1600, env=env, check=False)
        if p.returncode != 0:
            raise CheckError("%s does not build (%s):\n%s" % (package, profile, p.stdout[-4000:]))
        return os.path.join(tdir, profile, binary)


def run_daemon_in_namespace(binary, args, wait_s=6.0):
    """-> dict(exit, segment(hex)|None, stderr_tail) from lib/ns_daemon.py inside a private mount namespace."""
    helper = os.path.join(VERIF, "lib", "ns_daemon.py")
    p = subprocess.run(["timeout", str(int(wait_s) + 20), "unshare", "-m", sys.executable, helper, binary, str(wait_s)] + list(args),
                       stdout=subprocess.PIPE, stderr=subprocess.PIPE, text=True, env=ENV)
    if p.returncode != 0 or not p.stdout.strip():
        raise CheckError("namespace run failed (%d): %s" % (p.returncode, p.stderr[-1500:]))
    return json.loads(p.stdout.strip().splitlines()[-1])


def _run_chunk_ns(binary, lines, timeout):
    data = "\n".join(lines) + "\n"
    cmd = ["timeout", str(timeout), "unshare", "-m", "sh", "-c",
           "mount -t tmpfs tmpfs /run && mkdir -p /run/chrony && exec '%s' lines" % binary]
    p = subprocess.run(cmd, input=data, stdout=subprocess.PIPE, stderr=subprocess.PIPE, text=True, env=ENV, timeout=timeout + 30)
    if p.returncode != 0:
        raise CheckError("%s (in namespace) exited %d: %s" % (binary, p.returncode, p.stderr[-3000:]))
    out = p.stdout.split("\n")
    if out and out[-1] == "":
        out.pop()
    if len(out) != len(lines):
        raise CheckError("%s: %d result lines for %d cases\n%s" % (binary, len(out), len(lines), p.stderr[-2000:]))
    return out


def run_lines_in_namespace(binary, lines, timeout=900):
    """Like run_lines, but each harness process runs in a private mount namespace with an empty tmpfs on
    /run (so that it can own /var/run/chrony/chronyd.sock and /var/run/clockbound)."""
    if len(lines) <= 200:
        return _run_chunk_ns(binary, lines, timeout)
    from concurrent.futures import ThreadPoolExecutor
    chunks = [lines[i:i + 200] for i in range(0, len(lines), 200)]
    with ThreadPoolExecutor(max_workers=8) as ex:
        outs = list(ex.map(lambda ch: _run_chunk_ns(binary, ch, timeout), chunks))
    return [x for o in outs for x in o]
