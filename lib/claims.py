"""Claimed properties: id -> (technique, level text, level note, design ref).  MANIFEST.json is
regenerated from this table by lib/manifest_gen.py."""

CLIENT_NOTE = ("Trusted: Coq kernel + the four standard-library axioms of Reals/Flocq (sig_forall_dec, sig_not_dec, "
               "functional_extensionality_dep, classic); Flocq binary_float 53 1024 as the meaning of rustc's f64 (compared bit for bit on every run, "
               "debug and release builds); extraction (ExtrOcamlBasic only); the virtual clock (clock_gettime defined by the harness binary). "
               "Range R of the theorems: normalised timestamps, |sec| <= 2^31, 0 <= bound < 2^60, u32 drift.")

CLAIMED = {
    "C05": ("Coq proof (Flocq binary64: round_le monotonicity, relative error 2^-53 per operation; lia on nix TimeSpec arithmetic) + differential "
            "correspondence of the real now() (shm crate and Rust client, debug+release) against the extracted model",
            "Theorems C05_symmetric (interval centred on the realtime reading, earliest <= latest, half-width = bound + growth >= bound), C05_width "
            "(growth within (x(1-4u)-1, x(1+4u)] of the exact product x = elapsed*drift/1e9, u = 2^-53) and C05_monotone (half-width never shrinks, exact) hold "
            "for every record and pair of readings in range R; the model compute_bound_at is the bit-exact binary64 evaluation and is compared with the "
            "implementation on generated cases (thresholds, second boundaries, near-integer products, monotone pairs, range edges).",
            CLIENT_NOTE, "DESIGN.md section 6, C05"),
    "C06": ("Coq proof (case analysis + lia on the status decay of the model) + differential correspondence of the status returned by the real now() "
            "at +-1 ns around every threshold",
            "Theorems C06_status_is_decay, C06_synchronized_iff, C06_freerunning_iff, C06_freerunning_before_void, C06_unknown, C06_fresh_passthrough: the four "
            "clauses of the property for every record and reading in range R; model tied to the code by the shared compute_bound_at correspondence "
            "(status projection), both client paths, debug and release.",
            CLIENT_NOTE, "DESIGN.md section 6, C06"),
    "C11": ("Coq proof (lia on mod 2^16 + induction over update histories) + exhaustive correspondence of the real write() on all 65536 start values",
            "Theorems C11_generation_step (all 65536 start values, by arithmetic, no enumeration) and C11_history (invariant over every "
            "history of complete/interrupted updates) are machine-checked; the model functions pre/post are tied to the code by running the real "
            "ShmWriter::write() from every start value and comparing the value seen during the copy and after return.",
            "Trusted: Coq kernel; extraction (ExtrOcamlBasic only); the harness observing the generation through its own mapping at the cell hooks; "
            "crash = writer stops between two of its stores (process death modelled, not exercised with kill -9).",
            "DESIGN.md section 6, C11"),
    "C14": ("Coq proof (every i64 operation and nix assert of compute_bound_at range-checked in the model, outcome Panic excluded by theorem on range R) + "
            "differential correspondence incl. an outside-range stream where model-Panic must coincide with a real panic of the debug build",
            "Theorems C14_never_panics, C14_malformed_iff, C14_causality_iff, C14_blur_age_zero, C14_outcome (complete characterisation of the outcome on range R): "
            "no panic/overflow for any record and reading in range R; malformed iff drift >= 1e9; causality error iff mono <= as_of - 1000 ns; age zero inside the blur.",
            CLIENT_NOTE + " The error-kind/errno/detail conversion tables of the two client libraries are compared through the C16/C17 checks.",
            "DESIGN.md section 6, C14"),
}

DAEMON_NOTE = ("Trusted: Coq kernel (+ the four standard-library axioms of Reals/Flocq where real-valued bounds are stated); Flocq binary64 = rustc f64 "
               "(bit-for-bit correspondence on every run); chrony-candm's Reply::deserialize used to put raw wire words into Tracking; the cfg-gated wrappers "
               "around the private daemon items (extract_bound_from_tracking, process_messages/ShmUpdater); the virtual clock; extraction (ExtrOcamlBasic only).")

CLAIMED.update({
    "C07": ("Coq proof (Flocq: four rounded operations, relative error accumulated with nra; ceil and saturating cast) + bit-exact differential correspondence of the "
            "real extract_bound_from_tracking on crafted wire words + exact-rational oracle",
            "Theorem C07_bound: for all wire words in the meaningful range (delay, dispersion >= 0, magnitudes < 1024 s) the bound is non-negative, at least "
            "S*1e9*(1-4u) and below S*1e9*(1+5u)+1 with S = delay/2 + dispersion + |offset| exact and u = 2^-53; the strict 'never smaller' reading fails by "
            "binary64 rounding only (known finding C07-fp, witness theorem C07_fp_witness); the PHC term is added verbatim (Updater model, checked through the real process_messages).",
            DAEMON_NOTE, "DESIGN.md section 6, C07"),
    "C08": ("Coq proof (induction over message histories with the declarative state 'last synchronised report + class of the latest outcome') + differential "
            "correspondence of the real process_messages/ShmUpdater/FSM through the real ShmWriter and ShmReader",
            "Theorem C08_history: for every finite message history the model publishes exactly one record per outcome and the k-th record equals spec_rec of the "
            "history so far; C08_a_last_sync / C08_a_frozen / C08_b_void_after / C08_c_drift / C08_d_status / C08_fsm_next_is_input give clauses (a)-(d).",
            DAEMON_NOTE, "DESIGN.md section 6, C08"),
    "C09": ("Coq proof (same induction as C08; every record published before a first synchronised report is Unknown) + differential correspondence on histories "
            "biased towards never-synchronised prefixes",
            "Theorems C09_unknown_until_measured (every history without a synchronised report: all published records Unknown), C09_trusted_implies_measured, "
            "C09_client_sees_unknown (composition with the client's status decay).",
            DAEMON_NOTE, "DESIGN.md section 6, C09"),
    "C10": ("Coq proof (case analysis on the classification; Flocq exactness of the chrony float conversion and of the multiplication by 8) + differential "
            "correspondence under a virtual SystemTime at +-1 ns around the threshold and over leap codes",
            "Theorems C10_synchronized_iff / C10_freerunning_iff / C10_unknown_iff for every leap code, interval word and age; C10_threshold: the threshold is "
            "trunc(8*interval) whole seconds saturated into u64 (exact).",
            DAEMON_NOTE, "DESIGN.md section 6, C10"),
})

SHM_NOTE = ("Trusted: Coq kernel; the single-writer release/acquire machine of Shm/Machine.v as the model of the Rust/C11 memory model for this protocol (plain record "
            "accesses treated as relaxed per 8-byte cell; writer incarnations ordered by the OS); the shim and the engine (one thread runs between two announced accesses); "
            "the measured configuration (orderings/fences/copy order read off the access trace of the running code) being what the compiled code does; extraction "
            "(ExtrOcamlBasic only). Crash = the writer stops between two of its accesses (process death modelled, not exercised with kill -9).")

CLAIMED.update({
    "C02": ("Coq proof over the executable single-writer release/acquire machine: writer log invariant (inductive over every writer step, crash and restart), reader "
            "iteration invariant (inductive over every reader step for every legal choice of the event a load returns, stable under log growth), acceptance argument, "
            "lifted to whole-system runs by induction over the schedule; the configuration measured from the running code must satisfy the theorem's side condition "
            "safe_cfg (generated Current_C02.v, re-proved and instantiated every run); SC schedule correspondence of the real write()/snapshot(); RA search for a failing history",
            "Machine-checked: C02_RA (for every record function - what the daemon publishes is a parameter, class RecFun -, every configuration with safe_cfg, every number of cells, every schedule of writer accesses, reader accesses with any release/acquire-legal "
            "read choice, crashes at any access, restarts and new readers, with fewer than 32767 write() calls: every record a snapshot() returns is the initial zero record or cell "
            "for cell the record of one completed write() call), C02_reachable_invariant, C02_accept_is_one_completed_write, the three refutations for unsafe configurations, "
            "C02_fenced_rejects_torn_read. Runs of any length: C02_RA_window replaces the bound on the number of write() calls by the window condition 'no snapshot() iteration spans 32767 or "
            "more completed publications' (the generation may wrap any number of times; C02_generation_cycle: the k-th publication stores 2*((k-1) mod 32767)+2; "
            "C02_window_values_distinct; C02_short_runs_have_short_windows: C02_RA is the special case). C02_aba_witness shows the window condition is tight (known finding C02-aba, "
            "re-found on the real code every run). The machine is proved to be the standard view-based semantics of release/acquire (per-location timestamps, cur/acq views, "
            "message views) for a single-writer log: C02_loads_are_standard_loads, C02_reader_is_the_program, C02_reader_runs_are_standard_runs (lock step under any growth of the log), "
            "C02_new_client_has_the_full_view, C02_writer_accesses_are_standard, C02_published_views_are_never_revised (Shm/MachineGen.v).",
            SHM_NOTE, "DESIGN.md section 6, C02"),
    "C03": ("Coq proof over the release/acquire machine (per-reader invariant 'the cached record is the record of the write() call whose even store sits at a position the reader "
            "can no longer look behind', inductive over every reader step and stable under log growth; lifted to runs by induction over the schedule) + computed examples "
            "(catch-up, wrap) + schedule correspondence of the real code with monotonicity/freshness oracles incl. jumps across the 16-bit wrap and readers that skip >= 16384 publications",
            "Machine-checked: C03_monotone_RA and C03_later_call_never_older (same quantification as C02_RA: every safe configuration, every schedule, every release/acquire-legal read "
            "choice, crashes, restarts, fewer than 32767 write() calls: the publication numbers one reader obtains never decrease), C03_monotone_RA_window / C03_later_call_never_older_window "
            "(runs of any length under the window condition of C02_RA_window), C03_cache_changes_only_on_accept, C03_accept_condition. "
            "Second half: C03_fresh_when_idle - for every reachable state (any schedule, any legal read choices before the call, crashes, restarts, readers attached at any time, any "
            "number of publications: no bound, the 16-bit wrap included), if the latest generation event is the even store of write() call a (no update in flight) and the reader is "
            "between calls, a call that executes sequentially consistently while the writer does nothing returns within cells+4 accesses the record of call a, and serves the cache only "
            "when the live generation equals the cached one; C03_fresh_exact states the exception exactly (history of any length under the window condition): the call returns the newest "
            "publication - freshly read or already cached - unless the cached record was accepted from an even store a positive multiple of 32767 publications before the newest one "
            "(shown real by C03_exception_witness); the generated Current_C03.v proves the side conditions for the configuration measured from the running code; C03_latest_even_is_newest, "
            "C03_idle_segment_holds_latest_record, C03_reachable_invariant_unbounded, C03_cache_filed_under_its_own_generation (the generation kept with the cached record is the value of the even store the record was accepted from). Freshness is stated for sequentially consistent calls (release/acquire alone gives no real-time "
            "guarantee without a happens-before edge from the publication to the call); an update racing with the call is covered by monotonicity only.",
            SHM_NOTE, "DESIGN.md section 6, C03"),
    "C04": ("Coq proof of header-validity preservation under every writer step/crash/restart, in-place take-over, adoption of an odd generation, generation never 0 + schedule "
            "correspondence with crash at every access and restart through the real ShmWriter::new",
            "Machine-checked: C04_valid_step, C04_crash_stores_nothing, C04_takeover_in_place (the only store of a restart over a valid segment is version := 1), "
            "C04_adopts_odd_generation, C04_generation_never_zero, computed examples (death during the first publication; death mid-update with an attached reader). "
            "Clause (a) (only complete records, in publication order, across any crash/restart pattern) is C02_RA + C03_monotone_RA, whose schedules include crash and restart tokens at "
            "every access; the update left open: C04_open_update_serves_the_held_record and C04_attaching_during_an_open_update_gets_the_empty_record (while the generation is odd a call returns after two loads with the held record, a new client gets the empty one); clause (b): C04_restarted_publications_seen (C03_fresh_when_idle over schedules with crash/restart tokens: the attached reader's next call after a completed "
            "publication of the restarted writer returns it) and C04_never_emptied_under_clients (header valid in every reachable state with an attached reader, unbounded).",
            SHM_NOTE + " Death inside ShmWriter::new while the file is (re-)created: the system calls on the segment file are measured with strace on every run (created with O_TRUNC, "
            "payload of every write) and the generated Current_C04w.v proves that every prefix of the measured image is refused by readers "
            "(C04_death_inside_wipe_leaves_nothing_readable, C04_death_inside_wipe_is_repaired, C04_measured_writes_criterion; C04_wipe_without_truncation_refuted shows why truncation "
            "is part of the obligation); trusted: strace's rendering of the calls.", "DESIGN.md section 6, C04"),
    "C18": ("Coq proof (strictly decreasing Z-valued measure over reader steps, for every log and every choice at every step) + measured retry budget on the running code "
            "(stalled writer / continuously publishing writer) + schedule correspondence",
            "Machine-checked: C18_step_decreases, C18_bounded (a call ends within 2 + R*(cells+3) accesses whatever the writer does), C18_early_return (odd/zero/unchanged generation: "
            "previous snapshot after 2 accesses); R and the per-iteration access count are measured from the real snapshot() on every run (9000002 accesses, result Err).",
            SHM_NOTE, "DESIGN.md section 6, C18"),
    "C19": ("Coq proof (lia over the u32 range) + correspondence of the real release binary started with --max-drift-rate in a private mount namespace",
            "Machine-checked: C19_exact_or_rejected, C19_unrepresentable_rejected, C19_representable_accepted, C19_default, C19_published_verbatim, C19_wrapping_refuted (the pre-fix "
            "conversion published 704 ppb for 4294968 ppm).",
            "Trusted: Coq kernel; the release binary built from /repo without any cfg; unshare -m + tmpfs on /run; clap's parsing observed only through the binary.",
            "DESIGN.md section 6, C19"),
})

FILE_NOTE = ("Trusted: Coq kernel; Shm/Layout.v as the transcription of docs/PROTOCOL.md and the independent PROTOCOL table of the Python oracle; Linux file/mmap semantics as "
             "modelled in Shm/Open.v (a mapping beyond EOF reads zeros and is not written back; open(2) of a directory succeeds and read(2) fails with EISDIR); the C compiler's "
             "reading of clockbound.h; the 4 trailing padding bytes of the record (68..71) are not specified by PROTOCOL.md and are not compared (the daemon copies uninitialised "
             "struct padding there). Crash points inside wipe() are represented by the truncation corpus (every length 0..80), not by killing a process.")

CLAIMED.update({
    "C16": ("Coq proof (open succeeds iff the header conditions hold; error table; repair theorems for re-created and taken-over files over all byte contents) + correspondence of "
            "three open APIs (ShmReader::new, ClockBoundClient::new_with_path, clockbound_open) and of the real ShmWriter::new+write on a structured file corpus on the disk file system",
            "Machine-checked: C16_open_iff, C16_error_table, C16_repair_recreated (any content a client could not open, missing file included: exactly the documented 72 bytes afterwards, "
            "openable, record read back), C16_repair_taken_over (openable content: taken over in place, extended to 72 bytes when shorter, magic/size and bytes beyond 72 untouched).",
            FILE_NOTE, "DESIGN.md section 6, C16"),
    "C17": ("Coq proof (encode/decode round trip and field offsets of the transcribed layout, for every record) + byte-level correspondence of what the real daemon path writes + a C "
            "program compiled against clockbound.h and linked with the freshly built libclockbound.so compared with the Rust client on the same files at the same virtual instant",
            "Machine-checked: C17_total_size, C17_header_fields, C17_record_round_trip, C17_header_round_trip. The proof part is thin by nature (the model is the transcription of the "
            "document); the assurance is in the correspondence: bytes at PROTOCOL.md offsets = published record, C result = Rust result = model on every file, C struct layout = header.",
            FILE_NOTE, "DESIGN.md section 6, C17"),
})

POLL_NOTE = ("Trusted: Coq kernel (+ the four Reals/Flocq axioms for the half-width statements); the fake chronyd (chrony-candm's own (de)serialisers) on the real socket path inside "
             "unshare -m + tmpfs on /run; the virtual clock seen by the poller thread only; pacing the loop with filler messages; the PHC sysfs read modelled by its outcome.")

CLAIMED.update({
    "C12": ("Coq proof (half-width monotone in the monotonic reading and antitone in the as-of instant, from the Flocq monotonicity of C05) + measured order of clock reads "
            "(generated Current_C12.v must prove measured = modelled) + correspondence of now() under delayed reads and of the poller's as-of under slow answers",
            "Machine-checked: C12_as_of_is_pre_query_reading, C12_earlier_as_of_is_pessimistic, C12_client_delay_is_pessimistic, C12_poller_order/C12_client_order "
            "(the orders the theorems assume), and on every run that the running code reads the monotonic clock before the request reaches chronyd and the realtime clock before "
            "the monotonic one. The link to containment (C01) is in World/Containment.v.",
            POLL_NOTE, "DESIGN.md section 6, C12"),
    "C13": ("Coq proof (induction over poll histories with the declarative state 'reception instant of the last tracking reply') + correspondence of the real polling loop with "
            "the real chrony UDS client against a scripted fake chronyd under a virtual clock, silences aimed at 5 s -/+ 1 ns",
            "Machine-checked: C13_silence_class, C13_history, C13_startup_unknown_class, C13_phc_unreadable_is_not_a_measurement, C13_phc_added_iff_refid_matches.",
            POLL_NOTE, "DESIGN.md section 6, C13"),
})

CLAIMED.update({
    "C15": ("Coq proof over the message-passing model (invariant over every schedule incl. faults at any point; main's broadcast is enabled as soon as a worker is gone; strictly "
            "decreasing measure after the broadcast) + real thread_manager::run with a fault injected at every fault point of both workers and a real start-up failure",
            "Machine-checked: C15_invariant (every reachable state), C15_main_reacts, C15_join_progress (every live worker can move and every move decreases mu; when both are gone the "
            "join completes), C15_faults_only_help, C15_returned_means_all_gone. PARTIAL: the theorems are about the abstraction (FIFO mailboxes, receivers vanish with their thread, "
            "death notice from Context::drop); the real-time bound is observed (worst case recorded in the evidence), not proved.",
            "Trusted: Coq kernel; std mpsc / Drop / thread::panicking semantics as modelled; OS scheduling fairness; cfg-gated fault points; unshare -m namespace.",
            "DESIGN.md section 6, C15"),
})

CLAIMED.update({
    "C01": ("Coq proof over the reals (world model: ideal clocks, floor reads, drift cone, chrony validity) composing the component theorems C07_bound, C05_width, the status decay and the "
            "updater's history theorem (nra/lra for the error budget of 4 ns) + end-to-end runs of the whole real pipeline under a virtual clock with the containment predicate evaluated "
            "against the simulated true time",
            "Machine-checked: C01_containment (for every message history of any daemon incarnation, every report in the meaningful range, every world satisfying the drift and validity "
            "hypotheses with t_a <= t_r <= t_c <= t_m, every client reading: a result with status Synchronized or FreeRunning contains the true instant of the realtime read up to 4 ns), "
            "C01_no_measurement_no_trust. The reader's snapshot being a fully published record is C02/C03 (see their partial status).",
            "Trusted: Coq kernel + the four standard-library axioms of Reals/Flocq; the world model (real-valued clocks, floor reads; CLOCK_MONOTONIC_COARSE granularity and chronyd's "
            "honesty are hypotheses); Flocq binary64 = rustc f64; the end-to-end harness (fake chronyd, virtual clock shared by the daemon threads, world generator).",
            "DESIGN.md section 6, C01"),
})
