"""Claimed properties: id -> (technique, level text, level note, design ref).  MANIFEST.json is
regenerated from this table by lib/manifest_gen.py."""

CLIENT_NOTE = ("Trusted: Coq kernel + the four standard-library axioms of Reals/Flocq (sig_forall_dec, sig_not_dec, "
               "functional_extensionality_dep, classic); Flocq binary_float 53 1024 as the meaning of rustc's f64 (compared bit for bit on every run, "
               "debug and release builds); extraction (ExtrOcamlBasic only); the virtual clock (clock_gettime defined by the harness binary). "
               "Range R of the theorems: normalised timestamps, |sec| <= 2^31, 0 <= bound < 2^60, u32 drift.")

CLAIMED = {
    "C05": ("Coq proof (Flocq binary64: round_le monotonicity, relative error 2^-53 per operation; lia on nix TimeSpec arithmetic) + differential "
            "correspondence of the real now() (shm crate and Rust client, debug+release) against the extracted model",
            "Theorems C05_symmetric (interval centred on the realtime reading, earliest <= latest, half-width = bound + growth >= bound), C05_width "
            "(growth within (x(1-4u)-1, x(1+4u)] of the exact product x = elapsed*drift/1e9, u = 2^-53) and C05_monotone (half-width never shrinks, exact) hold "
            "for every record and pair of readings in range R; the model compute_bound_at is the bit-exact binary64 evaluation and is compared with the "
            "implementation on generated cases (thresholds, second boundaries, near-integer products, monotone pairs, range edges).",
            CLIENT_NOTE, "DESIGN.md section 6, C05"),
    "C06": ("Coq proof (case analysis + lia on the status decay of the model) + differential correspondence of the status returned by the real now() "
            "at +-1 ns around every threshold",
            "Theorems C06_status_is_decay, C06_synchronized_iff, C06_freerunning_iff, C06_freerunning_before_void, C06_unknown, C06_fresh_passthrough: the four "
            "clauses of the property for every record and reading in range R; model tied to the code by the shared compute_bound_at correspondence "
            "(status projection), both client paths, debug and release.",
            CLIENT_NOTE, "DESIGN.md section 6, C06"),
    "C11": ("Coq proof (lia on mod 2^16 + induction over update histories) + exhaustive correspondence of the real write() on all 65536 start values",
            "Theorems C11_generation_step (all 65536 start values, by arithmetic, no enumeration) and C11_history (invariant over every "
            "history of complete/interrupted updates) are machine-checked; the model functions pre/post are tied to the code by running the real "
            "ShmWriter::write() from every start value and comparing the value seen during the copy and after return.",
            "Trusted: Coq kernel; extraction (ExtrOcamlBasic only); the harness observing the generation through its own mapping at the cell hooks; "
            "crash = writer stops between two of its stores (process death modelled, not exercised with kill -9).",
            "DESIGN.md section 6, C11"),
    "C14": ("Coq proof (every i64 operation and nix assert of compute_bound_at range-checked in the model, outcome Panic excluded by theorem on range R) + "
            "differential correspondence incl. an outside-range stream where model-Panic must coincide with a real panic of the debug build",
            "Theorems C14_never_panics, C14_malformed_iff, C14_causality_iff, C14_blur_age_zero, C14_outcome (complete characterisation of the outcome on range R): "
            "no panic/overflow for any record and reading in range R; malformed iff drift >= 1e9; causality error iff mono <= as_of - 1000 ns; age zero inside the blur.",
            CLIENT_NOTE + " The error-kind/errno/detail conversion tables of the two client libraries are compared through the C16/C17 checks.",
            "DESIGN.md section 6, C14"),
}
