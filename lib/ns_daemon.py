#!/usr/bin/env python3
"""Run inside `unshare -m`: private tmpfs on /run, start the real clockbound binary with the given
arguments, wait for its first publication (or its exit), print one JSON line, kill it.
usage: ns_daemon.py <binary> <wait_s> [args...]"""
import json
import os
import struct
import subprocess
import sys
import time

binary, wait_s, args = sys.argv[1], float(sys.argv[2]), sys.argv[3:]
subprocess.run(["mount", "-t", "tmpfs", "tmpfs", "/run"], check=True)
os.makedirs("/run/chrony", exist_ok=True)
shm = "/var/run/clockbound/shm"
p = subprocess.Popen([binary] + args, stdout=subprocess.DEVNULL, stderr=subprocess.PIPE)
t0 = time.time()
res = {"exit": None, "segment": None}
while time.time() - t0 < wait_s:
    rc = p.poll()
    if rc is not None:
        res["exit"] = rc
        break
    try:
        b = open(shm, "rb").read()
        if len(b) >= 72:
            gen = struct.unpack_from("=H", b, 14)[0]
            if gen != 0 and gen % 2 == 0:
                res["segment"] = b.hex()
                break
    except OSError:
        pass
    time.sleep(0.02)
res["waited_s"] = round(time.time() - t0, 3)
if p.poll() is None:
    p.kill()
err = p.stderr.read().decode(errors="replace")
p.wait()
if res["exit"] is None and res["segment"] is None:
    res["exit"] = p.returncode if p.returncode is not None and p.returncode >= 0 else None
res["stderr_tail"] = err[-400:]
print(json.dumps(res))
