#!/usr/bin/env python3
"""Run inside `unshare -m`: private tmpfs on /run, start the real clockbound binary with the given
arguments, wait for its first publication (or its exit), print one JSON line, kill it.
usage: ns_daemon.py <binary> <wait_s> [args...]"""
import json
import os
import struct
import subprocess
import sys
import time

binary, wait_s, args = sys.argv[1], float(sys.argv[2]), sys.argv[3:]
# helper options (before the daemon's own arguments):
#   --fake-iface NAME : a network interface NAME with a PCI slot appears under /sys/class/net (tmpfs over it)
#   --first "ARGS"    : an earlier daemon instance is started with ARGS, publishes, and is killed first
fake_iface, first = None, None
while args and args[0] in ("--fake-iface", "--first"):
    if args[0] == "--fake-iface":
        fake_iface = args[1]
    else:
        first = args[1].split()
    args = args[2:]
subprocess.run(["mount", "-t", "tmpfs", "tmpfs", "/run"], check=True)
os.makedirs("/run/chrony", exist_ok=True)
if fake_iface:
    subprocess.run(["mount", "-t", "tmpfs", "tmpfs", "/sys/class/net"], check=True)
    os.makedirs("/sys/class/net/%s/device" % fake_iface)
    with open("/sys/class/net/%s/device/uevent" % fake_iface, "w") as f:
        f.write("DRIVER=ena\nPCI_SLOT_NAME=0000:00:05.0\n")
shm = "/var/run/clockbound/shm"
gen_before = 0
if first is not None:
    p0 = subprocess.Popen([binary] + first, stdout=subprocess.DEVNULL, stderr=subprocess.DEVNULL)
    t0 = time.time()
    while time.time() - t0 < wait_s and p0.poll() is None:
        try:
            b = open(shm, "rb").read()
            if len(b) >= 72 and struct.unpack_from("=H", b, 14)[0] not in (0,) and struct.unpack_from("=H", b, 14)[0] % 2 == 0:
                gen_before = struct.unpack_from("=H", b, 14)[0]
                break
        except OSError:
            pass
        time.sleep(0.02)
    if p0.poll() is None:
        p0.kill()
    p0.wait()
p = subprocess.Popen([binary] + args, stdout=subprocess.DEVNULL, stderr=subprocess.PIPE)
t0 = time.time()
res = {"exit": None, "segment": None, "first_instance_generation": gen_before}
while time.time() - t0 < wait_s:
    rc = p.poll()
    if rc is not None:
        res["exit"] = rc
        break
    try:
        b = open(shm, "rb").read()
        if len(b) >= 72:
            gen = struct.unpack_from("=H", b, 14)[0]
            if gen != 0 and gen % 2 == 0 and gen != gen_before:
                res["segment"] = b.hex()
                break
    except OSError:
        pass
    time.sleep(0.02)
res["waited_s"] = round(time.time() - t0, 3)
if p.poll() is None:
    p.kill()
err = p.stderr.read().decode(errors="replace")
p.wait()
if res["exit"] is None and res["segment"] is None:
    res["exit"] = p.returncode if p.returncode is not None and p.returncode >= 0 else None
res["stderr_tail"] = err[-400:]
print(json.dumps(res))
