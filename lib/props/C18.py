"""C18 - reading never blocks or spins forever.  Theorems: Properties/C18.v (strictly decreasing
measure for every log and every choice at every step).  Tie to the code: the shared schedule
correspondence of lib/props/_shm.py, plus a real snapshot() against a stalled writer (generation
left odd right after the reader's first load) and against a writer that completes an update
before every re-load: the call must end after exactly 2 + R * (cells + fence + 1) accesses."""
import common as c
from props import _shm


def stall_part(res, cfg, binary, rng):
    bad = []
    per_iter = _shm.NCELL + 1 + (1 if cfg["r_fence"] is not None else 0)
    for prof in ("debug", "release"):
        b = c.build_harness(prof)[0]
        outs = []
        MODES = (1, 2, 3, 4, "5 1", "5 2", "5 3", 6)
        for mode in MODES:
            try:
                outs.append(c.run_lines(b, ["stall %s" % mode], timeout=90)[0])
            except c.CheckError as e:
                if "exited 124" not in str(e):
                    raise
                outs.append(None)     # the call did not return within 90 s (a budgeted call takes < 1 s)
        for mode, out in zip(MODES, outs):
            if out is None:
                res.evaluations += 1
                res.count("stall-mode-%s:no-return" % mode)
                bad.append({"schedule": "stall %s" % mode, "impl": "no return within 90 s", "profile": prof,
                            "why": ["snapshot() did not return: the daemon %s and the client call never ended" %
                                    {1: "stalled mid-update right after the client's first generation load", 2: "kept publishing",
                                     3: "died mid-update after two publications", 4: "was restarted over a wiped segment and never published (generation 0 from the call's first record load on)",
                                     5: "completed %s update(s) while the call was copying, then died in the middle of the next one" % str(mode)[2:],
                                     6: "stalled mid-update right after the client's first generation load, a few hundred clock readings before the monotonic clock passes a full second"}[int(str(mode)[0])]]})
                continue
            n, ret, kinds, ms = out.split()[:4]
            n = int(n)
            res.evaluations += 1
            res.count("stall-mode-%s:%s" % (mode, ret))
            res.extra.setdefault("stall_runs", []).append({"profile": prof, "mode": mode, "accesses": n, "result": ret, "ms": int(ms), "first_accesses": kinds})
            bound = 2 + cfg["retries"] * (_shm.NCELL + 3)
            if n > bound:
                bad.append({"schedule": "stall %s" % mode, "impl": out, "why": ["%d accesses exceed the proved bound %d" % (n, bound)]})
            if mode == 4:
                continue          # the call returns at once (the generation is stable at 0); only its returning is required here
            if ret != "E":
                bad.append({"schedule": "stall %s" % mode, "impl": out, "why": ["a call that can never see a stable generation returned %s" % ret]})
            if mode == 3:
                nxt = out.split()[4]
                cells = [int(x) for x in nxt.split(",")] if nxt != "E" else None
                if cells is None or _shm.rec_index(cells) != 1:
                    bad.append({"schedule": "stall 3", "impl": out,
                                "why": ["after a call that gave up (daemon dead mid-update) the next call, with the update still in flight, must answer from the "
                                        "client's previous snapshot (publication 1); it returned %s" % nxt]})
            measured = (n - 2) // per_iter if (n - 2) % per_iter == 0 else None
            ok = measured == cfg["retries"]
            res.oblige("measured-retry-budget[%s,mode %s] = c_retries of the model (%d)" % (prof, mode, cfg["retries"]), ok)
            if not ok and not bad:
                res.violation({"property": "C18", "kind": "obligation",
                               "obligation": "retry budget measured on the running code (%s accesses, %s per iteration) differs from the model's %d" % (n, per_iter, cfg["retries"]),
                               "impl": out}, found_input=False)
    return bad


def open_part(res):
    """a client that attaches to, and a daemon that starts over, whatever a dead daemon left in the
    file (every truncation length of a segment, partial headers, foreign content) must return"""
    import random
    from props import _files as F
    results, _ = F.run_corpus(res, "C18", random.Random(res.seed * 97 + 18), 0)
    bad = []
    for r in results:
        res.evaluations += 1
        res.count("open-must-return:" + r["tag"].split("-")[0])
        hung = [what for what, v in (("ShmReader::new", r["rust"]["O"]), ("ClockBoundClient::new_with_path", r["rust"]["K"]),
                                     ("clockbound_open", r["c"]["K"]), ("ShmWriter::new + write", r["wrt"])) if "hang" in v]
        if hung:
            bad.append({"case": F.describe(r), "why": ["%s did not return within 5 s on this file: a client (or the restarted daemon) hangs on what a dead daemon left behind" % ", ".join(hung)]})
    res.oblige("opening every file of the corpus returns (clients and daemon start-up): %d files" % len(results), not bad)
    if bad:
        res.violation({"property": "C18", "kind": "input", "case": bad[0], "others": [b["case"]["file"] for b in bad[1:6]],
                       "predicate": "every client call, including attaching to the segment, returns after a bounded amount of work",
                       "how_to_replay": "./check C16 --replay <this file>"})


def locks_part(res):
    """a daemon stopped (not dead) while it holds whatever locks it may ever take on the segment file:
    another process holds an exclusive flock and an exclusive POSIX record lock on a valid segment;
    clients must still attach and read - nothing a client does may wait for the daemon"""
    import os, subprocess, sys, shutil
    from props import _files as F
    root = os.path.join(c.BUILD, "scratch", "locks-%d" % os.getpid())
    shutil.rmtree(root, ignore_errors=True)
    os.makedirs(root)
    NS = 10 ** 9
    rec = (100, 5, 1100, 0, 12345, 50000, 1)
    lines, paths = [], []
    for k in range(2):
        p = os.path.join(root, "shm%d" % k)
        with open(p, "wb") as f:
            f.write(F.header(gen=2 + 2 * k) + F.record(rec))
        paths.append(p)
        lines.append("seg %s 1700000000 0 %d %d" % (p, 101 + k, 7))
    helper = subprocess.Popen([sys.executable, "-c",
                               "import fcntl,sys,time\nfs=[open(p,'r+b') for p in sys.argv[1:]]\n"
                               "for f in fs:\n fcntl.flock(f, fcntl.LOCK_EX)\n fcntl.lockf(f, fcntl.LOCK_EX)\n"
                               "print('locked', flush=True)\ntime.sleep(120)"] + paths, stdout=subprocess.PIPE, text=True)
    bad = []
    try:
        if helper.stdout.readline().strip() != "locked":
            raise c.CheckError("the lock holder could not lock the scratch segment")
        rust = c.run_lines_hang_aware(c.build_harness("debug")[0], [lines[0]], "O:hang:0: K:hang:0: N:-", chunk_timeout=8)
        cout = c.run_lines_hang_aware(F.build_c_driver(), [lines[1]], "K:hang:0: N:-", args=(), chunk_timeout=8)
    finally:
        helper.kill()
        helper.wait()
    for what, out in (("ShmReader::new / ClockBoundClient::new_with_path", rust[0]), ("clockbound_open", cout[0])):
        res.evaluations += 1
        res.count("open-under-locks:" + ("hang" if "hang" in out else "returned"))
        res.nontriv(what)
        if "hang" in out:
            bad.append({"case": {"file": "a valid segment on which another process holds flock(LOCK_EX) and an exclusive record lock"},
                        "why": ["%s did not return within 5 s while another process held the locks: a stopped daemon would hang its clients" % what]})
        elif ":ok" not in out.split()[0] and "K:ok" not in out:
            bad.append({"case": {"file": "locked valid segment"}, "why": ["%s failed on a valid segment while another process held locks on it: %s" % (what, out)]})
    shutil.rmtree(root, ignore_errors=True)
    res.oblige("clients attach to a segment on which another process holds an exclusive flock and record lock", not bad)
    if bad:
        res.violation({"property": "C18", "kind": "input", "case": bad[0], "others": [],
                       "predicate": "every client call, including attaching to the segment, returns after a bounded amount of work",
                       "how_to_replay": "./check C18"})


def calls_part(res):
    """chains of client calls on one context - calls that fail (causality breach, malformed record) followed by
    further calls - through the Rust client and the C library: every call returns, whatever the one before did"""
    import random
    from props import _client, _files as F
    rng = random.Random(res.seed * 131 + 18)
    lines, _tags = _client.gen_cases(rng, 150 if res.tier == "quick" else 5000, res.tier)
    lines = [ln for ln in lines if _client.in_range(_client.parse_case(ln))]
    if res.tier == "quick":
        lines = lines[:1200]
    outs = {"Rust client": c.run_lines_hang_aware(c.build_harness("debug")[0], lines, "hang", chunk_timeout=30),
            "C library": c.run_lines_hang_aware(F.build_c_driver(), lines, "hang", args=(), chunk_timeout=30)}
    bad = []
    for who, os_ in outs.items():
        prev = None
        for ln, o in zip(lines, os_):
            res.evaluations += 1
            kind = o.split()[1] if o.startswith("err") else o.split()[0]
            res.count("client-call:%s" % kind)
            if o in ("hang", "crash"):
                bad.append({"case": {"file": "client context: " + who, "line": ln, "call_before": prev},
                            "why": ["%s: the call (made twice in a row on the same context) did not return within 5 s (%s)" % (who, o)]})
            prev = ln
    res.oblige("every call of a chain of client calls returns, after failed calls as well (%d cases, Rust client and C library)" % len(lines), not bad)
    if bad:
        res.violation({"property": "C18", "kind": "input", "case": bad[0], "others": [b["case"]["line"] for b in bad[1:5]],
                       "predicate": "every client call returns after a bounded amount of work",
                       "how_to_replay": "./check C18"})


def run(res, proofs_ok, proofs_why):
    calls_part(res)
    _shm.run_property("C18", res, proofs_ok, proofs_why, extra_part=stall_part)
    open_part(res)
    locks_part(res)
    # whatever the daemon publishes, in whatever order: sequences of publications differing in one field (an
    # as-of running backwards, the start-up record after a measurement, ...) read back by an attached client
    from props import C03
    C03.sequence_part(res, "C18")


def replay(res, path):
    import json
    r = json.load(open(path))
    case = r.get("case") or {}
    if str(case.get("schedule", "")).startswith("stall"):
        try:
            out = c.run_lines(c.build_harness("debug")[0], [case["schedule"]], timeout=90)[0]
        except c.CheckError:
            print("case %s\nimpl: no return within 90 s" % case["schedule"])
            return 1
        print("case %s\nimpl %s" % (case["schedule"], out))
        return 0 if out.split()[1] == "E" else 1
    return _shm.replay_property("C18", res, path)
