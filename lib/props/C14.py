"""C14 - see lib/props/_client.py (shared case generator, model/implementation runs, predicates)."""
from props import _client


def run(res, proofs_ok, proofs_why):
    _client.run_property("C14", res, proofs_ok, proofs_why)


def replay(res, path):
    return _client.replay_property("C14", res, path)
