"""C14 - see lib/props/_client.py (shared case generator, model/implementation runs, predicates); plus
calls during which the clock moves on at every reading (harness `ordv`): a call whose monotonic reading
precedes the record's as-of by more than the tolerated blur returns the causality error - it does not
wait for the clock to catch up and answer from the record after all."""
import random
import common as c
from props import _client

NS = 10 ** 9


def moving_clock_part(res):
    rng = random.Random(res.seed * 17 + 14)
    lines, metas = [], []
    for _ in range(120 if res.tier == "quick" else 5000):
        mono = rng.randrange(10, 10 ** 6) * NS + rng.randrange(NS)
        real = rng.randrange(10 ** 9) * NS + rng.randrange(NS)
        step = rng.choice([1000, 10 ** 5, 10 ** 6, 5 * 10 ** 6])           # the clock moves this far at every reading
        ahead = rng.choice([1001, 1500, 10 ** 4, 10 ** 6, 3 * 10 ** 6, 9 * 10 ** 6, NS, -5, -999, -1000 + step])
        # the first monotonic reading of the call is the second reading (realtime comes first): mono + step
        as_of = mono + step + ahead
        ds = [step] * 12
        a, r, mo = _client.ts(as_of), _client.ts(real), _client.ts(mono)
        rec = "%d %d %d 0 %d %d %d" % (a[0], a[1], a[0] + 1000, rng.randrange(10 ** 6), rng.choice([1000, 50000]), rng.choice([1, 2]))
        lines.append("ordv %s %d %d %d %d %d %s" % (rec, r[0], r[1], mo[0], mo[1], len(ds), " ".join(map(str, ds))))
        metas.append((ahead, step))
    outs = c.run_lines_hang_aware(c.build_harness("debug")[0], lines, "- hang")
    bad = []
    for ln, (ahead, step), o in zip(lines, metas, outs):
        res.evaluations += 1
        res.count("gen:clock moving during the call")
        res.nontriv(ln)
        order, result = o.split(" ", 1)
        r = _client.parse_result(result)
        if r["kind"] == "hang":
            bad.append({"case": ln, "impl": o, "why": ["the call did not return within 5 s under a clock that moves at every reading"]})
        elif ahead > 1000 and r["kind"] != "causality":
            bad.append({"case": ln, "impl": o, "why": ["the monotonic reading of the call (the second reading: %s) precedes the record's as-of by %d ns, more than the tolerated blur: "
                                                        "the call must return the causality error; it read the clocks %d times and returned %s" % (order[:2], ahead, len(order), result)]})
        elif ahead <= 999 and r["kind"] == "causality":
            bad.append({"case": ln, "impl": o, "why": ["the monotonic reading precedes as-of by %d ns only (within the blur) and the call returned the causality error" % ahead]})
    res.oblige("calls under a clock that moves at every reading: causality error iff the call's monotonic reading precedes as-of by more than the blur (%d calls)" % len(lines), not bad)
    if bad:
        res.violation({"property": "C14", "kind": "input", "case": bad[0], "others": [b["case"] for b in bad[1:4]],
                       "predicate": "monotonic reading before as-of by more than the blur => causality error, not an interval",
                       "how_to_replay": "./check C12 --replay <this file>"})


def run(res, proofs_ok, proofs_why):
    _client.run_property("C14", res, proofs_ok, proofs_why)
    moving_clock_part(res)


def replay(res, path):
    return _client.replay_property("C14", res, path)
