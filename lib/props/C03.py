"""C03 - see lib/props/_shm.py (measured configuration, schedules, engine/model runs, oracles)."""
from props import _shm


def run(res, proofs_ok, proofs_why):
    _shm.run_property("C03", res, proofs_ok, proofs_why)


def replay(res, path):
    return _shm.replay_property("C03", res, path)
