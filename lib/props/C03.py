"""C03 - snapshots never go back in time and catch up once the writer is idle.
Theorems: Properties/C03.v.  Tie to the code: lib/props/_shm.py (measured configuration, SC
schedules, engine/model runs, monotonicity/freshness oracles) + the generated Current_C03.v, which
must prove the side condition `safe_cfg current_cfg = true` of the theorems and instantiates them
with the configuration measured from the running code.  When the side condition fails the
release/acquire machine is searched for an execution after which a quiescent, sequentially
consistent call still returns an older publication (or a call returns a mixture)."""
import itertools
import common as c
from props import _shm


def ra_search(cfg, res):
    """one reader attached after publication 1; publication 2 completes; the reader's call may
    read any event the machine admits; then a second, sequentially consistent call with the writer
    idle.  Failing: a returned record that is a mixture, or the second call returning publication 1."""
    w1 = 9 + (1 if cfg["w_fence"] is not None else 0) + 1
    base = 2 + _shm.NCELL + 1
    even1, even2 = base + 8, base + 17
    cells1 = [base + 1 + i for i in range(_shm.NCELL)]
    cells2 = [base + 10 + i for i in range(_shm.NCELL)]
    pre = [("W",)] * w1 + [("N",)] + [("W",)] * w1
    fence = [("R", 0, None)] if cfg["r_fence"] is not None else []
    lines, scheds = [], []
    for g1 in (even1, even2):
        for g2 in (even1, even2):
            for mix in itertools.product((0, 1), repeat=_shm.NCELL):
                order = cfg["r_order"]
                toks = list(pre) + [("R", 0, None), ("R", 0, g1)]
                toks += [("R", 0, (cells1 if mix[i] == 0 else cells2)[i]) for i in order]
                toks += fence + [("R", 0, g2)]
                toks += [("R", 0, None)] * (4 + _shm.NCELL)            # a second, SC call
                scheds.append(toks)
                lines.append(_shm.line_of(cfg, toks))
    outs = c.run_model(lines)
    res.evaluations += len(lines)
    res.count("ra-search:candidate executions", len(lines))
    for toks, out in zip(scheds, outs):
        rets = [ob for ob in _shm.parse_obs(out) if ob["t"] == "T"]
        for ob in rets:
            if ob["ret"] == "F" and _shm.rec_index(ob["cells"]) is None:
                return toks, out, "a call returns a mixture of publications 1 and 2"
        if len(rets) >= 2 and rets[0]["ret"] == "F" and rets[1]["ret"] in ("F", "C") and rets[1]["cells"] is not None \
                and _shm.rec_index(rets[1]["cells"]) == 1:
            return toks, out, ("the first call caches publication 1 under the generation of publication 2; the second call runs sequentially "
                               "consistently with the writer idle and is served publication 1 although publication 2 is complete")
    return None, None, None


BODY = ("From CB Require Import SeqlockInv GenCyc SeqlockRA SeqlockMono SeqlockFresh.\nFrom CB.Properties Require Import C03.\n"
        "Theorem current_cfg_safe : safe_cfg current_cfg = true.\nProof. vm_compute. reflexivity. Qed.\n"
        "Theorem current_retries_positive : (0 < c_retries current_cfg)%N.\nProof. vm_compute. reflexivity. Qed.\n"
        "(* publication order: the instance whose records are pairwise different *)\n"
        "Theorem C03_monotone_for_the_running_code : forall ts m o, Forall real_token ts -> @m_run std_rec (m_init current_cfg) ts = (m, o) ->\n"
        "  @run_windows std_rec (m_init current_cfg) ts -> sorted_from (fun _ => 0%nat) o.\n"
        "Proof. intros ts m o. apply (C03_monotone_RA_window current_cfg ts m o current_cfg_safe). Qed.\n"
        "(* freshness: every record function *)\n"
        "Definition C03_fresh_for_the_running_code := fun (RF : RecFun) ts m o j r q e => @C03_fresh_exact RF current_cfg ts m o j r q e current_cfg_safe current_retries_positive.\n"
        "Print Assumptions C03_monotone_for_the_running_code.\nPrint Assumptions C03_fresh_for_the_running_code.\n")


def sequence_part(res, pid="C03"):
    """without the shim: sequences of publications in which a record differs from the one before in exactly one
    field (the status only, the bound only, the as-of running backwards, ...), in none, or in all, read after
    each publication by a client that has been attached all along and by one that attaches afresh: the writer
    is idle, so both obtain the record just published"""
    import random
    rng = random.Random(res.seed * 13 + 3)
    lines, seqs = [], []
    for _ in range(80 if res.tier == "quick" else 3000):
        cur = [rng.randrange(1, 10 ** 5), rng.randrange(10 ** 9), rng.randrange(1, 10 ** 5), 0, rng.randrange(10 ** 9), rng.choice([1000, 50000]), rng.randrange(3)]
        seq = [tuple(cur)]
        for _k in range(rng.randrange(1, 8)):
            f = rng.choice([6, 6, 6, 4, 0, 1, 2, 5, -1, -2])
            if f == 6:
                cur[6] = (cur[6] + rng.choice([1, 2])) % 3
            elif f == 4:
                cur[4] = rng.choice([0, cur[4] + 1, rng.randrange(10 ** 9)])
            elif f == 0:
                cur[0] = max(0, cur[0] + rng.choice([-1000, -1, 1, 16]))
            elif f == 1:
                cur[1] = (cur[1] + rng.choice([1, 999999999])) % 10 ** 9
            elif f == 2:
                cur[2] = cur[2] + rng.choice([-1, 1, 1000])
            elif f == 5:
                cur[5] = rng.choice([0, 1000, cur[5] + 1])
            elif f == -1:
                cur = [0, 0, 1000, 0, 0, cur[5], 0]          # the start-up record of a restarted updater
            seq.append(tuple(cur))                           # (-2: the same record again)
        seqs.append(seq)
        lines.append("pubs %d %s" % (len(seq), " ".join(" ".join(map(str, r)) for r in seq)))
    outs = c.run_lines_hang_aware(c.build_harness("debug")[0], lines, "hang") + c.run_lines_hang_aware(c.build_harness("release")[0], lines, "hang")
    bad = []
    for seq, ln, o in zip(seqs + seqs, lines + lines, outs):
        res.evaluations += 1
        res.count("gen:publication sequences with one field changed (no shim)")
        res.nontriv(ln)
        if o in ("hang", "crash"):
            bad.append({"schedule": ln, "impl": o, "why": ["publishing this sequence and reading it back did not return within 5 s (%s): a client call (or the writer) never completes" % o]})
            continue
        if pid == "C18":
            continue            # C18 asks only that every call returns
        t = o.split()
        for k, r in enumerate(seq):
            want = ":".join(map(str, r))
            got_l = t[2 * k][2:] if 2 * k < len(t) else "missing"
            got_f = t[2 * k + 1][2:] if 2 * k + 1 < len(t) else "missing"
            if got_l != want or got_f != want:
                bad.append({"schedule": ln, "impl": o,
                            "why": ["publication %d (%s) is complete and no update is in flight; the client attached all along obtained %s, a client attaching now %s"
                                    % (k + 1, want, got_l, got_f)]})
                break
    # a daemon restarted over the segment (left whole, or cut short behind its header) under an attached client
    # that does not look after every publication: whenever it looks, no update in flight, it obtains the latest
    rlines, rmeta = [], []
    for k in range(60 if res.tier == "quick" else 2000):
        n1 = rng.choice([1, 1, 2, 3, rng.randrange(1, 7)])
        n2 = rng.choice([n1, n1, n1 + 1, max(1, n1 - 1), rng.randrange(1, 8)])
        # the file between the two daemons: whole; cut short behind its header (still a segment clients can open: taken
        # over in place); cut inside its header (unusable: laid out anew in place, the generation starts over)
        cut = rng.choice([72, 72, 16, 17, 40, 64, 71, rng.randrange(16, 72), rng.choice([0, 8, 12, 15])])
        mask = rng.choice([0, 0, rng.randrange(1 << n2), (1 << n2) - 1])
        ver = rng.choice([1, 1, 1, 2, 7])           # the layout version in the header while the client attaches
        recs = [(1000 + j, rng.randrange(10 ** 9), 2000 + j, 0, rng.randrange(10 ** 9), rng.choice([1000, 50000]), rng.randrange(3)) for j in range(n1 + n2)]
        if rng.random() < 0.3:
            recs[n1] = (0, 0, 1000, 0, 0, recs[n1][5], 0)       # the second daemon begins with its start-up record (chronyd not heard yet)
        rlines.append("pubr %d %d %d %d %d %s" % (n1, cut, n2, mask, ver, " ".join(" ".join(map(str, r)) for r in recs)))
        rmeta.append((n1, cut, n2, mask, ver, recs))
    routs = c.run_lines_hang_aware(c.build_harness("debug")[0], rlines, "hang")
    for (n1, cut, n2, mask, ver, recs), ln, o in zip(rmeta, rlines, routs):
        res.evaluations += 1
        res.count("gen:restart under an attached client, file %s" % ("whole" if cut == 72 else ("cut short behind the header" if cut >= 16 else "cut inside the header")))
        res.nontriv(ln)
        if o in ("hang", "crash"):
            bad.append({"schedule": ln, "impl": o, "why": ["two daemons publishing in turn and a client reading did not return within 5 s (%s)" % o]})
            continue
        if pid == "C18":
            continue
        cached_gen = 2 * n1          # the attached client looked after every publication of the first daemon
        for tok in o.split():
            tag, got = tok.split(":", 1)
            kk = n1 + n2 if tag == "F" else int(tag[1:])
            want = ":".join(map(str, recs[kk - 1]))
            if tag != "F" and kk > n1:
                # the generation of this publication: the count goes on after a take-over, starts over after a re-creation
                gen = 2 * kk if cut >= 16 else 2 * (kk - n1)
                if gen == cached_gen:
                    continue         # the live generation coincides with the one the client cached: the documented exception
                cached_gen = gen
            if got != want:
                who = "a client attaching afresh" if tag == "F" else "the client attached since the first publication (layout version %d in the header then)" % ver
                bad.append({"schedule": ln, "impl": o,
                            "why": ["daemon 1 published %d records and went away, the file was %s, daemon 2 started over it; after its publication %d (%s), no update in flight, "
                                    "%s obtained %s" % (n1, "left whole" if cut == 72 else "cut to %d bytes" % cut, kk - n1, want, who, got)]})
                break
    res.oblige("after every publication of a sequence both an attached and a fresh client obtain it (%d sequences, %d with a restart of the daemon, shim-free)" % (len(outs), len(routs)), not bad)
    if bad:
        res.violation({"property": pid, "kind": "history", "case": bad[0], "others": [b["schedule"][:200] for b in bad[1:4]],
                       "predicate": {"C18": "a client call completes after a bounded amount of work whatever the daemon publishes",
                                     "C02": "every record a reader obtains is, field for field, one record the daemon published in full (here: the one just published, no update in flight)",
                                     "C11": "as seen by any conforming reader the generation is different after each completed update from what it was before (an attached reader obtains the new record)",
                                     "C04": "clients see the restarted daemon's publications without reopening anything; new clients can attach after the first publication"}.get(
                                         pid, "if no update is in flight while a call executes, the call returns the most recently completed publication"),
                       "how_to_replay": "./check C03"})


def run(res, proofs_ok, proofs_why):
    sequence_part(res)
    cfg, binary = _shm.run_property("C03", res, proofs_ok, proofs_why)
    if cfg is None:
        return
    ok, log = _shm.current_obligation(cfg, "C03", BODY)
    res.oblige("Current_C03.v: safe_cfg current_cfg = true and 0 < retry budget for the configuration measured from the running code; "
               "C03_monotone_RA_window and C03_fresh_exact instantiated with it", ok)
    res.extra["current_cfg_coq"] = _shm.coq_cfg(cfg)
    if not ok:
        toks, out, why = ra_search(cfg, res)
        if toks:
            toks = _shm.clean_ra(cfg, [toks])[0]
            impl = c.run_lines(binary, [_shm.line_of(cfg, toks)])[0]
            res.violation({"property": "C03", "kind": "history",
                           "case": {"schedule": _shm.tok_str(toks), "model_execution": out,
                                    "real_snapshot_under_simulated_memory": impl,
                                    "real_reader_same_as_model": impl == c.run_model([_shm.line_of(cfg, toks)])[0],
                                    "why": ["under the release/acquire model, with the orderings and fences measured from the running code: " + why +
                                            " (R j k = the load returns event k of the writer's log)"]},
                           "obligation": "safe_cfg current_cfg = true fails: " + log[-600:],
                           "measured_cfg": cfg, "how_to_replay": "./check C03 --replay <this file>"})
        else:
            res.violation({"property": "C03", "kind": "obligation",
                           "obligation": "Current_C03.v: the side conditions of C03_monotone_RA_window / C03_fresh_exact do not hold for the measured configuration: " + log[-800:],
                           "measured_cfg": cfg}, found_input=False)
    res.assumptions.append("window condition of C03_monotone_RA_window / C03_fresh_exact: no snapshot() iteration spans 32767 or more completed publications")
    res.assumptions.append("freshness is proved for sequentially consistent calls (release/acquire gives no real-time guarantee without a happens-before edge)")


def replay(res, path):
    import json
    r = json.load(open(path))
    case = r.get("case") or {}
    if "model_execution" in case:
        binary = c.build_harness("debug")[0]
        cfg, _, why = _shm.measure_cfg(binary)
        if cfg is None:
            print("configuration cannot be measured: " + why)
            return 1
        toks = _shm.parse_tok_str(case["schedule"])
        out = c.run_model([_shm.line_of(cfg, toks)])[0]
        print("real snapshot() under the engine's simulated memory:", c.run_lines(binary, [_shm.line_of(cfg, _shm.clean_ra(cfg, [toks])[0])])[0])
        print("measured configuration:", cfg)
        print("model execution:", out)
        rets = [ob for ob in _shm.parse_obs(out) if ob["t"] == "T"]
        bad = any(ob["ret"] == "F" and _shm.rec_index(ob["cells"]) is None for ob in rets) or \
            (len(rets) >= 2 and rets[1]["cells"] is not None and _shm.rec_index(rets[1]["cells"]) == 1)
        if bad:
            print("VIOLATION property=C03 replay=%s" % path)
            return 1
        print("the machine, with the configuration measured now, no longer admits this execution")
        return 0
    return _shm.replay_property("C03", res, path)
