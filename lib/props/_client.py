"""Shared machinery of C05 / C06 / C14: cases for ClockErrorBound::now / ClockBoundClient::now
under the virtual clock, the model run, and the per-property projections and predicates.

Case  : cba as_s as_n va_s va_n bound drift status real_s real_n mono_s mono_n
Result: ok e_s e_n l_s l_n status | err malformed | err causality | panic"""
import json
import random
from fractions import Fraction
import common as c

NS = 10 ** 9
SECMAX = 2 ** 31
U4 = Fraction(4, 2 ** 53)


def ts(n):
    return (n // NS, n % NS)


def mk(as_of, void_after, bound, drift, status, real, mono):
    a, v, r, m = ts(as_of), ts(void_after), ts(real), ts(mono)
    return "cba %d %d %d %d %d %d %d %d %d %d %d" % (a[0], a[1], v[0], v[1], bound, drift, status, r[0], r[1], m[0], m[1])


def parse_case(line):
    t = [int(x) for x in line.split()[1:]]
    return {"as_of": t[0] * NS + t[1], "void_after": t[2] * NS + t[3], "bound": t[4], "drift": t[5], "status": t[6],
            "real": t[7] * NS + t[8], "mono": t[9] * NS + t[10], "raw": t}


def in_range(k):
    t = k["raw"]
    ok_ts = all(-SECMAX <= t[i] <= SECMAX and 0 <= t[i + 1] < NS for i in (0, 2, 7, 9))
    return ok_ts and 0 <= k["bound"] < 2 ** 60 and 0 <= k["drift"] < 2 ** 32


def gen_cases(rng, n_random, tier):
    """Returns (lines, tags). tags[i] is a generator label; monotone pairs are consecutive lines
    tagged pair0/pair1."""
    out, tags = [], []

    def add(line, tag):
        out.append(line)
        tags.append(tag)

    def rand_record():
        as_of = rng.randrange(0, 10 ** 6) * NS + rng.choice([0, 1, 999999999, rng.randrange(NS)])
        void = (as_of // NS + 1000) * NS if rng.random() < 0.8 else as_of + rng.randrange(-10, 2000) * NS + rng.randrange(NS)
        bound = rng.choice([0, 1, rng.randrange(10 ** 6), rng.randrange(10 ** 9), rng.randrange(2 ** 43)])
        drift = rng.choice([0, 1, 999, 1000, 50000, rng.randrange(10 ** 6), rng.randrange(10 ** 9), 10 ** 9 - 1])
        return as_of, void, bound, drift

    # (a) thresholds of the statement, +-1 ns
    for _ in range(max(40, n_random // 40)):
        as_of, void, bound, drift = rand_record()
        real = rng.randrange(0, 2 * 10 ** 9) * NS + rng.randrange(NS)
        for st in (0, 1, 2):
            for base in (as_of - 1000, as_of, as_of + 5 * NS, void):
                for d in (-1, 0, 1):
                    add(mk(as_of, void, bound, drift, st, real, base + d), "threshold")
    # ... the same thresholds for records whose as-of lies where binary64 seconds lose nanoseconds (uptimes from 2^23 s,
    # 97 days) and in the seconds just below a power of two: the comparisons are exact at every uptime
    for _ in range(max(12, n_random // 100)):
        sec = rng.choice([2 ** 23 + rng.randrange(10 ** 6), 2 ** 25 - rng.randrange(1, 6), 2 ** 30 + rng.randrange(1000), 2 ** 31 - 2000,
                          2 ** rng.randrange(10, 31) - rng.randrange(1, 6), 1023, 1019, 33554427, 10 ** 9 + rng.randrange(10 ** 6)])
        as_of = sec * NS + rng.choice([0, 1, 999999999, rng.randrange(NS)])
        void = (sec + 1000) * NS
        bound, drift = rng.randrange(10 ** 6), rng.choice([0, 1000, 50000])
        real = rng.randrange(0, 2 * 10 ** 9) * NS + rng.randrange(NS)
        for st in (1, 2):
            for base in (as_of, as_of + 5 * NS, void):
                for d in (-3, -1, 0, 1, 3):
                    if 0 <= base + d < SECMAX * NS:
                        add(mk(as_of, void, bound, drift, st, real, base + d), "threshold")
    # (b) elapsed x drift grid incl. products landing next to an integer
    for e in (0, 1, 999, NS - 1, NS, NS + 1, 290000000, 3600 * NS, 36000 * NS, 999 * NS):
        for d in (0, 1, 100, 999, 1000, 10 ** 6, 10 ** 9 - 1):
            as_of = rng.randrange(1, 10 ** 5) * NS + rng.randrange(NS)
            add(mk(as_of, as_of + 2000 * NS, rng.randrange(10 ** 7), d, 1, rng.randrange(10 ** 18), as_of + e), "grid")
    for _ in range(max(50, n_random // 20)):
        d = rng.choice([1, 3, 7, 100, 999, 50000, rng.randrange(1, 10 ** 6)])
        q = rng.randrange(1, 10 ** 6)
        # e*d close to q*10^9 from either side
        e = (q * NS) // d + rng.choice([-1, 0, 1, 2])
        if e < 0:
            continue
        as_of = rng.randrange(1, 10 ** 5) * NS + rng.randrange(NS)
        add(mk(as_of, as_of + 10 ** 7 * NS, rng.randrange(10 ** 7), d, 1, rng.randrange(10 ** 18), as_of + e), "near-integer")
    # (c) monotone pairs
    for _ in range(max(100, n_random // 5)):
        as_of, void, bound, drift = rand_record()
        real = rng.randrange(0, 2 * 10 ** 9) * NS + rng.randrange(NS)
        e1 = rng.choice([0, rng.randrange(10), rng.randrange(NS), rng.randrange(2000 * NS), rng.randrange(10 ** 5 * NS)])
        e2 = e1 + rng.choice([0, 1, 2, rng.randrange(1000), rng.randrange(NS), rng.randrange(100 * NS)])
        st = rng.choice([1, 2])
        add(mk(as_of, void, bound, drift, st, real, as_of + e1), "pair0")
        add(mk(as_of, void, bound, drift, st, real, as_of + e2), "pair1")
    # (d) random in range R, and range edges
    for _ in range(n_random):
        as_of, void, bound, drift = rand_record()
        real = rng.randrange(-SECMAX, SECMAX) * NS + rng.randrange(NS)
        mono = as_of + rng.choice([rng.randrange(-2000, 2000), rng.randrange(6 * NS), rng.randrange(1100 * NS), rng.randrange(10 ** 6 * NS)])
        st = rng.randrange(3)
        if rng.random() < 0.05:
            drift = rng.choice([10 ** 9, 10 ** 9 + 1, 2 ** 32 - 1, rng.randrange(10 ** 9, 2 ** 32)])
        add(mk(as_of, void, bound, drift, st, real, mono), "random")
    # (e) chains of consecutive calls in which exactly one input differs from the call before: whatever a
    # client (thread, context) remembers from an earlier call must not leak into the next result
    for _ in range(max(30, n_random // 30)):
        as_of, void, bound, drift = rand_record()
        st = rng.choice([0, 1, 2])
        real = rng.randrange(0, 2 * 10 ** 9) * NS + rng.randrange(NS)
        mono = as_of + rng.choice([0, rng.randrange(4 * NS), 5 * NS + rng.randrange(100 * NS)])
        cur = [as_of, void, bound, drift, st, real, mono]
        add(mk(*cur), "chain")
        for field in rng.sample(range(7), 7):
            if field == 0:
                cur[0] = max(0, cur[0] + rng.choice([-NS, -1, 1, NS, 7 * NS]))
            elif field == 1:
                cur[1] = cur[1] + rng.choice([-2000 * NS, -NS, NS, 500 * NS])
            elif field == 2:
                cur[2] = rng.choice([0, cur[2] + 1, cur[2] * 3 + 2990000, rng.randrange(10 ** 9)])
            elif field == 3:
                cur[3] = rng.choice([0, 1, cur[3] + 1, 999, 50000, 10 ** 9 - 1, 10 ** 9])
            elif field == 4:
                cur[4] = (cur[4] + rng.choice([1, 2])) % 3
            elif field == 5:
                cur[5] = cur[5] + rng.choice([-NS, -1, 1, 999999, NS, 3600 * NS])
            else:
                cur[6] = max(0, cur[6] + rng.choice([-2000, -1, 1, 999, NS, 6 * NS, 2000 * NS]))
            add(mk(*cur), "chain")
    # (f) what a restarted daemon publishes before it has heard from chronyd (all-zero instants, bound 0,
    # Unknown - also what a zeroed record looks like), read by a client that has just been answering from
    # a trusted record, and the other way round
    for _ in range(max(20, n_random // 50)):
        as_of, void, bound, drift = rand_record()
        as_of += NS
        real = rng.randrange(0, 2 * 10 ** 9) * NS + rng.randrange(NS)
        mono = as_of + rng.choice([0, rng.randrange(4 * NS), 5 * NS + rng.randrange(100 * NS)])
        add(mk(as_of, as_of + 1000 * NS, bound, drift, rng.choice([1, 2]), real, mono), "placeholder")
        for st in rng.sample([0, 0, 1, 2], 2):
            add(mk(0, rng.choice([0, 1000 * NS]), rng.choice([0, 0, bound]), drift, st, real + 1, mono + rng.choice([0, 1, NS])), "placeholder")
        add(mk(as_of, as_of + 1000 * NS, bound, drift, rng.choice([0, 1, 2]), real + 2, mono + 2 * NS), "placeholder")
    edge_ts = [-SECMAX * NS, SECMAX * NS + NS - 1, 0, -1, NS - 1]
    for a in edge_ts:
        for m in edge_ts:
            for r in (edge_ts[0], edge_ts[1], 0):
                for b in (0, 2 ** 60 - 1):
                    for d in (0, 10 ** 9 - 1, 10 ** 9, 2 ** 32 - 1):
                        add(mk(a, a + 1000 * NS if a < SECMAX * NS else a, b, d, rng.choice([1, 2]), r, m), "edge")
    return out, tags


def gen_outside(rng, n):
    """Inputs outside range R (debug build only): model Panic <-> implementation panic."""
    out = []
    for _ in range(n):
        kind = rng.randrange(4)
        as_of = rng.randrange(0, 1000) * NS
        if kind == 0:      # huge bound: bound + growth or real + bound overflows / nix assert
            out.append(mk(as_of, as_of + 1000 * NS, rng.choice([2 ** 63 - 1, 2 ** 63 - 10 ** 9, 9223372035 * NS + 5, 2 ** 62]), rng.randrange(1000), 1,
                          rng.randrange(10 ** 9) * NS, as_of + rng.randrange(10 * NS)))
        elif kind == 1:    # seconds far outside
            s = rng.choice([2 ** 40, 9223372036, 9223372037, -9223372037, 2 ** 62])
            out.append("cba %d 0 %d 0 %d %d 1 %d 0 %d 0" % (rng.randrange(100), rng.randrange(2000), rng.randrange(10 ** 6), rng.randrange(1000), s, rng.randrange(200)))
        elif kind == 2:    # as_of extreme: as_of + GRACE / as_of - BLUR overflow
            s = rng.choice([9223372030, 9223372035, 9223372036, -9223372036, -9223372035])
            out.append("cba %d %d %d 0 5 5 %d 0 0 %d 0" % (s, rng.randrange(NS), s, rng.choice([1, 2]), rng.randrange(100)))
        else:              # not normalised nanoseconds
            out.append("cba 10 %d 1010 0 5 5 1 100 %d 12 %d" % (rng.choice([-1, NS, NS + 5]), rng.choice([0, NS, -5]), rng.choice([0, -1, 2 * NS])))
    return out


def parse_result(line):
    t = line.split()
    if t[0] == "ok":
        v = [int(x) for x in t[1:]]
        return {"kind": "ok", "e": v[0] * NS + v[1], "l": v[2] * NS + v[3], "status": v[4], "norm": 0 <= v[1] < NS and 0 <= v[3] < NS}
    if t[0] == "err":
        if len(t) > 2:
            return {"kind": "other", "raw": line}       # an error reported with something it should not carry (e.g. an errno)
        return {"kind": t[1]}
    if t[0] == "panic":
        return {"kind": "panic"}
    if t[0] == "hang":
        return {"kind": "hang"}
    return {"kind": "other", "raw": line}


# ---------------------------------------------------------------- per-property predicates on impl output
def decay(k):
    if k["status"] == 0:
        return 0
    if k["mono"] < k["as_of"] + 5 * NS:
        return k["status"]
    return 2 if k["mono"] < k["void_after"] else 0


def pred_C14(k, r):
    bad = []
    if not in_range(k):
        return bad
    if r["kind"] == "panic":
        bad.append("panic inside the physically meaningful range")
    if (r["kind"] == "malformed") != (k["drift"] >= NS):
        bad.append("malformed-segment error iff drift >= 10^9 violated")
    if k["drift"] < NS:
        if (r["kind"] == "causality") != (k["mono"] <= k["as_of"] - 1000):
            bad.append("causality error iff mono <= as_of - blur violated")
        if k["as_of"] - 1000 < k["mono"] <= k["as_of"] and r["kind"] == "ok":
            if r["l"] - k["real"] != k["bound"] or k["real"] - r["e"] != k["bound"]:
                bad.append("age not treated as zero inside the blur")
        if r["kind"] not in ("ok", "causality", "panic"):
            bad.append("unexpected outcome " + r["kind"])
    return bad


def pred_C06(k, r):
    bad = []
    if not in_range(k) or r["kind"] != "ok":
        return bad
    st, stored = r["status"], k["status"]
    young = k["mono"] < k["as_of"] + 5 * NS
    if st == 1 and not (stored == 1 and young):
        bad.append("Synchronized reported for a record that is not Synchronized and younger than 5 s")
    if st == 2 and stored not in (1, 2):
        bad.append("FreeRunning reported for a record marked Unknown")
    if st == 2 and k["void_after"] >= k["as_of"] + 5 * NS and not k["mono"] < k["void_after"]:
        bad.append("FreeRunning reported past void-after")
    if (stored == 0 or (k["mono"] >= k["void_after"] and not young)) and st != 0:
        bad.append("record Unknown or older than void-after did not yield Unknown")
    if young and st != stored:
        bad.append("fresh record's status not passed through")
    if st != decay(k):
        bad.append("status differs from the decay table")
    return bad


def pred_C05(k, r):
    bad = []
    if not in_range(k) or r["kind"] != "ok":
        return bad
    up, down = r["l"] - k["real"], k["real"] - r["e"]
    if up != down:
        bad.append("interval not symmetric around the realtime reading")
    if r["e"] > r["l"]:
        bad.append("earliest > latest")
    if not r["norm"]:
        bad.append("result timespec not normalised")
    e = max(0, k["mono"] - k["as_of"])
    x = Fraction(e * k["drift"], NS)
    g = up - k["bound"]
    if not (x * (1 - U4) - 1 < g <= x * (1 + U4)):
        bad.append("half-width - bound = %d outside (x(1-4u)-1, x(1+4u)] for exact growth x = %s" % (g, float(x)))
    return bad


def pred_pair(k1, r1, k2, r2):
    if r1["kind"] == "ok" and r2["kind"] == "ok" and in_range(k1) and in_range(k2) and k1["mono"] <= k2["mono"]:
        if r1["l"] - k1["real"] > r2["l"] - k2["real"]:
            return ["half-width shrank as the record got older"]
    return []


PROJ = {
    # what of the result line each property's correspondence compares
    "C05": lambda r: (r["kind"], r.get("e"), r.get("l")),
    "C06": lambda r: (r["kind"], r.get("status")),
    "C14": lambda r: (r["kind"],) + ((r.get("e"), r.get("l")) if r["kind"] == "ok" else ()),
}
PRED = {"C05": pred_C05, "C06": pred_C06, "C14": pred_C14}


def run_property(pid, res, proofs_ok, proofs_why, only=None):
    rng = random.Random(res.seed * 1000003 + 5)
    n = 3000 if res.tier == "quick" else 300000
    if only is not None:
        lines, tags = only, ["replay"] * len(only)
        outside = []
    else:
        lines, tags = gen_cases(rng, n, res.tier)
        corpus = c.corpus_lines(pid) + (c.corpus_lines("client") if pid != "client" else [])
        lines = corpus + lines
        tags = ["corpus"] * len(corpus) + tags
        outside = gen_outside(rng, 200 if res.tier == "quick" else 5000) if pid == "C14" else []
    res.rule = ("distinct = distinct case lines; non-trivial = mono within 2 ns of a threshold of the statement "
                "(as_of-1000, as_of, as_of+5s, void_after), or a monotone pair, or a range edge, or exact growth within 1e-6 of an integer")
    model = c.run_model(lines + outside)
    # a call that does not return within 5 s is recorded as outcome "hang" instead of stopping the check
    impl_dbg = c.run_lines_hang_aware(c.build_harness("debug")[0], lines + outside, "hang")
    impl_rel = c.run_lines_hang_aware(c.build_harness("release")[0], lines, "hang")
    # the C library (release libclockbound.so), one context for the whole chunk of cases; only cases
    # in the range of the statement (outside it the library may abort, which would lose the rest)
    from props import _files
    c_idx = [i for i, ln in enumerate(lines) if in_range(parse_case(ln))]
    c_out = dict(zip(c_idx, c.run_lines_hang_aware(_files.build_c_driver(), [lines[i] for i in c_idx], "hang", args=())))
    res.evaluations = 2 * len(lines) + len(outside) + len(c_idx)
    proj, pred = PROJ[pid], PRED[pid]
    diffs, bad = [], []
    kinds = {}
    for i, line in enumerate(lines):
        k = parse_case(line)
        tag = tags[i]
        res.count("gen:" + tag)
        near = any(abs(k["mono"] - t) <= 2 for t in (k["as_of"] - 1000, k["as_of"], k["as_of"] + 5 * NS, k["void_after"]))
        if near or tag in ("pair0", "pair1", "edge", "near-integer"):
            res.nontriv(line)
        rm = parse_result(model[i])
        for prof, impl in (("debug", impl_dbg), ("release", impl_rel), ("C library", c_out)):
            if prof == "C library" and i not in c_out:
                continue
            ri = parse_result(impl[i])
            if prof == "debug":
                kinds[ri["kind"]] = kinds.get(ri["kind"], 0) + 1
            if ri["kind"] == "hang":
                bad.append({"case": line, "profile": prof, "impl": "no return within 5 s", "model": model[i],
                            "why": ["now() did not return: a client call must complete after a bounded amount of work whatever the segment holds"]})
                continue
            if ri["kind"] == "other" and "with-errno" in impl[i] and pid == "C14":
                bad.append({"case": line, "profile": prof, "impl": impl[i], "model": model[i], "calls_before": lines[max(0, i - 3):i],
                            "why": ["the call reports: %s (the model: %s) - the error kinds of now() come without an errno: no system call failed" % (impl[i], model[i])]})
                continue
            if ri["kind"] == "other":
                diffs.append({"case": line, "profile": prof, "impl": impl[i], "model": model[i], "note": "shm crate and client library disagree"})
                # what the client library (one reader for the whole run) handed out, in either of the two
                # identical calls, is judged as well
                for part in ("client=[", "same-call-repeated=["):
                    if part not in impl[i]:
                        continue
                    rc_ = parse_result(impl[i].split(part, 1)[1].split("]")[0])
                    why = pred(k, rc_) if rc_["kind"] in ("ok", "malformed", "causality") else []
                    if why:
                        bad.append({"case": line, "profile": prof + (" (client library)" if part[0] == "c" else " (client library, the same call made again)"),
                                    "impl": impl[i], "model": model[i], "why": why, "calls_before": lines[max(0, i - 3):i]})
                        break
                continue
            if prof == "release" and rm["kind"] == "panic":
                continue   # overflow wraps silently in release; only the debug build is compared there
            if in_range(k) or prof == "debug":
                if proj(ri) != proj(rm):
                    diffs.append({"case": line, "profile": prof, "impl": impl[i], "model": model[i]})
            why = pred(k, ri)
            if why:
                # the calls made just before on the same client: what it remembers may matter
                bad.append({"case": line, "profile": prof, "impl": impl[i], "model": model[i], "why": why, "calls_before": lines[max(0, i - 3):i]})
            if tag == "pair1" and pid == "C05" and (prof != "C library" or (i - 1) in c_out):
                k0 = parse_case(lines[i - 1])
                why = pred_pair(k0, parse_result(impl[i - 1]), k, ri)
                if why:
                    bad.append({"case": [lines[i - 1], line], "profile": prof, "impl": [impl[i - 1], impl[i]], "why": why})
    for j, line in enumerate(outside):
        i = len(lines) + j
        res.count("gen:outside-range")
        rm, ri = parse_result(model[i]), parse_result(impl_dbg[i])
        if (rm["kind"] == "panic") != (ri["kind"] == "panic") or (rm["kind"] != "panic" and proj(rm) != proj(ri)):
            diffs.append({"case": line, "profile": "debug", "impl": impl_dbg[i], "model": model[i], "note": "outside range R"})
    for kd, v in kinds.items():
        res.count("outcome:" + kd, v)
    res.samples = [{"case": lines[i], "impl": impl_dbg[i], "model": model[i]} for i in range(0, len(lines), max(1, len(lines) // 6))][:6]
    res.traces_validated = res.evaluations - len(diffs)
    res.oblige("correspondence:compute_bound_at[%s-projection,debug+release,shm+client+C library]" % pid, not diffs)
    res.trusted_base.append("virtual clock = clock_gettime defined by the harness binary (captures clock_gettime_safe)")
    res.trusted_base.append("Flocq 4.1 binary_float 53 1024 as the meaning of rustc f64 arithmetic (compared bit for bit here)")
    res.extra["profiles"] = ["debug (overflow checks on)", "release", "C library (release libclockbound.so through clockbound.h, one context per 1500 cases)"]
    if bad:
        res.violation({"property": pid, "kind": "input", "case": bad[0], "others": bad[1:5],
                       "predicate": "clauses of %s evaluated on the implementation's output (lib/props/_client.py)" % pid,
                       "how_to_replay": "./check %s --replay <this file>" % pid})
    elif diffs:
        res.violation({"property": pid, "kind": "obligation",
                       "obligation": "correspondence:compute_bound_at model (coq/Shm/Client.v) vs implementation",
                       "first_differences": diffs[:5], "count": len(diffs)}, found_input=False)
    if not proofs_ok:
        res.violation({"property": pid, "kind": "obligation", "obligation": proofs_why}, found_input=False)


def replay_property(pid, res, path):
    r = json.load(open(path))
    case = r.get("case", {})
    lines = case.get("case") if isinstance(case, dict) else None
    if lines is None and "first_differences" in r:
        lines = r["first_differences"][0]["case"]
    if isinstance(lines, str):
        lines = [lines]
    before = case.get("calls_before", []) if isinstance(case, dict) else []
    model = c.run_model(lines)
    rc = 0
    from props import _files
    for prof in ("debug", "release", "C library"):
        if prof == "C library":
            if not all(in_range(parse_case(ln)) for ln in before + lines):
                continue
            impl = c.run_lines_hang_aware(_files.build_c_driver(), before + lines, "hang", args=())[len(before):]
        else:
            impl = c.run_lines_hang_aware(c.build_harness(prof)[0], before + lines, "hang")[len(before):]
        for ln, i, m in zip(lines, impl, model):
            why = PRED[pid](parse_case(ln), parse_result(i))
            print("case  %s\n %s impl  %s\n model %s\n predicate: %s" % (ln, prof, i, m, why or "holds"))
            if why:
                rc = 1
        if len(lines) == 2 and pid == "C05":
            why = pred_pair(parse_case(lines[0]), parse_result(impl[0]), parse_case(lines[1]), parse_result(impl[1]))
            print(" pair predicate: %s" % (why or "holds"))
            if why:
                rc = 1
    return rc
