"""C04 - daemon death and restart never harm attached clients.
Theorems: Properties/C04.v.  Tie to the code: lib/props/_shm.py (crash at every access, restart
through the real ShmWriter::new, oracles) + the generated Current_C04.v: clauses (a) and (b) rest on
C02_RA_window / C03_monotone_RA_window / C04_restarted_publications_seen, whose side condition
`safe_cfg current_cfg = true` must hold for the configuration measured from the running code."""
import common as c
from props import _shm, _wipe, C02, C03

BODY = ("From CB Require Import SeqlockInv GenCyc SeqlockRA SeqlockMono SeqlockFresh.\nFrom CB.Properties Require Import C02 C03 C04.\n"
        "Theorem current_cfg_safe : safe_cfg current_cfg = true.\nProof. vm_compute. reflexivity. Qed.\n"
        "Theorem current_retries_positive : (0 < c_retries current_cfg)%N.\nProof. vm_compute. reflexivity. Qed.\n"
        "Definition C04_a_complete_records_for_the_running_code := fun (RF : RecFun) ts m o => @C02_RA_window RF current_cfg ts m o current_cfg_safe.\n"
        "Definition C04_a_publication_order_for_the_running_code := fun ts m o => C03_monotone_RA_window current_cfg ts m o current_cfg_safe.\n"
        "Definition C04_b_for_the_running_code := fun (RF : RecFun) ts m o j r q e => @C04_restarted_publications_seen RF current_cfg ts m o j r q e current_cfg_safe current_retries_positive.\n"
        "Definition C04_c_for_the_running_code := fun (RF : RecFun) ts m o => @C04_never_emptied_under_clients RF current_cfg ts m o current_cfg_safe.\n"
        "Print Assumptions C04_a_complete_records_for_the_running_code.\nPrint Assumptions C04_b_for_the_running_code.\n")


def run(res, proofs_ok, proofs_why):
    cfg, binary = _shm.run_property("C04", res, proofs_ok, proofs_why)
    if cfg is None:
        return
    wipe_part(res, binary)
    # clause (b) without the shim: two daemons publishing in turn over one file (left whole, cut short behind its
    # header, or cut inside it) under a client that stays attached and does not look after every publication
    C03.sequence_part(res, "C04")
    # clause (a), the daemon dying right after a client started copying: the call gives up after its budget;
    # every later call, the update still in flight, answers from the snapshot the client held (publication 1)
    for prof in ("debug", "release"):
        try:
            out = c.run_lines(c.build_harness(prof)[0], ["stall 3"], timeout=120)[0]
        except c.CheckError as e:
            if "exited 124" not in str(e):
                raise
            out = None
        res.evaluations += 1
        res.count("gen:daemon dies while a client copies, the next call")
        nxt = out.split()[4] if out and len(out.split()) > 4 else None
        cells = [int(x) for x in nxt.split(",")] if nxt and nxt != "E" else None
        okk = cells is not None and _shm.rec_index(cells) == 1
        res.oblige("after a call that gave up on a daemon dead mid-update the next call returns the snapshot held before [%s]" % prof, okk)
        if not okk:
            res.violation({"property": "C04", "kind": "schedule", "case": {"schedule": "stall 3", "impl": out or "no return within 120 s",
                           "why": ["the daemon died in the middle of update 3 right after the client (holding publication 1) had started to copy; the call gave up; "
                                   "the next call must return publication 1 and returned %s" % nxt]},
                           "predicate": "clients that had the segment open keep obtaining only complete records", "how_to_replay": "./check C18 --replay <this file>"})
    # clause (c) on files: a segment clients could open - whatever the length of the file, a file cut short
    # behind a valid header included - is taken over in place: the generation goes on from the value in the
    # file (a wipe would show as a restart from 0 -> 2)
    from props import C11, _files as F
    import random
    results, _ = F.run_corpus(res, "C04", random.Random(res.seed * 131 + 11), 0)
    fbad = C11.file_part(res, results)
    # ... and a segment that was left unusable - every state a death inside the creation of the file can leave
    # included - is repaired: after the daemon has started over it and published once, the file holds the whole
    # segment with the published record, and a client attaching then obtains that record
    rbad = []
    for r in results:
        if r["kind"] != 0 or F.oracle_open(r["kind"], r["data"]) == "ok" or not r["wrt"].startswith("W:ok"):
            continue
        res.evaluations += 1
        res.count("repair of an unusable file")
        after, rec = r["after"], r["record"]
        why = []
        got = r["wrt"].split("R:", 1)[1] if "R:" in r["wrt"] else r["wrt"]
        if got != ":".join(str(x) for x in rec):
            why.append("a client attaching after the first publication obtained %s, published %s" % (got, rec))
        if after is None or len(after) < 72:
            why.append("after the daemon started over this file and published, the file is %s bytes long: the record is not in the file "
                       "(stores into the mapping beyond the end of the file are never written back)" % (None if after is None else len(after)))
        else:
            d = F.proto_decode(after[:72])
            if (d["as_of_sec"], d["as_of_nsec"], d["void_after_sec"], d["void_after_nsec"], d["bound"], d["max_drift"], d["status"]) != rec:
                why.append("the file does not hold the published record %s after the first publication: %s" % (rec, d))
        if why:
            rbad.append({"file": r["tag"], "file_length": len(r["data"]), "bytes_hex": r["data"].hex()[:200], "wrt": r["wrt"], "why": why})
    res.oblige("clause (c): every unusable file of the corpus is repaired by a starting daemon (whole segment in the file, new clients obtain the first publication)", not rbad)
    if rbad:
        res.violation({"property": "C04", "kind": "input", "case": rbad[0], "others": [b["file"] for b in rbad[1:5]],
                       "predicate": "a segment that was left unusable is repaired so that new clients can attach after the first publication",
                       "how_to_replay": "./check C16 --replay <this file>"})
    res.oblige("clause (c): every file of the corpus that clients can open is taken over in place by a starting daemon", not fbad)
    if fbad:
        res.violation({"property": "C04", "kind": "input", "case": fbad[0], "others": [b["file"] for b in fbad[1:5]],
                       "predicate": "a segment that was valid before the restart is taken over in place, never emptied or re-created",
                       "how_to_replay": "./check C16 --replay <this file>"})
    # ... and until that first publication nobody is handed anything: a daemon that has started over a file cut
    # inside its header (whatever the bytes that are left say) has laid the segment out anew, and a client that
    # tries to attach now is told "not initialised" - it is not given a record nobody published
    import os, shutil
    root = os.path.join(c.BUILD, "scratch", "c04-wrn-%d" % os.getpid())
    shutil.rmtree(root, ignore_errors=True)
    os.makedirs(root)
    wl, wmeta = [], []
    rngw = random.Random(res.seed * 17 + 4)
    for n in range(0, 16):
        for g in (2, 4, 260, 65534, 7):
            pth = os.path.join(root, "cut%d-%d" % (n, g))
            with open(pth, "wb") as fh:
                fh.write((F.header(gen=g) + F.record(F.rand_record(rngw)))[:n])
            wl.append("wrn %s 1700000000 0 500 0" % pth)
            wmeta.append((n, g))
    wouts = c.run_lines_hang_aware(binary, wl, "W:hang")
    shutil.rmtree(root, ignore_errors=True)
    wbad = []
    for (n, g), ln, o in zip(wmeta, wl, wouts):
        res.evaluations += 1
        res.count("a client attaching after a restart over a file cut inside its header, before the first publication")
        f = dict(x.split(":", 1) for x in o.split())
        if f.get("W") != "ok" or F.canon_err(f.get("K", "")) != "notinit:0:":
            wbad.append({"file": "a segment with generation %d cut to %d bytes" % (g, n), "file_length": n, "impl": o,
                         "why": ["the daemon started over this file and has not published yet; a client attaching now got %s (documented: the segment is laid out anew, "
                                 "version and generation 0 - not initialised - until the first publication)" % o]})
    res.oblige("a segment laid out anew is not initialised for clients until the first publication (%d files cut inside the header)" % len(wl), not wbad)
    if wbad:
        res.violation({"property": "C04", "kind": "input", "case": wbad[0], "others": [b["file"] for b in wbad[1:5]],
                       "predicate": "a segment that was left unusable is repaired so that new clients can attach after the first publication (and are handed nothing before it)",
                       "how_to_replay": "./check C04"})
    ok, log = _shm.current_obligation(cfg, "C04", BODY)
    res.oblige("Current_C04.v: safe_cfg current_cfg = true for the configuration measured from the running code; clauses (a), (b), (c) instantiated with it", ok)
    res.extra["current_cfg_coq"] = _shm.coq_cfg(cfg)
    if not ok:
        toks, out = C02.ra_search(cfg, res)
        why = "a call of an attached client returns a mixture of two publications"
        if not toks:
            toks, out, why = C03.ra_search(cfg, res)
        if toks:
            res.violation({"property": "C04", "kind": "history",
                           "case": {"schedule": _shm.tok_str(toks), "model_execution": out,
                                    "why": ["clause (a) under the release/acquire model, with the orderings and fences measured from the running code: " + why]},
                           "obligation": "safe_cfg current_cfg = true fails: " + log[-600:],
                           "measured_cfg": cfg, "how_to_replay": "./check C03 --replay <this file>"})
        else:
            res.violation({"property": "C04", "kind": "obligation",
                           "obligation": "Current_C04.v: the side condition of the clause (a)/(b) theorems does not hold for the measured configuration: " + log[-800:],
                           "measured_cfg": cfg}, found_input=False)


def wipe_part(res, binary):
    """death inside ShmWriter::new while the file is (re-)created: the system calls are measured
    with strace, over a missing file and over an unusable longer one"""
    for what, old in (("missing file", None), ("unusable 180-byte file", b"foobarbaz" * 20)):
        info, why = _wipe.measure_wipe(binary, old)
        res.evaluations += 1
        name = "Current_C04w.v (%s): the file is created with truncation, the measured writes give the modelled image, every prefix of it is refused by readers" % what
        if info is None:
            raise c.CheckError("strace measurement of ShmWriter::new failed: " + why)
        res.extra["wipe_syscalls(%s)" % what] = info["ops"]
        if info["writes"] is None or not info["truncated"]:
            res.oblige(name, False)
            case = None
            if not info["truncated"]:
                # the failing state of C04_wipe_without_truncation_refuted, for the record
                case = {"old_file_hex": (bytes([7, 0, 0, 0]) + bytes.fromhex("00024243480000000100" + "0600") + b"\xff" * 56).hex(),
                        "death_after_write": 1,
                        "why": ["the segment file is not truncated before it is rewritten (%s): with this old content a death after the first write leaves a file "
                                "that readers accept although its record is the old garbage (C04_wipe_without_truncation_refuted)" % info["ops"]]}
            res.violation({"property": "C04", "kind": "input" if case else "obligation", "case": case,
                           "obligation": "measured system calls of ShmWriter::new over a %s: %s %s" % (what, info["ops"], why)}, found_input=bool(case))
            return
        body = ("From CB Require Import Layout Open LayoutProofs.\nFrom CB.Properties Require Import C04.\n"
                "Definition observed_writes : list (list Z) := %s.\n"
                "Theorem observed_image : concat observed_writes = wipe_image.\nProof. vm_compute. reflexivity. Qed.\n"
                "Theorem observed_crash_states_refused : crash_states_refused observed_writes = true.\nProof. vm_compute. reflexivity. Qed.\n"
                "Definition death_inside_new_for_the_running_code := C04_measured_writes_criterion observed_writes observed_crash_states_refused.\n"
                "Print Assumptions death_inside_new_for_the_running_code.\n" % _wipe.coq_writes(info["writes"]))
        ok, log = _shm.current_obligation(None, "C04w", body)
        res.oblige(name, ok)
        if not ok:
            # which prefix is accepted?  (python transcription of reader_open's header conditions)
            img = b"".join(info["writes"])
            hit = None
            for n in range(len(img) + 1):
                b = img[:n]
                if len(b) >= 16 and b[:8] == bytes.fromhex("4e5a4d4100024243") and b[12:14] != b"\0\0" and b[14:16] != b"\0\0" and int.from_bytes(b[8:12], "little") >= 72:
                    hit = n
                    break
            res.violation({"property": "C04", "kind": "input" if hit is not None else "obligation",
                           "case": {"writes_hex": [w.hex() for w in info["writes"]], "death_after_bytes": hit,
                                    "why": ["a death after %s bytes of the re-creation leaves a file that readers accept" % hit]} if hit is not None else None,
                           "obligation": "Current_C04w.v does not check: " + log[-600:]}, found_input=hit is not None)
            return
    res.trusted_base.append("strace's rendering of the system calls of the harness process (open flags, write payloads) on the segment file")


def replay(res, path):
    import json
    r = json.load(open(path))
    if "measured system calls" in str(r.get("obligation", "")) or "Current_C04w" in str(r.get("obligation", "")):
        binary = c.build_harness("debug")[0]
        rc = 0
        for what, old in (("missing file", None), ("unusable 180-byte file", b"foobarbaz" * 20)):
            info, why = _wipe.measure_wipe(binary, old)
            print("ShmWriter::new over a %s: %s %s" % (what, info["ops"] if info else None, why))
            if info is None or info["writes"] is None or not info["truncated"]:
                rc = 1
            else:
                img = b"".join(info["writes"])
                print("  image written: %s" % img.hex())
                if img != bytes.fromhex("4e5a4d410002424348000000" + "00000000") + bytes(56):
                    rc = 1
        print("death inside the re-creation of the segment file: %s" % ("VIOLATION (see the case in the replay file)" if rc else "every state it can leave is refused by readers"))
        return rc
    if "model_execution" in (r.get("case") or {}):
        return C03.replay(res, path)
    return _shm.replay_property("C04", res, path)
