"""C04 - daemon death and restart never harm attached clients.
Theorems: Properties/C04.v.  Tie to the code: lib/props/_shm.py (crash at every access, restart
through the real ShmWriter::new, oracles) + the generated Current_C04.v: clauses (a) and (b) rest on
C02_RA_window / C03_monotone_RA_window / C04_restarted_publications_seen, whose side condition
`safe_cfg current_cfg = true` must hold for the configuration measured from the running code."""
import common as c
from props import _shm, C02, C03

BODY = ("From CB Require Import SeqlockInv GenCyc SeqlockRA SeqlockMono SeqlockFresh.\nFrom CB.Properties Require Import C02 C03 C04.\n"
        "Theorem current_cfg_safe : safe_cfg current_cfg = true.\nProof. vm_compute. reflexivity. Qed.\n"
        "Theorem current_retries_positive : (0 < c_retries current_cfg)%N.\nProof. vm_compute. reflexivity. Qed.\n"
        "Definition C04_a_complete_records_for_the_running_code := fun ts m o => C02_RA_window current_cfg ts m o current_cfg_safe.\n"
        "Definition C04_a_publication_order_for_the_running_code := fun ts m o => C03_monotone_RA_window current_cfg ts m o current_cfg_safe.\n"
        "Definition C04_b_for_the_running_code := fun ts m o j r q e => C04_restarted_publications_seen current_cfg ts m o j r q e current_cfg_safe current_retries_positive.\n"
        "Definition C04_c_for_the_running_code := fun ts m o => C04_never_emptied_under_clients current_cfg ts m o current_cfg_safe.\n"
        "Print Assumptions C04_a_complete_records_for_the_running_code.\nPrint Assumptions C04_b_for_the_running_code.\n")


def run(res, proofs_ok, proofs_why):
    cfg, binary = _shm.run_property("C04", res, proofs_ok, proofs_why)
    if cfg is None:
        return
    ok, log = _shm.current_obligation(cfg, "C04", BODY)
    res.oblige("Current_C04.v: safe_cfg current_cfg = true for the configuration measured from the running code; clauses (a), (b), (c) instantiated with it", ok)
    res.extra["current_cfg_coq"] = _shm.coq_cfg(cfg)
    if not ok:
        toks, out = C02.ra_search(cfg, res)
        why = "a call of an attached client returns a mixture of two publications"
        if not toks:
            toks, out, why = C03.ra_search(cfg, res)
        if toks:
            res.violation({"property": "C04", "kind": "history",
                           "case": {"schedule": _shm.tok_str(toks), "model_execution": out,
                                    "why": ["clause (a) under the release/acquire model, with the orderings and fences measured from the running code: " + why]},
                           "obligation": "safe_cfg current_cfg = true fails: " + log[-600:],
                           "measured_cfg": cfg, "how_to_replay": "./check C03 --replay <this file>"})
        else:
            res.violation({"property": "C04", "kind": "obligation",
                           "obligation": "Current_C04.v: the side condition of the clause (a)/(b) theorems does not hold for the measured configuration: " + log[-800:],
                           "measured_cfg": cfg}, found_input=False)


def replay(res, path):
    import json
    r = json.load(open(path))
    if "model_execution" in (r.get("case") or {}):
        return C03.replay(res, path)
    return _shm.replay_property("C04", res, path)
