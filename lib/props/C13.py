"""C13 - outages and PHC failures degrade on schedule.  Theorems: Properties/C13.v."""
import json
import random
import common as c
from props import _poller as P


def run(res, proofs_ok, proofs_why):
    rng = random.Random(res.seed * 8191 + 13)
    scripts, lines, impl, model = P.run_scripts(res, rng, 120 if res.tier == "quick" else 5000)
    res.rule = ("scripts of 1..8 poll iterations (tracking reply / wrong sequence number / garbage datagram / no socket; query duration; delay before the "
                "grace evaluation; PHC file readable or not; configured and reported reference ids); non-trivial = script with an evaluation instant within "
                "1000 ns of the 5 s boundary, or a PHC failure, or a start-up silence")
    diffs, bad = [], []
    for s, ln, i, m in zip(scripts, lines, impl, model):
        res.evaluations += 1
        start, cfg, steps = s
        got = i.split()
        msgs = [x for x in got if not x.startswith("ORDER") and x != "POLLER-PANIC"]
        want = P.expected(*s)
        lg = start - P.GRACE
        nontriv = False
        for (t, mode, d, e, phc, refid, tag) in steps:
            res.count("mode:%d" % mode)
            if mode != 1 and abs((t + d + e) - lg - P.GRACE) <= 1000:
                nontriv = True
            if mode == 1:
                lg = t + d
                if cfg >= 0 and refid == cfg and phc < 0:
                    nontriv = True
        if steps and steps[0][1] != 1:
            nontriv = True
        if nontriv:
            res.nontriv(ln)
        for x in msgs:
            res.count("msg:" + x.split(":")[0])
        if msgs != m.split():
            diffs.append({"case": ln, "impl": i, "model": m})
        if msgs != want or "POLLER-PANIC" in got:
            k = next((j for j, (a, b) in enumerate(zip(msgs + ["-"] * 9, want)) if a != b), 0)
            bad.append({"case": ln, "impl": i, "model": m, "expected": " ".join(want),
                        "why": ["iteration %d: message %s, the schedule of the property gives %s" % (k, (msgs + ["-"] * 9)[k], want[k] if k < len(want) else "-")]})
    res.samples = [{"case": lines[k], "impl": impl[k], "model": model[k]} for k in range(0, len(lines), max(1, len(lines) // 4))][:4]
    res.traces_validated = len(lines) - len(diffs)
    res.oblige("correspondence:run_clock_error_bound_poller + ClockErrorBoundPoller (real UDS client, fake chronyd, virtual clock) vs Poller.poll_run", not diffs)
    res.trusted_base += ["fake chronyd (harness/src/poller.rs) built with chrony-candm's own Request::deserialize / Reply::serialize on /var/run/chrony/chronyd.sock inside unshare -m + tmpfs on /run",
                         "virtual clock seen by the poller thread only; the loop is paced by filler messages to the poller's mailbox (as the repository's unit tests do)",
                         "get_phc_error_bound_from_path modelled by its outcome (value / unreadable); a file with garbage (parse panic) is not scripted here (C15 covers the panic path)"]
    if bad:
        res.violation({"property": "C13", "kind": "history", "case": bad[0], "others": [b["case"] for b in bad[1:4]],
                       "predicate": "message class per iteration: grace iff (evaluation instant - last good answer) < 5 s; PHC unreadable -> no report; PHC bound attached iff refid matches",
                       "how_to_replay": "./check C13 --replay <this file>"})
    elif diffs:
        res.violation({"property": "C13", "kind": "obligation", "obligation": "correspondence:poller vs Poller.poll_run", "first_differences": diffs[:3]}, found_input=False)
    refid_part(res)
    if not proofs_ok:
        res.violation({"property": "C13", "kind": "obligation", "obligation": proofs_why}, found_input=False)


def refid_part(res, pid="C13"):
    """the value parser of --phc-ref-id (refid_to_u32) against Cli.refid_of: strings of 0..6 bytes,
    ASCII and not; oracle: a four-character ASCII name is the big-endian number of its bytes"""
    import random
    rng = random.Random(res.seed * 131 + 13)
    alphabet = list("PHC0123phc GNS\x00\x7f~") + ["\u00e9", "\u20ac", "\u00ff"]
    names = ["PHC0", "phc0", "PHC", "PH", "", "PHC00", "GPS", "NMEA", "\u00e9HC0", "PHC\x00", "\x00PHC"]
    for _ in range(300 if res.tier == "quick" else 20000):
        names.append("".join(rng.choice(alphabet) for _ in range(rng.randrange(0, 6))))
    lines, bs = [], []
    for nm in names:
        b = nm.encode("utf-8")
        bs.append(b)
        lines.append("rid %d %s" % (len(b), " ".join(str(x) for x in b)))
    impl = c.run_lines(c.build_harness("debug")[0], lines)
    model = c.run_model(lines)
    res.evaluations += len(lines)
    res.count("gen:reference id strings", len(lines))
    bad, diffs = [], []
    for nm, b, ln, i, m in zip(names, bs, lines, impl, model):
        if i != m:
            diffs.append({"case": ln, "string": repr(nm), "impl": i, "model": m})
        ascii4 = len(b) == 4 and all(x < 128 for x in b)
        if ascii4:
            res.nontriv(ln)
            want = "ok %d" % int.from_bytes(b, "big")
            if i != want:
                bad.append({"case": ln, "string": repr(nm), "impl": i, "why": ["the reference id of the four-character name %r must be %s (its bytes, big endian): "
                                                                                "with another value the PHC term is attached to the wrong reference, or to none" % (nm, want)]})
        elif (len(b) > 4 or any(x >= 128 for x in b)) and i != "rejected":
            bad.append({"case": ln, "string": repr(nm), "impl": i, "why": ["a name that is not at most four ASCII characters must be refused"]})
    res.oblige("correspondence:refid_to_u32 vs Cli.refid_of", not diffs)
    if bad:
        res.violation({"property": pid, "kind": "input", "case": bad[0], "others": [b["case"] for b in bad[1:4]],
                       "predicate": "configured reference id = big-endian number of the name's four ASCII bytes", "how_to_replay": "./check C13 --replay <this file>"})
    elif diffs:
        res.violation({"property": pid, "kind": "obligation", "obligation": "correspondence:refid_to_u32 vs Cli.refid_of", "first_differences": diffs[:3]}, found_input=False)


def replay(res, path):
    r = json.load(open(path))
    case = r.get("case") or r.get("first_differences", [{}])[0]
    ln = case["case"]
    i = c.run_lines_in_namespace(c.build_harness("debug")[0], [ln])[0]
    m = c.run_model([ln])[0]
    t = ln.split()
    steps = [tuple(int(x) for x in t[4 + 7 * k: 11 + 7 * k]) for k in range(int(t[3]))]
    want = " ".join(P.expected(int(t[1]), int(t[2]), steps))
    print("case  %s\nimpl  %s\nmodel %s\nproperty schedule %s" % (ln, i, m, want))
    msgs = " ".join(x for x in i.split() if not x.startswith("ORDER"))
    return 0 if msgs == want else 1
