"""C09 - nothing but Unknown before the first measurement.
Daemon side: lib/props/_updater.py (shared history generator, model/implementation runs, predicates
on the published sequence).  Client side: the records a never-synchronised daemon publishes are read
through the real now() of both Rust client paths at monotonic readings from boot to beyond their
void-after instant; the status handed to the application must be Unknown throughout."""
import random
import common as c
from props import _updater, _client

NS = 10 ** 9


def client_part(res):
    rng = random.Random(res.seed * 911 + 9)
    binary = c.build_harness("debug")[0]
    hists = [_updater.line_of(rng.choice([0, 1000, 50000]), _updater.gen_history(rng, 6, _updater.MIXES[2])) for _ in range(60)]
    outs = c.run_lines(binary, hists)
    recs = set()
    for ln, o in zip(hists, outs):
        _, hist = _updater.parse_line(ln)
        for m, r in zip(hist, _updater.parse_out(o) or []):
            if m[0] == "r" and _updater.msg_class(m) == 1:
                break                      # from the first synchronised report on the records are measurements
            recs.add(r)
    recs = sorted(recs)
    lines, meta = [], []
    for (as_s, as_n, va_s, va_n, bound, drift, st) in recs:
        as_of, void = as_s * NS + as_n, va_s * NS + va_n
        for mono in (as_of, as_of + 1, as_of + 5 * NS - 1, as_of + 5 * NS, as_of + 5 * NS + 1, as_of + 100 * NS, void - 1, void, void + 1, void + 10 ** 5 * NS):
            real = rng.randrange(10 ** 9, 2 * 10 ** 9) * NS
            if rng.random() < 0.5 and mono > 3 * NS:
                # the same client has just been answering, within the last seconds, from the trusted record of
                # the daemon instance before the restart: what it remembers of that must not colour this answer
                prev_as_of = mono - rng.choice([2, 3]) * NS
                lines.append(_client.mk(prev_as_of, prev_as_of + 1000 * NS, rng.randrange(10 ** 6), drift, 1, real - NS, mono - rng.choice([1, NS])))
                meta.append(None)
            lines.append(_client.mk(as_of, void, bound, drift, st, real, mono))
            meta.append((as_s, as_n, va_s, va_n, bound, drift, st))
    impl = c.run_lines(binary, lines)
    model = c.run_model(lines)
    res.evaluations += len(lines)
    res.count("gen:records of a never-synchronised daemon read through now()", len(lines))
    bad, diffs = [], []
    prev_line = None
    for ln, rec, i, m in zip(lines, meta, impl, model):
        if rec is None:
            prev_line = ln
            res.count("gen:trusted answer just before the restarted daemon's record")
            continue
        res.nontriv(ln)
        # what the client library handed out (the harness prints it next to the shm crate's own now() when they differ)
        r = _client.parse_result(i.split("client=[", 1)[1].split("]")[0] if "client=[" in i else i)
        if _client.parse_result(m).get("status") != r.get("status") or _client.parse_result(m)["kind"] != r["kind"]:
            diffs.append({"case": ln, "impl": i, "model": m})
        if r["kind"] == "ok" and r["status"] != 0:
            bad.append({"case": ln, "calls_before": [prev_line] if prev_line else [], "published_record": rec, "impl": i, "model": m,
                        "why": ["a record published before any synchronised report (status Unknown) is handed to the application with status %d "
                                "(1 Synchronized, 2 FreeRunning) at monotonic reading %s" % (r["status"], ln.split()[-2:])]})
    res.oblige("correspondence:now() on the records of a never-synchronised daemon vs Client.compute_bound_at (status)", not diffs)
    if bad:
        res.violation({"property": "C09", "kind": "input", "case": bad[0], "others": [b["case"] for b in bad[1:4]],
                       "predicate": "status handed to the application is Unknown for every record published before the first synchronised report",
                       "how_to_replay": "./check C06 --replay <this file>"})
    elif diffs:
        res.violation({"property": "C09", "kind": "obligation", "obligation": "correspondence: now() status on never-synchronised records",
                       "first_differences": diffs[:3]}, found_input=False)


def world_part(res):
    """the whole daemon (real poll loop with a fake chronyd, real updater, real writer) started against a
    chronyd that has not delivered a usable measurement yet: answers that are unsynchronised or stale,
    PHC error bound readable or not, silences - then the first usable report.  Every record in the
    segment before that report must carry status Unknown."""
    import cfloat
    from props import C01
    rng = random.Random(res.seed * 7919 + 9)
    ITV4 = cfloat.word(1 << 23, 4)
    worlds = []
    for _ in range(40 if res.tier == "quick" else 1500):
        cfg = rng.choice([0x50484330, 0x50484330, -1])
        t = rng.randrange(6, 5000) * NS + rng.randrange(NS)
        items, valid = [], []
        for k in range(rng.randrange(2, 8)):
            refid = cfg if (cfg >= 0 and rng.random() < 0.8) else rng.randrange(2 ** 31)
            phc = rng.choice([-1, 0, 40000, 12345])
            kind = rng.random()
            d = rng.choice([0, 1000, 10 ** 6])
            if kind < 0.35:      # unsynchronised
                it = ("P", t, 1, d, 0, phc, refid, 3, ITV4, 0, 0, 0, cfloat.encode(0.001), cfloat.encode(0.01), cfloat.encode(0.001))
                ok = False
            elif kind < 0.6:     # stale
                age = 33 * NS + rng.randrange(50 * NS)
                it = ("P", t, 1, d, 0, phc, refid, rng.randrange(3), ITV4, 0, age // NS, age % NS, cfloat.encode(0.001), cfloat.encode(0.01), cfloat.encode(0.001))
                ok = False
            elif kind < 0.75:    # silence
                it = ("P", t, rng.choice([0, 2, 3]), d, 0, -1, refid, 0, ITV4, 0, 0, 0, 0, 0, 0)
                ok = False
            else:                # synchronised and fresh: usable unless the PHC is the reference and cannot be read
                it = ("P", t, 1, d, 0, phc, refid, rng.randrange(3), ITV4, 0, 0, 0, cfloat.encode(0.001), cfloat.encode(0.01), cfloat.encode(0.001))
                ok = not (cfg >= 0 and refid == cfg and phc < 0)
            items.append(it)
            valid.append(ok)
            t += d + rng.choice([NS, NS + rng.randrange(NS), 3 * NS])
        worlds.append((rng.choice([1000, 50000]), cfg, items, valid))
    lines = [C01.line_of(w[0], w[1], w[2]) for w in worlds]
    impl = c.run_lines_in_namespace(c.build_harness("debug")[0], lines, timeout=1500)
    model = c.run_model(lines)
    res.evaluations += len(lines)
    res.count("gen:daemon started against a chronyd without a usable measurement", len(lines))
    bad, diffs = [], []
    for w, ln, i, m in zip(worlds, lines, impl, model):
        res.nontriv(ln)
        toks = [x for x in i.split() if not x.startswith("ORDER")]
        if toks != m.split():
            diffs.append({"case": ln, "impl": i, "model": m})
        measured = False
        for k, (ok, o) in enumerate(zip(w[3], toks)):
            measured = measured or ok
            if o.startswith("p:") and o.count(":") == 7:
                st = int(o.split(":")[7])
                if not measured and st != 0:
                    bad.append({"case": ln, "impl": i, "model": m,
                                "why": ["after poll iteration %d the segment carries status %d although chronyd has not delivered a usable measurement since the daemon started "
                                        "(record %s)" % (k, st, o)]})
                    break
    res.oblige("correspondence:whole daemon started against a chronyd without a usable measurement vs composition of Poller/Updater models", not diffs)
    if bad:
        res.violation({"property": "C09", "kind": "history", "case": bad[0], "others": [b["case"][:200] for b in bad[1:4]],
                       "predicate": "every record published before the first usable measurement has status Unknown",
                       "how_to_replay": "./check C01 --replay <this file>"})
    elif diffs:
        res.violation({"property": "C09", "kind": "obligation", "obligation": "correspondence: daemon without a usable measurement", "first_differences": diffs[:2]}, found_input=False)


def restart_part(res):
    """the daemon died in the middle of an update - notably its first one, the start-up record going over the last
    record of the instance before: as-of 0 and bound 0 already stored, the status still the old Synchronized - and
    a new instance starts over the file.  Until that instance publishes, a client that attaches must not be handed
    the half-written record: what it sees is Unknown (or an error), at every uptime"""
    import os, shutil
    from props import _files as F
    rng = random.Random(res.seed * 31 + 909)
    root = os.path.join(c.BUILD, "scratch", "c09-restart-%d" % os.getpid())
    shutil.rmtree(root, ignore_errors=True)
    os.makedirs(root)
    lines, meta = [], []
    for k in range(40 if res.tier == "quick" else 1500):
        old = (rng.randrange(100, 10 ** 5), rng.randrange(10 ** 9), 0, 0, rng.randrange(1, 10 ** 9), rng.choice([1000, 50000]), rng.choice([1, 2]))
        old = old[:2] + (old[0] + 1000,) + old[3:]
        # the update that was under way: the first j fields of the new record are in, the rest is the old record's
        new = (0, 0, 1000, 0, 0, old[5], 0) if rng.random() < 0.7 else (old[0] + 16, rng.randrange(10 ** 9), old[0] + 1016, 0, 0, old[5], 0)
        j = rng.randrange(1, 6)
        torn = new[:j] + old[j:]
        gen = rng.choice([3, 5, 101, 65535])
        pth = os.path.join(root, "seg%d" % k)
        with open(pth, "wb") as fh:
            fh.write(F.header(gen=gen) + F.record(torn))
        mono = (torn[0] * NS + torn[1]) + rng.choice([0, 1, NS, 4 * NS, 6 * NS, 500 * NS, 999 * NS])
        real = rng.randrange(10 ** 9, 2 * 10 ** 9) * NS
        lines.append("wrn %s %d %d %d %d" % (pth, real // NS, real % NS, mono // NS, mono % NS))
        meta.append((gen, torn, mono))
    outs = c.run_lines_hang_aware(c.build_harness("debug")[0], lines, "W:hang")
    shutil.rmtree(root, ignore_errors=True)
    bad = []
    for (gen, torn, mono), ln, o in zip(meta, lines, outs):
        res.evaluations += 1
        res.count("gen:client attaching after a restart over a half-written record, before the first publication")
        res.nontriv(str((gen, torn, mono)))
        f = dict(x.split(":", 1) for x in o.split())
        n = f.get("N", "")
        if n.startswith("ok:") and n.split(":")[5] != "0":
            bad.append({"case": ln, "file": {"generation": gen, "record_in_the_file": list(torn)}, "impl": o,
                        "why": ["the previous daemon died in the middle of an update (generation %d, the record in the file is half old, half new: %s); a new daemon started over it and has not "
                                "published yet; a client attaching at monotonic reading %d is handed status %s with that record's bound" % (gen, list(torn), mono, n.split(":")[5])]})
        elif "hang" in o or "panic" in o or "crash" in o:
            bad.append({"case": ln, "file": {"generation": gen, "record_in_the_file": list(torn)}, "impl": o, "why": ["starting over the file, attaching and calling did not complete: " + o]})
    res.oblige("a client attaching after a restart over a half-written record sees Unknown until the new daemon publishes (%d files)" % len(lines), not bad)
    if bad:
        res.violation({"property": "C09", "kind": "input", "case": bad[0], "others": [b["case"] for b in bad[1:4]],
                       "predicate": "a status other than Unknown is never handed out with a bound that does not originate from a synchronised measurement",
                       "how_to_replay": "./check C09"})


def poll_part(res):
    """the PHC is chronyd's reference and its error-bound attribute reads back empty: that poll has no PHC component,
    so whatever the poll loop does about it (today: it stops, and the daemon with it) no report reaches the writer as
    a measurement - before and after a good poll alike"""
    from props import _poller
    rng = random.Random(res.seed * 47 + 9)
    cfg = 0x50484330
    scripts = []
    for good_first in (0, 1, 2):
        start = rng.randrange(10, 1000) * NS
        t, steps = start + NS, []
        for _ in range(good_first):
            steps.append((t, 1, 1000, 0, rng.choice([0, 4321, 250000]), cfg, rng.randrange(1, 60000)))
            t += NS + rng.randrange(NS)
        steps.append((t, 1, rng.choice([0, 1000]), 0, -3, cfg, rng.randrange(1, 60000)))
        scripts.append((start, cfg, steps))
    lines = [_poller.line_of(*sc) for sc in scripts]
    outs = c.run_lines_in_namespace(c.build_harness("debug")[0], lines, timeout=300)
    bad = []
    for sc, ln, o in zip(scripts, lines, outs):
        res.evaluations += 1
        res.count("gen:PHC attribute present but empty")
        res.nontriv(ln)
        got = [x for x in o.split() if not x.startswith("ORDER") and x != "POLLER-PANIC"]
        k = len(sc[2]) - 1
        if len(got) > k and got[k].startswith("D:"):
            bad.append({"case": ln, "impl": o, "why": ["poll %d: the PHC is the reference and its error-bound attribute read back empty, yet the report was forwarded as a measurement (%s, "
                                                       "PHC component %s) - the writer takes it for a synchronised measurement" % (k, got[k], got[k].split(":")[2])]})
    res.oblige("a poll whose PHC error bound reads back empty forwards no measurement (%d scripts)" % len(lines), not bad)
    if bad:
        res.violation({"property": "C09", "kind": "history", "case": bad[0], "others": [b["case"] for b in bad[1:3]],
                       "predicate": "a status other than Unknown is never published together with a bound that does not originate from a synchronised measurement",
                       "how_to_replay": "./check C09"})


def run(res, proofs_ok, proofs_why):
    restart_part(res)
    poll_part(res)
    _updater.run_property("C09", res, proofs_ok, proofs_why)
    client_part(res)
    world_part(res)


def replay(res, path):
    import json
    r = json.load(open(path))
    case = r.get("case", {})
    if isinstance(case, dict) and str(case.get("case", "")).startswith("cba"):
        return _client.replay_property("C06", res, path) if hasattr(_client, "replay_property") else 1
    return _updater.replay_property("C09", res, path)
