"""C09 - nothing but Unknown before the first measurement.
Daemon side: lib/props/_updater.py (shared history generator, model/implementation runs, predicates
on the published sequence).  Client side: the records a never-synchronised daemon publishes are read
through the real now() of both Rust client paths at monotonic readings from boot to beyond their
void-after instant; the status handed to the application must be Unknown throughout."""
import random
import common as c
from props import _updater, _client

NS = 10 ** 9


def client_part(res):
    rng = random.Random(res.seed * 911 + 9)
    binary = c.build_harness("debug")[0]
    hists = [_updater.line_of(rng.choice([0, 1000, 50000]), _updater.gen_history(rng, 6, _updater.MIXES[2])) for _ in range(60)]
    outs = c.run_lines(binary, hists)
    recs = set()
    for o in outs:
        for r in (_updater.parse_out(o) or []):
            recs.add(r)
    recs = sorted(recs)
    lines, meta = [], []
    for (as_s, as_n, va_s, va_n, bound, drift, st) in recs:
        as_of, void = as_s * NS + as_n, va_s * NS + va_n
        for mono in (as_of, as_of + 1, as_of + 5 * NS - 1, as_of + 5 * NS, as_of + 5 * NS + 1, as_of + 100 * NS, void - 1, void, void + 1, void + 10 ** 5 * NS):
            lines.append(_client.mk(as_of, void, bound, drift, st, rng.randrange(10 ** 9, 2 * 10 ** 9) * NS, mono))
            meta.append((as_s, as_n, va_s, va_n, bound, drift, st))
    impl = c.run_lines(binary, lines)
    model = c.run_model(lines)
    res.evaluations += len(lines)
    res.count("gen:records of a never-synchronised daemon read through now()", len(lines))
    bad, diffs = [], []
    for ln, rec, i, m in zip(lines, meta, impl, model):
        res.nontriv(ln)
        r = _client.parse_result(i)
        if _client.parse_result(m).get("status") != r.get("status") or _client.parse_result(m)["kind"] != r["kind"]:
            diffs.append({"case": ln, "impl": i, "model": m})
        if r["kind"] == "ok" and r["status"] != 0:
            bad.append({"case": ln, "published_record": rec, "impl": i, "model": m,
                        "why": ["a record published before any synchronised report (status Unknown) is handed to the application with status %d "
                                "(1 Synchronized, 2 FreeRunning) at monotonic reading %s" % (r["status"], ln.split()[-2:])]})
    res.oblige("correspondence:now() on the records of a never-synchronised daemon vs Client.compute_bound_at (status)", not diffs)
    if bad:
        res.violation({"property": "C09", "kind": "input", "case": bad[0], "others": [b["case"] for b in bad[1:4]],
                       "predicate": "status handed to the application is Unknown for every record published before the first synchronised report",
                       "how_to_replay": "./check C06 --replay <this file>"})
    elif diffs:
        res.violation({"property": "C09", "kind": "obligation", "obligation": "correspondence: now() status on never-synchronised records",
                       "first_differences": diffs[:3]}, found_input=False)


def run(res, proofs_ok, proofs_why):
    _updater.run_property("C09", res, proofs_ok, proofs_why)
    client_part(res)


def replay(res, path):
    import json
    r = json.load(open(path))
    case = r.get("case", {})
    if isinstance(case, dict) and str(case.get("case", "")).startswith("cba"):
        return _client.replay_property("C06", res, path) if hasattr(_client, "replay_property") else 1
    return _updater.replay_property("C09", res, path)
