"""C09 - see lib/props/_updater.py (shared history generator, model/implementation runs, predicates)."""
from props import _updater


def run(res, proofs_ok, proofs_why):
    _updater.run_property("C09", res, proofs_ok, proofs_why)


def replay(res, path):
    return _updater.replay_property("C09", res, path)
