"""C17 - segment layout and C ABI match their published descriptions.  Theorems: Properties/C17.v.
See lib/props/_files.py: bytes written by the real writer decoded with offsets transcribed from
docs/PROTOCOL.md; a C program built against clockbound.h + libclockbound.so run on the same files
at the same virtual instant as the Rust client."""
import json
import random
import common as c
from props import _files as F

# clockbound.h, transcribed: sizeof/offsetof of the public structs and the enum values
C_LAYOUT = "now_result 40 0 16 32 err 16 0 4 8 status 0 1 2 kinds 0 1 2 3 4"


def run(res, proofs_ok, proofs_why):
    rng = random.Random(res.seed * 617 + 17)
    results, siz = F.run_corpus(res, "C17", rng, 250 if res.tier == "quick" else 20000)
    res.rule = ("same file corpus as C16 with a clock reading placed around the record's thresholds; non-trivial = files that open (interval/status/error from now() "
                "compared between C and Rust) plus every file whose bytes were written by the daemon (layout decoded by PROTOCOL.md offsets)")
    diffs, bad = [], []
    if siz != C_LAYOUT:
        bad.append({"case": {"file": "clockbound.h", "c_layout": siz}, "why": ["sizes/offsets/enum values seen by a C compiler differ from clockbound.h as published: expected " + C_LAYOUT]})
    for r in results:
        res.evaluations += 1
        why = []
        rk, ck = r["rust"]["K"], r["c"]["K"]
        rn, cn, mn = r["rust"]["N"], r["c"]["N"], r["model"]["N"]
        res.count("now:" + rn.split(":")[0])
        if rk == "ok":
            res.nontriv(r["tag"] + r["data"].hex())
        if ck != rk:
            why.append("open: C library %s, Rust client %s" % (ck, rk))
        elif ck != F.oracle_open(r["kind"], r["data"]):
            why.append("open: both libraries give %s; clockbound.h and the documentation give %s for this file (kind:errno:origin)" % (ck, F.oracle_open(r["kind"], r["data"])))
        if cn != rn:
            why.append("now(): C library %s, Rust client %s (same segment, same instant)" % (cn, rn))
        if "panic" in (rn, cn):
            why.append("client call crashed")
        if F.canon_err(mn) != rn:
            diffs.append({"case": F.describe(r), "what": "now(): impl %s model %s" % (rn, mn)})
        after, rec = r["after"], r["record"]
        if r["kind"] != 2 and after is not None and len(after) >= 72:
            d = F.proto_decode(after[:72])
            got = (d["as_of_sec"], d["as_of_nsec"], d["void_after_sec"], d["void_after_nsec"], d["bound"], d["max_drift"], d["status"])
            if got != rec or d["reserved"] != 0:
                why.append("bytes written by the daemon, decoded with the offsets of PROTOCOL.md: %s reserved %s; published %s" % (got, d["reserved"], rec))
            if (d["magic0"], d["magic1"]) != F.MAGIC or d["version"] != 1 or d["generation"] % 2 != 0 or d["generation"] == 0:
                why.append("header written by the daemon does not follow PROTOCOL.md: %s" % {k: d[k] for k in ("magic0", "magic1", "size", "version", "generation")})
            if F.oracle_open(r["kind"], r["data"]) != "ok" and (len(after) != 72 or d["size"] != 72):
                why.append("the file the daemon laid out anew is %d bytes long and declares %d: PROTOCOL.md gives the segment 72 bytes in all" % (len(after), d["size"]))
            wm = r["wrt_model"]
            mbytes = bytes(int(x) for x in wm.split()[1:]) if wm.startswith("W:ok") else None
            if mbytes != after:
                diffs.append({"case": F.describe(r), "what": "daemon bytes differ from Layout.encode", "impl_hex": after.hex(), "model_hex": mbytes.hex() if mbytes else None})
        if r["kind"] != 2 and after is not None and len(after) < 72 and r["wrt"].startswith("W:ok"):
            why.append("after the daemon started over this file and published, the file is %d bytes long: PROTOCOL.md gives the segment 72 bytes "
                       "(header + record); the record is not in the file" % len(after))
        if why and any("syscall:24:" in str(v) for v in list(r["rust"].values()) + list(r["c"].values())):
            why.append("(errno 24 is EMFILE: the process, held to 96 descriptors, ran out of them - opens that failed on the files before "
                       "this one did not give back what they had acquired; the outcome depends on the opens made before, replay runs the whole corpus)")
        if why:
            bad.append({"case": F.describe(r), "why": why})
    # the same live segment: the daemon publishes a new record while the call is reading its first clock;
    # both libraries took their snapshot before that, so both answer from the record that was there
    NS = 10 ** 9
    from props import _client as K
    plines, mlines = [], []
    for k in range(60 if res.tier == "quick" else 3000):
        mono = rng.randrange(10, 10 ** 6) * NS + rng.randrange(NS)
        real = rng.randrange(10 ** 9) * NS + rng.randrange(NS)
        as_old = mono - rng.choice([0, 1, 999, 10 ** 6, 3 * NS, 400 * NS])
        as_new = mono + rng.choice([1, 999, 1001, 4 * 10 ** 6, NS, 20 * NS])       # sampled after the call's readings
        rec = lambda a, b, st: "%d %d %d 0 %d %d %d" % (a // NS, a % NS, a // NS + 1000, b, rng.choice([1000, 50000]), st)   # noqa: E731
        o, n = rec(max(0, as_old), rng.randrange(10 ** 7), rng.choice([0, 1, 2])), rec(as_new, rng.randrange(10 ** 7), rng.choice([1, 2]))
        clk = "%d %d %d %d" % (real // NS, real % NS, mono // NS, mono % NS)
        plines.append("cbp %s %s %s" % (o, n, clk))
        mlines.append("cba %s %s" % (o, clk))
    p_rust = c.run_lines(c.build_harness("debug")[0], plines)
    p_c = c.run_lines(F.build_c_driver(), plines, args=())
    p_model = c.run_model(mlines)
    for ln, rr, cc, mm in zip(plines, p_rust, p_c, p_model):
        res.evaluations += 1
        res.nontriv(ln)
        res.count("gen:publication while the call reads its clocks")
        if cc != rr:
            bad.append({"case": {"file": "live segment", "line": ln}, "why": ["the daemon published a new record while the call was reading its first clock: C library %s, Rust client %s "
                                                                            "(same segment, same instant); from the record that was in the segment when the call started the model gives %s" % (cc, rr, mm)]})
        elif rr != mm:
            diffs.append({"case": {"line": ln}, "what": "publication during the call: both libraries %s, model on the record present at the start of the call %s" % (rr, mm)})
    # a client that has attached but not called yet, and a header that changes under it before its first call
    # (the daemon begins an update, or is restarted over the segment): it holds no snapshot, so it answers
    # from the empty record - both libraries alike
    import os, shutil
    root = os.path.join(c.BUILD, "scratch", "sgo-%d" % os.getpid())
    shutil.rmtree(root, ignore_errors=True)
    os.makedirs(root)
    slines = {"rust": [], "c": []}
    smeta = []
    for k in range(12 if res.tier == "quick" else 300):
        recv = F.rand_record(rng)
        recv = recv[:6] + (rng.choice([1, 2]),)
        what = 1 + k % 3
        real = rng.randrange(10 ** 9) * NS + rng.randrange(NS)
        mono = recv[0] * NS + recv[1] + rng.choice([0, 1, 2 * NS, 6 * NS])
        for who in ("rust", "c"):
            pth = os.path.join(root, "%s-%d" % (who, k))
            with open(pth, "wb") as fh:
                fh.write(F.header(gen=rng.choice([2, 4, 100])) + F.record(recv))
            slines[who].append("sgo %s %d %d %d %d %d" % (pth, real // NS, real % NS, mono // NS, mono % NS, what))
        smeta.append((recv, what, real, mono))
    s_rust = c.run_lines(c.build_harness("debug")[0], slines["rust"])
    s_c = c.run_lines(F.build_c_driver(), slines["c"], args=())
    s_model = c.run_model(["cba 0 0 0 0 0 0 0 %d %d %d %d" % (real // NS, real % NS, mono // NS, mono % NS) for (_r, _w, real, mono) in smeta])
    shutil.rmtree(root, ignore_errors=True)
    for (recv, what, real, mono), rr, cc, mm in zip(smeta, s_rust, s_c, s_model):
        res.evaluations += 1
        res.count("gen:header changes between open and first call")
        res.nontriv(str((recv, what)))
        want = "K:ok N:" + mm.replace(" ", ":")
        if rr != cc:
            bad.append({"case": {"file": "valid segment %s; before the first call %s" % (recv, {1: "the generation turns odd", 2: "the version reads 0", 3: "the generation reads 0"}[what])},
                        "why": ["C library %s, Rust client %s (same segment, same moment, both attached before the change and neither had called before)" % (cc, rr)]})
        elif rr != want:
            diffs.append({"case": {"record": list(recv), "what": what}, "what": "both libraries %s, model on the empty record %s" % (rr, want)})
    # the same segment reached through paths of every length around the longest one open(2) takes (4095 bytes):
    # both libraries open it, or both report the failing open with ENAMETOOLONG
    root = os.path.join(c.BUILD, "scratch", "lng-%d" % os.getpid())
    shutil.rmtree(root, ignore_errors=True)
    os.makedirs(root)
    recv = F.rand_record(rng)[:5] + (50000, 1)      # a record both libraries answer from (the error outcomes of now() are the corpus's business)
    with open(os.path.join(root, "shm"), "wb") as fh:
        fh.write(F.header(gen=6) + F.record(recv))
    mono = recv[0] * NS + recv[1] + 2 * NS
    real = rng.randrange(10 ** 9) * NS + rng.randrange(NS)
    clk = "%d %d %d %d" % (real // NS, real % NS, mono // NS, mono % NS)
    lens = [len(root) + 4, 255, 256, 1023, 1024, 4000, 4093, 4094, 4095, 4096, 4097, 4098, 5000, 8192]
    llines = ["lng %s %d %s" % (root, n, clk) for n in lens]
    l_rust = c.run_lines(c.build_harness("debug")[0], llines)
    l_c = c.run_lines(F.build_c_driver(), llines, args=())
    l_model = c.run_model(["cba %d %d %d %d %d %d %d %s" % (recv + (clk,))])[0]
    shutil.rmtree(root, ignore_errors=True)
    for n, rr, cc in zip(lens, l_rust, l_c):
        res.evaluations += 1
        res.count("gen:segment path of a given length")
        res.nontriv("path-length-%d" % n)
        rf, cf = F.parse_fields(rr), F.parse_fields(cc)
        rkn, ckn = (F.canon_err(rf["K"]), F.canon_err(rf["N"])), (F.canon_err(cf["K"]), F.canon_err(cf["N"]))
        want = ("ok", l_model.replace(" ", ":")) if n <= 4095 else ("syscall:36:1", "-")
        if rf["len"] != cf["len"] or int(rf["len"]) != max(n, len(root) + 4):
            raise c.CheckError("lng: path lengths differ: asked %d, rust %s, c %s" % (n, rf["len"], cf["len"]))
        if rkn != ckn:
            bad.append({"case": {"file": "valid segment reached through a path of %d bytes" % n, "record": list(recv), "clock": clk},
                        "why": ["open and now(): C library %s, Rust client %s (same segment, same path, same instant)" % (ckn, rkn)]})
        elif rkn != want:
            bad.append({"case": {"file": "valid segment reached through a path of %d bytes" % n, "record": list(recv), "clock": clk},
                        "why": ["both libraries give %s; open(2) takes paths of up to 4095 bytes, the documented outcome is %s" % (rkn, want)]})
    res.samples = [F.describe(results[i]) for i in (0, 5, len(results) - 1)]
    res.traces_validated = len(results) - len(diffs)
    res.oblige("correspondence:daemon bytes vs Layout.encode_header/encode_ceb; now() of both client libraries vs Client.compute_bound_at on the decoded record", not diffs)
    res.oblige("C struct layout as compiled from clockbound.h = published layout", siz == C_LAYOUT)
    if bad:
        res.violation({"property": "C17", "kind": "input", "case": bad[0], "others": [b["case"].get("file") for b in bad[1:6]],
                       "predicate": "bytes at PROTOCOL.md offsets = published record; C library result = Rust client result",
                       "how_to_replay": "./check C17 --replay <this file>"})
    elif diffs:
        res.violation({"property": "C17", "kind": "obligation", "obligation": "correspondence (layout / now())", "first_differences": diffs[:3]}, found_input=False)
    if not proofs_ok:
        res.violation({"property": "C17", "kind": "obligation", "obligation": proofs_why}, found_input=False)


def replay(res, path):
    r = json.load(open(path))
    print(json.dumps(r.get("case") or r.get("first_differences"), indent=1)[:3000])
    res2 = c.Result("C17", "quick", res.seed)
    run(res2, True, "")
    for p, _ in res2.violations:
        print(open(p).read()[:1500])
    return 1 if res2.violations else 0
