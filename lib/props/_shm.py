"""Shared machinery of the segment-protocol properties C02 C03 C04 C18: measured configuration
(orderings, fences, copy order of the running code), schedule generators, model/implementation
runs on the same schedules, and independent oracles on the implementation's observation stream."""
import json
import os
import random
import re
import common as c

NCELL = 7
ORD = {0: "Rlx", 1: "Acq", 2: "Rel", 3: "AcqRel", 4: "SeqCst"}
RETRIES = 1000000


def cfg_line(cfg):
    f = lambda x: -1 if x is None else x   # noqa: E731
    return "shm %d %d %d %d %d %d %d %d %d %d %s %s" % (
        cfg["w_load"], cfg["w_odd"], f(cfg["w_fence"]), cfg["w_even"], cfg["r_ver"], cfg["r_g1"], f(cfg["r_fence"]), cfg["r_g2"],
        NCELL, cfg["retries"], " ".join(map(str, cfg["w_order"])), " ".join(map(str, cfg["r_order"])))


def tok_str(tokens):
    out = []
    for t in tokens:
        if t[0] == "R":
            out.append("R %d %d" % (t[1], t[2] if len(t) > 2 and t[2] is not None else -1))
        elif t[0] == "J":
            out.append("J %d" % t[1])
        else:
            out.append(t[0])
    return "%d %s" % (len(tokens), " ".join(out))


def line_of(cfg, tokens):
    return cfg_line(cfg) + " " + tok_str(tokens)


PLACEHOLDER = {"w_load": 1, "w_odd": 2, "w_fence": 2, "w_even": 2, "r_ver": 1, "r_g1": 1, "r_fence": 1, "r_g2": 1,
               "w_order": list(range(NCELL)), "r_order": list(range(NCELL)), "retries": RETRIES}


def measure_cfg(binary):
    """Run one complete write() and one accepting snapshot() of the real code under the tracing
    controller and read the configuration off the access trace.  Returns (cfg | None, trace, why)."""
    probe = c.run_lines(binary, [line_of(PLACEHOLDER, [("W",)] * 40)])[0].split()
    stores = [i for i, x in enumerate(probe) if x.startswith("A0.S.g.")]
    wlen = stores[1] + 1 if len(stores) >= 2 else 11
    toks = [("W",)] * wlen + [("N",)] + [("R", 0, None)] * 24
    out = c.run_lines(binary, [line_of(PLACEHOLDER, toks)])[0].split()
    w = [x for x in out if x.startswith("A0.")]
    r = [x for x in out if x.startswith("A1.")]
    # the writer's first write(): up to and including the second generation store
    cfg = {"w_order": [], "r_order": [], "retries": RETRIES, "w_fence": None, "r_fence": None}

    def parts(x):
        a = x.split(".")
        return a[1], a[2], int(a[3])
    try:
        i = 0
        k, l, o = parts(w[i]); assert (k, l) == ("L", "g"); cfg["w_load"] = o; i += 1
        k, l, o = parts(w[i]); assert (k, l) == ("S", "g"); cfg["w_odd"] = o; i += 1
        k, l, o = parts(w[i])
        if k == "F":
            cfg["w_fence"] = o; i += 1
        while parts(w[i])[0] == "W":
            cfg["w_order"].append(int(parts(w[i])[1][1:])); i += 1
        k, l, o = parts(w[i]); assert (k, l) == ("S", "g"); cfg["w_even"] = o; i += 1
        wlen = i
        assert sorted(cfg["w_order"]) == list(range(NCELL))
        i = 0
        k, l, o = parts(r[i]); assert (k, l) == ("L", "v"); cfg["r_ver"] = o; i += 1
        k, l, o = parts(r[i]); assert (k, l) == ("L", "g"); cfg["r_g1"] = o; i += 1
        while parts(r[i])[0] == "R":
            cfg["r_order"].append(int(parts(r[i])[1][1:])); i += 1
        k, l, o = parts(r[i])
        if k == "F":
            cfg["r_fence"] = o; i += 1
        k, l, o = parts(r[i]); assert (k, l) == ("L", "g"); cfg["r_g2"] = o; i += 1
        assert sorted(cfg["r_order"]) == list(range(NCELL))
        ridx = [n for n, x in enumerate(out) if x.startswith("A1.")]
        assert out[ridx[i - 1] + 1].startswith("T0.F."), "snapshot did not accept after the re-load"
    except (AssertionError, IndexError, ValueError) as e:
        return None, out, "access trace of write()/snapshot() does not have the shape the model's programs have: %r" % (e,)
    return cfg, out, ""


def coq_ord(o):
    return ORD[o]


def coq_cfg(cfg):
    fo = lambda x: "None" if x is None else "(Some %s)" % coq_ord(x)   # noqa: E731
    lst = lambda l: "[" + "; ".join("%d%%nat" % x for x in l) + "]"   # noqa: E731
    return "mkcfg %s %s %s %s %s %s %s %s %d%%nat %s %s %d%%N" % (
        coq_ord(cfg["w_load"]), coq_ord(cfg["w_odd"]), fo(cfg["w_fence"]), coq_ord(cfg["w_even"]),
        coq_ord(cfg["r_ver"]), coq_ord(cfg["r_g1"]), fo(cfg["r_fence"]), coq_ord(cfg["r_g2"]),
        NCELL, lst(cfg["w_order"]), lst(cfg["r_order"]), cfg["retries"])


def current_obligation(cfg, pid, body):
    """Write .build/current/Current_<pid>.v (measured configuration + the side conditions the
    property's theorems need for it) and compile it.  Returns (ok, log)."""
    d = os.path.join(c.BUILD, "current")
    os.makedirs(d, exist_ok=True)
    f = os.path.join(d, "Current_%s.v" % pid)
    with open(f, "w") as fh:
        fh.write("(* generated on every run from the access trace of the running code *)\n")
        fh.write("From Coq Require Import ZArith List NArith.\nFrom CB Require Import Machine.\nImport ListNotations.\n")
        if cfg is not None:
            fh.write("Definition current_cfg : cfg := %s.\n" % coq_cfg(cfg))
        fh.write(body)
    # the generated file may import the theorems of other properties: their compiled files must be those
    # of the present sources (a stale one is refused by coqc with "inconsistent assumptions")
    import re
    deps = sorted(set(re.findall(r"\bC\d\d\b", " ".join(re.findall(r"From CB\.Properties Require Import ([^.]*)\.", body)))))
    if deps:
        with c.Lock("coq"):
            c.sh(["timeout", "3000", "make", "-j16"] + ["Properties/%s.vo" % x for x in deps], cwd=c.COQ, timeout=3100, check=False)
    p = c.sh(["timeout", "900", "coqc", "-noglob", "-Q", c.COQ, "CB", f], cwd=d, timeout=1000, check=False)
    return p.returncode == 0, p.stdout[-3000:]


# ------------------------------------------------------------------ observation stream
def parse_obs(out):
    """-> list of dicts: {'t': 'A', who, kind, loc, ord, val} | {'t': 'T', j, ret, cells} | {'t': 'K'|'X'} | {'t': 'M', mem}"""
    res = []
    for x in out.split():
        if x[0] == "A":
            a = x.split(".")
            res.append({"t": "A", "who": int(a[0][1:]), "kind": a[1], "loc": a[2], "ord": int(a[3]), "val": int(a[4])})
        elif x[0] == "T":
            a = x.split(".")
            cells = [int(v) for v in a[2].split(",")] if len(a) > 2 else None
            res.append({"t": "T", "j": int(a[0][1:]), "ret": a[1], "cells": cells})
        elif x[0] == "M":
            res.append({"t": "M", "mem": [int(v) for v in x[2:].split(",")]})
        else:
            res.append({"t": x})
    return res


def rec_index(cells):
    """publication number of a complete record, 0 for the empty record, None for a mixture"""
    if all(v == 0 for v in cells):
        return 0
    if cells[0] == 7:
        # the family of `shmc` (Machine.rec_of_c): as-of and bound the same in every publication
        k = cells[2] // 1000
        if k >= 1 and cells[1] == 8 and cells[4] == 9 and all(cells[i] == 1000 * k + i for i in (2, 3, 5)) and cells[6] == k % 3:
            return k
        return None
    k = cells[0] // 1000
    if k >= 1 and all(cells[i] == 1000 * k + i for i in range(6)) and cells[6] == k % 3:
        return k
    return None


def walk(tokens, obs):
    """Align tokens with the observation stream; yields per token (tok, [obs items]).
    C is skipped (K) iff the writer is already dead, S iff it is not dead, N iff the segment has
    never been published to (generation 0), W iff the writer is dead, R iff reader j does not exist."""
    i = 0
    dead, gen, nreaders, busy = False, 0, 0, False
    for t in tokens:
        items = []
        if t[0] == "W":
            if dead:
                items.append(obs[i]); i += 1
            elif i < len(obs) and obs[i]["t"] == "A":
                busy = True
                if obs[i]["kind"] == "S" and obs[i]["loc"] == "g":
                    gen = obs[i]["val"]
                    if gen % 2 == 0:
                        busy = False
                items.append(obs[i]); i += 1
        elif t[0] == "J":
            if busy and not dead:
                items.append(obs[i]); i += 1
            else:
                gen = t[1]
                items.append({"t": "J", "val": t[1]})
        elif t[0] == "R":
            if t[1] >= nreaders:
                items.append(obs[i]); i += 1
            else:
                if i < len(obs) and obs[i]["t"] in ("A", "X"):
                    items.append(obs[i]); i += 1
                if i < len(obs) and obs[i]["t"] == "T" and items and items[0]["t"] == "A":
                    items.append(obs[i]); i += 1
        elif t[0] == "C":
            if dead:
                items.append(obs[i]); i += 1
            dead = True
        elif t[0] == "S":
            if not dead:
                items.append(obs[i]); i += 1
            else:
                busy = False
            dead = False
        elif t[0] == "N":
            if gen == 0:
                items.append(obs[i]); i += 1
            else:
                nreaders += 1
        yield t, items


def judge(tokens, out, want, ra=False):
    """Oracles on the implementation's observations (independent of the model).  ra: the schedule
    contains loads that return older stores (release/acquire executions): real-time freshness is
    not promised there, everything else is."""
    if out.startswith("STUCK"):
        return ["the schedule could not be completed: the daemon's writer (starting over the segment) or a client (attaching, or inside a call) "
                "did not reach its next access within the engine's time-out - a call that does not return"] if want in ("C18", "C04") else []
    obs = parse_obs(out)
    bad = []
    completed = 0          # publications completed so far
    started = 0
    in_flight = False      # an update between its first and last store (incl. abandoned by a crash)
    gen_seen_nonzero = False
    calls = {}             # reader j -> state of the call in progress
    last_ret = {}          # reader j -> last returned publication index
    writer_steps_total = 0
    cached_gen = {}        # reader j -> generation stored with its cached record
    gstores = 0
    memgen = 0             # the generation the writer (or the J device) stored last: what the segment holds
    gens_of_pub = {}       # publication k -> generations the segment held while k was its latest complete publication
    for t, items in walk(tokens, obs):
        if t[0] == "W":
            for it in items:
                if it["t"] != "A":
                    continue
                writer_steps_total += 1
                if it["kind"] == "W" and it["loc"] != "c6" and it["val"] >= 1000:
                    started = it["val"] // 1000          # publication number carried by the cells being stored
                if it["kind"] == "L":
                    gstores = 0                          # a write() call begins with its generation load
                if it["kind"] == "S" and it["loc"] == "g":
                    memgen = it["val"]
                    gstores += 1
                    if gstores == 1:
                        in_flight = True                 # first generation store of the call
                    else:
                        in_flight = False                # second one: the call is complete
                        completed = started
                        gens_of_pub.setdefault(completed, set()).add(memgen)
                        if want in ("C03", "C04", "C02") and it["val"] % 2 == 1:
                            bad.append("a completed update left the generation odd (%d): clients keep serving their previous record" % it["val"])
                        if want in ("C03", "C04") and it["val"] == 0:
                            bad.append("a completed update left the generation 0: the segment reads 'being re-initialised', attached clients keep serving "
                                       "their previous record although the publication is complete, and nobody can attach")
                    if want == "C04" and it["val"] == 0:
                        bad.append("writer stored generation 0")
                for cj in calls.values():
                    cj["writer_moved"] = True
        elif t[0] == "C":
            pass
        elif t[0] == "J":
            if items and items[0].get("t") == "J":
                memgen = t[1]
        elif t[0] == "R":
            j = t[1]
            for it in items:
                if it["t"] == "A":
                    cj = calls.setdefault(j, {"n": 0, "writer_moved": False, "in_flight_at_entry": in_flight,
                                              "completed_at_entry": completed})
                    cj["n"] += 1
                    if cj["n"] == 2 and it["kind"] == "L" and it["loc"] == "g":
                        cj["g1"] = it["val"]
                    if it["kind"] == "L" and it["loc"] == "g":
                        cj["lastg"] = it["val"]
                        if not in_flight:
                            gens_of_pub.setdefault(completed, set()).add(memgen)
                        if not ra and want in ("C03", "C04") and it["val"] != memgen:
                            bad.append("reader %d loaded generation %d while the segment holds %d: the client is not looking at the memory the daemon "
                                       "publishes to (it must see a restarted daemon's publications without reopening)" % (j, it["val"], memgen))
                elif it["t"] == "T":
                    cj = calls.pop(j, {"n": 0, "writer_moved": False, "in_flight_at_entry": in_flight, "completed_at_entry": completed})
                    if want == "C18":
                        if cj["n"] > 2 + RETRIES * (NCELL + 3):
                            bad.append("reader %d: %d accesses in one call" % (j, cj["n"]))
                    if want in ("C18", "C03", "C04"):
                        g1 = cj.get("g1")
                        if g1 is not None and (g1 == 0 or g1 % 2 == 1) and (cj["n"] != 2 or it["ret"] != "C"):
                            bad.append("reader %d did not answer from its previous snapshot at once although the generation was %d "
                                       "(update in flight / segment being re-initialised)" % (j, g1))
                    if it["ret"] == "E":
                        continue
                    k = rec_index(it["cells"])
                    if k is None:
                        if want in ("C02", "C04"):
                            bad.append("reader %d obtained a record that is a mixture: %s" % (j, it["cells"]))
                        continue
                    if want in ("C02", "C04") and k > completed and not (k == started and False):
                        bad.append("reader %d obtained record %d which was never published in full (completed: %d)" % (j, k, completed))
                    if want in ("C03", "C04"):
                        if j in last_ret and k < last_ret[j]:
                            bad.append("reader %d went back from publication %d to %d" % (j, last_ret[j], k))
                    if it["ret"] == "F":
                        cached_gen[j] = cj.get("lastg")
                    # the documented exception: the generation the call found is one the segment held while the record
                    # the client caches was its latest publication (so the cache looks current although it is not)
                    aba = it["ret"] == "C" and cj.get("g1") is not None and cj.get("g1") in gens_of_pub.get(k, ())
                    if want == "C03" and not ra:
                        # documented exception: the live generation coincides with the cached one
                        reinit = cj.get("g1") == 0       # generation 0: the segment reads "being re-initialised", the cache is served by design
                        if not aba and not reinit and not cj["writer_moved"] and not cj["in_flight_at_entry"] and not in_flight and k != completed:
                            bad.append("reader %d returned publication %d although %d was complete and the writer idle during the call" % (j, k, completed))
                    last_ret[j] = k
    return bad


# ------------------------------------------------------------------ schedule generators
def gen_schedule(rng, kind):
    """kind: 'plain' (writer and 1-2 readers), 'crash' (with C / S tokens)"""
    toks = []
    nread = rng.choice([1, 1, 2])
    # a first publication so that readers can attach (sometimes partially, sometimes none)
    pre = rng.choice([0, 11, 11, 11, 22, rng.randrange(0, 12)])
    toks += [("W",)] * pre
    toks += [("N",)] * nread
    n = rng.randrange(10, 90)
    for _ in range(n):
        x = rng.random()
        if kind == "crash" and x < 0.04:
            toks.append(("C",))
            if rng.random() < 0.8:
                toks += [("R", rng.randrange(nread), None)] * rng.randrange(0, 4)
                toks.append(("S",))
        elif kind == "crash" and x < 0.06:
            toks.append(("S",))
        elif kind == "crash" and x < 0.08:
            toks.append(("N",))
        elif x < 0.5:
            toks += [("W",)] * rng.choice([1, 1, 1, 2, 3, 11])
        else:
            toks += [("R", rng.randrange(nread), None)] * rng.choice([1, 1, 1, 2, 5, 13])
    # let every call in progress finish with the writer idle
    for j in range(nread):
        toks += [("R", j, None)] * 14
    return toks


def gen_ra(rng):
    """Release/acquire executions: a reader's load may return an older store (R j k, k = index of
    the store in the writer's log).  Candidates only: the model is asked which choices are legal
    (clean_ra) before the real reader is run on them under the engine's simulated memory."""
    nread = rng.choice([1, 1, 2])
    toks = [("W",)] * 11 + [("N",)] * nread
    nlog = 10 + 9                       # init log + version store + one publication
    for _ in range(rng.randrange(8, 40)):
        if rng.random() < 0.45:
            k = rng.choice([1, 2, 3, 5, 11, 11])
            toks += [("W",)] * k
            nlog += k                   # upper estimate (loads and fences store nothing)
        else:
            j = rng.randrange(nread)
            for _ in range(rng.choice([1, 2, 5, 13])):
                if rng.random() < 0.55:
                    toks.append(("R", j, None))
                else:
                    # a few candidates for this load: only the legal one on the right location survives
                    for _ in range(3):
                        toks.append(("R", j, max(0, nlog - 1 - rng.randrange(0, 30))))
    for j in range(nread):
        toks += [("R", j, None)] * 14
    return toks


def gen_reinit(rng):
    """The header reads uninitialised (generation 0) when the daemon restarts under attached clients:
    it re-initialises the segment in place, and the clients must see what it publishes afterwards
    through the mapping they hold.  Outside the machine's state space (its theorems assume a valid
    header while a client is attached), so these schedules are judged by the oracle only."""
    R13 = [("R", 0, None)] * 13
    W11 = [("W",)] * 11
    toks = W11 + [("N",)] + R13 + [("W",)] * rng.choice([0, 11, 22]) + [("J", 0), ("C",)] + [("R", 0, None)] * rng.choice([0, 2])
    toks += [("S",)] + [("R", 0, None)] * rng.choice([0, 2]) + W11 + R13 + W11 + R13 + R13
    return toks


def clean_ra(cfg, scheds):
    """drop the R tokens whose choice the machine refuses (not an event on the location being
    loaded, or not readable by that reader now): a refused token leaves the machine unchanged"""
    outs = c.run_model([line_of(cfg, s) for s in scheds], timeout=1800)
    cleaned = []
    for s, out in zip(scheds, outs):
        keep = []
        for t, items in walk(s, parse_obs(out)):
            if t[0] == "R" and items and items[0]["t"] == "X":
                continue
            keep.append(t)
        cleaned.append(keep)
    return cleaned


def gen_wrap(rng):
    """Deep states reached with the J (jump) token: the 16-bit wrap, readers that skip many
    publications, a crash in the update that passes through 65535."""
    R13 = [("R", 0, None)] * 13
    W11 = [("W",)] * 11
    kind = rng.randrange(5)
    if kind == 4:      # the segment reads "being re-initialised" (generation 0) while clients hold a record
        v = rng.random()
        if v < 0.5:
            toks = W11 + [("N",)] + R13 + [("W",)] * rng.choice([0, 11]) + [("J", 0)] + [("R", 0, None)] * rng.choice([2, 13]) + [("N",)]
            toks += [("W",)] * rng.choice([3, 11]) + R13 + W11 + R13
        else:
            # ... or starts reading so while a call is copying the record of a new publication
            toks = W11 + [("N",)] + R13 + W11 + [("R", 0, None)] * rng.choice([2, 3, 5, 9, 10]) + [("J", 0)] + [("R", 0, None)] * 40
            toks += W11 + R13 + R13
    elif kind == 0:    # follow the counter through the wrap
        toks = W11 + [("J", rng.choice([65526, 65528, 65530, 65532]))] + [("N",)] + R13
        for _ in range(rng.randrange(3, 9)):
            toks += [("W",)] * rng.choice([11, 11, 5, 6]) + [("R", 0, None)] * rng.choice([13, 13, 2, 7])
        toks += W11 + R13 + R13
    elif kind == 1:    # a reader that slept through many publications (not a multiple of 32767)
        toks = W11 + [("N",)] + R13 + [("J", 2 + 2 * rng.choice([1, 5, 16383, 16384, 16385, 20000, 30000, 32766]))] + W11 + R13 + R13
    elif kind == 2:    # daemon dies in the update that passes through 65535, restart, publish
        toks = W11 + [("N",)] + R13 + [("J", rng.choice([65534, 65532]))]
        toks += [("W",)] * rng.choice([2, 3, 5, 10, 13]) + [("C",)] + [("R", 0, None)] * rng.choice([0, 2, 13]) + [("S",)]
        toks += [("W",)] * rng.choice([11, 22, 4]) + R13 + [("N",)] + [("R", 1, None)] * 13 + W11 + R13
    else:              # crash with an odd generation anywhere, restart, readers old and new
        toks = W11 + [("N",)] + R13 + [("J", 2 * rng.randrange(2, 32767))] + [("W",)] * rng.randrange(2, 11) + [("C",), ("S",)]
        toks += [("R", 0, None)] * rng.choice([2, 13]) + [("N",)] + [("R", 1, None)] * 13 + W11 + R13 + [("R", 1, None)] * 13
    return toks


def whole_publications_inside_a_call():
    """one or two whole publications between any two consecutive accesses of one snapshot() call, the writer idle
    afterwards while the client calls again"""
    scheds = []
    for pos in range(0, 16):
        for m in (1, 2):
            scheds.append([("W",)] * 11 + [("N",)] + [("R", 0, None)] * pos + [("W",)] * (11 * m) + [("R", 0, None)] * 40)
            scheds.append([("W",)] * 22 + [("N",)] + [("R", 0, None)] * 13 + [("W",)] * 11 + [("R", 0, None)] * pos + [("W",)] * (11 * m) + [("R", 0, None)] * 40)
    return scheds


def small_scope(max_w=12, positions=None):
    """All placements of one complete snapshot's accesses (13) into one complete update (11
    writer accesses) after a first publication: the classic seqlock interleavings, exhaustively
    over the entry point of the reader and a split point."""
    scheds = []
    for a in range(0, 12):           # writer accesses of the second update before the reader starts
        for b in range(0, 14):       # reader accesses before the writer continues
            for c2 in range(0, 12 - a):
                toks = [("W",)] * 11 + [("N",)] + [("W",)] * a + [("R", 0, None)] * b + [("W",)] * c2 + [("R", 0, None)] * 40
                scheds.append(toks)
    return scheds


def run_property(pid, res, proofs_ok, proofs_why, extra_part=None):
    rng = random.Random(res.seed * 2654435761 % (2 ** 31) + int(pid[1:]))
    binary = c.build_harness("debug")[0]
    cfg, trace, why = measure_cfg(binary)
    res.extra["measured_cfg"] = cfg
    res.extra["measured_trace"] = " ".join(trace[:26])
    res.oblige("measured-configuration:write()/snapshot() access traces fit the model's programs", cfg is not None)
    if cfg is None:
        res.violation({"property": pid, "kind": "obligation", "obligation": "measured configuration: " + why,
                       "trace": trace[:40]}, found_input=False)
        # the programs no longer have the shape the model knows, so there is nothing to compare with; the
        # schedules are still run on the real code and judged by the oracle alone, in search of a failing input
        scheds = list(small_scope()) + whole_publications_inside_a_call()
        for i in range(300 if res.tier == "quick" else 5000):
            scheds.append(gen_schedule(rng, "crash" if i % 4 == 0 else "plain"))
        for i in range(100 if res.tier == "quick" else 2000):
            a, b = rng.randrange(0, 12), rng.choice([2, 3, 4, 9, 10, 11, 12])
            c2, d = rng.choice([1, 2, 3, 9, 10, 11]), rng.randrange(1, 14)
            scheds.append([("W",)] * 11 + [("N",)] + [("W",)] * a + [("R", 0, None)] * b + [("W",)] * c2 + [("R", 0, None)] * d
                          + [("W",)] * rng.choice([1, 2, 8, 9, 11, 12]) + [("R", 0, None)] * 40 + [("W",)] * 11 + [("R", 0, None)] * 13)
        try:
            outs = c.run_lines_hang_aware(binary, [line_of(PLACEHOLDER, sc) for sc in scheds], "hang")
        except c.CheckError as e:
            outs = []
            res.extra["oracle_only_search_error"] = str(e)[-300:]
        res.evaluations = len(outs)
        bad = []
        for sc, o in zip(scheds, outs):
            res.count("gen:oracle-only search (configuration not recognised)")
            try:
                why = judge(sc, o, pid) if o != "hang" else ["the schedule did not complete within 5 s"]
            except Exception:          # an observation stream the oracle cannot read is not a failing input
                why = []
            if why:
                bad.append({"schedule": tok_str(sc), "impl": o, "why": why})
        if bad:
            res.violation({"property": pid, "kind": "schedule", "case": bad[0], "others": [b["schedule"][:200] for b in bad[1:4]],
                           "predicate": "oracle of %s on the implementation's observation stream (lib/props/_shm.py judge)" % pid,
                           "how_to_replay": "./check %s --replay <this file>" % pid})
        res.rule = "the access trace could not be mapped to a configuration: schedules run on the implementation only and judged by the oracle"
        return None, None
    n = {"quick": 1500, "thorough": 30000}[res.tier]
    scheds, tags = [], []
    for s in small_scope():
        scheds.append(s); tags.append("small-scope")
    if res.tier == "quick":
        keep = list(range(0, len(scheds), 3))
        scheds, tags = [scheds[i] for i in keep], [tags[i] for i in keep]
    for s in whole_publications_inside_a_call():
        scheds.append(s); tags.append("whole publications between two accesses of a call")
    for i in range(n):
        kind = "crash" if (pid == "C04" or i % 4 == 0) else "plain"
        scheds.append(gen_schedule(rng, kind)); tags.append(kind)
    for i in range(n // 5):
        scheds.append(gen_wrap(rng)); tags.append("wrap/skip/crash-at-wrap")
    # one snapshot() call interleaved with two updates in six bursts (writer, reader, writer, reader, ...):
    # the update begins between two loads of the call and ends between two later ones
    for i in range(n // 5):
        a, b = rng.randrange(0, 12), rng.choice([2, 3, 4, 9, 10, 11, 12])
        c2, d = rng.choice([1, 2, 3, 9, 10, 11]), rng.randrange(1, 14)
        e = rng.choice([1, 2, 8, 9, 11, 12])
        scheds.append([("W",)] * 11 + [("N",)] + [("W",)] * a + [("R", 0, None)] * b + [("W",)] * c2 + [("R", 0, None)] * d
                      + [("W",)] * e + [("R", 0, None)] * 40 + [("W",)] * 11 + [("R", 0, None)] * 13)
        tags.append("six-bursts")
    lines = [line_of(cfg, s) for s in scheds]
    # every third schedule publishes records whose as-of instants run down from one publication to the
    # next (`shmd`; the observations are mapped back, so the model run is the same): what the records say
    # must not matter to the protocol (the theorems hold for every record function, class RecFun)
    desc = [k % 3 == 2 for k in range(len(lines))]
    # ... and another third publishes records with the same as-of instant and the same bound every time
    # (`shmc`, Machine.rec_of_c: what the daemon writes while chronyd is silent), compared with the machine
    # publishing the same records
    lines = [("shmc" + ln[3:]) if k % 3 == 1 else ln for k, ln in enumerate(lines)]
    impl = c.run_lines(binary, [("shmd" + ln[3:]) if d else ln for ln, d in zip(lines, desc)], timeout=1800)
    model = c.run_model(lines, timeout=1800)
    res.evaluations = len(lines)
    diffs, bad = [], []
    for k_, (s, tg, ln, i, m) in enumerate(zip(scheds, tags, lines, impl, model)):
        res.count("gen:" + tg)
        if desc[k_]:
            res.count("records:as-of running down")
        if ln.startswith("shmc"):
            res.count("records:as-of and bound the same in every publication")
        ntoks = {"W": 0, "R": 0, "C": 0, "S": 0, "N": 0, "J": 0}
        for t in s:
            ntoks[t[0]] += 1
        if ntoks["W"] and ntoks["R"]:
            res.nontriv(ln)
        if i != m:
            diffs.append({"schedule": tok_str(s), "impl": i, "model": m, "descending_as_of": desc[k_], "constant_as_of": ln.startswith("shmc")})
        why = judge(s, i, pid)
        if why:
            bad.append({"schedule": tok_str(s), "impl": i, "model": m, "why": why, "descending_as_of": desc[k_], "constant_as_of": ln.startswith("shmc")})
    res.rule = ("schedules = one token per shared access (W writer, R reader j, C crash, S restart, N new reader) executed on the real "
                "ShmWriter/ShmReader threads under the shim's scheduler and on Machine.m_run; small-scope = every placement of one "
                "snapshot into one update (a, b, c split points); non-trivial = schedule with writer and reader accesses interleaved")
    res.samples = [{"schedule": tok_str(scheds[k])[:300], "impl": impl[k][:400]} for k in (0, len(scheds) // 2, len(scheds) - 1)]
    res.traces_validated = len(lines) - len(diffs)
    res.oblige("correspondence:real write()/snapshot() vs Machine.m_run on SC schedules (every access, every result, final memory)", not diffs)
    res.trusted_base += ["shim (clock-bound-shm/src/verif.rs): every atomic access and every 8-byte cell of the record copy is announced before it is performed",
                         "engine (harness/src/engine.rs): one OS thread per writer/reader, exactly one thread runs between two announcements",
                         "single-writer release/acquire machine of Shm/Machine.v as the model of the Rust/C11 memory model for this protocol; plain record accesses treated as relaxed per 8-byte cell"]
    # release/acquire executions on the real reader: the engine's simulated memory hands the loads of
    # the real snapshot() the older stores the machine allows
    stuck = sum(1 for i in impl if i.startswith("STUCK"))
    res.extra["schedules_that_got_stuck"] = stuck
    ra = clean_ra(cfg, [gen_ra(rng) for _ in range(n // 5 if stuck < 5 else 3)])     # (each stuck schedule costs a time-out)
    ra_lines = [line_of(cfg, s) for s in ra]
    ra_impl = c.run_lines(binary, ra_lines, timeout=1800)
    ra_model = c.run_model(ra_lines, timeout=1800)
    res.evaluations += len(ra_lines)
    ra_diffs, stale = [], 0
    for s, ln, i, m in zip(ra, ra_lines, ra_impl, ra_model):
        res.count("gen:release/acquire choices")
        nstale = sum(1 for t in s if t[0] == "R" and t[2] is not None)
        stale += nstale
        if nstale:
            res.nontriv(ln)
        if i != m:
            ra_diffs.append({"schedule": tok_str(s), "impl": i, "model": m})
        why = judge(s, i, pid, ra=True)
        if why:
            bad.append({"schedule": tok_str(s), "impl": i, "model": m, "why": why + ["(release/acquire execution: R j k = the load returned store k of the log)"]})
    res.extra["ra_loads_returning_an_older_store"] = stale
    res.traces_validated += len(ra_lines) - len(ra_diffs)
    res.oblige("correspondence:real snapshot() under simulated memory vs Machine.m_run on release/acquire executions (loads returning older stores the machine allows)", not ra_diffs)
    diffs += ra_diffs
    # re-initialisation of the segment under attached clients (oracle only, see gen_reinit)
    if pid in ("C03", "C04"):
        rs = [gen_reinit(rng) for _ in range(max(6, n // 100))]
        routs = c.run_lines(binary, [line_of(cfg, s) for s in rs], timeout=900)
        res.evaluations += len(rs)
        for s, o in zip(rs, routs):
            res.count("gen:re-initialisation under attached clients")
            why = judge(s, o, pid)
            if why:
                bad.append({"schedule": tok_str(s), "impl": o, "why": why})
    if extra_part:
        bad += extra_part(res, cfg, binary, rng) or []
    if bad:
        res.violation({"property": pid, "kind": "schedule", "case": bad[0], "others": [b["schedule"][:200] for b in bad[1:4] if "schedule" in b],
                       "predicate": "oracle of %s on the implementation's observation stream (lib/props/_shm.py judge)" % pid,
                       "how_to_replay": "./check %s --replay <this file>" % pid})
    elif diffs:
        res.violation({"property": pid, "kind": "obligation",
                       "obligation": "correspondence:real write()/snapshot() vs Machine.m_run",
                       "first_differences": diffs[:3], "count": len(diffs)}, found_input=False)
    if not proofs_ok:
        res.violation({"property": pid, "kind": "obligation", "obligation": proofs_why}, found_input=False)
    return cfg, binary


def parse_tok_str(s):
    t = s.split()
    i, toks = 1, []
    while i < len(t):
        if t[i] == "R":
            k = int(t[i + 2])
            toks.append(("R", int(t[i + 1]), None if k < 0 else k)); i += 3
        elif t[i] == "J":
            toks.append(("J", int(t[i + 1]))); i += 2
        else:
            toks.append((t[i],)); i += 1
    return toks


def replay_property(pid, res, path):
    r = json.load(open(path))
    case = r.get("case") or (r.get("first_differences") or [{}])[0]
    sched = case.get("schedule")
    if not sched:
        print("replay file carries no schedule (obligation-only violation): %s" % r.get("obligation"))
        return 1
    binary = c.build_harness("debug")[0]
    cfg, _, why = measure_cfg(binary)
    if cfg is None:
        print("configuration cannot be measured: " + why)
        toks = parse_tok_str(sched)
        i = c.run_lines(binary, [line_of(PLACEHOLDER, toks)])[0]
        w = judge(toks, i, pid)
        print("schedule %s\nimpl  %s\npredicate: %s" % (sched, i, w or "holds"))
        return 1
    toks = parse_tok_str(sched)
    ln = line_of(cfg, toks)
    if case.get("constant_as_of"):
        ln = "shmc" + ln[3:]
    i, m = c.run_lines(binary, [("shmd" + ln[3:]) if case.get("descending_as_of") else ln])[0], c.run_model([ln])[0]
    why = judge(toks, i, pid, ra=any(t[0] == "R" and t[2] is not None for t in toks))
    print("schedule %s\nimpl  %s\nmodel %s\npredicate: %s" % (sched, i, m, why or "holds"))
    return 1 if (why or i != m) else 0
