"""C07 - bound = |offset| + dispersion + delay/2 (+PHC), rounded up, never negative.
Theorems: Properties/C07.v.  Correspondence: the real private extract_bound_from_tracking (through
the cfg-gated wrapper) on Tracking values deserialised from crafted reply packets, so that
arbitrary wire words reach the code; compared bit for bit with Bound.bound_of_words.
Oracle: exact rational evaluation of the README formula on the same wire words."""
import json
import random
from fractions import Fraction
import common as c
import cfloat

U = Fraction(1, 2 ** 53)
NS = 10 ** 9


def exact_sum_ns(d, e, o):
    return (cfloat.decode(d) / 2 + cfloat.decode(e) + abs(cfloat.decode(o))) * NS


def meaningful(d, e, o):
    vd, ve, vo = cfloat.decode(d), cfloat.decode(e), cfloat.decode(o)
    return 0 <= vd < 1024 and 0 <= ve < 1024 and abs(vo) < 1024


def rand_word(rng, signed, max_exp=10):
    """a chrony float word; magnitude below 2^max_exp"""
    kind = rng.random()
    if kind < 0.05:
        return 0
    exp = rng.randrange(-64, max_exp + 1)          # exponent field: value = coef * 2^(exp-25)
    if kind < 0.6:
        coef = rng.randrange(1 << 23, 1 << 24)      # normalised
    elif kind < 0.8:
        coef = rng.choice([1, 2, 3, (1 << 24) - 1, 1 << 23, rng.randrange(1, 1 << 24)])
    else:
        coef = rng.randrange(1, 1 << 12)
    if signed and rng.random() < 0.5:
        coef = -coef
    return cfloat.word(coef, exp)


def gen(rng, n):
    lines, tags = [], []
    for _ in range(n):
        d, e, o = rand_word(rng, False), rand_word(rng, False), rand_word(rng, True)
        lines.append("bnd %d %d %d" % (d, e, o))
        tags.append("random-meaningful")
    # realistic magnitudes: delay 0.1 ms..200 ms, dispersion 1 us..50 ms, offset +-(1 ns..100 ms)
    for _ in range(n // 2):
        d = cfloat.encode(rng.uniform(1e-4, 0.2))
        e = cfloat.encode(rng.uniform(1e-6, 0.05))
        o = cfloat.encode(rng.choice([-1, 1]) * 10 ** rng.uniform(-9, -1))
        lines.append("bnd %d %d %d" % (d, e, o))
        tags.append("realistic")
    # sums with a small fractional part in ns (rounding direction matters)
    for _ in range(n // 4):
        k = rng.randrange(1, 10 ** 7)
        frac = rng.choice([1e-3, 0.2, 0.49, 0.5, 0.51, 0.99])
        o = cfloat.encode(rng.choice([-1, 1]) * (k + frac) * 1e-9)
        lines.append("bnd 0 0 %d" % o)
        tags.append("fractional-ns")
        lines.append("bnd %d %d 0" % (cfloat.encode(2 * (k + frac) * 1e-9), 0))
        tags.append("fractional-ns")
    # every exponent with extreme coefficients; values outside the meaningful range too
    for exp in range(-64, 64):
        for coef in (1, (1 << 24) - 1, -1, -(1 << 24)):
            w = cfloat.word(coef, exp)
            lines.append("bnd %d 0 0" % (w & 0xffffffff))
            tags.append("all-exponents")
            lines.append("bnd 0 %d 0" % (w & 0xffffffff))
            tags.append("all-exponents")
            lines.append("bnd 0 0 %d" % (w & 0xffffffff))
            tags.append("all-exponents")
    return lines, tags


def judge(line, out):
    """-> (violations, known) on the implementation's output"""
    _, d, e, o = line.split()
    d, e, o = int(d), int(e), int(o)
    if out == "panic":
        return (["panic"], None) if meaningful(d, e, o) else ([], None)
    b = int(out)
    if not meaningful(d, e, o):
        return [], None
    bad, known = [], None
    s = exact_sum_ns(d, e, o)
    if b < 0:
        bad.append("negative bound %d" % b)
    if b < s:
        if s - b <= 4 * U * s:
            known = "deficit %.3g ns <= 4*2^-53*sum (binary64 rounding)" % float(s - b)
        else:
            bad.append("bound %d smaller than the exact sum %s ns" % (b, float(s)))
    if not b < s * (1 + 5 * U) + 1:
        bad.append("bound %d not the sum %s ns rounded up (more than 1 ns above)" % (b, float(s)))
    return bad, known


def run(res, proofs_ok, proofs_why, only=None):
    rng = random.Random(res.seed * 7919 + 7)
    n = 4000 if res.tier == "quick" else 400000
    if only is None:
        lines, tags = gen(rng, n)
        corpus = c.corpus_lines("C07")
        lines, tags = corpus + lines, ["corpus"] * len(corpus) + tags
    else:
        lines, tags = only, ["replay"] * len(only)
    res.rule = ("wire-word triples (delay, dispersion, offset); distinct = distinct triples; non-trivial = inside the meaningful range "
                "(non-negative delay/dispersion, magnitudes < 1024 s) with a non-zero sum")
    model = c.run_model(lines)
    impl_d = c.run_lines(c.build_harness("debug")[0], lines)
    impl_r = c.run_lines(c.build_harness("release")[0], lines)
    res.evaluations = 2 * len(lines)
    diffs, bad, nknown = [], [], 0
    for ln, tg, m, a, b in zip(lines, tags, model, impl_d, impl_r):
        res.count("gen:" + tg)
        t = [int(x) for x in ln.split()[1:]]
        if meaningful(*t) and exact_sum_ns(*t) != 0:
            res.nontriv(ln)
            res.count("offset<0" if cfloat.decode(t[2]) < 0 else "offset>=0")
        for prof, out in (("debug", a), ("release", b)):
            if out != m:
                diffs.append({"case": ln, "profile": prof, "impl": out, "model": m})
            why, known = judge(ln, out)
            if why:
                bad.append({"case": ln, "profile": prof, "impl": out, "model": m, "why": why,
                            "exact_sum_ns": str(exact_sum_ns(*t))})
            if known:
                nknown += 1
                if not res.known_finding("C07-fp", "strict 'never smaller' fails by binary64 rounding only: " + known + " on " + ln):
                    bad.append({"case": ln, "profile": prof, "impl": out, "why": ["rounding deficit not listed as a known finding: " + known]})
    res.count("known-class C07-fp instances", nknown)
    res.samples = [{"case": lines[i], "impl": impl_d[i], "model": model[i]} for i in range(0, len(lines), max(1, len(lines) // 6))][:6]
    res.traces_validated = res.evaluations - len(diffs)
    res.oblige("correspondence:extract_bound_from_tracking[bound,debug+release]", not diffs)
    # PHC term: one synchronised report through the real process_messages, phc added verbatim
    phc_bad = phc_part(res, rng)
    bad += phc_bad
    res.trusted_base.append("Flocq binary_float 53 1024 as the meaning of rustc f64 (+, /, *, ceil, abs, as i64), compared bit for bit")
    res.trusted_base.append("chrony-candm 0.1.1 Reply::deserialize used to put raw words into Tracking")
    res.assumptions.append("known finding C07-fp: the strict inequality sum <= bound fails by at most 4*2^-53 relative (theorem C07_bound = every deficit is in that class; witness C07_fp_witness)")
    if bad:
        res.violation({"property": "C07", "kind": "input", "case": bad[0], "others": bad[1:5],
                       "predicate": "0 <= bound, exact sum <= bound (up to class C07-fp), bound < sum*(1+5u)+1",
                       "how_to_replay": "./check C07 --replay <this file>"})
    elif diffs:
        res.violation({"property": "C07", "kind": "obligation",
                       "obligation": "correspondence:extract_bound_from_tracking vs Bound.bound_of_words",
                       "first_differences": diffs[:5], "count": len(diffs)}, found_input=False)
    if only is None:
        poller_part(res, rng)
        # "when the PHC is the reference": the configured name must become the number chronyd reports for it
        from props import C13
        C13.refid_part(res, "C07")
    if not proofs_ok:
        res.violation({"property": "C07", "kind": "obligation", "obligation": proofs_why}, found_input=False)


def phc_part(res, rng):
    """`upd` lines (see harness/src/updater.rs): histories of 1..4 synchronised reports through the
    real process_messages, with jumps of delay / dispersion / offset / PHC error bound between
    consecutive reports.  Every published bound must be the sum of *its own* report plus that
    report's PHC error bound (added verbatim; nothing added when it is 0)."""
    lines, metas = [], []
    itv = cfloat.word(1 << 23, 4)
    for _ in range(120 if res.tier == "quick" else 5000):
        n = rng.randrange(1, 5)
        t = rng.randrange(10, 10 ** 5)
        parts, meta = ["upd", str(rng.choice([1000, 50000, 10 ** 6])), str(n)], []
        for _k in range(n):
            scale = rng.choice([1e-6, 1e-4, 1e-2, 1.0])      # jumps of several orders of magnitude
            d, e, o = cfloat.encode(rng.uniform(0, 0.2) * scale), cfloat.encode(rng.uniform(0, 0.5) * scale), cfloat.encode(rng.uniform(-0.05, 0.05) * scale)
            if rng.random() < 0.15:
                # round figures: exactly one second (chronyd's values right after its start), exactly zero, powers of two
                one, zero = cfloat.encode(1.0), cfloat.encode(0.0)
                d, e = rng.choice([(one, one), (one, e), (d, one), (zero, zero), (one, zero), (cfloat.encode(2.0), cfloat.encode(0.5))])
                o = rng.choice([o, cfloat.encode(-0.25), cfloat.encode(1.0), zero])
            phc = rng.choice([0, 0, 1, 12345, rng.randrange(10 ** 6), rng.randrange(2 ** 40), 2 ** 32 - 1, 2 ** 32, 2 ** 31 - 1, 2 ** 31, 65535])
            t += rng.randrange(1, 20)
            if _k > 0 and rng.random() < 0.25:
                # a report that is not a measurement (chronyd unsynchronised, or its reference time stale), with
                # figures and a PHC error bound of its own: the published bound stays the one of the last measurement
                leap, age = rng.choice([(3, 0), (rng.randrange(3), 33 + rng.randrange(100))])
                parts += ["r", str(d), str(e), str(o), str(leap), str(itv), "0", str(age), "0", str(phc), str(t), str(rng.randrange(NS))]
                meta.append(meta[-1])
                continue
            parts += ["r", str(d), str(e), str(o), str(rng.randrange(3)), str(itv), "0", "0", "0", str(phc), str(t), str(rng.randrange(NS))]
            meta.append((d, e, o, phc))
        lines.append(" ".join(parts))
        metas.append(meta)
    model = c.run_model(lines)
    impl = c.run_lines(c.build_harness("debug")[0], lines)
    res.evaluations += len(lines)
    bad, diffs = [], 0
    for ln, meta, m, i in zip(lines, metas, model, impl):
        if i != m:
            diffs += 1
        rec = i.split()
        if rec[0] in ("panic", "MISMATCH") or int(rec[0]) != len(meta):
            bad.append({"case": ln, "impl": i, "model": m, "why": ["%s instead of %d publications" % (i[:60], len(meta))]})
            continue
        if len(meta) > 1:
            res.nontriv(ln)
        for k, (d, e, o, phc) in enumerate(meta):
            b = int(rec[1 + 7 * k + 4])
            s = exact_sum_ns(d, e, o)
            if b - phc < s - 4 * U * s or not (b - phc < s * (1 + 5 * U) + 1):
                bad.append({"case": ln, "impl": i, "model": m,
                            "why": ["record %d: published bound %d is not the sum %s ns of its report plus the PHC error bound %d" % (k, b, float(s), phc)]})
                break
    res.oblige("correspondence:process_clock_update publishes bound + PHC error bound of each synchronised report", diffs == 0)
    res.count("gen:published-bound-histories", len(lines))
    if diffs and not bad:
        bad_first = [{"case": ln, "impl": i, "model": m} for ln, m, i in zip(lines, model, impl) if i != m][:3]
        res.violation({"property": "C07", "kind": "obligation", "obligation": "correspondence:process_clock_update (published bound)",
                       "first_differences": bad_first}, found_input=False)
    return bad


def poller_part(res, rng):
    """the PHC error bound on its way in: the real poll loop reads it from a (scratch) sysfs file
    and must forward exactly the number in the file, whatever its size, when the PHC is chronyd's
    reference (harness op `pol`, fake chronyd, private mount namespace)"""
    from props import _poller
    scripts = []
    for _ in range(25 if res.tier == "quick" else 400):
        start = rng.randrange(10, 10 ** 5) * NS
        cfg = rng.choice([0x50484330, 0x50484331, 12345])
        steps, t = [], start + NS
        for _k in range(rng.randrange(1, 7)):
            phc = rng.choice([0, 7, 99999999, 100000000, 250000000, 4294967295, 4294967296, 2147483647, 2147483648, 123456789012, 2 ** 62, rng.randrange(10 ** 13), -1, -1])
            # (-1: the attribute is gone for this poll - driver reloaded - and a new file is there at the next)
            # chronyd may select another source for a while and come back to the PHC
            steps.append((t, 1, rng.choice([0, 1000, 10 ** 6]), 0, phc, rng.choice([cfg, cfg, cfg ^ 1, 0x4E545031]), rng.randrange(1, 60000)))
            t += NS + rng.randrange(NS)
        scripts.append((start, cfg, steps))
    lines = [_poller.line_of(*sc) for sc in scripts]
    impl = c.run_lines_in_namespace(c.build_harness("debug")[0], lines, timeout=900)
    model = c.run_model(lines)
    res.evaluations += len(lines)
    res.count("gen:PHC error bound read by the poll loop", len(lines))
    bad, diffs = [], []
    for sc, ln, i, m in zip(scripts, lines, impl, model):
        exp = _poller.expected(*sc)
        got = i.split()[:len(exp)]
        res.nontriv(ln)
        if " ".join(x for x in i.split() if not x.startswith("ORDER:")) != m:
            diffs.append({"case": ln, "impl": i, "model": m})
        if got != exp:
            k = next((j for j in range(len(exp)) if j >= len(got) or got[j] != exp[j]), 0)
            bad.append({"case": ln, "impl": i, "model": m,
                        "why": ["iteration %d forwards %s; the PHC file held %s (D:<as-of>:<PHC error bound>:<ref id>:<tag>)" % (k, got[k] if k < len(got) else "nothing", exp[k])]})
    res.oblige("correspondence:poll loop forwards the PHC error bound it read (real loop, fake chronyd) vs Poller.poll_run", not diffs)
    if bad:
        res.violation({"property": "C07", "kind": "history", "case": bad[0], "others": [b["case"] for b in bad[1:4]],
                       "predicate": "the PHC term of the published bound is the number the PHC driver reports", "how_to_replay": "./check C13 --replay <this file>"})
    elif diffs:
        res.violation({"property": "C07", "kind": "obligation", "obligation": "correspondence: poll loop (PHC error bound)", "first_differences": diffs[:3]}, found_input=False)


def replay(res, path):
    r = json.load(open(path))
    case = r.get("case", {})
    ln = case.get("case") if isinstance(case, dict) else None
    if ln is None and "first_differences" in r:
        ln = r["first_differences"][0]["case"]
    rc = 0
    for prof in ("debug", "release"):
        out = c.run_lines(c.build_harness(prof)[0], [ln])[0]
        m = c.run_model([ln])[0]
        why = judge(ln, out) if ln.startswith("bnd") else ([], None)
        print("case %s\n %s impl %s\n model %s\n predicate: %s" % (ln, prof, out, m, why[0] or ("known class: " + why[1] if why[1] else "holds")))
        if why[0] or out != m:
            rc = 1
    return rc
