"""Measured system calls of ShmWriter::new on a path with no usable segment (C04, C16): the real
code is run under strace and the operations on the segment file are read off the trace: how the
file is opened (must create and truncate), the payload of every write, in order."""
import os
import re
import shutil
import subprocess
import common as c


def _unhex(s):
    return bytes(int(x, 16) for x in re.findall(r"\\x([0-9a-f]{2})", s))


def measure_wipe(binary, old_content=None):
    """-> (info | None, why).  info = {'flags': [...], 'writes': [bytes...], 'truncated': bool, 'ops': [...]}"""
    root = os.path.join(c.BUILD, "scratch", "wipe-%d" % os.getpid())
    shutil.rmtree(root, ignore_errors=True)
    os.makedirs(root)
    path = os.path.join(root, "shm")
    if old_content is not None:
        with open(path, "wb") as f:
            f.write(old_content)
    trace = os.path.join(root, "trace")
    cmd = ["strace", "-f", "-xx", "-s", "4096", "-e", "trace=open,openat,creat,write,pwrite64,writev,ftruncate,truncate,fsync,fdatasync,close,rename,renameat,renameat2,unlink,unlinkat,mmap,lseek",
           "-o", trace, binary, "lines"]
    line = "wrt %s 100 200 1100 0 5000 6000 1\n" % path
    try:
        p = subprocess.run(cmd, input=line, capture_output=True, text=True, timeout=120, env=dict(os.environ))
    except Exception as e:   # noqa
        return None, "strace run failed: %r" % e
    if p.returncode != 0 or not os.path.exists(trace):
        return None, "strace/harness exit %s: %s" % (p.returncode, (p.stderr or "")[-400:])
    hexpath = "".join("\\x%02x" % b for b in path.encode())
    fds, ops, writes, flags, truncated, mapped = set(), [], [], [], False, False
    for ln in open(trace, errors="replace"):
        m = re.match(r"\d+\s+(\w+)\((.*)\)\s+=\s+(-?\d+)", ln)
        if not m:
            continue
        name, args, ret = m.group(1), m.group(2), int(m.group(3))
        if name in ("open", "openat", "creat") and hexpath in args:
            if ret >= 0 and not mapped:
                fl = re.findall(r"O_[A-Z]+", args)
                if name == "creat":
                    fl = ["O_WRONLY", "O_CREAT", "O_TRUNC"]
                if any(x in fl for x in ("O_WRONLY", "O_RDWR")) and any(x in fl for x in ("O_CREAT", "O_TRUNC")):
                    fds.add(ret)
                    flags.append(fl)
                    ops.append("%s(%s)" % (name, "|".join(fl)))
                    if "O_TRUNC" in fl:
                        truncated = True
            continue
        if name in ("rename", "renameat", "renameat2", "unlink", "unlinkat", "truncate") and hexpath in args:
            ops.append(name)
            continue
        first = args.split(",")[0].strip()
        if not first.isdigit() or int(first) not in fds:
            continue
        fd = int(first)
        if name in ("write", "pwrite64"):
            payload = _unhex(args.split(",", 2)[1]) if '"' in args else b""
            if ret != len(payload):
                payload = payload[:max(ret, 0)]
            off = None
            if name == "pwrite64":
                off = int(args.rsplit(",", 1)[1])
            writes.append((off, payload))
            ops.append("%s[%d]" % (name, len(payload)))
        elif name == "writev":
            return None, "writev on the segment file: not handled by the measurement"
        elif name == "ftruncate":
            ln_ = int(args.split(",")[1])
            ops.append("ftruncate(%d)" % ln_)
            if ln_ == 0 and not writes:
                truncated = True
            else:
                writes.append(("truncate", ln_))
        elif name == "lseek":
            rest = args.split(",", 1)[1].strip()
            ops.append("lseek(%s)" % rest)
            if rest.replace(" ", "") != "0,SEEK_CUR":       # querying the position moves nothing
                writes.append(("seek", args))
        elif name == "mmap":
            mapped = True
            ops.append("mmap")
        elif name in ("fsync", "fdatasync"):
            ops.append(name)
        elif name == "close":
            fds.discard(fd)
            ops.append("close")
    shutil.rmtree(root, ignore_errors=True)
    # only sequential writes from offset 0 are understood; anything else is reported, not guessed
    seq = []
    for off, payload in [w for w in writes]:
        if off in ("truncate", "seek") or (off is not None and off != sum(len(x) for x in seq)):
            return {"flags": flags, "writes": None, "truncated": truncated, "ops": ops}, "the file is not written sequentially from offset 0: %s" % ops
        seq.append(payload)
    first_map = ops.index("mmap") if "mmap" in ops else len(ops)
    return {"flags": flags, "writes": seq, "truncated": truncated, "ops": ops[:first_map + 1]}, ""


def coq_writes(writes):
    return "[" + "; ".join("[" + "; ".join(str(b) for b in w) + "]" for w in writes) + "]%Z"
