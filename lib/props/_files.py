"""Shared machinery of C16 / C17: a corpus of segment files (valid, each header field mutated,
every truncation length, garbage, directory, missing, missing parent), opened through
ShmReader::new, ClockBoundClient::new_with_path (Rust) and clockbound_open (C program built
against clockbound.h and the freshly built libclockbound.so), then repaired by the real
ShmWriter::new + write; compared with Open.reader_open / Open.after_first_publication /
Layout.encode and judged by oracles transcribed independently from docs/PROTOCOL.md."""
import json
import os
import random
import shutil
import struct
import subprocess
import common as c

NS = 10 ** 9
MAGIC = (0x414D5A4E, 0x43420200)
ORIGIN = {"open": 1, "read_SHM_segment": 2, "mmap_SHM_segment": 3}
ENOENT, EISDIR = 2, 21
# docs/PROTOCOL.md, transcribed: (name, offset, struct format)
PROTOCOL = [("magic0", 0, "<I"), ("magic1", 4, "<I"), ("size", 8, "<I"), ("version", 12, "<H"), ("generation", 14, "<H"),
            ("as_of_sec", 16, "<q"), ("as_of_nsec", 24, "<q"), ("void_after_sec", 32, "<q"), ("void_after_nsec", 40, "<q"),
            ("bound", 48, "<q"), ("max_drift", 56, "<I"), ("reserved", 60, "<I"), ("status", 64, "<i")]


NOPATH = {4: 20, 5: 40, 6: 36}      # corpus kind -> errno: ENOTDIR, ELOOP, ENAMETOOLONG


def build_c_driver():
    so_dir = os.path.dirname(c.build_repo_binary("clock-bound-ffi", "release", "libclockbound.so"))
    out = os.path.join(c.BUILD, "cdriver")
    src = os.path.join(c.HARNESS, "c", "cdriver.c")
    inc = os.path.join(c.REPO, "clock-bound-ffi", "include")
    p = c.sh(["gcc", "-O1", "-Wall", "-o", out, src, "-I", inc, "-L", so_dir, "-lclockbound", "-rdynamic",
              "-Wl,-rpath," + so_dir], check=False)
    if p.returncode != 0:
        raise c.CheckError("C driver does not compile against clockbound.h / libclockbound.so:\n" + p.stdout[-3000:])
    return out


def header(m0=MAGIC[0], m1=MAGIC[1], size=72, ver=1, gen=2):
    return struct.pack("<IIIHH", m0 & 0xffffffff, m1 & 0xffffffff, size & 0xffffffff, ver & 0xffff, gen & 0xffff)


def record(r):
    return struct.pack("<qqqqqIIi4x", r[0], r[1], r[2], r[3], r[4], r[5], 0, r[6])


def rand_record(rng):
    as_of = rng.randrange(0, 10 ** 6) * NS + rng.randrange(NS)
    return (as_of // NS, as_of % NS, as_of // NS + 1000, 0, rng.choice([0, 1, rng.randrange(10 ** 9)]),
            rng.choice([0, 1000, 50000, 10 ** 9 - 1, 10 ** 9]), rng.randrange(3))


def gen_corpus(rng, n_random):
    """-> list of (tag, kind, bytes) ; kind: 0 file, 1 missing, 2 directory, 3 missing parent"""
    out = []
    base_r = rand_record(rng)
    valid = header() + record(base_r)
    out.append(("valid", 0, valid))
    for g in (2, 3, 4, 65534, 65535, 1, 7):
        out.append(("valid-gen-%d" % g, 0, header(gen=g) + record(rand_record(rng))))
    for name, kw in (("bad-magic0", {"m0": MAGIC[0] ^ 1}), ("bad-magic1", {"m1": MAGIC[1] ^ 0x100}), ("swapped-magic", {"m0": MAGIC[1], "m1": MAGIC[0]}),
                     ("version-0", {"ver": 0}), ("generation-0", {"gen": 0}), ("version-2", {"ver": 2}), ("version-65535", {"ver": 65535})):
        out.append((name, 0, header(**kw) + record(rand_record(rng))))
    for size in (0, 1, 15, 16, 17, 71, 72, 73, 80, 800, 4096, 2 ** 31, 2 ** 32 - 1):
        out.append(("size-%d" % size, 0, header(size=size) + record(rand_record(rng))))
        out.append(("size-%d-long-file" % size, 0, header(size=size) + record(rand_record(rng)) + bytes(rng.randrange(256) for _ in range(40))))
    for ln in range(0, 81):
        full = header(gen=rng.choice([2, 6, 65534])) + record(rand_record(rng)) + b"\xaa" * 8
        out.append(("truncated-%d" % ln, 0, full[:ln]))
    # Bound is a signed 64-bit field: a segment may carry a negative value although the daemon never
    # publishes one; both client libraries must still agree on what they return for it
    for nb in (-1, -10000, -5 * 10 ** 9, -(10 ** 15)):
        for st in (0, 1, 2):
            r0 = rand_record(rng)
            out.append(("valid-negative-bound%d-status%d" % (nb, st), 0, header(gen=rng.choice([2, 8])) + record(r0[:4] + (nb,) + (r0[5], st))))
    # every header byte, one at a time: lowest bit flipped, all zeros, all ones
    for i in range(16):
        for what, f in (("bit0", lambda x: x ^ 1), ("zero", lambda x: 0), ("ones", lambda x: 0xff)):
            b = bytearray(header(gen=rng.choice([2, 4, 100])) + record(rand_record(rng)))
            if f(b[i]) != b[i]:
                b[i] = f(b[i])
                out.append(("header-byte-%d-%s" % (i, what), 0, bytes(b)))
    # several header defects at once (every subset of: magic, declared size, version, generation), so that
    # which defect decides the error kind is exercised as well
    BAD = {"m1": [MAGIC[1] ^ 0x100], "size": [0, 15, 71], "ver": [0], "gen": [0]}
    names = sorted(BAD)
    for mask in range(1, 16):
        if bin(mask).count("1") < 2:
            continue
        chosen = [names[k] for k in range(4) if mask >> k & 1]
        for pick in range(3):
            kw = {nm: BAD[nm][pick % len(BAD[nm])] for nm in chosen}
            body = record(rand_record(rng)) if pick else bytes(56)
            out.append(("defects-" + "+".join("%s=%s" % (nm, kw[nm]) for nm in chosen), 0, header(**kw) + body))
    # what a daemon leaves when it dies inside the (re-)creation of the file: the wiped header comes first, the
    # zeroed body after it, so the file may end anywhere behind the header
    for ln in (16, 17, 24, 40, 64, 71, 72):
        out.append(("death-inside-wipe-%d" % ln, 0, (header(ver=0, gen=0) + bytes(56))[:ln]))
    out.append(("magic-then-zeros", 0, header()[:8] + bytes(64)))
    out.append(("old-magic-doc-bytes", 0, bytes([0x41, 0x4D, 0x5A, 0x4E, 0x43, 0x42, 0x02, 0x00]) + valid[8:]))
    out.append(("text", 0, b"foobarbaz"))
    out.append(("missing", 1, b""))
    out.append(("directory", 2, b""))
    out.append(("missing-parent", 3, b""))
    # paths that cannot be resolved: every opener must report the failing system call with its errno
    out.append(("parent-is-a-regular-file", 4, b""))
    out.append(("symlink-loop", 5, b""))
    out.append(("name-too-long", 6, b""))
    # the segment path is a symbolic link (to a valid segment, to something else, to nothing): it is followed
    out.append(("symlink-to-valid-segment", 7, header(gen=6) + record(rand_record(rng))))
    out.append(("symlink-to-valid-segment-odd", 7, header(gen=9) + record(rand_record(rng))))
    out.append(("symlink-to-text", 7, b"foobarbaz"))
    out.append(("symlink-to-truncated-segment", 7, (header(gen=4) + record(rand_record(rng)))[:40]))
    out.append(("dangling-symlink", 8, b""))
    for _ in range(n_random):
        k = rng.random()
        if k < 0.3:
            out.append(("random-bytes", 0, bytes(rng.randrange(256) for _ in range(rng.choice([0, 1, 15, 16, 17, 60, 72, 100])))))
        elif k < 0.7:
            b = bytearray(header(gen=rng.choice([2, 4, 100, 65534])) + record(rand_record(rng)))
            i = rng.randrange(16)
            b[i] = rng.randrange(256)
            out.append(("one-header-byte-mutated@%d" % i, 0, bytes(b)))
        else:
            out.append(("valid-random-record", 0, header(gen=2 * rng.randrange(1, 32767)) + record(rand_record(rng)) + bytes(rng.choice([0, 8, 24]))))
    return out


def materialize(root, idx, kind, data, suffix):
    d = os.path.join(root, "f%05d%s" % (idx, suffix))
    if os.path.isdir(d):
        shutil.rmtree(d)
    os.makedirs(d)
    path = os.path.join(d, "shm")
    if kind == 0:
        with open(path, "wb") as f:
            f.write(data)
    elif kind == 2:
        os.makedirs(path)
    elif kind == 3:
        path = os.path.join(d, "no", "such", "dir", "shm")
    elif kind == 4:
        with open(os.path.join(d, "clockbound"), "wb") as f:
            f.write(b"stale file where the directory should be")
        path = os.path.join(d, "clockbound", "shm")
    elif kind == 5:
        os.symlink("shm", path)                      # shm -> shm
    elif kind == 6:
        path = os.path.join(d, "x" * 300)
    elif kind == 7:
        with open(os.path.join(d, "the-real-file"), "wb") as f:
            f.write(data)
        os.symlink("the-real-file", path)
    elif kind == 8:
        os.symlink("no-such-file", path)
    return path


def canon_err(s):
    """tool error 'kind:errno:detail' -> 'kind:errno:origin-code'"""
    if s in ("ok", "-", "skip", "panic") or s.startswith("ok:"):
        return s
    if s.startswith("hang"):
        return "hang:never-returns:"
    if s.startswith("crash"):
        return "crash:the-process-died-of-a-signal:"
    k, e, d = s.split(":", 2)
    return "%s:%s:%s" % (k, e, ORIGIN.get(d, d) if k == "syscall" else "")


def parse_fields(out):
    return dict(x.split(":", 1) for x in out.split())


def proto_decode(b):
    return {name: struct.unpack_from(fmt, b, off)[0] for name, off, fmt in PROTOCOL if off + struct.calcsize(fmt) <= len(b)}


def oracle_open(kind, data):
    """documented outcome of opening, from the property text and PROTOCOL.md"""
    if kind in (1, 3):
        return "syscall:%d:%d" % (ENOENT, 1)
    if kind in NOPATH:
        return "syscall:%d:%d" % (NOPATH[kind], 1)
    if kind == 2:
        return "syscall:%d:%d" % (EISDIR, 2)
    if len(data) < 16:
        return "notinit:0:"
    h = proto_decode(data[:16])
    if (h["magic0"], h["magic1"]) != MAGIC or h["version"] == 0 or h["generation"] == 0:
        return "notinit:0:"
    if h["size"] < 72:
        return "malformed:0:"
    return "ok"


def run_corpus(res, pid, rng, n_random):
    harness = c.build_harness("debug")[0]
    cdrv = build_c_driver()
    root = os.path.join(c.BUILD, "scratch", "files-%s-%d" % (pid, os.getpid()))
    if os.path.isdir(root):
        shutil.rmtree(root)
    os.makedirs(root)
    corpus = gen_corpus(rng, n_random)
    rust_lines, c_lines, model_lines, wrt_lines, wrt_model = [], [], [], [], []
    paths, clocks, recs = [], [], []
    for i, (tag, kind, data) in enumerate(corpus):
        pr = materialize(root, i, kind, data, "r")
        pc = materialize(root, i, kind, data, "c")
        real = rng.randrange(10 ** 9) * NS + rng.randrange(NS)
        mono = rng.randrange(0, 10 ** 6 + 2000) * NS + rng.randrange(NS)
        if kind in (0, 7) and len(data) >= 32:     # make the clock reading meaningful for the record in the file
            a = proto_decode(data[:72] if len(data) >= 72 else data + bytes(72 - len(data)))
            mono = a["as_of_sec"] * NS + a["as_of_nsec"] + rng.choice([-2000, -1000, -999, 0, 1, 4 * NS, 5 * NS, 999 * NS, 1001 * NS])
        clk = (real // NS, real % NS, mono // NS, mono % NS)
        r = rand_record(rng)
        paths.append((pr, pc)); clocks.append(clk); recs.append(r)
        rust_lines.append("seg %s %d %d %d %d" % ((pr,) + clk))
        c_lines.append("seg %s %d %d %d %d" % ((pc,) + clk))
        mk = 0 if kind in (0, 7) else (2 if kind == 2 else (3 if kind in NOPATH else 1))      # links are followed: 7 = the file behind it, 8 = missing
        if kind in NOPATH:
            data = bytes([NOPATH[kind]])             # the model's FNoPath carries the errno
        bl = " ".join(str(x) for x in data)
        model_lines.append(("seg %d %d %s %d %d %d %d" % ((mk, len(data), bl) + clk)).replace("  ", " "))
        wrt_lines.append("wrt %s %d %d %d %d %d %d %d" % ((pr,) + r))
        wrt_model.append(("wrt %d %d %s %d %d %d %d %d %d %d" % ((mk, len(data), bl) + r)).replace("  ", " "))
    # opening a segment, and starting the daemon over one, must return: a call that does not is recorded
    # as outcome "hang" (kind never-returns) instead of stopping the check
    rust = c.run_lines_hang_aware(harness, rust_lines, "O:hang:0: K:hang:0: N:-")
    cout = c.run_lines_hang_aware(cdrv, c_lines, "K:hang:0: N:-", args=())
    model = c.run_model(model_lines)
    wrt = c.run_lines_hang_aware(harness, wrt_lines, "W:hang")
    wmodel = c.run_model(wrt_model)
    siz = c.run_lines(cdrv, ["siz"], args=())[0]
    results = []
    for i, (tag, kind, data) in enumerate(corpus):
        rf, cf, mf = parse_fields(rust[i]), parse_fields(cout[i]), parse_fields(model[i])
        after = None
        pr = paths[i][0]
        if os.path.isfile(pr):
            after = open(pr, "rb").read()
            if len(after) >= 72 and not wrt[i].startswith("W:err"):
                # bytes 68..71 are the struct's trailing padding: PROTOCOL.md gives them no content and
                # the daemon copies whatever the padding of its stack value holds; not compared
                after = after[:68] + b"\0\0\0\0" + after[72:]
        kind = {7: 0, 8: 1}.get(kind, kind)      # a link is what it points to: a file, or nothing
        results.append({"tag": tag, "kind": kind, "data": data, "clock": clocks[i], "record": recs[i],
                        "rust": {k: canon_err(v) for k, v in rf.items()}, "c": {k: canon_err(v) for k, v in cf.items()},
                        "model": mf, "wrt": wrt[i], "wrt_model": wmodel[i], "after": after,
                        "lines": {"rust": rust_lines[i], "model": model_lines[i][:300]}})
    shutil.rmtree(root, ignore_errors=True)
    res.extra["c_struct_layout"] = siz
    res.trusted_base += ["C driver harness/c/cdriver.c compiled with gcc against /repo/clock-bound-ffi/include/clockbound.h and the libclockbound.so built from /repo (release)",
                         "scratch files on the sandbox's disk file system under /verif/.build/scratch (not tmpfs); file content read back with plain read(2)",
                         "docs/PROTOCOL.md transcribed twice: Shm/Layout.v (model) and the PROTOCOL table of lib/props/_files.py (oracle)"]
    return results, siz


def describe(r):
    return {"file": r["tag"], "bytes_hex": r["data"].hex()[:200], "clock": r["clock"], "record": r["record"],
            "rust": r["rust"], "c": r["c"], "model": r["model"], "wrt": r["wrt"]}
