"""C01 - end-to-end containment.  Theorems: Properties/C01.v (World/Containment.v).
Correspondence / oracle: generated worlds (a clock-error trajectory inside the drift cone, chrony
reports that are valid at the instant they are generated, signed offsets, outages, stale and
unsynchronised reports, PHC terms, daemon restarts, client calls at adversarial instants with the
error at the edge of the cone) run through the whole real pipeline in one process under a virtual
clock (harness op `wld`) and through the composition of the models; the containment predicate is
evaluated on the implementation's output with the simulated true time."""
import json
import math
import random
from fractions import Fraction
import common as c
import cfloat

NS = 10 ** 9
OFF = 1_600_000_000 * NS     # realtime = monotonic + OFF + error ; true time on the realtime scale = monotonic + OFF
ITV4 = cfloat.word(1 << 23, 4)
SLACK = 4


def exact_sum_ns(delay, disp, corr):
    return (cfloat.decode(delay) / 2 + cfloat.decode(disp) + abs(cfloat.decode(corr))) * NS


def gen_world(rng):
    drift = rng.choice([1000, 50000, 50000, 10 ** 6, 10 ** 7])
    rho = Fraction(drift, NS)
    cfg = rng.choice([-1, -1, 0x50484330])
    # small uptimes too: a placeholder record (as-of 0) is still inside its void-after window there
    t = rng.choice([rng.randrange(6, 900), rng.randrange(100, 10 ** 5)]) * NS + rng.randrange(NS)
    items, truth = [], []
    anchor = None            # (true instant of the last valid report, clock error then) ; error in ns (Fraction)
    running = False
    def client_call(t):
        # ---- a client call at true instant tc (monotonic), realtime read first
        tc = t + rng.choice([0, 1, rng.randrange(NS), 4 * NS + rng.randrange(2 * NS), rng.randrange(1200 * NS)])
        if anchor is None:
            e_c = Fraction(rng.randrange(-3 * 10 ** 8, 3 * 10 ** 8))
        else:
            lim = abs(anchor[1]) + rho * (tc - anchor[0])
            e_c = lim * rng.choice([1, -1, 1, -1, Fraction(1, 2), 0])
        # the two clock reads of now() happen at true instants tc and tc + g (preemption between them);
        # the realtime clock's error keeps moving along the edge of the drift cone meanwhile
        g = rng.choice([0, 0, 1000, 10 ** 6, 10 ** 8, 250 * 10 ** 6, 2 * NS])
        if anchor is None:
            e_c2 = e_c
        else:
            sign = 1 if e_c > 0 else (-1 if e_c < 0 else rng.choice([1, -1]))
            e_c2 = e_c + sign * rho * g
        real1, mono1 = math.floor(tc + OFF + e_c), tc
        real2, mono2 = math.floor(tc + g + OFF + e_c2), tc + g
        items.append(("C", real1, mono1, real2, mono2))
        # the interval is a claim about true time at the instant the realtime clock was read
        truth.append((tc + OFF, tc + g + OFF))
        t = max(t, mono2) + rng.choice([1, NS, 2 * NS])
        return t

    n = rng.randrange(4, 22)
    for _ in range(n):
        k = rng.random()
        if not running or k < 0.55:
            # ---- a poll iteration
            running = True
            kind = rng.random()
            d = rng.choice([0, 1000, 10 ** 6, 10 ** 8, NS, 2 * NS])
            refid = cfg if (cfg >= 0 and rng.random() < 0.5) else rng.randrange(2 ** 31)
            phc = rng.choice([-1, -2, 0, 12345, rng.randrange(10 ** 6)])
            if kind < 0.55:          # synchronised, fresh
                tr = t + rng.choice([0, d // 2, d])                     # instant the report describes
                if anchor is None:
                    e_r = Fraction(rng.randrange(-5 * 10 ** 7, 5 * 10 ** 7))
                else:
                    lim = abs(anchor[1]) + rho * (tr - anchor[0])
                    if rng.random() < 0.7:
                        e_r = lim * rng.choice([0, Fraction(1, 3), -Fraction(1, 2), 1, -1])
                    else:
                        e_r = min(lim, Fraction(rng.randrange(0, 10 ** 6))) * rng.choice([1, -1])
                    if abs(e_r) > lim:
                        e_r = lim * (1 if e_r > 0 else -1)
                phc_used = phc if (cfg >= 0 and refid == cfg and phc >= 0) else 0
                # chrony's report: |offset| + dispersion + delay/2 must cover |e_r| (minus what the PHC term covers)
                need = max(Fraction(0), abs(e_r) - phc_used)
                sign = -1 if e_r < 0 else 1
                share = rng.choice([Fraction(0), Fraction(1, 2), Fraction(9, 10), Fraction(1)])
                corr = cfloat.encode(float(sign * need * share / NS))
                delay = cfloat.encode(rng.choice([0.0, 1e-4, 2e-3, 0.05]))
                disp = cfloat.encode(float(need * (1 - share) / NS) + rng.choice([0.0, 1e-6, 1e-4]))
                while exact_sum_ns(delay, disp, corr) < need:
                    disp = cfloat.encode(float(cfloat.decode(disp)) * 1.001 + 1e-9)
                if cfg >= 0 and refid == cfg and phc < 0:
                    pass             # PHC unreadable: the report is not used (no new anchor for the record)
                leap = rng.randrange(3)
                age = rng.choice([0, 1, NS, 31 * NS])
                items.append(("P", t, 1, d, 0, phc, refid, leap, ITV4, 0, age // NS, age % NS, corr, delay, disp))
                anchor = (tr, e_r)
                if cfg >= 0 and refid == cfg and phc >= 0 and age <= NS and rng.random() < 0.5:
                    # chronyd repeats the same reference time at the next poll (no new measurement) while the
                    # PHC driver reports a larger error bound, which now has to carry most of the clock error
                    truth.append(None)
                    t2 = t + d + rng.choice([NS, NS + rng.randrange(NS), 3 * NS])
                    age2 = age + t2 - (t + d)
                    lim2 = abs(anchor[1]) + rho * (t2 - anchor[0])
                    e_r2 = lim2 * (1 if anchor[1] >= 0 else -1)
                    phc2 = int(abs(e_r2)) + rng.choice([0, 1, 5000])
                    corr2, delay2, disp2 = cfloat.encode(0.0), cfloat.encode(0.0), cfloat.encode(1e-6)
                    items.append(("P", t2, 1, 0, 0, phc2, refid, leap, ITV4, 0, age2 // NS, age2 % NS, corr2, delay2, disp2))
                    anchor = (t2, e_r2)
                    truth.append(None)
                    t = client_call(t2 + rng.choice([1, 1000, NS // 2]))
                    d = 0
                    continue
            elif kind < 0.7:         # answered but unsynchronised (leap 3) or stale
                stale = rng.random() < 0.5
                age = (33 * NS + rng.randrange(100 * NS)) if stale else 0
                items.append(("P", t, 1, d, 0, phc, refid, rng.randrange(3) if stale else 3, ITV4, 0, age // NS, age % NS,
                              cfloat.encode(rng.uniform(-1, 1)), cfloat.encode(1.0), cfloat.encode(1.0)))
            elif kind < 0.8:         # unusable report
                items.append(("P", t, 1, d, 0, phc, refid, rng.choice([4, 255, 3, 0]), ITV4, 1, rng.randrange(5), 1 + rng.randrange(NS - 1), 0, 0, 0))
            else:                    # chronyd does not answer
                items.append(("P", t, rng.choice([0, 2, 3]), d, rng.choice([0, 1000]), -1, refid, 0, ITV4, 0, 0, 0, 0, 0, 0))
            truth.append(None)
            t += d + rng.choice([NS, NS + rng.randrange(NS), 3 * NS, 7 * NS, 400 * NS])
        elif k < 0.93:
            t = client_call(t)
        elif k < 0.965:
            items.append(("R", t))
            truth.append(None)
            running = False
            t += rng.choice([NS, 3 * NS])
        else:
            # the daemon dies in the middle of a publication (generation left odd, the as-of of the record
            # it was storing already in place), often long after its last good report; sometimes the
            # client process is replaced as well, so that it attaches to the segment in that state
            t += rng.choice([0, NS, 400 * NS])
            items.append(("K", t))
            truth.append(None)
            running = False
            if rng.random() < 0.6:
                items.append(("F",))
                truth.append(None)
            t += rng.choice([1, NS, 3 * NS])
            if rng.random() < 0.5:
                # a new daemon starts over the segment and dies before its first publication
                items.append(("N", t))
                truth.append(None)
                t += rng.choice([1, NS])
            for _c in range(rng.randrange(1, 3)):
                t = client_call(t)
    return drift, cfg, items, truth


def line_of(drift, cfg, items):
    return "wld %d %d %d %s" % (drift, cfg, len(items), " ".join(" ".join(str(x) for x in it) for it in items))


def model_line_of(drift, cfg, items):
    """the model's client reads realtime first and the monotonic clock afterwards: (real1, mono2)"""
    its = [(it[0], it[1], it[4]) if it[0] == "C" else it for it in items]
    return "wld %d %d %d %s" % (drift, cfg, len(its), " ".join(" ".join(str(x) for x in it) for it in its))


def judge(items, truth, out):
    bad = []
    toks = out.split()
    for it, tr, o in zip(items, truth, toks):
        if it[0] != "C" or not o.startswith("c:ok:"):
            if o in ("c:panic", "p:TIMEOUT", "p:panic"):
                bad.append("pipeline failure: " + o)
            continue
        _, _, e, l, st, order = o.split(":")
        e, l, st = int(e), int(l), int(st)
        # true time at the instant the realtime clock was read: the first or the second read of the call
        tr = tr[0] if order.startswith("R") else tr[1]
        if st in (1, 2) and not (e - SLACK <= tr <= l + SLACK):
            side = "below earliest by %d ns" % (e - tr) if tr < e else "above latest by %d ns" % (tr - l)
            bad.append("client got status %d and interval [%d, %d] but true time %d is %s" % (st, e, l, tr, side))
    if "ORDER:ok" not in toks:
        bad.append("clock read order: " + toks[-1])
    return bad


NS_ = 10 ** 9
# what the publications of the interleaved runs below mean: (as-of, void-after, bound, drift ppb, status).
# Publication 1: a tight bound while synchronised.  Publication 2: chronyd was lost for 99 900 s, the clock
# ran away at the full 50 ppm, and the first report after the outage says so.  Publication 3: tight again.
SEM = {1: (100 * NS_, 1100 * NS_, 10 ** 6, 50000, 1), 2: (100000 * NS_, 101000 * NS_, 6 * NS_, 50000, 1), 3: (100300 * NS_, 101300 * NS_, 10 ** 6, 50000, 1)}
ERR = {1: 9 * 10 ** 5, 2: 4995 * 10 ** 6 + 9 * 10 ** 5, 3: 9 * 10 ** 5}     # realtime minus true time around each publication
SEM_A, ERR_A = SEM, ERR
SEM_B = {1: SEM[1], 2: (100000 * NS_, 101000 * NS_, 10 ** 6, 50000, 1), 3: (100300 * NS_, 101300 * NS_, 6 * NS_, 50000, 1)}
ERR_B = {1: ERR[1], 2: 9 * 10 ** 5, 3: 4995 * 10 ** 6 + 9 * 10 ** 5}


def rng_free(a, b, k):
    """a split point that depends on the placement only (no random state: replays are exact)"""
    return 1 + (a + b + k) % 4


def concurrent_part(res):
    """a client call overlapping a publication: every placement of one snapshot() into one update of the
    real writer (the schedules of C02), the cells it returns read as the publications above, the interval
    computed from them by the client model at a reading one second later, against true time"""
    from props import _shm
    binary = c.build_harness("debug")[0]
    cfg, _, _ = _shm.measure_cfg(binary)
    nominal = cfg or _shm.PLACEHOLDER
    scheds = _shm.small_scope()
    if res.tier == "quick":
        scheds = scheds[::4]
    # two publications before the client attaches, the overlapped one is the third; and the overlapped one the second
    scheds = [[("W",)] * 11 + sc for sc in scheds] + scheds
    # the call loads the generation, the update begins and stores some cells, the call copies some cells, the
    # update stores more, the call copies more, the update completes, the call goes on
    for a in (0, 1):
        for b in (2, 3, 4):
            for c2 in range(3 - a, 11 - a, 2 if res.tier == "quick" else 1):
                for d in range(1, 9, 2 if res.tier == "quick" else 1):
                    scheds.append([("W",)] * 11 + [("N",)] + [("W",)] * a + [("R", 0, None)] * b + [("W",)] * c2 + [("R", 0, None)] * d
                                  + [("W",)] * (11 - a - c2) + [("R", 0, None)] * 40)      # ... exactly to the end of this update
    # the daemon dies in the middle of publication 2 (the client holds publication 1), a new daemon starts over the
    # segment and publishes; the client's call overlaps that publication at every point
    R = ("R", 0, None)
    for k in (3, 6, 9):
        head = [("W",)] * 11 + [("N",)] + [R] * 13 + [("W",)] * k + [("C",), ("S",)]
        for a in range(0, 11, 3 if res.tier == "quick" else 1):
            scheds.append(head + [("W",)] * a + [R] * 40 + [("W",)] * 11 + [R] * 13)
            for b in (2, 5, 9):
                scheds.append(head + [("W",)] * a + [R] * b + [("W",)] * rng_free(a, b, k) + [R] * 40 + [("W",)] * 11 + [R] * 13)
    outs = c.run_lines_hang_aware(binary, [_shm.line_of(nominal, sc) for sc in scheds], "hang")
    calls, lines = [], []
    # ... and the daemon dying in the middle of update 3 right after the client (holding publication 1) had started to
    # copy: the call gives up when its budget is spent; what the next call answers from (`stall 3`)
    try:
        st3 = c.run_lines(binary, ["stall 3"], timeout=120)[0].split()
    except c.CheckError:
        st3 = []
    extra_obs = []
    if len(st3) > 4 and st3[4] != "E":
        extra_obs.append(("stall 3", " ".join(st3), [{"t": "T", "ret": "C", "cells": [int(x) for x in st3[4].split(",")]}]))
    for sc, o, obs_list in [(sc, o, None) for sc, o in zip(scheds, outs)] + extra_obs:
        res.evaluations += 1
        res.count("gen:client call overlapping a publication")
        if o == "hang":
            continue
        # what the publications say: the table above, or - for the call after a give-up - a world in which the third
        # publication is the one with the large error (a resynchronisation after a long free run): both are truthful
        SEM, ERR = (SEM_B, ERR_B) if isinstance(sc, str) else (SEM_A, ERR_A)
        for ob in (obs_list if obs_list is not None else _shm.parse_obs(o)):
            if ob["t"] == "T" and ob["ret"] in ("F", "C") and ob["cells"] and any(ob["cells"]):
                ks = [v // 1000 for v in ob["cells"][:6]] + [None]
                if any(k not in SEM for k in ks[:6]) or any(ob["cells"][i] != 1000 * ks[i] + i for i in range(6)):
                    continue
                a_s, a_n, v_s, v_n = SEM[ks[0]][0] // NS_, SEM[ks[1]][0] % NS_, SEM[ks[2]][1] // NS_, SEM[ks[3]][1] % NS_
                bound, drift = SEM[ks[4]][2], SEM[ks[5]][3]
                st = 1 if ob["cells"][6] in (0, 1, 2) else 0      # every publication here is Synchronized
                newest = max(ks[:6])
                t = SEM[newest][0] + NS_                            # the call reads its clocks one second after the newest as-of it saw
                real = t + ERR[newest]
                lines.append("cba %d %d %d %d %d %d %d %d %d %d %d" % (a_s, a_n, v_s, v_n, bound, drift, st, real // NS_, real % NS_, t // NS_, t % NS_))
                calls.append((sc, o, ks[:6], t, real))
    model = c.run_model(lines) if lines else []
    bad = []
    SEM = dict(SEM_A)
    for (sc, o, ks, t, real), ln, m in zip(calls, lines, model):
        SEM = SEM_B if isinstance(sc, str) else SEM_A
        r = m.split()
        if r[0] != "ok" or r[5] == "0":
            continue
        e, l = int(r[1]) * NS_ + int(r[2]), int(r[3]) * NS_ + int(r[4])
        if len(set(ks)) > 1:
            res.nontriv(ln)
        if not (e - 4 <= t <= l + 4):
            bad.append({"schedule": sc if isinstance(sc, str) else _shm.tok_str(sc), "impl": o, "why": [
                "a client call overlapping a publication obtained cells of publications %s; read as the records %s the interval at the clock reading %d is [%d, %d] with status %s, "
                "true time %d is outside it by %d ns" % (ks, {k: SEM[k] for k in sorted(set(ks))}, real, e, l, r[5], t, max(e - t, t - l))]})
    res.oblige("a client call overlapping a publication obtains one whole publication (premise of the containment theorem), %d calls" % len(calls), not bad)
    return bad


def run(res, proofs_ok, proofs_why, only=None):
    rng = random.Random(res.seed * 65521 + 1)
    binary = c.build_harness("debug")[0]
    worlds = [gen_world(rng) for _ in range(150 if res.tier == "quick" else 20000)]
    lines = [line_of(w[0], w[1], w[2]) for w in worlds]
    impl = c.run_lines_in_namespace(binary, lines, timeout=3000)
    model = c.run_model([model_line_of(w[0], w[1], w[2]) for w in worlds])
    res.rule = ("worlds of 4..22 events (poll iterations of every outcome class, client calls with time passing between their two clock reads, daemon restarts, daemon deaths in "
                "the middle of a publication, replacement of the client process); the clock error follows the edge of the drift cone in 2/3 of the "
                "client calls; non-trivial = world with at least one client call that returned Synchronized or FreeRunning after a synchronised report")
    diffs, bad = [], []
    for w, ln, i, m in zip(worlds, lines, impl, model):
        res.evaluations += 1
        toks = i.split()
        stat = [x.split(":")[4] for x in toks if x.startswith("c:ok:")]
        trusted = sum(1 for x in stat if x in ("1", "2"))
        res.count("client-calls-trusted", trusted)
        res.count("client-calls-unknown", sum(1 for x in stat if x == "0"))
        res.count("client-calls-with-time-passing-between-the-reads", sum(1 for it in w[2] if it[0] == "C" and it[4] != it[2]))
        res.count("restarts", sum(1 for x in toks if x == "r"))
        res.count("daemon-deaths-mid-publication", sum(1 for x in toks if x == "k"))
        res.count("client-process-replaced", sum(1 for x in toks if x == "f"))
        if trusted:
            res.nontriv(ln)
        # the order of the clock reads (last field of a client result) is judged by the oracle, the rest is compared
        canon = [x.rsplit(":", 1)[0] if x.startswith("c:") else x for x in toks if not x.startswith("ORDER")]
        if canon != m.split():
            diffs.append({"case": ln, "impl": i, "model": m})
        why = judge(w[2], w[3], i)
        if why:
            bad.append({"case": ln, "impl": i, "model": m, "true_time": [x for x in w[3]], "why": why})
    res.samples = [{"case": lines[k][:400], "impl": impl[k][:400]} for k in (0, len(lines) // 2)]
    res.traces_validated = len(lines) - len(diffs)
    res.oblige("correspondence:whole pipeline (fake chronyd -> poller -> process_messages -> ShmWriter -> file -> ClockBoundClient::now) vs composition of Poller/Updater/Client models", not diffs)
    res.trusted_base += ["world generator: true time = the monotonic scale, clock error inside the drift cone |E(t2)| <= |E(t1)| + rho (t2 - t1), chrony reports valid at the instant they describe",
                         "one process, virtual clock shared by all daemon threads; fake chronyd on the real socket path inside unshare -m + tmpfs on /run",
                         "slack of 4 ns for the integer truncations (realtime read, growth, as-of) as accounted for in DESIGN.md / World/Containment.v"]
    res.assumptions.append("CLOCK_MONOTONIC_COARSE granularity and chronyd's honesty are hypotheses of the world model, not verified")
    cbad = concurrent_part(res) if only is None else []
    if cbad:
        res.violation({"property": "C01", "kind": "schedule", "case": cbad[0], "others": [b["schedule"][:200] for b in cbad[1:4]],
                       "predicate": "status Synchronized/FreeRunning => true time inside the interval, for a call that overlaps a publication",
                       "how_to_replay": "./check C01 --replay <this file>"})
    if bad:
        res.violation({"property": "C01", "kind": "history", "case": bad[0], "others": [b["case"][:200] for b in bad[1:4]],
                       "predicate": "status Synchronized/FreeRunning => earliest - 4 ns <= true time at the realtime read <= latest + 4 ns",
                       "how_to_replay": "./check C01 --replay <this file>"})
    elif diffs:
        res.violation({"property": "C01", "kind": "obligation", "obligation": "correspondence:end-to-end pipeline vs model composition",
                       "first_differences": diffs[:2], "count": len(diffs)}, found_input=False)
    if not proofs_ok:
        res.violation({"property": "C01", "kind": "obligation", "obligation": proofs_why}, found_input=False)


def replay(res, path):
    r = json.load(open(path))
    case = r.get("case") or r.get("first_differences", [{}])[0]
    if str(case.get("schedule", "")).startswith("stall"):
        from props import _shm
        out = c.run_lines(c.build_harness("debug")[0], [case["schedule"]], timeout=120)[0].split()
        cells = [int(x) for x in out[4].split(",")] if len(out) > 4 and out[4] != "E" else None
        print("case %s\nimpl %s\nthe call after the one that gave up answers from: %s" % (case["schedule"], " ".join(out), cells))
        return 0 if cells is not None and _shm.rec_index(cells) == 1 else 1
    if "schedule" in case:
        # a client call overlapping a publication: the schedule is replayed against the oracle of C02
        from props import _shm
        return _shm.replay_property("C02", res, path)
    ln = case["case"]
    i = c.run_lines_in_namespace(c.build_harness("debug")[0], [ln])[0]
    t = ln.split()
    items, k = [], 4
    for _ in range(int(t[3])):
        n = {"P": 15, "C": 5, "R": 2, "K": 2, "F": 1, "N": 2}[t[k]]
        items.append(tuple([t[k]] + [int(x) for x in t[k + 1:k + n]]))
        k += n
    m = c.run_model([model_line_of(int(t[1]), int(t[2]), items)])[0]
    print("world %s\nimpl  %s\nmodel %s" % (ln, i, m))
    truth = case.get("true_time")
    if truth:
        why = judge(items, [tuple(x) if isinstance(x, list) else x for x in truth], i)
        print("containment: %s" % (why or "holds"))
        return 1 if why else 0
    canon = [x.rsplit(":", 1)[0] if x.startswith("c:") else x for x in i.split() if not x.startswith("ORDER")]
    return 0 if canon == m.split() else 1
