"""C15 - any dead worker brings the daemon down promptly.  Theorems: Properties/C15.v (invariant
over every schedule of the message-passing model, main reacts, strictly decreasing measure after
the broadcast).  Tie to the code: the real thread_manager::run in a private mount namespace with a
fault (panic / early return) injected at every cfg-gated fault point of both workers, at several
iterations, plus a real cause of death (segment directory cannot be created); run() must return
within the deadline after the death."""
import json
from concurrent.futures import ThreadPoolExecutor
import common as c

DEADLINE_MS = 10000


def scenarios(tier):
    out = []
    for point in ("poller.start", "writer.start", "writer.ready"):
        for f in (0, 1):
            out.append((point, 0, f, 0))
    for point in ("poller.loop", "poller.send", "poller.wait", "writer.loop"):
        for nth in ((0, 1, 2) if tier == "quick" else (0, 1, 2, 3, 5)):
            for f in (0, 1):
                out.append((point, nth, f, 0))
    out.append(("unwritable-segment", 0, 0, 0))
    # a long outage of chronyd (absent for the whole run) before the death: whatever the poller does
    # about an unreachable chronyd must not keep it away from its mailbox
    for nth in ((5,) if tier == "quick" else (5, 7)):
        for f in (0, 1):
            out.append(("writer.loop", nth, f, 0))
    # a hung chronyd: the other worker is inside a request (not at its mailbox) when the death happens,
    # and may die in turn when it finds its peer gone (a second death while the shutdown is under way)
    for point, nth in (("writer.start", 0), ("writer.ready", 0), ("writer.loop", 0), ("writer.loop", 1), ("poller.loop", 1), ("poller.send", 0), ("poller.wait", 0)):
        for f in (0, 1):
            out.append((point, nth, f, 1))
    out.append(("unwritable-segment", 0, 0, 1))
    # a slow writer: chronyd answers once and then refuses, so the poller sends "not responding, within
    # the grace period"; the writer is asleep while the poller dies right after that message, and finds
    # the report and the abort queued together when it wakes up (also with the PHC-failure flavour below)
    for nth in (1, 2):
        for f in (0, 1):
            out.append(("poller.wait", nth, f, 2, "writer.loop", 1, 2500))
    out.append(("poller.loop", 2, 0, 2, "writer.loop", 1, 2500))
    # a slow poller: the writer dies while the poller is asleep between its request and its report
    for f in (0, 1):
        out.append(("writer.loop", 1, f, 2, "poller.send", 1, 1500))
        out.append(("writer.loop", 0, f, 0, "poller.wait", 0, 1500))
    # a chronyd that answers, but slowly (150 ms per reply), while the writer dies: whatever the poller does
    # about slow replies must not keep it from its report and its mailbox
    for point in ("writer.loop", "writer.ready"):
        for f in (0, 1):
            out.append((point, 0, f, 3))
    out.append(("writer.loop", 1, 0, 3))
    out.append(("poller.send", 2, 0, 3))
    # a chronyd that answers every request at once, never with tracking data (5), or with a datagram that is no
    # reply at all (6), while the writer dies: whatever the poller does about such answers must not keep it from
    # its report and its mailbox
    for mode in (5, 6):
        for point, nth in (("writer.ready", 0), ("writer.loop", 0), ("writer.loop", 1)):
            out.append((point, nth, 0, mode))
        out.append(("writer.loop", 0, 1, mode))
        out.append(("poller.wait", 1, 0, mode))
    # the segment a daemon killed in the middle of an update left behind (valid header, odd generation) is what the
    # writer takes over; the poller dies after its first reports
    for point, nth, f in (("poller.wait", 1, 0), ("poller.loop", 2, 1), ("poller.send", 1, 0)):
        out.append((point, nth, f, 7))
    # the poller dies at once while the writer is still starting (a slow start: the death notice and the abort are
    # in the writer's mailbox before it has created the segment)
    for f in (0, 1):
        out.append(("poller.start", 0, f, 0, "writer.start", 0, 1500))
    out.append(("poller.loop", 0, 0, 0, "writer.start", 0, 1500))
    # another process holds an exclusive flock and an exclusive record lock on the segment file (a second
    # daemon, a lingering earlier instance, any client - the file is world-readable) while a worker dies
    for point, nth in (("poller.loop", 1), ("poller.start", 0), ("writer.loop", 1)):
        out.append((point, nth, 0, 4))
    # a backlog: the writer does not look at its mailbox for 18.5 s while the poller (chronyd absent) sends
    # a report every second, then the poller dies: the abort is the last of more than sixteen queued messages
    out.append(("poller.wait", 17, 0, 0, "writer.loop", 1, 18500))
    if tier != "quick":
        out.append(("poller.loop", 17, 1, 0, "writer.loop", 1, 18500))
        out.append(("poller.wait", 40, 0, 0, "writer.loop", 1, 42000))
    return out


def run_one(binary, sc):
    line = "thr " + " ".join(str(x) for x in sc)
    try:
        out = c.run_lines_in_namespace(binary, [line], timeout=150)[0]
    except c.CheckError as e:
        return line, None, str(e)
    return line, dict(x.split("=") for x in out.split()), out


def run(res, proofs_ok, proofs_why, only=None):
    binary = c.build_harness("debug")[0]
    scs = only if only is not None else scenarios(res.tier)
    with ThreadPoolExecutor(max_workers=12) as ex:
        results = list(ex.map(lambda sc: run_one(binary, sc), scs))
    res.rule = ("one real run of thread_manager::run per (fault point, iteration at which it strikes, panic | early return) + a real start-up failure of the writer; "
                "non-trivial = every scenario (each kills a different worker at a different program point)")
    bad, worst, unreached = [], 0, []
    for sc, (line, r, raw) in zip(scs, results):
        res.evaluations += 1
        res.nontriv(line)
        res.count("point:" + sc[0])
        if r is None:
            raise c.CheckError("scenario %s could not be run: %s" % (line, raw[-500:]))
        if r["fired"] != "1":
            # no worker died in this run (the point was not reached): the scenario says nothing about C15
            res.count("scenario-without-a-death")
            unreached.append(line)
            continue
        ms = int(r["ms_after_death"])
        worst = max(worst, ms)
        if r["returned"] != "1":
            bad.append({"scenario": line, "impl": raw, "why": ["run() had not returned %d ms after the worker died: the daemon lingers with part of its pipeline" % 20000]})
        elif ms > DEADLINE_MS:
            bad.append({"scenario": line, "impl": raw, "why": ["run() returned only %d ms after the worker died" % ms]})
    if len(unreached) > len(scs) // 10 and not bad:
        raise c.CheckError("in %d of %d scenarios no worker died (hooks missing?): %s" % (len(unreached), len(scs), unreached[:3]))
    res.extra["scenarios_without_a_death"] = unreached
    res.extra["worst_ms_after_death"] = worst
    res.extra["deadline_ms"] = DEADLINE_MS
    res.samples = [{"scenario": l, "impl": raw} for (l, r, raw) in results[:6]]
    res.traces_validated = len(results) - len(bad)
    res.oblige("real thread_manager::run returns within the deadline after every injected or real worker death (%d scenarios)" % len(results), not bad)
    res.trusted_base += ["message-passing abstraction of Daemon/Threads.v: std mpsc FIFO semantics, Drop order of Context, thread::panicking(), OS scheduling fairness are assumed",
                         "cfg-gated fault points (clock-bound-d/src/verif_fault.rs); the wall-clock figure is observed, not proved",
                         "chronyd in the namespace is absent (the poller's query fails at once) or hung (a bound socket nobody reads: each query takes the client's 3 s time-out); the poller's wait is the real 1 s recv_timeout"]
    res.assumptions.append("partial: the theorems are about the model; the exit 'within a few seconds' is an observation on this machine (worst %d ms)" % worst)
    if bad:
        res.violation({"property": "C15", "kind": "history", "case": bad[0], "others": [b["scenario"] for b in bad[1:5]],
                       "predicate": "run() returns within %d ms of a worker's death" % DEADLINE_MS, "how_to_replay": "./check C15 --replay <this file>"})
    if not proofs_ok:
        res.violation({"property": "C15", "kind": "obligation", "obligation": proofs_why}, found_input=False)


def replay(res, path):
    r = json.load(open(path))
    sc = r["case"]["scenario"].split()
    line, d, raw = run_one(c.build_harness("debug")[0], tuple(sc[1:]))
    print("scenario %s\nimpl %s" % (line, raw))
    return 0 if d and d["returned"] == "1" and int(d["ms_after_death"]) <= DEADLINE_MS else 1
