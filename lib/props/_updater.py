"""Shared machinery of C08 / C09: message histories through the real process_messages
(harness `upd` lines, every record written by the real ShmWriter and read back by a real
ShmReader) against Updater.urun, plus independent predicates on the published sequence."""
import json
import random
from fractions import Fraction
import common as c
import cfloat

NS = 10 ** 9
U = Fraction(1, 2 ** 53)
ITV4 = cfloat.word(1 << 23, 4)   # 4.0 s


def threshold(w):
    return min(2 ** 64 - 1, max(0, int(8 * cfloat.decode(w))))


def classify(leap, w, kind, secs, nanos):
    if kind == 1 or leap >= 4:
        return 0
    if leap == 3:
        return 2
    return 1 if secs * NS + nanos <= threshold(w) * NS else 2


def gen_history(rng, maxlen, mix):
    """-> list of message tuples ('r', d,e,o,leap,itv,kind,secs,nanos,phc,as_s,as_n) | ('m', g) | ('p', g)"""
    n = rng.randrange(0, maxlen + 1)
    t = rng.randrange(1, 10 ** 6) * NS + rng.randrange(NS)
    out = []
    for _ in range(n):
        t += rng.choice([1, NS, NS + rng.randrange(NS), rng.randrange(20 * NS)])
        k = rng.random()
        # update intervals: typical ones, a long one (so that a shorter one may follow it), and the ones eight of
        # which are no time at all - zero, and negative (reported after a backwards step of the clock)
        itv = rng.choice([ITV4, ITV4, cfloat.encode(1.0), cfloat.encode(16.0), cfloat.encode(0.5), cfloat.encode(1024.0), 0, cfloat.word(-(1 << 23), 4)])
        T = threshold(itv)
        d, e, o = cfloat.encode(rng.uniform(1e-4, 0.2)), cfloat.encode(rng.uniform(1e-6, 0.05)), cfloat.encode(rng.uniform(-0.05, 0.05))
        if rng.random() < 0.12:
            # root delay and dispersion of exactly one second (what chronyd reports right after its own start),
            # exactly zero, and a large offset: a report is a report whatever its figures
            one, zero = cfloat.encode(1.0), cfloat.encode(0.0)
            d, e = rng.choice([(one, one), (one, e), (d, one), (zero, zero), (one, zero)])
            o = rng.choice([o, cfloat.encode(-0.25), cfloat.encode(0.9)])
        # the PHC driver's number is added verbatim, whatever it is: also values no sane driver reports
        phc = rng.choice([0, 0, 0, rng.randrange(10 ** 5), rng.choice([-1, -12345, -(10 ** 9), -(10 ** 12), 10 ** 12, 2 ** 40, 2 ** 32 - 1, 2 ** 32, 2 ** 31 - 1, 2 ** 31, 65535])])
        prev = next((m for m in reversed(out) if m[0] == "r"), None)
        if prev is not None and rng.random() < 0.25:
            # the previous report again with exactly one field changed (what an updater remembers about a
            # report must not decide what it does with the next one)
            m = list(prev)
            f = rng.randrange(8)
            if f == 0:
                m[1] = d
            elif f == 1:
                m[2] = e
            elif f == 2:
                m[3] = o
            elif f == 3:
                m[4] = rng.choice([0, 1, 2, 3, 3, 4])
            elif f == 4:
                m[5] = itv
            elif f == 5:
                a = rng.choice([0, 1, NS, T * NS, T * NS + 1, 40 * NS])
                m[6], m[7], m[8] = 0, a // NS, a % NS      # a reference time in the past (kind 1 = future needs a non-zero distance)
            elif f == 6:
                m[9] = phc
            m[10], m[11] = t // NS, t % NS
            out.append(tuple(m))
        elif k < mix["sync"]:
            age = rng.choice([0, 1, rng.randrange(T * NS + 1), T * NS])
            out.append(("r", d, e, o, rng.randrange(3), itv, 0, age // NS, age % NS, phc, t // NS, t % NS))
        elif k < mix["sync"] + mix["unsync"]:
            out.append(("r", d, e, o, 3, itv, 0, rng.randrange(10), rng.randrange(NS), phc, t // NS, t % NS))
        elif k < mix["sync"] + mix["unsync"] + mix["stale"]:
            age = T * NS + rng.choice([1, NS, rng.randrange(1, 1000 * NS)])
            out.append(("r", d, e, o, rng.randrange(3), itv, 0, age // NS, age % NS, phc, t // NS, t % NS))
        elif k < mix["sync"] + mix["unsync"] + mix["stale"] + mix["unusable"]:
            if rng.random() < 0.5:
                out.append(("r", d, e, o, rng.choice([4, 5, 255, 256, 65535]), itv, 0, 0, 5, phc, t // NS, t % NS))
            else:
                out.append(("r", d, e, o, rng.randrange(4), itv, 1, rng.randrange(5), 1 + rng.randrange(NS - 1), phc, t // NS, t % NS))
        else:
            out.append((rng.choice(["m", "p"]), rng.randrange(2)))
    return out


def gen_timed(rng):
    """Histories in which the clock moves while messages are processed (harness `updt`): the same
    report (same reference time) seen again after the clock crossed the staleness threshold; a
    reference time in the future that the clock overtakes; the same reference time with different
    delay/dispersion/offset.  -> list of (offset_ns, message); the message's (kind, secs, nanos) give
    the reference time relative to offset 0."""
    t = rng.randrange(1, 10 ** 6) * NS + rng.randrange(NS)
    itv = rng.choice([ITV4, cfloat.encode(1.0), cfloat.encode(16.0), cfloat.encode(0.5), cfloat.encode(64.0)])
    T = threshold(itv) * NS

    def vals():
        return cfloat.encode(rng.uniform(1e-4, 0.2)), cfloat.encode(rng.uniform(1e-6, 0.05)), cfloat.encode(rng.uniform(-0.05, 0.05))

    def rep(off, d, e, o, leap, kind, a, phc=0):
        nonlocal t
        t += rng.choice([1, NS, 3 * NS])
        return (off, ("r", d, e, o, leap, itv, kind, a // NS, a % NS, phc, t // NS, t % NS))
    out, off = [], 0
    for _ in range(rng.randrange(1, 4)):
        pat = rng.randrange(3)
        leap = rng.randrange(3)
        d, e, o = vals()
        if pat == 0:       # fresh, then the identical report once it has become stale
            x = rng.choice([1, NS // 2, 3 * NS, T // 3 + 1])
            a0 = max(0, T - x - off)
            out.append(rep(off, d, e, o, leap, 0, a0))
            off += x + rng.choice([1, 300 * 10 ** 6, NS, 5 * NS])
            out.append(rep(off, d, e, o, leap, 0, a0))
            if rng.random() < 0.5:
                off += rng.choice([1, NS])
                out.append(rep(off, d, e, o, leap, 0, a0))
        elif pat == 1:     # reference time in the future, then overtaken by the clock
            z = off + rng.choice([2, NS, 7 * NS])
            out.append(rep(off, d, e, o, leap, 1, z))
            off = z + rng.choice([1, NS // 3, 2 * NS])
            out.append(rep(off, d, e, o, leap, 1, z))
        else:              # same reference time, new measurement values
            a0 = rng.randrange(0, max(1, T // 2))
            out.append(rep(off, d, e, o, leap, 0, a0))
            for _ in range(rng.randrange(1, 3)):
                off += rng.choice([0, 1, NS])
                d, e, o = vals()
                out.append(rep(off, d, e, o, leap, 0, a0, rng.choice([0, 0, 77777])))
        if rng.random() < 0.3:
            off += rng.choice([0, NS])
            out.append((off, (rng.choice(["m", "p"]), rng.randrange(2))))
    return out


def timed_lines(drift, th):
    """-> (harness line `updt`, the equivalent `upd` line in which every report carries its age at
    the instant it is processed - what the model and the oracle take)"""
    impl = ["updt", str(drift), str(len(th))]
    hist = []
    for off, m in th:
        impl += [str(off)] + [str(x) for x in m]
        if m[0] == "r":
            a = m[7] * NS + m[8]
            if m[6] == 0:
                kind, age = 0, a + off
            elif off < a:
                kind, age = 1, a - off
            else:
                kind, age = 0, off - a
            m = m[:6] + (kind, age // NS, age % NS) + m[9:]
        hist.append(m)
    return " ".join(impl), line_of(drift, hist)


def run_timed(pid, res, rng, binary, n):
    """-> (diffs, bad) for n timed histories"""
    cases = [timed_lines(rng.choice([0, 1000, 50000]), gen_timed(rng)) for _ in range(n)]
    impl = c.run_lines(binary, [x[0] for x in cases])
    model = c.run_model([x[1] for x in cases])
    res.evaluations += len(cases)
    diffs, bad = [], []
    for (il, ml), i, m in zip(cases, impl, model):
        res.count("gen:clock moves between messages")
        res.nontriv(il)
        if i != m:
            diffs.append({"case": il, "equivalent_untimed": ml, "impl": i, "model": m})
        why = judge(ml, i, pid)
        if why:
            bad.append({"case": il, "equivalent_untimed": ml, "impl": i, "model": m,
                        "why": why + ["(updt: the realtime clock reads NOW + offset while each message is processed)"]})
    return diffs, bad


def run_live(pid, res, rng, binary, n):
    """the same timed histories with the writer on its own thread, waiting at its mailbox when each message
    arrives (harness `updl`): while it waits the clock reads earlier than when the message is processed -
    by a few nanoseconds up to beyond the staleness threshold; what counts is the clock at the time the
    report is processed.  -> (diffs, bad)"""
    cases = []
    for _ in range(n):
        drift, th = rng.choice([0, 1000, 50000]), gen_timed(rng)
        il, ml = timed_lines(drift, th)
        t = il.split()
        # insert a wait after every offset: how much earlier the clock read while the writer was waiting
        out, k = ["updl", t[1], t[2]], 3
        for off, m in th:
            wait = rng.choice([1, 1000, 400 * 10 ** 6, 2 * NS, 9 * NS, 40 * NS, 600 * NS])
            out += [t[k], str(wait)] + [str(x) for x in m]
            k += 1 + len(m)
        cases.append((" ".join(out), ml))
    impl = c.run_lines(binary, [x[0] for x in cases], timeout=1800)
    model = c.run_model([x[1] for x in cases])
    res.evaluations += len(cases)
    diffs, bad = [], []
    for (il, ml), i, m in zip(cases, impl, model):
        res.count("gen:writer waiting at its mailbox while the clock moves")
        res.nontriv(il)
        if i != m:
            diffs.append({"case": il, "equivalent_untimed": ml, "impl": i, "model": m})
        why = judge(ml, i, pid)
        if why:
            bad.append({"case": il, "equivalent_untimed": ml, "impl": i, "model": m,
                        "why": why + ["(updl: the writer was waiting at its mailbox, the clock reading NOW + offset - wait, when the message was sent at NOW + offset)"]})
    return diffs, bad


def run_two_lives(pid, res, rng, binary, n):
    """two instances of the daemon's writer side, one after the other, over one segment file (harness
    `upd2`): the second starts over whatever the first left - possibly only the start-up placeholder,
    possibly a trusted record - and possibly with another drift rate.  Each life is judged on its own:
    what an earlier instance left in the segment must not count as a measurement of this one."""
    cases = []
    for k in range(n):
        h1 = gen_history(rng, 5, MIXES[2] if k % 2 == 0 else MIXES[k % len(MIXES)])
        h2 = gen_history(rng, 6, MIXES[2] if k % 3 else MIXES[0])
        d1, d2 = rng.choice([1000, 50000]), rng.choice([1000, 50000, 200000])
        cases.append((d1, h1, d2, h2))
    lines = ["upd2 " + line_of(d1, h1)[4:] + " " + line_of(d2, h2)[4:] for d1, h1, d2, h2 in cases]
    impl = c.run_lines(binary, lines)
    models = c.run_model(lines)      # Updater.lives: every instance starts from u_init with its own rate
    res.evaluations += len(cases)
    diffs, bad = [], []
    for (d1, h1, d2, h2), ln, i, model in zip(cases, lines, impl, models):
        res.count("gen:two lives over one segment")
        res.nontriv(ln)
        if i.split() != model.split():
            diffs.append({"case": ln, "impl": i, "model": model})
        recs = parse_out(i)
        if recs is None:
            bad.append({"case": ln, "impl": i, "model": model, "why": ["implementation outcome: " + i[:200]]})
            continue
        r1, r2 = recs[:len(h1)], recs[len(h1):]
        for life, (d, h, r) in enumerate(((d1, h1, r1), (d2, h2, r2))):
            out = "%d %s" % (len(r), " ".join(" ".join(str(x) for x in rr) for rr in r))
            why = judge(line_of(d, h), out, pid)
            if why:
                bad.append({"case": ln, "impl": i, "model": model, "why": ["life %d of the daemon (its own messages: %s): " % (life + 1, line_of(d, h)[:200])] + why})
                break
    return diffs, bad


def line_of(drift, hist):
    parts = ["upd", str(drift), str(len(hist))]
    for m in hist:
        parts += [str(x) for x in m]
    return " ".join(parts)


def parse_line(line):
    t = line.split()
    drift, n = int(t[1]), int(t[2])
    i, hist = 3, []
    for _ in range(n):
        if t[i] == "r":
            hist.append(("r",) + tuple(int(x) for x in t[i + 1:i + 12]))
            i += 12
        else:
            hist.append((t[i], int(t[i + 1])))
            i += 2
    return drift, hist


def parse_out(out):
    t = out.split()
    if t[0] in ("panic", "MISMATCH"):
        return None
    if not t or not t[0].isdigit():
        return None          # panic, MISMATCH ...: not a list of records
    n = int(t[0])
    return [tuple(int(x) for x in t[1 + 7 * k: 8 + 7 * k]) for k in range(n)]


def msg_class(m):
    if m[0] == "r":
        return classify(m[4], m[5], m[6], m[7], m[8])
    return 2 if m[1] else 0


def judge(line, out, want):
    """clauses of C08 (want='C08') or C09 (want='C09') on the published sequence"""
    drift, hist = parse_line(line)
    recs = parse_out(out)
    if recs is None:
        return ["implementation outcome: " + out[:200]]
    bad = []
    if want == "C08" and len(recs) != len(hist):
        bad.append("%d publications for %d outcomes" % (len(recs), len(hist)))
        return bad
    last = None          # (exact sum + phc, as_of) of the last synchronised report
    prev = (0, 0, 1000, 0, 0)
    for k, (m, r) in enumerate(zip(hist, recs)):
        as_s, as_n, va_s, va_n, bound, dr, st = r
        cls = msg_class(m)
        if m[0] == "r" and cls == 1:
            s = (cfloat.decode(m[1]) / 2 + cfloat.decode(m[2]) + abs(cfloat.decode(m[3]))) * NS
            last = (s, m[9], m[10], m[11])
        if want == "C08":
            if last is not None and m[0] == "r" and cls == 1:
                s, phc = last[0], last[1]
                if (as_s, as_n) != (m[10], m[11]):
                    bad.append("record %d: as-of is not that of the synchronised report just processed" % k)
                if not (s * (1 - 4 * U) <= bound - phc < s * (1 + 5 * U) + 1):
                    bad.append("record %d: bound %d is not that of the synchronised report just processed" % (k, bound))
            else:
                if (as_s, as_n, bound) != (prev[0], prev[1], prev[4]):
                    bad.append("record %d: bound/as-of changed by an outcome that is not a synchronised report" % k)
            if (va_s, va_n) != (as_s + 1000, 0):
                bad.append("record %d: void-after is not as-of + 1000 s rounded down to a second" % k)
            if dr != drift:
                bad.append("record %d: drift %d is not the configured %d" % (k, dr, drift))
            if last is not None and st != cls:
                bad.append("record %d: status %d but the latest outcome is of class %d" % (k, st, cls))
        if want == "C09":
            if last is None and st != 0:
                bad.append("record %d: status %d published before any synchronised report (bound %d, as-of %d.%09d)" % (k, st, bound, as_s, as_n))
            elif st != 0 and (as_s, as_n) == (0, 0):
                bad.append("record %d: status %d published with the start-up placeholder (as-of 0, bound %d): no measurement stands behind it" % (k, st, bound))
        prev = (as_s, as_n, va_s, va_n, bound)
    if want == "C09" and last is None:
        for k in range(len(hist), len(recs)):      # records the daemon published on its own (e.g. while stopping)
            if recs[k][6] != 0:
                bad.append("record %d (published after the last message): status %d although no synchronised report was ever received" % (k, recs[k][6]))
    return bad


MIXES = [
    {"sync": 0.4, "unsync": 0.15, "stale": 0.15, "unusable": 0.1},
    {"sync": 0.1, "unsync": 0.3, "stale": 0.2, "unusable": 0.1},
    {"sync": 0.0, "unsync": 0.3, "stale": 0.3, "unusable": 0.1},    # never synchronised (C09)
    {"sync": 0.7, "unsync": 0.05, "stale": 0.05, "unusable": 0.05},
]


def shrink(line, fails):
    """delta-debug the message list while `fails(line)` stays true"""
    drift, hist = parse_line(line)
    changed = True
    while changed and len(hist) > 1:
        changed = False
        for i in range(len(hist)):
            cand = hist[:i] + hist[i + 1:]
            ln = line_of(drift, cand)
            if fails(ln):
                hist, changed = cand, True
                break
    return line_of(drift, hist)


def run_property(pid, res, proofs_ok, proofs_why, only=None):
    rng = random.Random(res.seed * 65537 + (8 if pid == "C08" else 9))
    n = 600 if res.tier == "quick" else 20000
    if only is None:
        lines, tags = [], []
        for ln in c.corpus_lines("updater"):
            lines.append(ln)
            tags.append("corpus")
        for i in range(n):
            mix = MIXES[2] if (pid == "C09" and i % 2 == 0) else MIXES[i % len(MIXES)]
            hist = gen_history(rng, 40 if i % 5 else 6, mix)
            lines.append(line_of(rng.choice([0, 1000, 5000, 50000, 10 ** 9 - 1, 2 ** 32 - 1]), hist))
            tags.append("mix%d" % MIXES.index(mix))
        # long runs of one outcome: a measurement (or none), then 6..40 outages / PHC failures in a row, inside and
        # outside the grace period, then perhaps a report again - the status follows the latest outcome however
        # many of a kind came before it
        for i in range(max(20, n // 15)):
            t = rng.randrange(1, 10 ** 5) * NS
            hist = gen_history(rng, 3, MIXES[0])
            run = rng.randrange(6, 41)
            kinds = rng.choice([["m"], ["p"], ["m", "p"]])
            graces = rng.choice([[1], [1, 1, 1, 0], [0], [1, 0]])
            hist += [(rng.choice(kinds), rng.choice(graces)) for _ in range(run)]
            hist += gen_history(rng, 2, MIXES[0])
            lines.append(line_of(rng.choice([1000, 50000]), hist))
            tags.append("long-run")
    else:
        lines, tags = only, ["replay"] * len(only)
    res.rule = ("message histories of length 0..40 (reports: synchronised / leap 3 / stale / unusable; outages and PHC failures inside / outside "
                "the grace period); distinct = distinct lines; non-trivial = history with at least one status change after a synchronised report "
                "(C08) or at least one FreeRunning-class outcome before any synchronised report (C09)")
    model = c.run_model(lines)
    binary = c.build_harness("debug")[0]
    impl = c.run_lines(binary, lines)
    res.evaluations = len(lines)
    diffs, bad = [], []
    for ln, tg, m, i in zip(lines, tags, model, impl):
        res.count("gen:" + tg)
        drift, hist = parse_line(ln)
        res.count("len:%02d-%02d" % (len(hist) // 10 * 10, len(hist) // 10 * 10 + 9))
        classes = [msg_class(x) for x in hist]
        seen_sync, nontriv = False, False
        for x, cl in zip(hist, classes):
            res.count("outcome-class:%d" % cl)
            if x[0] == "r" and cl == 1:
                seen_sync = True
            elif pid == "C08" and seen_sync:
                nontriv = True
            elif pid == "C09" and not seen_sync and cl == 2:
                nontriv = True
        if nontriv:
            res.nontriv(ln)
        if i != m:
            diffs.append({"case": ln, "impl": i, "model": m})
        why = judge(ln, i, pid)
        if why:
            bad.append({"case": ln, "impl": i, "model": m, "why": why})
    tbad = []
    if only is None:
        tdiffs, tbad = run_timed(pid, res, rng, binary, n // 3)
        diffs += tdiffs
        ldiffs, lbad = run_two_lives(pid, res, rng, binary, n // 4)
        diffs += ldiffs
        tbad += lbad
    res.samples = [{"case": lines[k], "impl": impl[k], "model": model[k]} for k in range(0, len(lines), max(1, len(lines) // 4))][:4]
    res.traces_validated = res.evaluations - len(diffs)
    res.oblige("correspondence:process_messages+ShmUpdater+FSM (through real ShmWriter/ShmReader) vs Updater.urun", not diffs)
    res.trusted_base.append("cfg-gated wrapper run_updater around the private process_messages / ShmUpdater; messages queued on the real mpsc channel")
    if bad:
        first = bad[0]

        def fails(l):
            return bool(judge(l, c.run_lines(binary, [l])[0], pid))
        small = shrink(first["case"], fails)
        first = {"case": small, "impl": c.run_lines(binary, [small])[0], "model": c.run_model([small])[0],
                 "why": judge(small, c.run_lines(binary, [small])[0], pid), "shrunk_from_messages": len(parse_line(first["case"])[1])}
        res.violation({"property": pid, "kind": "history", "case": first, "others": [b["case"] for b in bad[1:4]],
                       "predicate": "clauses of %s on the published sequence (lib/props/_updater.py judge)" % pid,
                       "how_to_replay": "./check %s --replay <this file>" % pid})
    elif tbad:
        res.violation({"property": pid, "kind": "history", "case": tbad[0], "others": [b["case"] for b in tbad[1:4]],
                       "predicate": "clauses of %s on the published sequence (lib/props/_updater.py judge)" % pid,
                       "how_to_replay": "./check %s --replay <this file>" % pid})
    elif diffs:
        res.violation({"property": pid, "kind": "obligation",
                       "obligation": "correspondence:process_messages vs Updater.urun",
                       "first_differences": diffs[:3], "count": len(diffs)}, found_input=False)
    if not proofs_ok:
        res.violation({"property": pid, "kind": "obligation", "obligation": proofs_why}, found_input=False)


def split_two(ln):
    """an `upd2` line as the two `upd` lines of its lives"""
    t = ln.split()[1:]
    i = 2
    for _ in range(int(t[1])):
        i += 12 if t[i] == "r" else 2
    return "upd " + " ".join(t[:i]), "upd " + " ".join(t[i:])


def replay_two(pid, ln):
    l1, l2 = split_two(ln)
    out = c.run_lines(c.build_harness("debug")[0], [ln])[0]
    model = c.run_model([ln])[0]
    recs = parse_out(out)
    why = []
    if recs is None:
        why = ["implementation outcome: " + out[:200]]
    else:
        n1 = len(parse_line(l1)[1])
        for life, (l, r) in enumerate(((l1, recs[:n1]), (l2, recs[n1:]))):
            w = judge(l, "%d %s" % (len(r), " ".join(" ".join(str(x) for x in rr) for rr in r)), pid)
            if w:
                why = ["life %d of the daemon: " % (life + 1)] + w
                break
    print("case  %s\nimpl  %s\nmodel %s\npredicate: %s" % (ln, out, model, why or "holds"))
    return 1 if (why or out.split() != model.split()) else 0


def replay_property(pid, res, path):
    r = json.load(open(path))
    case = r.get("case", {})
    ln = case.get("case") if isinstance(case, dict) else None
    ml = case.get("equivalent_untimed") if isinstance(case, dict) else None
    if ln is None and "first_differences" in r:
        ln = r["first_differences"][0]["case"]
        ml = r["first_differences"][0].get("equivalent_untimed")
    if ln.startswith("upd2"):
        return replay_two(pid, ln)
    out = c.run_lines(c.build_harness("debug")[0], [ln])[0]
    m = c.run_model([ml or ln])[0]
    why = judge(ml or ln, out, pid)
    print("case  %s\nimpl  %s\nmodel %s\npredicate: %s" % (ln, out, m, why or "holds"))
    return 1 if (why or out != m) else 0
