"""C16 - segment files validated on open, repaired by the daemon.  Theorems: Properties/C16.v.
See lib/props/_files.py for the corpus and the runs."""
import json
import random
import common as c
from props import _files as F


def run(res, proofs_ok, proofs_why):
    rng = random.Random(res.seed * 613 + 16)
    results, _ = F.run_corpus(res, "C16", rng, 150 if res.tier == "quick" else 15000)
    res.rule = ("file corpus: valid segments, every header field mutated, declared sizes around 16 and 72, every truncation length 0..80, garbage, "
                "directory, missing file, missing parent directory; non-trivial = every file except plain valid ones (each is a distinct malformed or boundary case)")
    diffs, bad = [], []
    for r in results:
        res.evaluations += 1
        res.count("file:" + r["tag"].split("-")[0])
        if not r["tag"].startswith("valid"):
            res.nontriv(r["tag"] + r["data"].hex())
        want = F.oracle_open(r["kind"], r["data"])
        o, k, ck = r["rust"]["O"], r["rust"]["K"], r["c"]["K"]
        mo = r["model"]["O"]
        res.count("open:" + o.split(":")[0])
        why = []
        if "panic" in (o, k, ck):
            why.append("opening crashed")
        if o != want:
            why.append("ShmReader::new gave %s, documented outcome is %s" % (o, want))
        if k != o:
            why.append("ClockBoundClient::new_with_path gave %s but ShmReader::new %s" % (k, o))
        if ck != o:
            why.append("clockbound_open gave %s but ShmReader::new %s" % (ck, o))
        if o != mo:
            diffs.append({"case": F.describe(r), "what": "open outcome: impl %s model %s" % (o, mo)})
        # daemon start-up + first publication over this file
        w, wm = r["wrt"], r["wrt_model"]
        if r["kind"] == 2 or r["kind"] >= 4:
            if not w.startswith("W:err"):
                why.append("daemon start-up over a directory / an unresolvable path did not fail cleanly: " + w)
            if wm != "W:err":
                diffs.append({"case": F.describe(r), "what": "writer outcome on a directory: model " + wm})
        else:
            rec = r["record"]
            wantR = "W:ok R:%d:%d:%d:%d:%d:%d:%d" % rec
            if w != wantR:
                why.append("after start-up and first publication a fresh client read %s, published %s" % (w, wantR))
            after = r["after"]
            if after is None:
                why.append("no segment file after start-up")
            else:
                if F.oracle_open(0, after) != "ok":
                    why.append("file left by the daemon cannot be opened: " + F.oracle_open(0, after))
                if len(after) >= 72:
                    d = F.proto_decode(after[:72])
                    got = (d["as_of_sec"], d["as_of_nsec"], d["void_after_sec"], d["void_after_nsec"], d["bound"], d["max_drift"], d["status"])
                    if got != rec:
                        why.append("record bytes in the file decode to %s, published %s" % (got, rec))
                else:
                    why.append("file left by the daemon has %d bytes: the record does not fit (it lives only in the mapping)" % len(after))
                if want != "ok" and after != F.header(size=72, ver=1, gen=2) + F.record(rec):
                    why.append("re-created file is not the documented 72-byte layout")
                mbytes = bytes(int(x) for x in wm.split()[1:]) if wm.startswith("W:ok") else None
                if mbytes != after:
                    diffs.append({"case": F.describe(r), "what": "file bytes after first publication differ from Open.after_first_publication",
                                  "impl_hex": after.hex(), "model_hex": mbytes.hex() if mbytes is not None else None})
        if why and any("syscall:24:" in str(v) for v in list(r["rust"].values()) + list(r["c"].values())):
            why.append("(errno 24 is EMFILE: the process, held to 96 descriptors, ran out of them - opens that failed on the files before "
                       "this one did not give back what they had acquired; the outcome depends on the opens made before, replay runs the whole corpus)")
        if why:
            bad.append({"case": F.describe(r), "why": why})
    res.samples = [F.describe(results[i]) for i in (0, 10, len(results) // 2)]
    res.traces_validated = len(results) - len(diffs)
    res.oblige("correspondence:ShmReader::new vs Open.reader_open and ShmWriter::new+write vs Open.after_first_publication on the file corpus", not diffs)
    if bad:
        res.violation({"property": "C16", "kind": "input", "case": bad[0], "others": [b["case"]["file"] for b in bad[1:6]],
                       "predicate": "documented open outcome; file openable and record read back after start-up + first publication; re-created file = documented 72 bytes",
                       "how_to_replay": "./check C16 --replay <this file>"})
    elif diffs:
        res.violation({"property": "C16", "kind": "obligation", "obligation": "correspondence on the file corpus", "first_differences": diffs[:3]}, found_input=False)
    if not proofs_ok:
        res.violation({"property": "C16", "kind": "obligation", "obligation": proofs_why}, found_input=False)


def replay(res, path):
    r = json.load(open(path))
    print(json.dumps(r.get("case") or r.get("first_differences"), indent=1)[:3000])
    print("re-running the whole corpus (files are regenerated from the seed):")
    res2 = c.Result("C16", "quick", res.seed)
    run(res2, True, "")
    for p, _ in res2.violations:
        print(open(p).read()[:1500])
    return 1 if res2.violations else 0
