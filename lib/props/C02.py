"""C02 - a snapshot is never a mixture.  Theorems: Properties/C02.v.
Tie to the code: (1) the configuration (orderings, fences, copy order) is measured from the access
trace of the running write()/snapshot() and the generated Current_C02.v must prove
`safe_cfg current_cfg = true`; (2) the shared SC schedule correspondence of lib/props/_shm.py
with the mixture oracle; (3) when the side condition fails, the release/acquire machine is
searched, with the measured configuration, for an execution in which snapshot() accepts a record
mixing two publications; a hit is the failing history."""
import itertools
import common as c
from props import _shm


def ra_search(cfg, res):
    """Bounded search on the extracted machine (the code's measured configuration): one reader,
    two publications, every choice of events for the reader's loads.  Returns a failing schedule
    (token list with read choices) or None."""
    w1 = 9 + (1 if cfg["w_fence"] is not None else 0) + 1      # accesses of one write()
    # event indices: init log has 2 + 7 events, then ver:=1 at 9; each write appends 1 + 7 + 1 events
    base = 2 + _shm.NCELL + 1
    odd1, even1 = base, base + 8
    odd2, even2 = base + 9, base + 17
    cells1 = [base + 1 + i for i in range(_shm.NCELL)]
    cells2 = [base + 10 + i for i in range(_shm.NCELL)]
    pre = [("W",)] * w1 + [("N",)] + [("W",)] * w1
    lines, scheds = [], []
    for mix in itertools.product((0, 1), repeat=_shm.NCELL):
        if len(set(mix)) == 1:
            continue
        for g1, g2 in ((even1, even1), (even2, even2), (even1, even2)):
            toks = list(pre) + [("R", 0, base - 1), ("R", 0, g1)]
            for k, i in enumerate(cfg["r_order"]):
                toks.append(("R", 0, (cells2 if mix[i] else cells1)[i]))
            if cfg["r_fence"] is not None:
                toks.append(("R", 0, None))
            toks.append(("R", 0, g2))
            scheds.append(toks)
            lines.append(_shm.line_of(cfg, toks))
    outs = c.run_model(lines)
    res.evaluations += len(lines)
    res.count("ra-search:candidate executions", len(lines))
    for toks, out in zip(scheds, outs):
        for ob in _shm.parse_obs(out):
            if ob["t"] == "T" and ob["ret"] == "F" and _shm.rec_index(ob["cells"]) is None:
                return toks, out
    return None, None


def restart_part(res):
    """without the shim (the writer's own stores are what lands in the file): a daemon died in the middle of an
    update - odd generation, the record in the segment a mixture of the last two - or left a complete record;
    a new daemon starts over the file and publishes a record many of whose fields are zero (as its start-up
    record is); a fresh client must read back exactly that record, no field of what was there before"""
    import os, random, shutil
    from props import _files as F
    rng = random.Random(res.seed * 7 + 2)
    root = os.path.join(c.BUILD, "scratch", "restart-%d" % os.getpid())
    shutil.rmtree(root, ignore_errors=True)
    os.makedirs(root)
    lines, want = [], []
    for k in range(60 if res.tier == "quick" else 2000):
        old = (rng.randrange(1, 10 ** 5), rng.randrange(1, 10 ** 9), rng.randrange(1, 10 ** 5), rng.randrange(1, 10 ** 9), rng.randrange(1, 10 ** 9), rng.randrange(1, 10 ** 6), rng.choice([1, 2]))
        gen = rng.choice([3, 7, 101, 65535, 4, 6])
        new = tuple(0 if rng.random() < 0.5 else v for v in (rng.randrange(1, 10 ** 5), rng.randrange(1, 10 ** 9), rng.randrange(1, 10 ** 5), 0, rng.randrange(1, 10 ** 9), rng.choice([1000, 50000]), rng.randrange(3)))
        pth = os.path.join(root, "seg%d" % k)
        with open(pth, "wb") as fh:
            fh.write(F.header(gen=gen) + F.record(old))
        lines.append("wrt %s %d %d %d %d %d %d %d" % ((pth,) + new))
        want.append((gen, old, new))
    outs = c.run_lines(c.build_harness("debug")[0], lines) + c.run_lines(c.build_harness("release")[0], lines)
    shutil.rmtree(root, ignore_errors=True)
    bad = []
    for (gen, old, new), o in zip(want + want, outs):
        res.evaluations += 1
        res.count("gen:restart over a %s record, publication with zero fields" % ("half-written" if gen % 2 else "complete"))
        res.nontriv(str((gen, old, new)))
        if o != "W:ok R:%d:%d:%d:%d:%d:%d:%d" % new:
            bad.append({"schedule": "daemon restart over generation %d, record %s; publication of %s" % (gen, old, new), "impl": o,
                        "why": ["a fresh client read %s after the restarted daemon published %s over a segment holding %s (generation %d): fields of two records in one snapshot" % (o, new, old, gen)]})
    res.oblige("a record published by a daemon that started over a half-written or complete segment is read back whole (%d restarts)" % len(outs), not bad)
    if bad:
        res.violation({"property": "C02", "kind": "history", "case": bad[0], "others": [b["schedule"][:200] for b in bad[1:4]],
                       "predicate": "every record a reader obtains is, field for field, one record the daemon published in full",
                       "how_to_replay": "./check C02"})


def run(res, proofs_ok, proofs_why):
    restart_part(res)
    # sequences of publications that differ in one field only (the bound alone, the status alone, ...), read back
    # after each by an attached client: what it obtains is the record just published, not a blend with the one before
    from props import C03
    C03.sequence_part(res, "C02")
    cfg_box = {}

    def extra(res, cfg, binary, rng):
        cfg_box["cfg"] = cfg
        return []
    cfg, binary = _shm.run_property("C02", res, proofs_ok, proofs_why, extra_part=extra)
    if cfg is None:
        return
    body = ("From CB Require Import SeqlockInv GenCyc SeqlockRA.\nFrom CB.Properties Require Import C02.\n"
            "Theorem current_cfg_safe : safe_cfg current_cfg = true.\nProof. vm_compute. reflexivity. Qed.\n"
            "(* the general theorems instantiated with the configuration measured from the running code, for every\n"
            "   record function RF (what the daemon publishes) *)\n"
            "Section S.\nContext {RF : RecFun}.\n"
            "Theorem C02_for_the_running_code : forall ts m o, Forall real_token ts ->\n"
            "  m_run (m_init current_cfg) ts = (m, o) -> (Z.of_nat (m_nrec m) < 32767)%Z ->\n"
            "  forall j ret rec, In (ORet j ret rec) o -> ret <> RetErr ->\n"
            "    rec = repeat 0%Z (c_cells current_cfg) \\/\n"
            "    exists a q e, (0 < a)%nat /\\ ev (w_log (m_w m)) q = Some e /\\ e_kind e = KEven /\\ e_att e = a /\\ rec = recf (c_cells current_cfg) a.\n"
            "Proof. intros ts m o. apply (C02_RA current_cfg ts m o current_cfg_safe). Qed.\n"
            "Theorem C02_window_for_the_running_code : forall ts m o, Forall real_token ts -> m_run (m_init current_cfg) ts = (m, o) ->\n"
            "  run_windows (m_init current_cfg) ts -> forall j ret rec, In (ORet j ret rec) o -> ret <> RetErr ->\n"
            "  rec = repeat 0%Z (c_cells current_cfg) \\/ published current_cfg (w_log (m_w m)) rec.\n"
            "Proof. intros ts m o. apply (C02_RA_window current_cfg ts m o current_cfg_safe). Qed.\n"
            "End S.\n"
            "Print Assumptions C02_for_the_running_code.\nPrint Assumptions C02_window_for_the_running_code.\n")
    ok, log = _shm.current_obligation(cfg, "C02", body)
    res.oblige("Current_C02.v: safe_cfg current_cfg = true (release fence after the odd store, acquire fence before the re-load, "
               "Release final store, Acquire generation loads, copy orders are permutations)", ok)
    res.extra["current_cfg_coq"] = _shm.coq_cfg(cfg)
    if not ok:
        toks, out = ra_search(cfg, res)
        if toks:
            toks = _shm.clean_ra(cfg, [toks])[0]
            impl = c.run_lines(binary, [_shm.line_of(cfg, toks)])[0]
            res.violation({"property": "C02", "kind": "history",
                           "case": {"schedule": _shm.tok_str(toks), "model_execution": out,
                                    "real_snapshot_under_simulated_memory": impl,
                                    "real_reader_returns_the_mixture": any(ob["t"] == "T" and ob["ret"] == "F" and _shm.rec_index(ob["cells"]) is None for ob in _shm.parse_obs(impl)),
                                    "why": ["under the release/acquire model, with the orderings and fences measured from the running code, snapshot() accepts a "
                                            "record whose cells come from two different publications (R j k = the load returns event k of the writer's log)"]},
                           "obligation": "safe_cfg current_cfg = true fails: " + log[-600:],
                           "measured_cfg": cfg, "how_to_replay": "./check C02 --replay <this file>"})
        else:
            res.violation({"property": "C02", "kind": "obligation", "obligation": "Current_C02.v: safe_cfg current_cfg = true does not hold: " + log[-800:],
                           "measured_cfg": cfg}, found_input=False)
    # a call that exhausts its retry budget (daemon dead after the odd store and four cells of an update)
    # must leave the client's record alone: the next call still returns one complete publication
    out3 = c.run_lines(binary, ["stall 3"], timeout=200)[0].split()
    res.evaluations += 1
    cells3 = [int(x) for x in out3[4].split(",")] if len(out3) > 4 and out3[4] != "E" else None
    if cells3 is not None and _shm.rec_index(cells3) is None:
        res.violation({"property": "C02", "kind": "schedule",
                       "case": {"schedule": "stall 3 (client holds publication 1; publication 2 completes; the daemon dies after the odd generation store and four cells of "
                                            "publication 3, right after the client's first generation load; the call gives up after its retry budget; next call)",
                                "impl": " ".join(out3), "why": ["the call after the one that gave up returned a mixture of two publications: %s" % cells3]},
                       "how_to_replay": "./check C18 --replay <this file>"})
    # known finding C02-aba on the real code: 32767 publications inside one snapshot() call
    toks = [("W",)] * 11 + [("N",)] + [("R", 0, None)] * 4 + [("J", 65534)] + [("W",)] * 11 + [("R", 0, None)] * 9
    ln = _shm.line_of(cfg, toks)
    out = c.run_lines(binary, [ln])[0]
    res.evaluations += 1
    mixed = [ob for ob in _shm.parse_obs(out) if ob["t"] == "T" and ob["ret"] == "F" and _shm.rec_index(ob["cells"]) is None]
    if mixed:
        if not res.known_finding("C02-aba", "generation wrapped once around (32767 publications, shortened with the J token) inside one snapshot() call of the real reader: accepted %s" % mixed[0]["cells"]):
            res.violation({"property": "C02", "kind": "schedule", "case": {"schedule": _shm.tok_str(toks), "impl": out,
                           "why": ["mixture accepted after a 16-bit generation wrap inside one call, not listed as a known finding"]}})
    res.assumptions.append("side condition of C02_RA_window: no snapshot() iteration spans 32767 or more completed publications (16-bit generation ABA, known finding C02-aba); C02_RA is the special case of runs with fewer than 32767 write() calls")


def replay(res, path):
    import json
    r = json.load(open(path))
    case = r.get("case") or {}
    if "model_execution" in case:
        binary = c.build_harness("debug")[0]
        cfg, _, why = _shm.measure_cfg(binary)
        if cfg is None:
            print("configuration cannot be measured: " + why)
            return 1
        toks = _shm.parse_tok_str(case["schedule"])
        out = c.run_model([_shm.line_of(cfg, toks)])[0]
        impl = c.run_lines(binary, [_shm.line_of(cfg, _shm.clean_ra(cfg, [toks])[0])])[0]
        print("real snapshot() under the engine's simulated memory: %s" % impl)
        torn = any(ob["t"] == "T" and ob["ret"] == "F" and _shm.rec_index(ob["cells"]) is None for ob in _shm.parse_obs(out))
        print("measured cfg %s\nschedule %s\nmodel execution %s\nmixture accepted: %s" % (cfg, case["schedule"], out, torn))
        return 1 if torn else 0
    return _shm.replay_property("C02", res, path)
