"""C10 - only a fresh, well-formed report counts as synchronised.  Theorems: Properties/C10.v.
Correspondence: the real extract_bound_from_tracking under the virtual clock (SystemTime::now is
captured, so ref_time.elapsed() is exact) vs Bound.classify."""
import json
import random
from fractions import Fraction
import common as c
import cfloat

NS = 10 ** 9
U64 = 2 ** 64 - 1


def threshold(w):
    v = 8 * cfloat.decode(w)
    return min(U64, max(0, int(v)))   # int() truncates toward zero


def gen(rng, tier):
    lines, tags = [], []
    leaps = list(range(0, 8)) + [255, 256, 257, 258, 259, 511, 512, 1024, 32768, 65535]
    leaps += [rng.randrange(65536) for _ in range(64)]
    if tier == "thorough":
        leaps = list(range(65536))
    intervals = [cfloat.word(1 << 23, e) for e in range(-10, 40)] + [cfloat.encode(x) for x in (0.0, 0.1, 0.124, 0.125, 0.126, 1.0, 2.0, 4.0, 16.0, 64.0, 1024.0, 3.3, 7.99)]
    intervals += [cfloat.word(-(1 << 23), 4), cfloat.word((1 << 24) - 1, 63), cfloat.word(1, -64), 0]
    for leap in leaps:
        w = rng.choice(intervals)
        T = min(threshold(w), 10 ** 8)
        for age in (0, T * NS - 1, T * NS, T * NS + 1, T * NS + NS):
            if age >= 0:
                lines.append("cls %d %d 0 %d %d" % (leap, w, age // NS, age % NS))
                tags.append("leap-sweep")
        lines.append("cls %d %d 1 0 1" % (leap, w))
        tags.append("future")
    for w in intervals:
        T = threshold(w)
        if T > 10 ** 9:
            continue
        for leap in (0, 1, 2, 3, 4):
            for age in (0, 1, T * NS - 1, T * NS, T * NS + 1, (T + 1) * NS - 1, (T + 1) * NS, 10 * (T + 1) * NS):
                if age >= 0:
                    lines.append("cls %d %d 0 %d %d" % (leap, w, age // NS, age % NS))
                    tags.append("threshold")
            for fut in (1, 999, NS, 3600 * NS):
                lines.append("cls %d %d 1 %d %d" % (leap, w, fut // NS, fut % NS))
                tags.append("future")
    # special reference times: the epoch itself (chronyd before it has selected a source), one
    # nanosecond either side of it, whole-second ages, very old ones
    NOW = 1_700_000_000 * NS + 500_000_000          # the harness's virtual "now" (harness/src/bound.rs)
    for leap in (0, 1, 2, 3, 4, 7):
        for w in (cfloat.encode(4.0), cfloat.encode(0.25), cfloat.encode(0.0), cfloat.encode(64.0), cfloat.word((1 << 24) - 1, 63)):
            for age in (NOW, NOW - 1, NOW + 1, NOW - NS, NOW // 2, 3 * NS, 5 * NS, 7 * NS + 999999999, 10 ** 9 * NS):
                lines.append("cls %d %d 0 %d %d" % (leap, w, age // NS, age % NS))
                tags.append("special-reference-time")
    return lines, tags


def judge(line, out):
    t = [int(x) for x in line.split()[1:]]
    leap, w, kind, secs, nanos = t
    if out == "panic":
        return ["panic"]
    st = int(out)
    bad = []
    future = kind == 1
    age = Fraction(secs * NS + nanos, NS)
    eight = 8 * cfloat.decode(w)
    # a negative update interval (chronyd can report one after a backwards step): eight intervals are then
    # negative and every reference time in the past is older than that; the one reading the statement
    # leaves open - an age of exactly zero - is not judged
    lim = max(eight, 0)
    if st == 1 and not (leap <= 2 and not future and age <= lim):
        bad.append("Synchronized although leap=%d future=%s age=%s s vs 8*interval=%s s" % (leap, future, float(age), float(eight)))
    if leap <= 2 and not future and age > lim and st != 2:
        bad.append("synchronised leap status with a reference time older than 8 intervals is not FreeRunning")
    if leap == 3 and not future and st != 2:
        bad.append("leap status 3 is not FreeRunning")
    if (leap >= 4 or future) and st != 0:
        bad.append("invalid leap status or future reference time is not Unknown")
    if leap <= 2 and not future and secs * NS + nanos <= threshold(w) * NS and st != 1:
        bad.append("fresh synchronised report not classified Synchronized")
    return bad


def run(res, proofs_ok, proofs_why, only=None):
    rng = random.Random(res.seed * 104729 + 10)
    if only is None:
        lines, tags = gen(rng, res.tier)
        corpus = c.corpus_lines("C10")
        lines, tags = corpus + lines, ["corpus"] * len(corpus) + tags
    else:
        lines, tags = only, ["replay"] * len(only)
    res.rule = ("(leap code, interval word, age) triples; distinct = distinct lines; non-trivial = age within 1 ns of the staleness "
                "threshold, or a future reference time, or leap >= 3")
    res.exhaustive = False
    model = c.run_model(lines)
    impl = c.run_lines(c.build_harness("debug")[0], lines)
    impl_r = c.run_lines(c.build_harness("release")[0], lines)
    res.evaluations = 2 * len(lines)
    diffs, bad = [], []
    seen_leaps = set()
    for ln, tg, m, a, b in zip(lines, tags, model, impl, impl_r):
        res.count("gen:" + tg)
        t = [int(x) for x in ln.split()[1:]]
        seen_leaps.add(t[0])
        T = threshold(t[1])
        if t[2] == 1 or t[0] >= 3 or abs(t[3] * NS + t[4] - T * NS) <= 1:
            res.nontriv(ln)
        for prof, out in (("debug", a), ("release", b)):
            res.count("status:" + out) if prof == "debug" else None
            if out != m:
                diffs.append({"case": ln, "profile": prof, "impl": out, "model": m})
            why = judge(ln, out)
            if why:
                bad.append({"case": ln, "profile": prof, "impl": out, "model": m, "why": why})
    # the classification of a report must depend on that report and the clock only: the same report
    # seen again after the clock moved, a future reference time overtaken by the clock (real
    # process_messages with a moving virtual clock; only the status clause is judged here)
    if only is None:
        from props import _updater
        tdiffs, tbad = _updater.run_timed("C08", res, rng, c.build_harness("debug")[0], 150 if res.tier == "quick" else 4000)
        for b in tbad:
            st = [w for w in b["why"] if "status" in w]
            if st:
                bad.append({"case": b["case"], "equivalent_untimed": b["equivalent_untimed"], "impl": b["impl"], "model": b["model"],
                            "why": st + ["(record status codes: 0 Unknown, 1 Synchronized, 2 FreeRunning; the clock reads NOW + offset while each message is processed)"]})
        status_of = lambda out: [x for k, x in enumerate(out.split()[1:]) if k % 7 == 6]
        diffs += [d for d in tdiffs if status_of(d["impl"]) != status_of(d["model"])]
        # ... and only the clock at the time the report is processed: the writer on its own thread, already
        # waiting at its mailbox (the clock reading earlier) when the report arrives
        ldiffs, lbad = _updater.run_live("C08", res, rng, c.build_harness("debug")[0], 25 if res.tier == "quick" else 400)
        for b in lbad:
            st = [w for w in b["why"] if "status" in w]
            if st:
                bad.append({"case": b["case"], "equivalent_untimed": b["equivalent_untimed"], "impl": b["impl"], "model": b["model"], "why": st + b["why"][-1:]})
        diffs += [d for d in ldiffs if status_of(d["impl"]) != status_of(d["model"])]
        # ... nor on the reports before it: histories of reports with different update intervals, leap codes and
        # ages through the real process_messages; once a measurement exists the status of every published
        # record is the class of the report it was published for, judged by the clauses above
        hists = [(rng.choice([1000, 50000]), _updater.gen_history(rng, 8, _updater.MIXES[k % len(_updater.MIXES)])) for k in range(150 if res.tier == "quick" else 5000)]
        hlines = [_updater.line_of(d, h) for d, h in hists]
        himpl = c.run_lines(c.build_harness("debug")[0], hlines)
        hmodel = c.run_model(hlines)
        res.evaluations += len(hlines)
        for (d, h), ln, i, m in zip(hists, hlines, himpl, hmodel):
            res.count("gen:classification inside a history")
            recs = _updater.parse_out(i)
            if status_of(i) != status_of(m):
                diffs.append({"case": ln, "profile": "debug", "impl": i, "model": m})
            if recs is None:
                continue
            measured = False
            for k, (msg, r) in enumerate(zip(h, recs)):
                if msg[0] != "r":
                    continue
                cl = "cls %d %d %d %d %d" % (msg[4], msg[5], msg[6], msg[7], msg[8])
                measured = measured or _updater.classify(msg[4], msg[5], msg[6], msg[7], msg[8]) == 1
                if measured:
                    res.nontriv(ln)
                    why = judge(cl, str(r[6]))
                    if why:
                        bad.append({"case": ln, "profile": "debug", "impl": i, "model": m,
                                    "why": ["record %d (published for the report %s, after %d earlier messages): " % (k, cl, k)] + why})
                        break
    res.extra["distinct_leap_codes"] = len(seen_leaps)
    res.samples = [{"case": lines[i], "impl": impl[i], "model": model[i]} for i in range(0, len(lines), max(1, len(lines) // 6))][:6]
    res.traces_validated = res.evaluations - len(diffs)
    res.oblige("correspondence:extract_bound_from_tracking[status,debug+release]", not diffs)
    res.trusted_base.append("virtual SystemTime (clock_gettime defined by the harness) makes ref_time.elapsed() exact")
    res.trusted_base.append("chrony-candm 0.1.1 Reply::deserialize used to put raw leap/interval/ref_time into Tracking")
    if bad:
        res.violation({"property": "C10", "kind": "input", "case": bad[0], "others": bad[1:5],
                       "predicate": "classification clauses of C10 on the implementation's output",
                       "how_to_replay": "./check C10 --replay <this file>"})
    elif diffs:
        res.violation({"property": "C10", "kind": "obligation", "obligation": "correspondence:classification vs Bound.classify",
                       "first_differences": diffs[:5], "count": len(diffs)}, found_input=False)
    if not proofs_ok:
        res.violation({"property": "C10", "kind": "obligation", "obligation": proofs_why}, found_input=False)


def replay(res, path):
    r = json.load(open(path))
    case = r.get("case", {})
    ln = case.get("case") if isinstance(case, dict) else None
    if ln is None and "first_differences" in r:
        ln = r["first_differences"][0]["case"]
    if ln.startswith("upd"):
        from props import _updater
        return _updater.replay_property("C08", res, path)
    rc = 0
    for prof in ("debug", "release"):
        out = c.run_lines(c.build_harness(prof)[0], [ln])[0]
        m = c.run_model([ln])[0]
        why = judge(ln, out)
        print("case %s\n %s impl %s\n model %s\n predicate: %s" % (ln, prof, out, m, why or "holds"))
        if why or out != m:
            rc = 1
    return rc
