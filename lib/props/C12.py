"""C12 - clock reads ordered so that delays are pessimistic.  Theorems: Properties/C12.v.
Measured on every run: (1) in the polling loop, which of "as-of reading" and "request received by
chronyd" comes first (fake chronyd + virtual clock, same scripted runs as C13); (2) the order of
the clock ids read by ClockErrorBound::now() and the result when every later read sees the clocks
delta later.  The generated Current_C12.v must prove measured order = model order."""
import json
import os
import random
import common as c
from props import _poller as P
from props import _client as K


def run(res, proofs_ok, proofs_why):
    rng = random.Random(res.seed * 8209 + 12)
    scripts, lines, impl, model = P.run_scripts(res, rng, 60 if res.tier == "quick" else 2000)
    res.rule = ("poller scripts with query durations from 0 to 2 s (as-of must be the reading before the request) and now() runs where each clock read after "
                "the first sees both clocks delta later; non-trivial = runs with a non-zero delay")
    bad, diffs = [], []
    orders = set()
    for s, ln, i, m in zip(scripts, lines, impl, model):
        res.evaluations += 1
        got = i.split()
        order = [x for x in got if x.startswith("ORDER")]
        orders.add(order[0] if order else "ORDER:missing")
        start, cfg, steps = s
        if any(st[2] > 0 for st in steps):
            res.nontriv(ln)
        # as-of of every forwarded report = the pre-query reading t
        want_asof = [st[0] for st in steps if st[1] == 1 and not (cfg >= 0 and st[5] == cfg and st[4] < 0)]
        got_asof = [int(x.split(":")[1]) for x in got if x.startswith("D:")]
        if order != ["ORDER:ok"] or got_asof != want_asof:
            bad.append({"case": ln, "impl": i, "model": m,
                        "why": ["the as-of attached to a report is not the monotonic reading taken before the request was issued (%s; as-of %s, pre-query readings %s): "
                                "a slow chronyd answer then shrinks the client's bound by drift x delay" % (order, got_asof[:4], want_asof[:4])]})
        msgs = [x for x in got if not x.startswith("ORDER")]
        if msgs != m.split():
            diffs.append({"case": ln, "impl": i, "model": m})
    # the same scripts with the loop left to its own cadence (`polt`: its wait ends by time-out, nobody writes to
    # its mailbox between two polls): whatever the loop does while it waits, a request must not reach chronyd
    # before the as-of reading of the poll it is answered in
    # (scripts of tracking replies and of polls that find no socket only: the other kinds of non-answer make the
    # client library retry on its own timers, which the virtual clock of this harness does not drive faithfully)
    tscripts = []
    for _ in range(25 if res.tier == "quick" else 300):
        start = rng.randrange(10, 10 ** 6) * P.NS
        cfg = rng.choice([-1, 0x50484330])
        steps, t = [], start + P.NS
        for _k in range(rng.randrange(2, 8)):
            if rng.random() < 0.4:
                steps.append((t, rng.choice([3, 6, 6]), rng.choice([0, 1000]), rng.choice([0, 1000, 2 * P.NS]), -1, 7, 1))
            else:
                steps.append((t, 1, rng.choice([0, 1000, 10 ** 6, 3 * 10 ** 7]), 0, rng.choice([-1, 0, 12345]), rng.choice([cfg if cfg >= 0 else 7, 7]), rng.randrange(1, 60000)))
            t += P.NS + rng.randrange(P.NS)
        tscripts.append((start, cfg, steps))
    tl = ["polt" + P.line_of(*sc)[3:] for sc in tscripts]
    timpl = c.run_lines_in_namespace(c.build_harness("debug")[0], tl, timeout=1500)
    tmodel = c.run_model([P.line_of(*sc) for sc in tscripts])
    for s, ln, i, m in zip(tscripts, tl, timpl, tmodel):
        res.evaluations += 1
        res.count("gen:poll loop on its own cadence")
        got = i.split()
        order = [x for x in got if x.startswith("ORDER")]
        start, cfg, steps = s
        want_asof = [st[0] for st in steps if st[1] == 1 and not (cfg >= 0 and st[5] == cfg and st[4] < 0)]
        got_asof = [int(x.split(":")[1]) for x in got if x.startswith("D:")]
        if order != ["ORDER:ok"] or got_asof != want_asof:
            bad.append({"case": ln, "impl": i, "model": m,
                        "why": ["poll loop on its own cadence: a request reached chronyd before the as-of reading of the poll it was answered in, or the as-of is not that reading "
                                "(%s; as-of %s, pre-query readings %s)" % (order, got_asof[:4], want_asof[:4])]})
        if [x for x in got if not x.startswith("ORDER")] != m.split():
            diffs.append({"case": ln, "impl": i, "model": m})
    # client side
    binary = c.build_harness("debug")[0]
    olines, mlines = [], []
    for _ in range(200 if res.tier == "quick" else 20000):
        as_of = rng.randrange(0, 10 ** 6) * NS_ + rng.randrange(NS_)
        bound, drift = rng.randrange(10 ** 7), rng.choice([1000, 50000, 10 ** 6, 10 ** 8])
        real = rng.randrange(10 ** 9) * NS_ + rng.randrange(NS_)
        mono = as_of + rng.randrange(0, 900 * NS_)
        delta = rng.choice([0, 1, 1000, 10 ** 6, NS_, 60 * NS_])
        a, r, mo, mo2 = K.ts(as_of), K.ts(real), K.ts(mono), K.ts(mono + delta)
        rec = "%d %d %d 0 %d %d %d" % (a[0], a[1], a[0] + 1000, bound, drift, rng.choice([1, 2]))
        olines.append("ord %s %d %d %d %d %d" % (rec, r[0], r[1], mo[0], mo[1], delta))
        mlines.append("cba %s %d %d %d %d" % (rec, r[0], r[1], mo2[0], mo2[1]))   # model: real first, mono delta later
        if rng.random() < 0.5:
            # the next call on the same thread, its realtime reading almost the same, the monotonic clock
            # further on: every call must read both clocks itself, realtime first
            real_b = real + rng.choice([0, 1, 1000, 500000, 999999])
            mono_b = mono + delta + rng.choice([1, 1000, 10 ** 6, 30 * NS_])
            rb, mb, mb2 = K.ts(real_b), K.ts(mono_b), K.ts(mono_b + delta)
            olines.append("ord %s %d %d %d %d %d" % (rec, rb[0], rb[1], mb[0], mb[1], delta))
            mlines.append("cba %s %d %d %d %d" % (rec, rb[0], rb[1], mb2[0], mb2[1]))
    oimpl = c.run_lines(binary, olines)
    omodel = c.run_model(mlines)
    client_orders = set()
    for ln, i, m in zip(olines, oimpl, omodel):
        res.evaluations += 1
        order, result = i.split(" ", 1)
        client_orders.add(order)
        if int(ln.split()[-1]) > 0:
            res.nontriv(ln)
        if result != m:
            diffs.append({"case": ln, "impl": i, "model": m})
        if order != "RM":
            bad.append({"case": ln, "impl": i, "model": m, "why": ["now() read the clocks in order %s: a delay between the reads can then shrink the interval around the realtime reading" % order]})
    # the same with a different delay before every read, and records whose as-of lies before, between and
    # after the readings of the call.  Judged on what the statement promises, whatever reads the call makes:
    # the interval is centred on a realtime reading of this call and is at least as wide as the record
    # allows at the monotonic instant of that reading (a later monotonic reading only widens it).
    vl, vm, vmeta = [], [], []
    DS = [0, 1, 1000, 10 ** 6, NS_, 60 * NS_, 100 * NS_]
    for k in range(300 if res.tier == "quick" else 30000):
        mono = rng.randrange(10, 10 ** 6) * NS_ + rng.randrange(NS_)
        real = rng.randrange(10 ** 9) * NS_ + rng.randrange(NS_)
        ds = [rng.choice(DS) for _ in range(5)]
        T = [0]
        for d in ds:
            T.append(T[-1] + d)
        where = k % 5
        if where == 4:            # a record a fraction of a millisecond old: its age counts, however small
            as_of = mono - rng.randrange(0, 2 * 10 ** 6)
        elif where == 0:
            as_of = max(0, mono - rng.randrange(0, 900 * NS_))
        elif where == 1:          # ahead of the first monotonic reading of the call, behind a later one
            as_of = mono + T[1] + 1001 + rng.randrange(0, max(1, T[2] - T[1]))
        elif where == 2:          # within the blur of the first monotonic reading
            as_of = mono + T[1] + rng.randrange(0, 1001)
        else:                     # ahead of everything the call can read
            as_of = mono + T[-1] + 2000 + rng.randrange(NS_)
        bound, drift = rng.randrange(10 ** 7), rng.choice([1000, 50000, 10 ** 6, 10 ** 8, 999999999])
        a, r, mo = K.ts(as_of), K.ts(real), K.ts(mono)
        rec = "%d %d %d 0 %d %d %d" % (a[0], a[1], a[0] + 1000, bound, drift, rng.choice([1, 2]))
        vl.append("ordv %s %d %d %d %d %d %s" % (rec, r[0], r[1], mo[0], mo[1], len(ds), " ".join(map(str, ds))))
        m1 = K.ts(mono + T[1])
        vm.append("cba %s %d %d %d %d" % (rec, r[0], r[1], m1[0], m1[1]))
        vmeta.append((as_of, bound, drift, real, mono, T))
    vimpl = c.run_lines(binary, vl)
    vmodel = c.run_model(vm)
    for ln, i, m, (as_of, bound, drift, real, mono, T) in zip(vl, vimpl, vmodel, vmeta):
        res.evaluations += 1
        res.nontriv(ln)
        res.count("gen:varying delay before every read")
        order, result = i.split(" ", 1)
        client_orders.add(order[:2])
        if result != m:
            diffs.append({"case": ln, "impl": i, "model": m})
        why = judge_ordv(ln, i)
        if why:
            bad.append({"case": ln, "impl": i, "model": m, "why": why})
    # the as-of instant stays attached to the report it was read for, all the way into the segment: a record carries
    # the bound of a synchronised report together with the as-of of that same report - a later report that is not
    # a measurement (chronyd unsynchronised, a stale reference time) must not move the as-of under an older bound,
    # or the drift of the time in between is lost to the client (histories through the real process_messages)
    from props import _updater
    hl = [_updater.line_of(rng.choice([1000, 50000]), _updater.gen_history(rng, 12, _updater.MIXES[k % len(_updater.MIXES)])) for k in range(150 if res.tier == "quick" else 5000)]
    himpl = c.run_lines(c.build_harness("debug")[0], hl)
    for ln, o in zip(hl, himpl):
        res.evaluations += 1
        res.count("gen:as-of of the published record through report histories")
        why = [w for w in _updater.judge(ln, o, "C08") if "as-of" in w and "void-after" not in w]
        if why:
            bad.append({"case": ln, "impl": o, "why": why + ["(the as-of of a published record is the reading taken before the request whose answer gave the record its bound)"]})
    res.extra["measured_poller_order"] = sorted(orders)
    res.extra["measured_client_read_order"] = sorted(client_orders)
    # generated obligation
    d = os.path.join(c.BUILD, "current")
    os.makedirs(d, exist_ok=True)
    f = os.path.join(d, "Current_C12.v")
    po = "[AReadMono; AQuery]" if orders == {"ORDER:ok"} else "[AQuery; AReadMono]"
    co = {"RM": "[AReadReal; AReadMonoC]", "MR": "[AReadMonoC; AReadReal]"}.get("".join(sorted(client_orders, reverse=True)) if len(client_orders) == 1 else "", "[]")
    with open(f, "w") as fh:
        fh.write("(* generated on every run from the measured order of clock reads *)\nFrom Coq Require Import List.\nFrom CB Require Import Poller.\nImport ListNotations.\n"
                 "Definition observed_poller_actions : list paction := %s.\nDefinition observed_now_actions : list caction := %s.\n"
                 "Theorem poller_order_as_modelled : observed_poller_actions = poller_actions.\nProof. reflexivity. Qed.\n"
                 "Theorem client_order_as_modelled : observed_now_actions = now_actions.\nProof. reflexivity. Qed.\n" % (po, co))
    p = c.sh(["timeout", "600", "coqc", "-noglob", "-Q", c.COQ, "CB", f], cwd=d, timeout=700, check=False)
    res.oblige("Current_C12.v: measured order of clock reads = order assumed by the theorems (poller: read, then query; client: realtime, then monotonic)", p.returncode == 0)
    res.traces_validated = res.evaluations - len(diffs)
    res.oblige("correspondence:poller messages and now() results under delayed reads vs the model", not diffs)
    res.samples = [{"case": lines[0], "impl": impl[0]}, {"case": olines[0], "impl": oimpl[0], "model": omodel[0]}]
    res.trusted_base += ["virtual clock (clock_gettime defined by the harness) and its log of clock ids; fake chronyd recording whether the as-of reading of the iteration preceded the request"]
    if bad:
        res.violation({"property": "C12", "kind": "history", "case": bad[0], "others": [b["case"] for b in bad[1:4]],
                       "predicate": "as-of = reading before the request; realtime read before monotonic read", "how_to_replay": "./check C12 --replay <this file>"})
    elif diffs or p.returncode != 0:
        res.violation({"property": "C12", "kind": "obligation", "obligation": "Current_C12.v / correspondence: " + (p.stdout[-500:] if p.returncode else ""),
                       "first_differences": diffs[:3]}, found_input=False)
    if not proofs_ok:
        res.violation({"property": "C12", "kind": "obligation", "obligation": proofs_why}, found_input=False)


NS_ = 10 ** 9


def replay(res, path):
    r = json.load(open(path))
    case = r.get("case") or r.get("first_differences", [{}])[0]
    ln = case["case"]
    binary = c.build_harness("debug")[0]
    if ln.startswith("pol"):
        i = c.run_lines_in_namespace(binary, [ln])[0]
        print("case %s\nimpl %s" % (ln, i))
        return 0 if "ORDER:ok" in i else 1
    i = c.run_lines(binary, [ln])[0]
    print("case %s\nimpl %s" % (ln, i))
    if ln.startswith("ordv"):
        why = judge_ordv(ln, i)
        print("predicate: %s" % (why or "holds"))
        return 1 if why else 0
    return 0 if i.startswith("RM") else 1


def judge_ordv(ln, i):
    """centred on a realtime reading of the call, and no narrower than the record allows at that instant"""
    t = [int(x) for x in ln.split()[1:]]
    as_of, bound, drift = t[0] * NS_ + t[1], t[4], t[5]
    real, mono = t[7] * NS_ + t[8], t[9] * NS_ + t[10]
    T = [0]
    for d in t[12:12 + t[11]]:
        T.append(T[-1] + d)
    order, result = i.split(" ", 1)
    r = K.parse_result(result)
    if r["kind"] != "ok":
        return []
    e, l = r["e"], r["l"]
    Ts = T + [T[-1]] * max(0, len(order) - len(T))
    ks = [j for j, ch in enumerate(order) if ch == "R" and 2 * (real + Ts[j]) == e + l]
    if not ks:
        return ["the interval [%d, %d] is not centred on any realtime reading of this call (reads %s at offsets %s)" % (e, l, order, Ts[:len(order)])]
    j = ks[0]
    need = bound + (max(0, mono + Ts[j] - as_of) * drift) // NS_
    if (l - e) // 2 + 1 < need:
        return ["the interval is centred on the realtime reading taken %d ns into the call (reads: %s at %s) but is only %d ns wide on each side: at that instant the record "
                "allows no less than %d ns (bound %d + drift %d ppb x age %d ns): the monotonic reading used was taken before the realtime one, so the delay between them shrank the bound"
                % (Ts[j], order, Ts[:len(order)], (l - e) // 2, need, bound, drift, max(0, mono + Ts[j] - as_of))]
    return []
