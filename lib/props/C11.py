"""C11 - generation field protocol. Theorems: Properties/C11.v. Correspondence: the real
ShmWriter::write() started from every one of the 65536 generation values (exhaustive in both
tiers), observed at the cell stores of the copy and at return, against Gen.pre / Gen.post."""
import json
import common as c


def predicate(g, mid, post):
    """The clauses of the property evaluated on observed values (independent of the model)."""
    bad = []
    if mid < 0:
        bad.append("generation not constant during the copy")
    elif mid % 2 != 1:
        bad.append("generation even during the copy")
    if post % 2 != 0:
        bad.append("generation odd after a completed update")
    if post == 0:
        bad.append("generation 0 after a completed update")
    if post == g:
        bad.append("generation unchanged by a completed update")
    if g >= 65534 and post != 2:
        bad.append("wrap does not continue at 2")
    if g % 2 == 1 and mid != g:
        bad.append("odd start value not adopted")
    return bad


def run(res, proofs_ok, proofs_why, only=None):
    cases = only if only is not None else list(range(65536))
    variants = [0] * len(cases)
    if only is None:
        # the protocol must not depend on what is published or on who publishes: the same start values
        # with a record that differs from the published one only in its status (1), with the same record
        # again (2), and after a restart of the daemon over the file (3)
        import random
        rng = random.Random(res.seed * 31 + 11)
        extra = [0, 1, 2, 3, 4, 5, 6, 7, 8, 100, 101, 32766, 32767, 32768, 65532, 65533, 65534, 65535]
        extra += [rng.randrange(65536) for _ in range(150 if res.tier == "quick" else 600)]
        for v in (1, 2, 3):
            for g in extra:
                cases.append(g); variants.append(v)
    lines = ["gen %d" % g if v == 0 else "gen %d %d" % (g, v) for g, v in zip(cases, variants)]
    res.rule = ("all 65536 generation start values through the real write(); non-trivial = every case "
                "(each start value is a distinct input); boundary classes counted in input_distribution")
    res.exhaustive = only is None
    binary, _ = c.build_harness("debug")
    impl = c.run_lines(binary, lines)
    model = c.run_model(["gen %d" % g for g in cases])      # the model's generation step does not look at the record
    res.evaluations = len(lines)
    diffs, bad_inputs = [], []
    for g, v, i, m in zip(cases, variants, impl, model):
        res.nontriv((g, v))
        res.count(("even_start" if g % 2 == 0 else "odd_start") if v == 0 else ("variant:%s" % {1: "only the status differs", 2: "same record again", 3: "after a restart of the daemon"}[v]))
        if g in (0, 1, 2, 65533, 65534, 65535):
            res.count("boundary")
        f = [int(x) for x in i.split()]
        gi, mid, post = f[:3]
        why = predicate(gi, mid, post)
        if len(f) > 3 and f[3] != gi:
            why.append("a daemon that starts over the segment changed the generation from %d to %d before publishing anything" % (gi, f[3]))
        i = " ".join(str(x) for x in f[:3])
        if why:
            bad_inputs.append({"start": g, "variant": v, "during_copy": mid, "after": post, "why": why, "model": m})
        if i != m:
            diffs.append({"start": g, "variant": v, "impl": i, "model": m})
    if only is None:
        bad_inputs += file_part(res)
        # as seen by a reader that stays attached while daemons come and go (the file left whole, cut short behind
        # its header, cut inside it): every completed update changes the generation that reader sees - it obtains
        # the record just published, not the one it had
        from props import C03
        C03.sequence_part(res, "C11")
        # ... and whatever way the daemon goes down between two updates - its writer thread panicking or returning,
        # its poller dying first - the generation it leaves in the file is the even non-zero value of its last
        # completed update (the real thread_manager::run in a private namespace, chronyd absent)
        from concurrent.futures import ThreadPoolExecutor
        scs = [("writer.loop", 1, 0), ("writer.loop", 2, 1), ("poller.loop", 2, 0)]
        with ThreadPoolExecutor(max_workers=3) as ex:
            touts = list(ex.map(lambda sc: c.run_lines_in_namespace(binary, ["thr %s %d %d 0" % sc], timeout=150)[0], scs))
        for sc, o in zip(scs, touts):
            res.evaluations += 1
            res.count("generation left in the file by a daemon going down between two updates")
            f = dict(x.split("=") for x in o.split())
            g = int(f.get("segment_generation", -1))
            if f.get("fired") == "1" and (g <= 0 or g % 2):
                bad_inputs.append({"start": g, "variant": "daemon going down: thr %s %d %d 0" % sc, "after": g, "impl": o,
                                   "why": ["the daemon published and then went down between two updates (%s, occurrence %d, %s); the generation it left in the segment file is %d - "
                                           "it must be the even non-zero value of the last completed update" % (sc[0], sc[1], "panic" if sc[2] == 0 else "early return", g)]})
    res.samples = [{"case": l, "impl": i, "model": m} for l, i, m in list(zip(lines, impl, model))[:3] + list(zip(lines, impl, model))[-3:]]
    res.traces_validated = len(lines) - len(diffs)
    res.oblige("correspondence:gen-exhaustive", not diffs)
    if bad_inputs:
        res.violation({"property": "C11", "kind": "input", "case": bad_inputs[0], "others": bad_inputs[1:5],
                       "predicate": "C11 clauses on observed generation values",
                       "how_to_replay": "./check C11 --replay <this file>"})
    elif diffs:
        res.violation({"property": "C11", "kind": "obligation", "obligation": "correspondence:gen-exhaustive",
                       "first_differences": diffs[:5]}, found_input=False)
    if not proofs_ok:
        res.violation({"property": "C11", "kind": "obligation", "obligation": proofs_why}, found_input=False)


def file_part(res, results=None):
    """a daemon that starts over a file whose header says the segment has been published to (magic,
    version and generation non-zero, declared size large enough) - whatever the length of the file,
    a file cut short included - continues from that generation: after its first publication the
    generation is the protocol's successor of the value in the file, never a restart from 0"""
    import random, struct
    from props import _files as F
    if results is None:
        results, _ = F.run_corpus(res, "C11", random.Random(res.seed * 131 + 11), 0)
    bad = []
    for r in results:
        d, after = r["data"], r["after"]
        if r["kind"] != 0 or len(d) < 16 or after is None or len(after) < 16:
            continue
        m0, m1, size, ver, gen = struct.unpack("<IIIHH", d[:16])
        if (m0, m1) != F.MAGIC or ver == 0 or gen == 0 or size < 72:
            continue
        res.evaluations += 1
        res.count("take-over of a published file:" + ("cut short" if len(d) < 72 else "whole"))
        res.nontriv("file:" + d.hex())
        want = (gen + 1 if gen % 2 else gen + 2) % 65536
        if want == 0:
            want = 2
        got = struct.unpack("<H", after[14:16])[0]
        if got != want:
            bad.append({"start": gen, "file": r["tag"], "file_length": len(d), "after": got,
                        "why": ["the file's header said generation %d (published segment, %d bytes long); after the daemon started over it and published once the generation is %d, "
                                "the protocol's next value is %d: the count restarted" % (gen, len(d), got, want)]})
    return bad


def replay(res, path):
    r = json.load(open(path))
    g = r.get("case", {}).get("start", 0)
    v = r.get("case", {}).get("variant", 0)
    binary, _ = c.build_harness("debug")
    if isinstance(v, str) and "thr " in v:
        o = c.run_lines_in_namespace(binary, [v[v.index("thr "):]], timeout=150)[0]
        g2 = int(dict(x.split("=") for x in o.split()).get("segment_generation", -1))
        print("case %s\nimpl %s\ngeneration left in the file: %d" % (v, o, g2))
        return 0 if g2 > 0 and g2 % 2 == 0 else 1
    if "file" in r.get("case", {}) or "schedule" in r.get("case", {}):
        print(json.dumps(r.get("case"), indent=1)[:2000])
        print("re-run with ./check C11 (the file corpus and the publication sequences are regenerated from the seed)")
        return 1
    # variants 1 and 2 refer to the record published just before: publish one first
    line = (["gen %d" % ((g + 2) % 65536)] if v in (1, 2) else []) + ["gen %d %d" % (g, v)]
    i, m = c.run_lines(binary, line)[-1], c.run_model(["gen %d" % g])[0]
    gi, mid, post = (int(x) for x in i.split()[:3])
    print("case gen %d\nimpl  %s\nmodel %s\npredicate: %s" % (g, i, m, predicate(gi, mid, post) or "holds"))
    return 1 if predicate(gi, mid, post) else 0
