"""Shared machinery of C13 / C12: scripted runs of the real polling loop (real
ClockErrorBoundPoller = chrony-candm's blocking UDS client) against a fake chronyd and a virtual
clock inside a private mount namespace (harness op `pol`), compared with Poller.poll_run."""
import random
import common as c

NS = 10 ** 9
GRACE = 5 * NS


def near_miss(rng, refid):
    """a reference id that differs from [refid] only slightly: letter case, position of NUL
    padding, byte order, one bit - "the PHC term is added exactly when the ids are equal" """
    b = list(refid.to_bytes(4, "big"))
    k = rng.randrange(5)
    if k == 0:
        b = [x ^ 0x20 if chr(x).isalpha() else x for x in b]
    elif k == 1:
        r = rng.randrange(1, 4)
        b = b[r:] + b[:r]
    elif k == 2:
        b = b[::-1]
    elif k == 3:
        nz = [x for x in b if x != 0]
        b = ([0] * (4 - len(nz)) + nz) if b[-1] == 0 or b[0] != 0 else (nz + [0] * (4 - len(nz)))
    v = int.from_bytes(bytes(b), "big")
    if k == 4 or v == refid:
        v = refid ^ (1 << rng.randrange(31))
    return v


def gen_script(rng):
    start = rng.randrange(10, 10 ** 6) * NS + rng.randrange(NS)
    cfg = rng.choice([-1, -1, 0x50484330, 0x70686330, 0x50484300, 0x00504843, rng.randrange(2 ** 31)])
    n = rng.randrange(1, 9)
    t = start + rng.randrange(0, 3 * NS)
    last_good = start - GRACE
    steps = []
    for i in range(n):
        mode = rng.choice([1, 1, 1, 0, 2, 3, 3, 4, 4])      # 1 tracking reply; silent: 0 wrong sequence, 2 garbage, 3 no socket, 4 a well-formed reply without tracking data
        d = rng.choice([0, 1000, 10 ** 6, 10 ** 8, 2 * NS])
        e = rng.choice([0, 0, 1, 1000])
        refid = cfg if (cfg >= 0 and rng.random() < 0.5) else (near_miss(rng, cfg) if (cfg >= 0 and rng.random() < 0.6) else rng.randrange(2 ** 31))
        phc = rng.choice([-1, -1, -2, 0, 12345, rng.randrange(10 ** 6), rng.choice([99999999, 100000000, 250000000, 123456789012, 2 ** 62, rng.randrange(10 ** 8, 10 ** 13)])])
        tag = rng.randrange(1, 60000)
        if rng.random() < 0.35:
            tag = tag // 4 * 4 + 3          # chronyd repeats one reference time in these replies (see harness/src/poller.rs)
        if mode != 1 and rng.random() < 0.7:
            # aim the evaluation instant at the 5 s boundary of the grace period
            target = last_good + GRACE + rng.choice([-1, 0, 1, -1000, 1000])
            if target - d - e >= t:
                t = target - d - e
        if mode == 1 and cfg >= 0 and refid == cfg and phc < 0:
            e = rng.choice([0, 1, GRACE - 1, GRACE, GRACE + 1])
        steps.append((t, mode, d, e, phc, refid, tag))
        if mode == 1:
            last_good = t + d
        # the next poll: after the loop's wait of a second or more - or almost at once (the loop is woken early by
        # any message in its mailbox), within the same tick of the coarse clock
        t = t + d + e + rng.choice([NS, NS + rng.randrange(NS), 2 * NS, 6 * NS, NS, rng.choice([0, 1, 1000, 10 ** 6, 3 * 10 ** 6])])
    if cfg >= 0 and rng.random() < 0.4:
        # chronyd repeats one reference time over several polls (no new measurement) while the PHC
        # driver's error bound moves: every poll must forward the number the file holds now
        for _ in range(rng.randrange(2, 5)):
            phc = rng.choice([0, 1000, 250000, rng.randrange(1, 10 ** 6)])
            steps.append((t, 1, rng.choice([0, 1000]), 0, phc, cfg, rng.randrange(1, 15000) * 4 + 3))
            t += NS + rng.randrange(NS)
    return start, cfg, steps


def line_of(start, cfg, steps):
    return "pol %d %d %d %s" % (start, cfg, len(steps), " ".join(" ".join(str(x) for x in s) for s in steps))


def expected(start, cfg, steps):
    """independent statement of the property on the script"""
    out, lg = [], start - GRACE
    for (t, mode, d, e, phc, refid, tag) in steps:
        if mode == 1:
            lg = t + d
            if cfg >= 0 and refid == cfg:
                if phc >= 0:
                    out.append("D:%d:%d:%d:%d" % (t, phc, refid, tag))
                else:
                    out.append("PG" if e < GRACE else "PF")
            else:
                out.append("D:%d:0:%d:%d" % (t, refid, tag))
        else:
            out.append("NG" if (t + d + e) - lg < GRACE else "NR")
    return out


def run_scripts(res, rng, n):
    binary = c.build_harness("debug")[0]
    scripts = [gen_script(rng) for _ in range(n)]
    # a daemon that never gets an answer after start
    for _ in range(max(3, n // 20)):
        start = rng.randrange(10, 1000) * NS
        steps, t = [], start
        for i in range(rng.randrange(1, 6)):
            steps.append((t, rng.choice([0, 2, 3]), rng.choice([0, 1000]), 0, -1, 7, 1))
            t += NS
        scripts.append((start, rng.choice([-1, 5]), steps))
    # the PHC's attribute missing for many polls in a row while the PHC is the reference, then there again:
    # every one of those reports is unusable, and the bound is added again as soon as it can be read
    for _ in range(max(2, n // 30)):
        start = rng.randrange(10, 1000) * NS
        cfg = 0x50484330
        steps, t = [], start + NS
        for i in range(rng.randrange(6, 11)):
            steps.append((t, 1, rng.choice([0, 1000]), rng.choice([0, 0, GRACE]), -1, cfg, rng.randrange(1, 60000)))
            t += NS + rng.randrange(NS)
        for i in range(rng.randrange(1, 3)):
            steps.append((t, 1, 0, 0, rng.choice([4321, 250000]), cfg, rng.randrange(1, 60000)))
            t += NS
        scripts.append((start, cfg, steps))
    # outages of hours: the age of the last good answer at 2^32 microseconds (71 min 35 s), at 2^32 milliseconds
    # and around them - no outage is ever young again
    for _ in range(max(2, n // 30)):
        start = rng.randrange(10, 1000) * NS
        t0 = start + NS
        steps = [(t0, 1, 1000, 0, -1, 7, rng.randrange(1, 60000))]
        for off in sorted(rng.sample([4294 * NS + 9 * 10 ** 8, 4295 * NS + 2 * 10 ** 8, 4297 * NS, 4299 * NS + 9 * 10 ** 8, 4300 * NS + 10 ** 8,
                                      8590 * NS + 5 * 10 ** 8, 8594 * NS, 4294967 * NS + 5 * 10 ** 8, 4294970 * NS, 3600 * NS, 86400 * NS], 6)):
            steps.append((t0 + off, rng.choice([0, 2, 3]), 0, rng.choice([0, 1000]), -1, 7, 1))
        scripts.append((start, -1, steps))
    # bursts: polls that follow one another within microseconds (the loop woken early again and again): every
    # report is still stamped with the reading taken at the start of its own poll
    for _ in range(max(3, n // 20)):
        start = rng.randrange(10, 1000) * NS
        t = start + NS + rng.randrange(NS)
        steps = []
        for i in range(rng.randrange(3, 8)):
            d = rng.choice([0, 0, 1000, 10 ** 5])
            steps.append((t, 1, d, 0, -1, 7, rng.randrange(1, 60000)))
            t += d + rng.choice([0, 1, 1000, 10 ** 6, 3 * 10 ** 6, 4 * 10 ** 6])
        scripts.append((start, -1, steps))
    # a chronyd that holds its socket but stops replying (each silent query costs three seconds of real time,
    # hence few of these): within the grace period of the last good answer the outcome is still the milder one
    for _ in range(2 if n < 500 else 8):
        start = rng.randrange(10, 1000) * NS
        t = start + NS
        steps = [(t, 1, 1000, 0, -1, 7, rng.randrange(1, 60000))]
        t += NS + rng.randrange(NS)
        steps.append((t, 5, 0, rng.choice([0, 1000, 2 * NS]), -1, 7, 1))
        t += rng.choice([NS, 6 * NS])
        steps.append((t, rng.choice([5, 3]), 0, 0, -1, 7, 1))
        scripts.append((start, -1, steps))
    lines = [line_of(*s) for s in scripts]
    impl = c.run_lines_in_namespace(binary, lines, timeout=1500)
    model = c.run_model(lines)
    return scripts, lines, impl, model
