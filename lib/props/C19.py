"""C19 - drift rate published exactly or refused.  Theorems: Properties/C19.v.
Correspondence: the real `clockbound` binary (release profile, no verification cfg) started with
--max-drift-rate r in a private mount namespace; the max-drift field of the first published
record, or the exit status, against Cli.cli_ppb."""
import json
import random
import struct
from concurrent.futures import ThreadPoolExecutor
import common as c


def observe(binary, r, extra=()):
    short = "--short-flag" in extra            # the rate given as `-m <r>`, the documented short form of the option
    extra = [x for x in extra if x != "--short-flag"]
    args = list(extra) + ([] if r is None else (["-m", str(r)] if short else ["--max-drift-rate", str(r)]))
    res = c.run_daemon_in_namespace(binary, args)
    if res["segment"]:
        b = bytes.fromhex(res["segment"])
        return "ok %d" % struct.unpack_from("=I", b, 16 + 40)[0], res
    if res["exit"] is not None and res["exit"] != 0:
        return "rejected", res
    return "none exit=%s" % res["exit"], res


def judge(r, out):
    if out.startswith("ok"):
        p = int(out.split()[1])
        want = 1000 if r is None else 1000 * r
        if p != want:
            return ["published %d ppb for %s ppm (exactly %d expected)" % (p, r, want)]
        return []
    if out == "rejected":
        if r is None or (0 <= r and 1000 * r < 2 ** 32):
            return ["a representable rate was refused"]
        return []
    return ["neither a publication nor a refusal: " + out]


def published_part(res):
    """the configured rate must be in every record the daemon publishes, whatever chronyd says: message
    histories of every outcome class through the real process_messages with the rate the CLI computed"""
    import random
    from props import _updater
    rng = random.Random(res.seed * 523 + 19)
    lines, drifts = [], []
    for k in range(150 if res.tier == "quick" else 5000):
        ppm = rng.choice([0, 1, 50, 4294967, rng.randrange(4294968)])
        mix = _updater.MIXES[k % len(_updater.MIXES)]
        lines.append(_updater.line_of(ppm * 1000, _updater.gen_history(rng, 12, mix)))
        drifts.append(ppm * 1000)
    impl = c.run_lines(c.build_harness("debug")[0], lines)
    res.evaluations += len(lines)
    res.count("gen:published records under every outcome class", len(lines))
    bad = []
    for ln, d, o in zip(lines, drifts, impl):
        recs = _updater.parse_out(o)
        if recs is None:
            bad.append({"case": ln, "impl": o[:200], "why": ["implementation outcome: " + o[:100]]})
            continue
        for k, r in enumerate(recs):
            if r[5] != d:
                bad.append({"case": ln, "impl": o, "why": ["record %d carries max drift %d ppb, configured %d ppb (status %d)" % (k, r[5], d, r[6])]})
                break
    # a second instance with another rate over the segment the first one left
    _, lbad = _updater.run_two_lives("C08", res, rng, c.build_harness("debug")[0], 60 if res.tier == "quick" else 2000)
    bad += [b for b in lbad if any("drift" in w for w in b["why"])]
    if bad:
        res.violation({"property": "C19", "kind": "history", "case": bad[0], "others": [b["case"][:200] for b in bad[1:4]],
                       "predicate": "every published record carries exactly the configured rate x 1000", "how_to_replay": "./check C08 --replay <this file>"})


def run(res, proofs_ok, proofs_why, only=None):
    rng = random.Random(res.seed * 31 + 19)
    vals = [None, 0, 1, 50, 999999, 10 ** 6, 4294967, 4294968, 4294969, 2 ** 32 - 1, 2 ** 32, -1, 8589935, 2147484]
    vals += [rng.randrange(0, 4294968) for _ in range(3 if res.tier == "quick" else 30)]
    vals += [rng.randrange(4294968, 2 ** 32) for _ in range(3 if res.tier == "quick" else 30)]
    if only is not None:
        vals = only
    binary = c.build_repo_binary()
    with ThreadPoolExecutor(max_workers=8) as ex:
        obs = list(ex.map(lambda r: observe(binary, r), vals))
    lines = ["cli 0 0" if r is None else "cli 1 %d" % r for r in vals]
    model = c.run_model(lines)
    res.rule = ("--max-drift-rate values: omitted, 0, 1, typical, the largest representable 4294967, the first wrapping value 4294968, u32::MAX, "
                "values clap itself refuses (2^32, -1), random on both sides; non-trivial = 1000*r within 2000 of 2^32, or r >= 4294968, or omitted")
    res.evaluations = len(vals)
    diffs, bad = [], []
    for r, (out, raw), m in zip(vals, obs, model):
        res.count("outcome:" + out.split()[0])
        if r is None or r >= 4294966 or r < 0:
            res.nontriv(r)
        if out != m:
            diffs.append({"rate_ppm": r, "impl": out, "model": m, "stderr": raw.get("stderr_tail", "")[-200:]})
        why = judge(r, out)
        if why:
            bad.append({"rate_ppm": r, "impl": out, "model": m, "why": why})
    # the rate together with the other options, and a restart with another rate over the segment an
    # earlier instance left: what is published is still exactly the rate given to THIS instance
    if only is None:
        combos = [(50, ("--fake-iface", "fake0", "--phc-ref-id", "PHC0", "--phc-interface", "fake0")),
                  (4294967, ("--fake-iface", "fake0", "-r", "PHC0", "-i", "fake0")),
                  (None, ("--fake-iface", "fake0", "-r", "PHC0", "-i", "fake0")),
                  (200, ("--first", "--max-drift-rate 50")), (None, ("--first", "--max-drift-rate 7")),
                  (3, ("--first", "-m 4294967")), (77, ("--json-output",)),
                  (3, ("--short-flag",)), (5, ("--short-flag",)), (50, ("--short-flag",)), (0, ("--short-flag",)), (4294967, ("--short-flag",)),
                  (4294968, ("--short-flag",)), (1, ("--short-flag", "--json-output"))]
        with ThreadPoolExecutor(max_workers=8) as ex:
            cobs = list(ex.map(lambda rc: observe(binary, rc[0], rc[1]), combos))
        for (r, extra), (out, raw) in zip(combos, cobs):
            res.evaluations += 1
            res.nontriv((r, extra))
            res.count("with-other-options-or-after-an-earlier-instance")
            why = judge(r, out)
            if why:
                bad.append({"rate_ppm": r, "other_arguments": list(extra), "impl": out, "why": why, "stderr": raw.get("stderr_tail", "")[-200:]})
    res.samples = [{"rate_ppm": r, "impl": o[0], "model": m, "waited_s": o[1].get("waited_s")} for r, o, m in list(zip(vals, obs, model))[:8]]
    res.traces_validated = len(vals) - len(diffs)
    res.oblige("correspondence:clockbound --max-drift-rate (release binary) vs Cli.cli_ppb", not diffs)
    res.trusted_base.append("the release binary built from /repo's working tree without any cfg; private mount namespace (unshare -m) with tmpfs on /run; no chronyd: the daemon publishes within a second")
    res.trusted_base.append("clap's u32 parsing observed only through the binary (non-u32 text = rejected)")
    if bad:
        res.violation({"property": "C19", "kind": "input", "case": bad[0], "others": bad[1:5],
                       "predicate": "published ppb = 1000 * ppm exactly, or start-up refused iff not representable",
                       "how_to_replay": "./check C19 --replay <this file>"})
    elif diffs:
        res.violation({"property": "C19", "kind": "obligation", "obligation": "correspondence:clockbound binary vs Cli.cli_ppb",
                       "first_differences": diffs[:5]}, found_input=False)
    published_part(res)
    if not proofs_ok:
        res.violation({"property": "C19", "kind": "obligation", "obligation": proofs_why}, found_input=False)


def replay(res, path):
    r = json.load(open(path))
    case = r.get("case") or r.get("first_differences", [{}])[0]
    rate = case.get("rate_ppm")
    binary = c.build_repo_binary()
    out, raw = observe(binary, rate)
    m = c.run_model(["cli 0 0" if rate is None else "cli 1 %d" % rate])[0]
    why = judge(rate, out)
    print("rate %s ppm\nimpl  %s\nmodel %s\npredicate: %s" % (rate, out, m, why or "holds"))
    return 1 if (why or out != m) else 0
