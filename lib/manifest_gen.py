#!/usr/bin/env python3
"""Regenerates /verif/MANIFEST.json from the table below (run after claiming a property)."""
import json
import os
import sys

sys.path.insert(0, os.path.dirname(os.path.abspath(__file__)))

VERIF = os.path.dirname(os.path.dirname(os.path.abspath(__file__)))

HOOK_COMMITS = ["a18317b", "8482a65", "1b990a1"]

from claims import CLAIMED  # noqa: E402

ALL = ["C%02d" % i for i in range(1, 20)]


def main():
    props = {}
    for ln in open(os.path.join(VERIF, "properties.jsonl")):
        p = json.loads(ln)
        props[p["id"]] = p
    checks, na = [], []
    for pid in ALL:
        if pid in CLAIMED:
            tech, text, note, ref = CLAIMED[pid]
            checks.append({
                "property_id": pid,
                "quick_cmd": "./check %s --tier quick" % pid,
                "thorough_cmd": "./check %s --tier thorough" % pid,
                "evidence_file": "evidence/%s.json" % pid,
                "replay_cmd_template": "./check %s --replay {path}" % pid,
                "engine": "check",
                "level_claimed": {"category": "proof", "text": text, "design_ref": ref},
                "level_note": note,
                "technique": tech,
            })
        else:
            na.append({"property_id": pid, "reason": "not yet claimed: machinery for this property is still being built (see DESIGN.md section 10); no check registered"})
    served = sorted(CLAIMED)
    m = {
        "version": 1,
        "setup_cmd": "./check --setup",
        "hooks": {
            "guard": "--cfg clockbound_verif",
            "enable": "rustflags = [\"--cfg\", \"clockbound_verif\"] in /verif/harness/.cargo/config.toml; the harness crate depends on /repo's crates by path and is rebuilt by every check",
            "baseline_off_cmd": "cd /repo && cargo test --workspace --no-fail-fast --offline",
            "source_commits": HOOK_COMMITS,
            "add_only": True,
        },
        "engines": [
            {"name": "coq", "path": "coq", "serves_properties": served, "kind_free_text": "Coq 8.16 development: executable Gallina model + theorems (Properties/Cxx.v), built with coq_makefile/make (full .vo)"},
            {"name": "model-driver", "path": "ocaml", "serves_properties": served, "kind_free_text": "model extracted to OCaml (ExtrOcamlBasic only) + line-oriented driver"},
            {"name": "harness", "path": "harness", "serves_properties": served, "kind_free_text": "Rust harness running the real code built from /repo's working tree with hooks on"},
            {"name": "check", "path": "check", "serves_properties": served, "kind_free_text": "Python driver: builds, generators, differential comparison, assumption audit, evidence, replays"},
        ],
        "checks": checks,
        "notes": "See DESIGN.md. Every check first rebuilds the Coq development (make, incremental) and the harness from /repo's current working tree. Exit 2 + CHECK-ERROR = the machinery failed (never a violation).",
        "not_applicable": na,
    }
    with open(os.path.join(VERIF, "MANIFEST.json"), "w") as f:
        json.dump(m, f, indent=1)
        f.write("\n")


if __name__ == "__main__":
    main()
