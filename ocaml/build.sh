#!/bin/sh
# Build the model driver from the extracted files in gen/ (moved there by ./check after make).
set -e
cd "$(dirname "$0")"
rm -rf _b && mkdir _b && cp gen/*.ml gen/*.mli io.ml driver.ml _b/
cd _b
ORDER=$(ocamlfind ocamldep -sort *.mli *.ml)
ocamlfind ocamlopt -O3 -w -a $ORDER -o ../model_driver
