(* Conversions between decimal text and the extracted Coq integers, and line-level I/O.
   No OCaml int/float stands in for a model value: ints are only used to read and print digits. *)
open BinNums
open Datatypes
open BinInt

let rec pos_of_int (n : int) : positive =
  if n = 1 then Coq_xH
  else if n land 1 = 0 then Coq_xO (pos_of_int (n lsr 1))
  else Coq_xI (pos_of_int (n lsr 1))

let z_of_int (n : int) : coq_Z =
  if n = 0 then Z0 else if n > 0 then Zpos (pos_of_int n) else Zneg (pos_of_int (- n))

let rec int_of_pos (p : positive) : int =
  match p with Coq_xH -> 1 | Coq_xO q -> 2 * int_of_pos q | Coq_xI q -> 2 * int_of_pos q + 1

let rec pos_bits (p : positive) : int =
  match p with Coq_xH -> 1 | Coq_xO q -> 1 + pos_bits q | Coq_xI q -> 1 + pos_bits q

let z10 = z_of_int 10

(* decimal string -> z, any size *)
let z_of_string (s : string) : coq_Z =
  let n = String.length s in
  if n = 0 then failwith "empty integer";
  let neg = s.[0] = '-' in
  let start = if neg || s.[0] = '+' then 1 else 0 in
  if n - start <= 18 then z_of_int (int_of_string s)
  else begin
    let acc = ref Z0 in
    for i = start to n - 1 do
      let d = Char.code s.[i] - 48 in
      if d < 0 || d > 9 then failwith ("bad integer " ^ s);
      acc := Z.add (Z.mul !acc z10) (z_of_int d)
    done;
    if neg then Z.opp !acc else !acc
  end

let string_of_z (x : coq_Z) : string =
  let small p = pos_bits p <= 61 in
  match x with
  | Z0 -> "0"
  | Zpos p when small p -> string_of_int (int_of_pos p)
  | Zneg p when small p -> string_of_int (- (int_of_pos p))
  | _ ->
    let neg, a = (match x with Zneg p -> true, Zpos p | _ -> false, x) in
    let buf = Buffer.create 32 in
    let rec go a acc =
      match a with
      | Z0 -> acc
      | _ -> let (q, r) = Z.div_eucl a z10 in
        let d = (match r with Z0 -> 0 | Zpos p -> int_of_pos p | Zneg _ -> failwith "neg rem") in
        go q (Char.chr (48 + d) :: acc) in
    let digits = go a [] in
    if neg then Buffer.add_char buf '-';
    Stdlib.List.iter (Buffer.add_char buf) digits;
    Buffer.contents buf

let rec nat_of_int (n : int) : nat = if n <= 0 then O else S (nat_of_int (n - 1))
let rec int_of_nat (n : nat) : int = match n with O -> 0 | S k -> 1 + int_of_nat k

let split_ws (line : string) : string list =
  Stdlib.List.filter (fun s -> s <> "") (String.split_on_char ' ' (String.trim line))

let sb b = if b then "1" else "0"

let rec n_of_int (n : int) : coq_N = if n = 0 then N0 else Npos (pos_of_int n)
