(* Model driver: one case per input line, one canonical result per output line.
   Line format: <tag> <int> ... ; see lib/*.py for the producers and harness/src for the twin. *)
open BinNums
open Datatypes
open BinInt
open Io

let handle (toks : string list) : string =
  match toks with
  | "gen" :: g :: [] ->
    (* generation before a complete update -> value during the copy, value after *)
    let g = z_of_string g in
    let p = Gen.pre g in
    String.concat " " [string_of_z g; string_of_z p; string_of_z (Gen.post p)]
  | tag :: _ -> failwith ("unknown tag " ^ tag)
  | [] -> ""

let () =
  let out = Buffer.create 65536 in
  (try
     while true do
       let line = input_line stdin in
       let toks = split_ws line in
       if toks <> [] then begin
         Buffer.add_string out (handle toks);
         Buffer.add_char out '\n';
         if Buffer.length out > 60000 then (print_string (Buffer.contents out); Buffer.clear out)
       end
     done
   with End_of_file -> ());
  print_string (Buffer.contents out)
