(* Model driver: one case per input line, one canonical result per output line.
   Line format: <tag> <int> ... ; see lib/*.py for the producers and harness/src for the twin. *)
open BinNums
open Datatypes
open BinInt
open Io

let handle (toks : string list) : string =
  match toks with
  | "gen" :: g :: [] ->
    (* generation before a complete update -> value during the copy, value after *)
    let g = z_of_string g in
    let p = Gen.pre g in
    String.concat " " [string_of_z g; string_of_z p; string_of_z (Gen.post p)]
  | "cba" :: rest ->
    (match List.map z_of_string rest with
     | [as_s; as_n; va_s; va_n; bound; drift; st; re_s; re_n; mo_s; mo_n] ->
       let status = (match Client.status_of_code st with Some s -> s | None -> Client.Unknown) in
       let c = { Client.c_as_of = { Mach.ts_sec = as_s; Mach.ts_nsec = as_n };
                 Client.c_void_after = { Mach.ts_sec = va_s; Mach.ts_nsec = va_n };
                 Client.c_bound = bound; Client.c_drift = drift; Client.c_reserved = Z0;
                 Client.c_status = status } in
       (match Client.compute_bound_at c { Mach.ts_sec = re_s; Mach.ts_nsec = re_n }
                { Mach.ts_sec = mo_s; Mach.ts_nsec = mo_n } with
        | Client.Ok ((e, l), st) ->
          String.concat " " ["ok"; string_of_z e.Mach.ts_sec; string_of_z e.Mach.ts_nsec;
                             string_of_z l.Mach.ts_sec; string_of_z l.Mach.ts_nsec;
                             string_of_z (Client.status_code st)]
        | Client.Err Client.EMalformed -> "err malformed"
        | Client.Err Client.ECausality -> "err causality"
        | Client.Panic -> "panic")
     | _ -> failwith "cba: 11 integers expected")
  | "bnd" :: d :: e :: o :: [] ->
    string_of_z (Bound.bound_of_words (z_of_string d) (z_of_string e) (z_of_string o))
  | "bnds" :: d :: e :: o :: [] ->
    string_of_z (Bound.bound_of_words_signed (z_of_string d) (z_of_string e) (z_of_string o))
  | "cls" :: leap :: itv :: kind :: secs :: nanos :: [] ->
    let age = if z_of_string kind = Z0 then Some (z_of_string secs, z_of_string nanos) else None in
    string_of_z (Client.status_code (Bound.classify (z_of_string leap) (z_of_string itv) age))
  | "upd" :: drift :: n :: rest ->
    let rec msgs k toks acc =
      if k = 0 then List.rev acc else
      match toks with
      | "r" :: d :: e :: o :: leap :: itv :: kind :: secs :: nanos :: phc :: as_s :: as_n :: tl ->
        let age = if z_of_string kind = Z0 then Some (z_of_string secs, z_of_string nanos) else None in
        msgs (k - 1) tl (Updater.MReport (z_of_string d, z_of_string e, z_of_string o, z_of_string leap, z_of_string itv, age,
                                          z_of_string phc, { Mach.ts_sec = z_of_string as_s; Mach.ts_nsec = z_of_string as_n }) :: acc)
      | ("m" | "p") :: g :: tl -> msgs (k - 1) tl (Updater.MMissing (z_of_string g <> Z0) :: acc)
      | _ -> failwith "upd: bad message list" in
    let ms = msgs (int_of_string n) rest [] in
    (match Updater.urun (Updater.u_init (z_of_string drift)) ms with
     | None -> "panic"
     | Some (_, cs) ->
       String.concat " " (string_of_int (List.length cs) ::
         List.concat_map (fun c ->
           [string_of_z c.Client.c_as_of.Mach.ts_sec; string_of_z c.Client.c_as_of.Mach.ts_nsec;
            string_of_z c.Client.c_void_after.Mach.ts_sec; string_of_z c.Client.c_void_after.Mach.ts_nsec;
            string_of_z c.Client.c_bound; string_of_z c.Client.c_drift;
            string_of_z (Client.status_code c.Client.c_status)]) cs))
  | "gro" :: e :: d :: [] -> string_of_z (Client.growth (z_of_string e) (z_of_string d))
  | tag :: _ -> failwith ("unknown tag " ^ tag)
  | [] -> ""

let () =
  let out = Buffer.create 65536 in
  (try
     while true do
       let line = input_line stdin in
       let toks = split_ws line in
       if toks <> [] then begin
         Buffer.add_string out (handle toks);
         Buffer.add_char out '\n';
         if Buffer.length out > 60000 then (print_string (Buffer.contents out); Buffer.clear out)
       end
     done
   with End_of_file -> ());
  print_string (Buffer.contents out)
