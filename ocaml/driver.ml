(* Model driver: one case per input line, one canonical result per output line.
   Line format: <tag> <int> ... ; see lib/*.py for the producers and harness/src for the twin. *)
open BinNums
open Datatypes
open BinInt
open Io

let rec upd_msgs k toks acc =
  if k = 0 then (Stdlib.List.rev acc, toks) else
  match toks with
  | "r" :: d :: e :: o :: leap :: itv :: kind :: secs :: nanos :: phc :: as_s :: as_n :: tl ->
    let age = if z_of_string kind = Z0 then Some (z_of_string secs, z_of_string nanos) else None in
    upd_msgs (k - 1) tl (Updater.MReport (z_of_string d, z_of_string e, z_of_string o, z_of_string leap, z_of_string itv, age,
                                          z_of_string phc, { Mach.ts_sec = z_of_string as_s; Mach.ts_nsec = z_of_string as_n }) :: acc)
  | ("m" | "p") :: g :: tl -> upd_msgs (k - 1) tl (Updater.MMissing (z_of_string g <> Z0) :: acc)
  | _ -> failwith "upd: bad message list"

let upd_records cs =
  String.concat " " (string_of_int (Stdlib.List.length cs) ::
    Stdlib.List.concat_map (fun c ->
      [string_of_z c.Client.c_as_of.Mach.ts_sec; string_of_z c.Client.c_as_of.Mach.ts_nsec;
       string_of_z c.Client.c_void_after.Mach.ts_sec; string_of_z c.Client.c_void_after.Mach.ts_nsec;
       string_of_z c.Client.c_bound; string_of_z c.Client.c_drift;
       string_of_z (Client.status_code c.Client.c_status)]) cs)

let handle (toks : string list) : string =
  match toks with
  | "gen" :: g :: [] ->
    (* generation before a complete update -> value during the copy, value after *)
    let g = z_of_string g in
    let p = Gen.pre g in
    String.concat " " [string_of_z g; string_of_z p; string_of_z (Gen.post p)]
  | "cba" :: rest ->
    (match Stdlib.List.map z_of_string rest with
     | [as_s; as_n; va_s; va_n; bound; drift; st; re_s; re_n; mo_s; mo_n] ->
       let status = (match Client.status_of_code st with Some s -> s | None -> Client.Unknown) in
       let c = { Client.c_as_of = { Mach.ts_sec = as_s; Mach.ts_nsec = as_n };
                 Client.c_void_after = { Mach.ts_sec = va_s; Mach.ts_nsec = va_n };
                 Client.c_bound = bound; Client.c_drift = drift; Client.c_reserved = Z0;
                 Client.c_status = status } in
       (match Client.compute_bound_at c { Mach.ts_sec = re_s; Mach.ts_nsec = re_n }
                { Mach.ts_sec = mo_s; Mach.ts_nsec = mo_n } with
        | Client.Ok ((e, l), st) ->
          String.concat " " ["ok"; string_of_z e.Mach.ts_sec; string_of_z e.Mach.ts_nsec;
                             string_of_z l.Mach.ts_sec; string_of_z l.Mach.ts_nsec;
                             string_of_z (Client.status_code st)]
        | Client.Err Client.EMalformed -> "err malformed"
        | Client.Err Client.ECausality -> "err causality"
        | Client.Panic -> "panic")
     | _ -> failwith "cba: 11 integers expected")
  | "bnd" :: d :: e :: o :: [] ->
    string_of_z (Bound.bound_of_words (z_of_string d) (z_of_string e) (z_of_string o))
  | "bnds" :: d :: e :: o :: [] ->
    string_of_z (Bound.bound_of_words_signed (z_of_string d) (z_of_string e) (z_of_string o))
  | "cls" :: leap :: itv :: kind :: secs :: nanos :: [] ->
    let age = if z_of_string kind = Z0 then Some (z_of_string secs, z_of_string nanos) else None in
    string_of_z (Client.status_code (Bound.classify (z_of_string leap) (z_of_string itv) age))
  | "upd" :: drift :: n :: rest ->
    let (ms, _) = upd_msgs (int_of_string n) rest [] in
    (match Updater.urun (Updater.u_init (z_of_string drift)) ms with
     | None -> "panic"
     | Some (_, cs) -> upd_records cs)
  | "upd2" :: drift1 :: n1 :: rest ->
    (* two instances of the daemon, one after the other, over one segment *)
    let (ms1, rest) = upd_msgs (int_of_string n1) rest [] in
    (match rest with
     | drift2 :: n2 :: rest ->
       let (ms2, _) = upd_msgs (int_of_string n2) rest [] in
       (match Updater.lives [ (z_of_string drift1, ms1); (z_of_string drift2, ms2) ] with
        | None -> "panic"
        | Some cs -> upd_records cs)
     | _ -> failwith "upd2: second life missing")
  | "cli" :: kind :: r :: [] ->
    (* kind 0: option omitted; 1: value r (as parsed by clap into a u32, or outside u32) *)
    (match Cli.cli_ppb (if kind = "0" then None else Some (z_of_string r)) with
     | Cli.CliOk p -> "ok " ^ string_of_z p
     | Cli.CliRejected -> "rejected")
  | "rid" :: _n :: bytes ->
    (* refid_to_u32 on the bytes of the string *)
    (match Cli.refid_of (Stdlib.List.map z_of_string bytes) with
     | Some v -> "ok " ^ string_of_z v
     | None -> "rejected")
  | ("shm" | "shmc" as tag) :: rest ->
    let ord_of s = match int_of_string s with
      | 0 -> Machine.Rlx | 1 -> Machine.Acq | 2 -> Machine.Rel | 3 -> Machine.AcqRel | _ -> Machine.SeqCst in
    let fence_of s = if int_of_string s < 0 then None else Some (ord_of s) in
    let code_of = function Machine.Rlx -> 0 | Machine.Acq -> 1 | Machine.Rel -> 2 | Machine.AcqRel -> 3 | Machine.SeqCst -> 4 in
    (match rest with
     | wl :: wo :: wf :: we :: rv :: g1 :: rf :: g2 :: nc :: retries :: tl ->
       let n = int_of_string nc in
       let rec take k l acc = if k = 0 then (Stdlib.List.rev acc, l) else (match l with x :: t -> take (k - 1) t (x :: acc) | [] -> failwith "shm: short") in
       let (wo_l, tl) = take n tl [] in
       let (ro_l, tl) = take n tl [] in
       let c = { Machine.c_w_load = ord_of wl; c_w_odd = ord_of wo; c_w_fence = fence_of wf; c_w_even = ord_of we;
                 c_r_ver = ord_of rv; c_r_g1 = ord_of g1; c_r_fence = fence_of rf; c_r_g2 = ord_of g2;
                 c_cells = nat_of_int n; c_w_order = Stdlib.List.map (fun x -> nat_of_int (int_of_string x)) wo_l;
                 c_r_order = Stdlib.List.map (fun x -> nat_of_int (int_of_string x)) ro_l;
                 c_retries = n_of_int (int_of_string retries) } in
       let rec toks l acc = match l with
         | [] -> Stdlib.List.rev acc
         | "W" :: t -> toks t (Machine.TW :: acc)
         | "C" :: t -> toks t (Machine.TCrash :: acc)
         | "S" :: t -> toks t (Machine.TRestart :: acc)
         | "N" :: t -> toks t (Machine.TNewReader :: acc)
         | "J" :: v :: t -> toks t (Machine.TJump (z_of_string v) :: acc)
         | "R" :: j :: k :: t ->
           let ch = if int_of_string k < 0 then None else Some (nat_of_int (int_of_string k)) in
           toks t (Machine.TR (nat_of_int (int_of_string j), ch) :: acc)
         | x :: _ -> failwith ("shm: bad token " ^ x) in
       let ts = (match tl with _ntok :: t -> toks t [] | [] -> []) in
       let (m, obs) = (if tag = "shmc" then Machine.m_run_const else Machine.m_run_std) (Machine.m_init c) ts in
       let loc_s = function Machine.LVer -> "v" | Machine.LGen -> "g" | Machine.LCell i -> "c" ^ string_of_int (int_of_nat i) in
       let kind_s = function Machine.ALoad -> "L" | Machine.AStore -> "S" | Machine.AFence -> "F" | Machine.ACellW -> "W" | Machine.ACellR -> "R" in
       let cells l = String.concat "," (Stdlib.List.map string_of_z l) in
       let ob = function
         | Machine.OAccess (who, it) ->
           Printf.sprintf "A%d.%s.%s.%d.%s" (int_of_nat who) (kind_s it.Machine.t_kind)
             (match it.Machine.t_kind with Machine.AFence -> "-" | _ -> loc_s it.Machine.t_loc)
             (code_of it.Machine.t_ord) (string_of_z it.Machine.t_val)
         | Machine.ORet (j, r, rc) ->
           (match r with
            | Machine.RetCache -> Printf.sprintf "T%d.C.%s" (int_of_nat j) (cells rc)
            | Machine.RetFresh -> Printf.sprintf "T%d.F.%s" (int_of_nat j) (cells rc)
            | Machine.RetErr -> Printf.sprintf "T%d.E" (int_of_nat j))
         | Machine.OSkip -> "K"
         | Machine.OStuck -> "X" in
       let mem = Machine.mem_of c m.Machine.m_w.Machine.w_log in
       String.concat " " (Stdlib.List.map ob obs @ ["M." ^ cells mem])
     | _ -> failwith "shm: bad header")
  | ("seg" | "wrt") as tag :: kind :: n :: rest ->
    (* file object: kind 0 = file with the n bytes that follow, 1 = missing, 2 = directory,
       3 = the path cannot be resolved, open fails with the errno given as the single "byte" *)
    let n = int_of_string n in
    let rec take k l acc = if k = 0 then (Stdlib.List.rev acc, l) else (match l with x :: t -> take (k - 1) t (x :: acc) | [] -> failwith "seg: short") in
    let (bs, tl) = take n rest [] in
    let bytes = Stdlib.List.map z_of_string bs in
    let f = (match kind with "0" -> Open.FFile bytes | "1" -> Open.FMissing
                            | "3" -> Open.FNoPath (match bytes with e :: _ -> e | [] -> failwith "seg: errno expected") | _ -> Open.FDir) in
    let opn = Open.reader_open f in
    let ostr = (match opn with
      | Open.OpenOk _ -> "ok"
      | Open.OpenErr Open.KNotInitialized -> "notinit:0:"
      | Open.OpenErr Open.KMalformed -> "malformed:0:"
      | Open.OpenErr (Open.KSyscall (e, o)) -> "syscall:" ^ string_of_z e ^ ":" ^ string_of_z o) in
    if tag = "seg" then begin
      match Stdlib.List.map z_of_string tl with
      | [re_s; re_n; mo_s; mo_n] ->
        let nowstr = (match opn with
          | Open.OpenErr _ -> "-"
          | Open.OpenOk h ->
            let padded = Open.pad_to bytes (nat_of_int 72) in
            let odd = (match Z.div_eucl h.Layout.h_generation (z_of_int 2) with (_, Z0) -> false | _ -> true) in
            let c = if odd then Some { Client.c_as_of = { Mach.ts_sec = Z0; Mach.ts_nsec = Z0 }; Client.c_void_after = { Mach.ts_sec = Z0; Mach.ts_nsec = Z0 };
                                       Client.c_bound = Z0; Client.c_drift = Z0; Client.c_reserved = Z0; Client.c_status = Client.Unknown }
                    else Layout.decode_ceb padded (nat_of_int 16) in
            (match c with
             | None -> "skip"
             | Some c ->
               (match Client.compute_bound_at c { Mach.ts_sec = re_s; Mach.ts_nsec = re_n } { Mach.ts_sec = mo_s; Mach.ts_nsec = mo_n } with
                | Client.Ok ((e, l), st) ->
                  String.concat ":" ["ok"; string_of_z e.Mach.ts_sec; string_of_z e.Mach.ts_nsec;
                                     string_of_z l.Mach.ts_sec; string_of_z l.Mach.ts_nsec; string_of_z (Client.status_code st)]
                | Client.Err Client.EMalformed -> "malformed:0:"
                | Client.Err Client.ECausality -> "causality:0:"
                | Client.Panic -> "panic"))) in
        "O:" ^ ostr ^ " N:" ^ nowstr
      | _ -> failwith "seg: 4 clock integers expected"
    end else begin
      match Stdlib.List.map z_of_string tl with
      | [as_s; as_n; va_s; va_n; bound; drift; st] ->
        let status = (match Client.status_of_code st with Some s -> s | None -> Client.Unknown) in
        let r = { Client.c_as_of = { Mach.ts_sec = as_s; Mach.ts_nsec = as_n };
                  Client.c_void_after = { Mach.ts_sec = va_s; Mach.ts_nsec = va_n };
                  Client.c_bound = bound; Client.c_drift = drift; Client.c_reserved = Z0; Client.c_status = status } in
        (match Open.after_first_publication f r with
         | None -> "W:err"
         | Some bs' -> "W:ok " ^ String.concat " " (Stdlib.List.map string_of_z bs'))
      | _ -> failwith "wrt: 7 record integers expected"
    end
  | "pol" :: start_ns :: cfg_refid :: n :: rest ->
    (* per step: t_ns mode d_ns e_ns phc(-1 = unreadable) refid tag ; mode 1 = tracking reply, others = nothing usable *)
    let rec steps k l acc = if k = 0 then Stdlib.List.rev acc else
      (match l with
       | t :: mode :: d :: e :: phc :: refid :: tag :: tl ->
         let phc = z_of_string phc in
         steps (k - 1) tl ({ Poller.p_t = z_of_string t; p_mode = (if mode = "1" then Poller.PReply else Poller.PSilent);
                             p_d = z_of_string d; p_e = z_of_string e;
                             p_phc = (match phc with Zneg _ -> None | _ -> Some phc);
                             p_refid = z_of_string refid; p_tag = z_of_string tag } :: acc)
       | _ -> failwith "pol: short") in
    let ss = steps (int_of_string n) rest [] in
    let cfg = (let r = z_of_string cfg_refid in match r with Zneg _ -> None | _ -> Some r) in
    let ms = Poller.poll_run cfg (Poller.poller_init (z_of_string start_ns)) ss in
    String.concat " " (Stdlib.List.map (function
      | Poller.PMData (a, p, r, t) -> Printf.sprintf "D:%s:%s:%s:%s" (string_of_z a) (string_of_z p) (string_of_z r) (string_of_z t)
      | Poller.PMNoReplyGrace -> "NG" | Poller.PMNoReply -> "NR" | Poller.PMPhcFailGrace -> "PG" | Poller.PMPhcFail -> "PF") ms)
  | "wld" :: drift :: cfg_refid :: n :: rest ->
    (* composition of Poller.poll_step, Updater.ustep and Client.compute_bound_at on the same script *)
    let ns = z_of_string "1000000000" in
    let ts_of z = let (q, r) = Z.div_eucl z ns in { Mach.ts_sec = q; Mach.ts_nsec = r } in
    let ns_of t = Z.add (Z.mul t.Mach.ts_sec ns) t.Mach.ts_nsec in
    let drift = z_of_string drift in
    let cfg = (let r = z_of_string cfg_refid in match r with Zneg _ -> None | _ -> Some r) in
    let out = ref [] in
    let ust = ref (Updater.u_init drift) in
    let last_good = ref None in          (* None: daemon not running *)
    let record = ref None in
    let torn = ref false in              (* the daemon died inside a publication: generation odd *)
    let cache = ref None in              (* the record the client process holds; None = attached, nothing read yet *)
    let zero_ts = { Mach.ts_sec = Z0; Mach.ts_nsec = Z0 } in
    let zero_rec = { Client.c_as_of = zero_ts; Client.c_void_after = zero_ts; Client.c_bound = Z0; Client.c_drift = Z0;
                     Client.c_reserved = Z0; Client.c_status = Client.Unknown } in
    let rec go k toks =
      if k = 0 then () else
      match toks with
      | "P" :: t :: mode :: d :: e :: phc :: refid :: leap :: itv :: kind :: age_s :: age_n :: corr :: delay :: disp :: tl ->
        let t = z_of_string t in
        let lg = (match !last_good with Some x -> x | None -> Poller.poller_init t) in
        let phc = z_of_string phc in
        let step = { Poller.p_t = t; p_mode = (if mode = "1" then Poller.PReply else Poller.PSilent); p_d = z_of_string d; p_e = z_of_string e;
                     p_phc = (match phc with Zneg _ -> None | _ -> Some phc); p_refid = z_of_string refid; p_tag = Z0 } in
        let (lg', m) = Poller.poll_step cfg lg step in
        last_good := Some lg';
        let age = if z_of_string kind = Z0 then Some (z_of_string age_s, z_of_string age_n) else None in
        let umsg = (match m with
          | Poller.PMData (a, ph, _, _) -> Updater.MReport (z_of_string delay, z_of_string disp, z_of_string corr, z_of_string leap, z_of_string itv, age, ph, ts_of a)
          | Poller.PMNoReplyGrace | Poller.PMPhcFailGrace -> Updater.MMissing true
          | Poller.PMNoReply | Poller.PMPhcFail -> Updater.MMissing false) in
        (match Updater.ustep !ust umsg with
         | None -> out := "p:panic" :: !out
         | Some (u', c) ->
           ust := u'; record := Some c; torn := false;
           out := (String.concat ":" ["p"; string_of_z c.Client.c_as_of.Mach.ts_sec; string_of_z c.Client.c_as_of.Mach.ts_nsec;
                                      string_of_z c.Client.c_void_after.Mach.ts_sec; string_of_z c.Client.c_void_after.Mach.ts_nsec;
                                      string_of_z c.Client.c_bound; string_of_z c.Client.c_drift; string_of_z (Client.status_code c.Client.c_status)]) :: !out);
        go (k - 1) tl
      | "C" :: real :: mono :: tl ->
        (match !record with
         | None -> out := "c:noclient" :: !out
         | Some published ->
           (* an update in flight (abandoned by a dead daemon): the client answers from what it holds *)
           if not !torn then cache := Some published;
           let c = (match !cache with Some c -> c | None -> zero_rec) in
           (match Client.compute_bound_at c (ts_of (z_of_string real)) (ts_of (z_of_string mono)) with
            | Client.Ok ((e, l), st) -> out := (String.concat ":" ["c"; "ok"; string_of_z (ns_of e); string_of_z (ns_of l); string_of_z (Client.status_code st)]) :: !out
            | Client.Err Client.EMalformed -> out := "c:err:malformed" :: !out
            | Client.Err Client.ECausality -> out := "c:err:causality" :: !out
            | Client.Panic -> out := "c:panic" :: !out));
        go (k - 1) tl
      | "R" :: _t :: tl ->
        ust := Updater.u_init drift; last_good := None; out := "r" :: !out;
        go (k - 1) tl
      | "K" :: _t :: tl ->
        ust := Updater.u_init drift; last_good := None;
        (match !record with Some _ -> torn := true | None -> ());
        out := "k" :: !out;
        go (k - 1) tl
      | "F" :: tl ->
        cache := None; out := "f" :: !out;
        go (k - 1) tl
      | "N" :: _t :: tl ->
        (* a daemon that starts over the segment and dies before publishing: the segment keeps what it holds
           (a generation left odd stays odd) *)
        out := "n" :: !out;
        go (k - 1) tl
      | _ -> failwith "wld: bad item" in
    go (int_of_string n) rest;
    String.concat " " (Stdlib.List.rev !out)
  | "gro" :: e :: d :: [] -> string_of_z (Client.growth (z_of_string e) (z_of_string d))
  | tag :: _ -> failwith ("unknown tag " ^ tag)
  | [] -> ""

let () =
  let out = Buffer.create 65536 in
  (try
     while true do
       let line = input_line stdin in
       let toks = split_ws line in
       if toks <> [] then begin
         Buffer.add_string out (handle toks);
         Buffer.add_char out '\n';
         if Buffer.length out > 60000 then (print_string (Buffer.contents out); Buffer.clear out)
       end
     done
   with End_of_file -> ());
  print_string (Buffer.contents out)
