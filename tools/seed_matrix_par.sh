#!/bin/bash
# tools/seed_matrix_par.sh [N workers] : every stored seeded change against the checks its meta.json
# lists under detected_by (first two), in N isolated copies of /verif + clones of /repo under
# /tmp/mx (so that /repo and /verif stay free), removed at the end.  Output: .build/seed_matrix.log
N=${1:-4}
rm -rf /tmp/mx; mkdir -p /tmp/mx
seeds=($(ls /verif/seeded | grep -E -- "${MX_FILTER:-.}"))
for w in $(seq 0 $((N-1))); do
  (
    root=/tmp/mx/w$w; mkdir -p $root
    git clone -q /repo $root/repo
    rsync -a --exclude replays --exclude .git --exclude '.build/scratch' --exclude '.build/target*' /verif/ $root/verif/
    sed -i "s#\"/repo/#\"$root/repo/#" $root/verif/harness/Cargo.toml
    cd $root/verif
    export VERIF_REPO=$root/repo
    i=0
    for s in "${seeds[@]}"; do
      if [ $((i % N)) -eq $w ]; then
        ids=$(python3 -c "import json;print(' '.join(json.load(open('/verif/seeded/$s/meta.json'))['detected_by'][:int(__import__('os').environ.get('MX_PER_SEED','2'))]))")
        git -C $root/repo apply /verif/seeded/$s/patch.diff 2>/dev/null || { echo "$s patch does not apply"; i=$((i+1)); continue; }
        for id in $ids; do
          out=$(./check $id --tier quick 2>&1 | grep -E "VIOLATION|CHECK-ERROR" | head -2 | tr '\n' ' ')
          if echo "$out" | grep -q "VIOLATION property=$id"; then echo "$s $id detected"; else echo "$s $id REGRESSION: ${out:0:200}"; fi
        done
        git -C $root/repo checkout -- . ; git -C $root/repo clean -qfd
      fi
      i=$((i+1))
    done
  ) > /tmp/mx/w$w.log 2>&1 &
done
wait
cat /tmp/mx/w*.log | sort > /verif/.build/${MX_OUT:-seed_matrix.log}
rm -rf /tmp/mx
grep -c detected /verif/.build/${MX_OUT:-seed_matrix.log}; grep -v detected /verif/.build/${MX_OUT:-seed_matrix.log}
