#!/bin/bash
# tools/seed_verify.sh <worktree> <k> <demo command...>
# Confirms a seeded change: with patch<k>.diff the workspace suite passes and the demo fails;
# without it the demo passes. Prints one summary line.
wt=$1; k=$2; shift 2
cd "$wt" || exit 2
export CARGO_NET_OFFLINE=true
git checkout -q -- . ; git clean -qfd -e _out
git apply _out/patch$k.diff || { echo "SEED $wt $k: patch does not apply"; exit 1; }
suite=$(cargo test --workspace --no-fail-fast --offline 2>&1 | grep "^test result" | awk '{p+=$4; f+=$6} END {print p" passed "f" failed"}')
[ ! -f _out/demo$k/demo.diff ] || git apply _out/demo$k/demo.diff || { echo "SEED $wt $k: demo.diff does not apply"; git checkout -q -- .; exit 1; }
"$@" > _out/demo$k/with_patch.log 2>&1; with=$?
git apply -R _out/patch$k.diff
"$@" > _out/demo$k/without_patch.log 2>&1; without=$?
git checkout -q -- . ; git clean -qfd -e _out
echo "SEED $wt $k: suite-with-patch=[$suite] demo-with-patch-exit=$with demo-without-patch-exit=$without"
