#!/bin/bash
# tools/seed_matrix.sh [seed dir names...]: every stored seeded change against the checks its
# meta.json lists under detected_by; prints REGRESSION for a listed check that no longer reports it.
cd /verif
seeds=${@:-$(ls seeded)}
for s in $seeds; do
  ids=$(python3 -c "import json;print(' '.join(json.load(open('/verif/seeded/$s/meta.json'))['detected_by'][:2]))")
  out=$(tools/seed_check.sh /verif/seeded/$s/patch.diff $ids 2>&1)
  for id in $ids; do
    if echo "$out" | grep -q "CHECK $id .*VIOLATION property=$id"; then echo "$s $id detected"; else echo "$s $id REGRESSION: $(echo "$out" | grep "CHECK $id" | cut -c1-200)"; fi
  done
done
