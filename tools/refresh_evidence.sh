#!/bin/bash
# Re-run every claimed check (quick tier) on the unchanged tree so that the committed evidence
# files describe the registered commit. Prints one line per check.
cd /verif
git -C /repo diff --quiet || { echo "/repo not clean"; exit 2; }
for id in $(python3 -c "import json; print(' '.join(c['property_id'] for c in json.load(open('MANIFEST.json'))['checks']))"); do
  s=$(date +%s); out=$(./check $id --tier quick 2>&1 | grep -v "^WARNING"); rc=$?
  echo "$id $(( $(date +%s) - s ))s $(echo "$out" | grep -E 'VIOLATION|CHECK-ERROR' | head -2)"
done
