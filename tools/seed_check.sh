#!/bin/bash
# tools/seed_check.sh <patch file> <property id>...   : apply to /repo, run the checks, undo.
patch=$1; shift
cd /verif
git -C /repo diff --quiet || { echo "/repo not clean"; exit 2; }
git -C /repo apply "$patch" || { echo "patch does not apply to /repo"; exit 2; }
rm -rf /verif/.build/evidence.keep && cp -r /verif/evidence /verif/.build/evidence.keep   # evidence of the unchanged tree is kept
for id in "$@"; do
  out=$(./check $id --tier quick 2>&1 | grep -v "^WARNING"); rc=$?
  echo "CHECK $id on $(basename $(dirname $patch))/$(basename $patch): $(echo "$out" | grep -E 'VIOLATION|CHECK-ERROR|KNOWN' | head -3 | tr '\n' ' ')"
done
git -C /repo checkout -- .
rm -rf /verif/evidence && mv /verif/.build/evidence.keep /verif/evidence
git -C /repo diff --quiet && echo "(repo restored)"
