#!/usr/bin/env python3
"""tools/seed_store.py <ID> <k> <demo cmd string> <detected-by (comma list, or 'none')> [<title>]
Copies a confirmed seeded change from $MUT_ROOT/<ID>/_out (default /tmp/mut) into
/verif/seeded/<ID>-<k + $SEED_OFFSET>/ (default offset 0)."""
import json, os, re, shutil, sys
pid, k, demo_cmd, detected = sys.argv[1:5]
title = sys.argv[5] if len(sys.argv) > 5 else ""
ROOT = os.environ.get("MUT_ROOT", "/tmp/mut")
src = "%s/%s/_out" % (ROOT, pid)
kd = str(int(k) + int(os.environ.get("SEED_OFFSET", "0")))
dst = "/verif/seeded/%s-%s" % (pid, kd)
os.makedirs(dst, exist_ok=True)
shutil.copyfile("%s/patch%s.diff" % (src, k), dst + "/patch.diff")
if os.path.isdir(dst + "/demo"):
    shutil.rmtree(dst + "/demo")
shutil.copytree("%s/demo%s" % (src, k), dst + "/demo")
notes = open(src + "/notes.md").read() if os.path.exists(src + "/notes.md") else ""
# split notes per change when possible
parts = re.split(r"\n(?=#+ .*(?:[Cc]hange|[Mm]utation|patch)\s*%s)" % k, notes)
mine = parts[1] if len(parts) > 1 else notes
mine = re.split(r"\n(?=#+ .*(?:[Cc]hange|[Mm]utation|patch)\s*%s)" % (3 - int(k)), mine)[0]
vlog = ""
import glob
for f in sorted(glob.glob(ROOT + "/verify_*.log")):
    if os.path.exists(f):
        for ln in open(f):
            if ln.startswith("SEED %s/%s %s:" % (ROOT, pid, k)):
                vlog = ln.strip()
meta = {
    "property": pid,
    "title": title,
    "origin": "independent sub-agent given only the property text and a scratch worktree of /repo (HEAD with the fix: commits)",
    "needs_to_manifest": mine.strip()[:3000],
    "confirmed_by": {
        "commands": ["git apply patch.diff && cargo test --workspace --no-fail-fast --offline   (all pass)",
                     "git apply demo/demo.diff && " + demo_cmd + "   (fails with the patch)",
                     "git apply -R patch.diff && " + demo_cmd + "   (passes without the patch)"],
        "result": vlog,
    },
    "detected_by": [] if detected == "none" else detected.split(","),
    "how_to_run_checks": "tools/seed_check.sh /verif/seeded/%s-%s/patch.diff <property ids>" % (pid, kd),
}
json.dump(meta, open(dst + "/meta.json", "w"), indent=1)
print("stored", dst)
