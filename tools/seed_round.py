#!/usr/bin/env python3
"""tools/seed_round.py <root dir> <ID>... : prepares a round of independently produced seeded changes:
one scratch git worktree of /repo per property under <root>, the property text (and nothing else
from /verif) as <root>/<ID>.property.txt, and the instructions for the sub-agent as
<root>/<ID>.prompt.txt (they list the titles of the changes already stored for the property)."""
import glob, json, os, subprocess, sys
root, ids = sys.argv[1], sys.argv[2:]
os.makedirs(root, exist_ok=True)
PROMPT = '''You are helping evaluate a verification tool by producing realistic *breaking changes* (seeded bugs) to a Rust project.

Your scratch copy of the project (aws/clock-bound: a daemon publishing clock-error bounds through shared memory, plus client libraries) is the git worktree at @ROOT@/@ID@ . Work ONLY inside @ROOT@/@ID@ (you may create files there). Do NOT read or touch /verif or /repo, and do not look anywhere else for hints. There is no network; build with `cargo ... --offline` only. Use the worktree's own default `target/` directory for builds.

The property you must break is in @ROOT@/@ID@.property.txt (read it first). Read the relevant source files in the worktree.

Task: produce TWO different, independent changes (mutations) to the project's source code, each of which
  1. still compiles, and the existing test suite still passes unchanged: `cd @ROOT@/@ID@ && cargo test --workspace --no-fail-fast --offline` (55 tests plus one doc test) - verify this yourself for each change;
  2. breaks the stated property, but only in a way that needs something specific to manifest (an unusual input, a boundary value, a particular multi-step sequence, a particular interleaving or crash point, state carried from an earlier call, or two cooperating sites that each look fine alone) - NOT something ordinary use or the existing tests would expose at once; make them look like plausible refactorings/optimisations/bug-fix attempts a developer might really commit;
  3. comes with a demonstration: a small Rust test or program (you may add it as an extra test file/module or an example inside the worktree, or a standalone script) that FAILS with the change applied and PASSES on the unmodified code. Verify both directions yourself.
Ignore any code guarded by `cfg(clockbound_verif)` (verification hooks) - do not modify or rely on it.

Deliverables, written under @ROOT@/@ID@/_out/ :
  - patch1.diff and patch2.diff : each a `git diff` of ONLY the source change (not the demonstration), relative to the worktree's HEAD, applicable with `git apply` from the repository root. Each patch must be independent (applies to the clean HEAD on its own).
  - demo1/ and demo2/ : the demonstration for each (source files plus a README with the exact commands to run it from the repository root with and without the patch, and the expected output in both cases). If the demo is a test file that has to live inside a crate, also store it as a separate diff demo1/demo.diff that adds it.
  - notes.md : for each change: what it breaks, what specific circumstance is needed for the failure to manifest, and why the existing tests do not notice.
When finished, leave the worktree's tracked files restored to HEAD (git checkout -- . ; keep _out/ which is untracked). In your final answer, summarise the two changes in a few lines each.
'''
props = {json.loads(l)["id"]: json.loads(l) for l in open("/verif/properties.jsonl")}
for p in ids:
    subprocess.run(["git", "-C", "/repo", "worktree", "add", "--detach", "%s/%s" % (root, p), "HEAD"], check=True, capture_output=True)
    d = props[p]
    txt = "Property %s: %s\n\n%s\n\nQuantification: %s\n\nAnchors (where the behaviour lives):\n%s\n" % (p, d["title"], d["statement"], d["quantifier"]["text"], json.dumps(d["anchors"], indent=1))
    open("%s/%s.property.txt" % (root, p), "w").write(txt)
    tried = [json.load(open(f))["title"] for f in sorted(glob.glob("/verif/seeded/%s-*/meta.json" % p))]
    t = PROMPT.replace("@ID@", p).replace("@ROOT@", root)
    t += "\n\nChanges of the following kinds have ALREADY been produced for this property by others; produce changes of a DIFFERENT kind (different code site or different mechanism):\n" + "\n".join("  - " + x for x in tried) + "\n"
    open("%s/%s.prompt.txt" % (root, p), "w").write(t)
print("prepared", root, ids)
