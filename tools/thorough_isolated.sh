#!/bin/bash
# tools/thorough_isolated.sh : every claimed check at the thorough tier on the unchanged tree, in an
# isolated copy of /verif and a clone of /repo under /tmp/th (so that /repo stays free for seed runs).
rm -rf /tmp/th; mkdir -p /tmp/th
git clone -q /repo /tmp/th/repo
rsync -a --exclude replays --exclude .git --exclude '.build/scratch' --exclude '.build/target*' /verif/ /tmp/th/verif/
sed -i "s#\"/repo/#\"/tmp/th/repo/#" /tmp/th/verif/harness/Cargo.toml
cd /tmp/th/verif
export VERIF_REPO=/tmp/th/repo
./check --setup > /dev/null 2>&1
for id in C01 C02 C03 C04 C05 C06 C07 C08 C09 C10 C11 C12 C13 C14 C15 C16 C17 C18 C19; do
  /usr/bin/time -f "$id %es" ./check $id --tier thorough 2>&1 | grep -v "^WARNING" | cut -c1-300
done > /verif/.build/thorough_isolated.log 2>&1
cp -r /tmp/th/verif/replays /verif/.build/thorough_replays 2>/dev/null
rm -rf /tmp/th
