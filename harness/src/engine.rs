//! Shared-memory execution engine (C02 C03 C04 C18): the real `ShmWriter::write` and
//! `ShmReader::snapshot` run in their own OS threads against a real mmap'd file; the shim's
//! controller parks the calling thread before every shared access and a coordinator grants one
//! access at a time according to the schedule.  Output = the same observation stream as
//! `Machine.m_run` (ocaml/driver.ml, tag `shm`).
//!
//!   shm <8 ordering codes> <ncells> <retries> <w_order..> <r_order..> <ntok> { W | R j k | C | S | N | J v }*
//!
//! Simulated memory: the coordinator keeps the log of all stores (the same log, with the same
//! indices, as `Machine.w_log`).  `R j k` with k >= 0 makes the load of reader j return the value
//! of event k instead of the current content of the mapping - the values a release/acquire
//! execution may hand to the reader (the schedule generator asks the model which k are legal).
//! k = -1: the load reads the mapping (the latest store).
use crate::util::*;
use clock_bound_shm::verif::{self, atomic::Ordering, Access, Reply};
use clock_bound_shm::{ClockErrorBound, ClockStatus, ShmReader, ShmWrite, ShmWriter};
use std::rc::Rc;
use std::sync::mpsc::{channel, Receiver, Sender};

enum Cmd {
    Write(u64),
    Restart,
    Snapshot,
    Go,
    GoWith(u64),
    Crash,
    Quit,
}

/// a location of the segment: (0 = version, 1 = generation, 2 = record cell, cell index)
type Loc = (u8, usize);

enum Ev {
    At(Loc),
    /// descriptor of the access, and (location, raw value) when it was a store
    Performed(String, Option<(Loc, u64)>),
    Done(String),
    Crashed,
}

fn loc_code(addr: usize) -> Loc {
    match addr & 0xfff {
        OFF_VERSION => (0, 0),
        OFF_GENERATION => (1, 0),
        _ => (9, 0),
    }
}

struct CrashMarker;

fn ord_code(o: Ordering) -> u8 {
    match o {
        Ordering::Relaxed => 0,
        Ordering::Acquire => 1,
        Ordering::Release => 2,
        Ordering::AcqRel => 3,
        _ => 4,
    }
}

fn loc_of(addr: usize) -> &'static str {
    match addr & 0xfff {
        OFF_VERSION => "v",
        OFF_GENERATION => "g",
        _ => "?",
    }
}

/// Which records the writer publishes.  0: cell i of record k = 1000 k + i (as-of instants increase
/// from one publication to the next).  1 (`shmd`): the same, except that the as-of seconds (cell 0) run
/// DOWN, BIG - 1000 k: the protocol must not depend on what the records say.  Every cell value that
/// leaves the engine goes through `cell_val`, which maps cell 0 back to 1000 k, so that the observations
/// are those of family 0 and are compared with the same model run.
pub static FAMILY: std::sync::atomic::AtomicU64 = std::sync::atomic::AtomicU64::new(0);
const BIG: i64 = 1_000_000_000_000;

fn cell_val(idx: usize, bytes: [u8; 8]) -> i64 {
    if idx == 6 {
        u32::from_ne_bytes([bytes[0], bytes[1], bytes[2], bytes[3]]) as i64
    } else {
        let v = i64::from_ne_bytes(bytes);
        if idx == 0 && v != 0 && FAMILY.load(std::sync::atomic::Ordering::SeqCst) == 1 {
            BIG - v
        } else {
            v
        }
    }
}

pub fn record(k: u64) -> ClockErrorBound {
    let b = 1000 * k as i64;
    let fam = FAMILY.load(std::sync::atomic::Ordering::SeqCst);
    if fam == 2 {
        // `shmc`: the same as-of instant and the same bound in every publication (Machine.rec_of_c)
        return ClockErrorBound::new(
            libc::timespec { tv_sec: 7, tv_nsec: 8 },
            libc::timespec { tv_sec: b + 2, tv_nsec: b + 3 },
            9,
            (b + 5) as u32,
            0,
            match k % 3 {
                1 => ClockStatus::Synchronized,
                2 => ClockStatus::FreeRunning,
                _ => ClockStatus::Unknown,
            },
        );
    }
    let sec = if fam == 1 && k != 0 { BIG - b } else { b };
    ClockErrorBound::new(
        libc::timespec { tv_sec: sec, tv_nsec: b + 1 },
        libc::timespec { tv_sec: b + 2, tv_nsec: b + 3 },
        b + 4,
        (b + 5) as u32,
        0,
        match k % 3 {
            1 => ClockStatus::Synchronized,
            2 => ClockStatus::FreeRunning,
            _ => ClockStatus::Unknown,
        },
    )
}

pub fn cells_of(c: &ClockErrorBound) -> Vec<i64> {
    let p = c as *const ClockErrorBound as *const u8;
    (0..7)
        .map(|i| {
            let mut b = [0u8; 8];
            unsafe { std::ptr::copy_nonoverlapping(p.add(i * 8), b.as_mut_ptr(), 8) };
            cell_val(i, b)
        })
        .collect()
}

fn join(v: &[i64]) -> String {
    v.iter().map(|x| x.to_string()).collect::<Vec<_>>().join(",")
}

/// Controller of a worker thread: announce, wait for the grant, perform (or unwind on Crash).
fn controller(who: usize, tx: Sender<Ev>, rx: Rc<Receiver<Cmd>>, count: Rc<std::cell::Cell<u64>>) -> verif::Controller {
    Box::new(move |a: &Access| {
        count.set(count.get() + 1);
        let at = match a {
            Access::Load16 { addr, .. } | Access::Store16 { addr, .. } => loc_code(*addr),
            Access::Fence { .. } => (8, 0),
            Access::CellWrite { idx, .. } | Access::CellRead { idx, .. } => (2, *idx),
        };
        tx.send(Ev::At(at)).expect("coordinator gone");
        let sub: Option<u64> = match rx.recv().expect("coordinator gone") {
            Cmd::Go => None,
            Cmd::GoWith(v) => Some(v),
            Cmd::Crash => std::panic::resume_unwind(Box::new(CrashMarker)),
            _ => panic!("engine protocol error: unexpected command while parked"),
        };
        let mut stored: Option<(Loc, u64)> = None;
        let mut reply = Reply::Pass;
        // granted: nothing else runs until the next announcement, so the value read here is the
        // value the access itself is about to see
        let desc = match a {
            Access::Load16 { addr, ord } => {
                let v = match sub {
                    Some(x) => {
                        reply = Reply::Value(x);
                        x as u16
                    }
                    None => unsafe { (*addr as *const u16).read_volatile() },
                };
                format!("A{}.L.{}.{}.{}", who, loc_of(*addr), ord_code(*ord), v)
            }
            Access::Store16 { addr, ord, val } => {
                stored = Some((loc_code(*addr), *val as u64));
                format!("A{}.S.{}.{}.{}", who, loc_of(*addr), ord_code(*ord), val)
            }
            Access::Fence { ord } => format!("A{}.F.-.{}.0", who, ord_code(*ord)),
            Access::CellWrite { idx, bytes, .. } => {
                stored = Some(((2, *idx), u64::from_ne_bytes(*bytes)));
                format!("A{}.W.c{}.0.{}", who, idx, cell_val(*idx, *bytes))
            }
            Access::CellRead { addr, idx } => {
                let b = match sub {
                    Some(x) => {
                        reply = Reply::Bytes(x.to_ne_bytes());
                        x.to_ne_bytes()
                    }
                    None => {
                        let mut b = [0u8; 8];
                        unsafe { std::ptr::copy_nonoverlapping((*addr as *const u8).add(idx * 8), b.as_mut_ptr(), 8) };
                        b
                    }
                };
                format!("A{}.R.c{}.0.{}", who, idx, cell_val(*idx, b))
            }
        };
        tx.send(Ev::Performed(desc, stored)).expect("coordinator gone");
        reply
    })
}

fn writer_thread(path: std::path::PathBuf, order: Vec<usize>, rx: Receiver<Cmd>, tx: Sender<Ev>) {
    let rx = Rc::new(rx);
    let mut writer: Option<ShmWriter> = Some(ShmWriter::new(&path).expect("ShmWriter::new"));
    tx.send(Ev::Done(String::new())).unwrap();
    let count = Rc::new(std::cell::Cell::new(0u64));
    loop {
        match rx.recv() {
            Ok(Cmd::Write(k)) => {
                let w = writer.as_mut().expect("write on a dead writer");
                verif::set_cell_order(order.clone());
                verif::install(Some(controller(0, tx.clone(), rx.clone(), count.clone())));
                let rec = record(k);
                let r = std::panic::catch_unwind(std::panic::AssertUnwindSafe(|| w.write(&rec)));
                verif::install(None);
                match r {
                    Ok(()) => tx.send(Ev::Done(String::new())).unwrap(),
                    Err(e) => {
                        if e.downcast_ref::<CrashMarker>().is_none() {
                            std::panic::resume_unwind(e);
                        }
                        writer = None; // the process is gone: its mapping disappears, the file stays
                        tx.send(Ev::Crashed).unwrap();
                    }
                }
            }
            Ok(Cmd::Crash) => {
                writer = None;
                tx.send(Ev::Crashed).unwrap();
            }
            Ok(Cmd::Restart) => {
                writer = Some(ShmWriter::new(&path).expect("ShmWriter::new (restart)"));
                tx.send(Ev::Done(String::new())).unwrap();
            }
            Ok(Cmd::Quit) | Err(_) => break,
            Ok(_) => panic!("engine protocol error (writer)"),
        }
    }
    drop(writer);
}

fn reader_thread(j: usize, path: std::path::PathBuf, order: Vec<usize>, rx: Receiver<Cmd>, tx: Sender<Ev>) {
    let rx = Rc::new(rx);
    let cpath = std::ffi::CString::new(path.to_str().unwrap()).unwrap();
    let mut reader = match ShmReader::new(cpath.as_c_str()) {
        Ok(r) => {
            tx.send(Ev::Done("open".into())).unwrap();
            r
        }
        Err(_) => {
            tx.send(Ev::Done("refused".into())).unwrap();
            return;
        }
    };
    let count = Rc::new(std::cell::Cell::new(0u64));
    loop {
        match rx.recv() {
            Ok(Cmd::Snapshot) => {
                verif::set_cell_order(order.clone());
                count.set(0);
                verif::install(Some(controller(j + 1, tx.clone(), rx.clone(), count.clone())));
                let r = std::panic::catch_unwind(std::panic::AssertUnwindSafe(|| reader.snapshot().map(|c| *c)));
                verif::install(None);
                let s = match r {
                    Ok(Ok(c)) => format!("T{}.{}.{}", j, if count.get() <= 2 { "C" } else { "F" }, join(&cells_of(&c))),
                    Ok(Err(_)) => format!("T{}.E", j),
                    Err(e) => {
                        if e.downcast_ref::<CrashMarker>().is_none() {
                            std::panic::resume_unwind(e);
                        }
                        tx.send(Ev::Crashed).unwrap();
                        continue;
                    }
                };
                tx.send(Ev::Done(s)).unwrap();
            }
            Ok(Cmd::Quit) | Err(_) => break,
            Ok(_) => panic!("engine protocol error (reader)"),
        }
    }
}

#[derive(PartialEq)]
enum St {
    Idle,
    Parked,
    Dead,
}

struct Worker {
    tx: Sender<Cmd>,
    rx: Receiver<Ev>,
    st: St,
    at: Loc,
    handle: Option<std::thread::JoinHandle<()>>,
}

impl Worker {
    fn wait(&mut self) -> Option<String> {
        match self.rx.recv_timeout(std::time::Duration::from_secs(6)).expect("worker stuck or died") {
            Ev::At(l) => {
                self.st = St::Parked;
                self.at = l;
                None
            }
            Ev::Performed(..) => panic!("engine protocol error: unexpected Performed"),
            Ev::Done(s) => {
                self.st = St::Idle;
                Some(s)
            }
            Ev::Crashed => {
                self.st = St::Dead;
                None
            }
        }
    }
    /// perform the parked access; returns (descriptor of that access, result if the call ended)
    fn step(&mut self, sub: Option<u64>) -> (String, Option<(Loc, u64)>, Option<String>) {
        assert!(self.st == St::Parked, "step on a worker that is not parked");
        self.tx.send(match sub {
            Some(v) => Cmd::GoWith(v),
            None => Cmd::Go,
        })
        .unwrap();
        let (d, st) = match self.rx.recv_timeout(std::time::Duration::from_secs(6)).expect("worker stuck or died") {
            Ev::Performed(d, st) => (d, st),
            _ => panic!("engine protocol error: Performed expected"),
        };
        let r = self.wait();
        (d, st, r)
    }
    fn quit(mut self) {
        if self.st == St::Parked {
            let _ = self.tx.send(Cmd::Crash);
            let _ = self.rx.recv_timeout(std::time::Duration::from_secs(5));
        }
        let _ = self.tx.send(Cmd::Quit);
        if let Some(h) = self.handle.take() {
            let _ = h.join();
        }
    }
}

static SEQ: std::sync::atomic::AtomicU64 = std::sync::atomic::AtomicU64::new(0);

pub fn run(toks: &[&str]) -> String {
    let ncells: usize = p(toks[8]);
    assert!(ncells == 7, "the real record has 7 cells");
    let w_order: Vec<usize> = toks[10..10 + ncells].iter().map(|s| p::<usize>(s)).collect();
    let r_order: Vec<usize> = toks[10 + ncells..10 + 2 * ncells].iter().map(|s| p::<usize>(s)).collect();
    let mut i = 10 + 2 * ncells + 1;
    let path = scratch_dir().join(format!("engine-{}", SEQ.fetch_add(1, std::sync::atomic::Ordering::SeqCst)));
    let _ = std::fs::remove_file(&path);

    let (ctx, wrx) = channel();
    let (wtx, crx) = channel();
    let (pth, ord) = (path.clone(), w_order.clone());
    let h = std::thread::spawn(move || writer_thread(pth, ord, wrx, wtx));
    let mut writer = Worker { tx: ctx, rx: crx, st: St::Idle, at: (9, 0), handle: Some(h) };
    writer.wait();
    // the log of all stores, as Machine.w_init builds it: the zeroed segment, then version := 1
    let fresh_log = || -> Vec<(Loc, u64)> {
        let mut l: Vec<(Loc, u64)> = vec![((0, 0), 0), ((1, 0), 0)];
        l.extend((0..7).map(|c| ((2u8, c), 0u64)));
        l.push(((0, 0), 1));
        l
    };
    let latest = |log: &Vec<(Loc, u64)>, l: Loc| -> u64 { log.iter().rev().find(|e| e.0 == l).map(|e| e.1).unwrap_or(0) };
    let mut log = fresh_log();
    let mut readers: Vec<Worker> = Vec::new();
    let mut nrec: u64 = 0;
    let mut out: Vec<String> = Vec::new();

    while i < toks.len() {
        match toks[i] {
            "W" => {
                i += 1;
                if writer.st == St::Dead {
                    out.push("K".into());
                    continue;
                }
                if writer.st == St::Idle {
                    nrec += 1;
                    writer.tx.send(Cmd::Write(nrec)).unwrap();
                    writer.wait();
                }
                let (d, st, _) = writer.step(None);
                if let Some(e) = st {
                    log.push(e);
                }
                out.push(d);
            }
            "R" => {
                let j: usize = p(toks[i + 1]);
                let k: i64 = p(toks[i + 2]);
                i += 3;
                if j >= readers.len() {
                    out.push("K".into());
                    continue;
                }
                let r = &mut readers[j];
                if r.st == St::Idle {
                    r.tx.send(Cmd::Snapshot).unwrap();
                    r.wait();
                }
                let sub = if k >= 0 && r.at.0 != 8 {
                    match log.get(k as usize) {
                        Some(e) if e.0 == r.at => Some(e.1),
                        _ => {
                            out.push("X".into()); // no such event on the location about to be loaded
                            continue;
                        }
                    }
                } else {
                    None
                };
                let (d, _, res) = r.step(sub);
                out.push(d);
                if let Some(s) = res {
                    out.push(s);
                }
            }
            "C" => {
                i += 1;
                if writer.st == St::Dead {
                    out.push("K".into());
                    continue;
                }
                writer.tx.send(Cmd::Crash).unwrap();
                writer.wait();
                assert!(writer.st == St::Dead);
            }
            "S" => {
                i += 1;
                if writer.st != St::Dead {
                    out.push("K".into());
                    continue;
                }
                writer.tx.send(Cmd::Restart).unwrap();
                writer.wait();
                // ShmWriter::new over the file: a valid segment is taken over (version := 1), else wiped
                if latest(&log, (0, 0)) != 0 && latest(&log, (1, 0)) != 0 {
                    log.push(((0, 0), 1));
                } else {
                    log = fresh_log();
                }
            }
            "J" => {
                let v: u16 = p(toks[i + 1]);
                i += 2;
                if writer.st == St::Parked {
                    out.push("K".into());
                    continue;
                }
                let map = RawMap::open(&path, 72);
                map.set_u16(OFF_GENERATION, v);
                log.push(((1, 0), v as u64));
            }
            "N" => {
                i += 1;
                let (ctx, rrx) = channel();
                let (rtx, crx) = channel();
                let (pth, ord, j) = (path.clone(), r_order.clone(), readers.len());
                let h = std::thread::spawn(move || reader_thread(j, pth, ord, rrx, rtx));
                let mut w = Worker { tx: ctx, rx: crx, st: St::Idle, at: (9, 0), handle: Some(h) };
                match w.wait().as_deref() {
                    Some("open") => readers.push(w),
                    _ => {
                        out.push("K".into());
                        w.quit();
                    }
                }
            }
            t => panic!("shm: bad token {}", t),
        }
    }
    // what a third party sees in the file's mapping at the end
    let map = RawMap::open(&path, 72);
    let b = map.bytes();
    let mut mem = vec![
        u16::from_ne_bytes([b[OFF_VERSION], b[OFF_VERSION + 1]]) as i64,
        u16::from_ne_bytes([b[OFF_GENERATION], b[OFF_GENERATION + 1]]) as i64,
    ];
    for c in 0..7 {
        let mut x = [0u8; 8];
        x.copy_from_slice(&b[OFF_RECORD + 8 * c..OFF_RECORD + 8 * c + 8]);
        mem.push(cell_val(c, x));
    }
    out.push(format!("M.{}", join(&mem)));
    drop(map);
    writer.quit();
    for r in readers {
        r.quit();
    }
    let _ = std::fs::remove_file(&path);
    out.join(" ")
}

/// C18: one snapshot() against a writer that stalled (mode 1: generation left odd right after the
/// reader's first generation load; mode 2: a complete update lands before every re-load).
///   stall <mode>  ->  <accesses> <result C|F|E> <first 24 access kinds> <ms>
/// mode 4: the generation reads 0 from the first cell load of the call on (a restarted daemon that never publishes).
/// mode 3: the client holds publication 1; publication 2 completes; the daemon dies in update 3 after
/// the odd generation store and four cells, right after the client's first generation load.  The
/// call exhausts its budget (E); the NEXT call (generation still odd) must answer with what the
/// client held before.   ->  <accesses> <result> <kinds> <ms> <record returned by the next call>
pub fn run_stall(toks: &[&str]) -> String {
    let mode: u32 = p(toks[0]);
    // mode 5 <k>: k complete updates race with the first k passes of the call (one during each copy),
    // then the daemon starts the next update and dies
    let raced: u64 = if mode == 5 { p(toks[1]) } else { 0 };
    let pass = Rc::new(std::cell::Cell::new(0u64));
    let first_read = Rc::new(std::cell::Cell::new(true));
    let path = scratch_dir().join(format!("stall-{}", SEQ.fetch_add(1, std::sync::atomic::Ordering::SeqCst)));
    let _ = std::fs::remove_file(&path);
    let mut w = ShmWriter::new(&path).expect("ShmWriter::new");
    w.write(&record(1));
    let map = RawMap::open(&path, 72);
    let cpath = std::ffi::CString::new(path.to_str().unwrap()).unwrap();
    let mut reader = ShmReader::new(cpath.as_c_str()).expect("reader");
    let base = map.base as usize;
    if mode == 3 {
        let _ = reader.snapshot().map(|c| *c); // the client holds publication 1
        w.write(&record(2));
    }
    let rec3 = record(3);
    let count = Rc::new(std::cell::Cell::new(0u64));
    let kinds = Rc::new(std::cell::RefCell::new(String::new()));
    let (c2, k2) = (count.clone(), kinds.clone());
    verif::install(Some(Box::new(move |a: &Access| {
        let n = c2.get() + 1;
        c2.set(n);
        let ch = match a {
            Access::Load16 { addr, .. } => {
                if addr & 0xfff == OFF_GENERATION && n > 2 && mode == 2 {
                    // a whole update completed since the last look
                    let g = unsafe { ((base + OFF_GENERATION) as *const u16).read_volatile() };
                    let g2 = if g >= 65534 { 2 } else { g + 2 };
                    unsafe { ((base + OFF_GENERATION) as *mut u16).write_volatile(g2) };
                }
                'L'
            }
            Access::Store16 { .. } => 'S',
            Access::Fence { .. } => {
                pass.set(pass.get() + 1);
                first_read.set(true);
                'F'
            }
            Access::CellWrite { .. } => 'W',
            Access::CellRead { .. } => {
                if mode == 5 && first_read.get() {
                    first_read.set(false);
                    let g = unsafe { ((base + OFF_GENERATION) as *const u16).read_volatile() };
                    if pass.get() < raced {
                        let g2 = if g >= 65534 { 2 } else { g + 2 };
                        unsafe { ((base + OFF_GENERATION) as *mut u16).write_volatile(g2) };
                    } else if pass.get() == raced {
                        unsafe { ((base + OFF_GENERATION) as *mut u16).write_volatile(g + 1) };
                    }
                }
                if n == 3 && (mode == 1 || mode == 6) {
                    // the daemon starts an update right after the reader's first generation load, then stalls
                    unsafe { ((base + OFF_GENERATION) as *mut u16).write_volatile(3) };
                }
                if n == 3 && mode == 4 {
                    // the segment starts reading "being re-initialised" (generation 0) while the call is copying, and stays so
                    unsafe { ((base + OFF_GENERATION) as *mut u16).write_volatile(0) };
                }
                if n == 3 && mode == 3 {
                    // the daemon starts update 3, stores four cells of it, and dies
                    unsafe {
                        ((base + OFF_GENERATION) as *mut u16).write_volatile(5);
                        std::ptr::copy_nonoverlapping(&rec3 as *const ClockErrorBound as *const u8, (base + OFF_RECORD) as *mut u8, 32);
                    }
                }
                'R'
            }
        };
        if n <= 24 {
            k2.borrow_mut().push(ch);
        }
        Reply::Pass
    })));
    if mode == 6 {
        // as mode 1, under a clock that stands two hundred microseconds before a full second when the call
        // begins and moves on by a microsecond at every reading: a call that looks at the clock sees the
        // seconds field change under it (a call that does not is unaffected)
        crate::vclock::set_mono(100, 999_800_000);
        crate::vclock::set_real(1_700_000_000, 999_800_000);
        crate::vclock::set_hook(Some(Box::new(|_clk| crate::vclock::advance(1000))));
        crate::vclock::enable(true);
    }
    let t0 = std::time::Instant::now();
    let r = reader.snapshot().map(|c| *c);
    let dt = t0.elapsed();
    if mode == 6 {
        crate::vclock::enable(false);
        crate::vclock::set_hook(None);
    }
    verif::install(None);
    let res = match r {
        Ok(_) => {
            if count.get() <= 2 {
                "C"
            } else {
                "F"
            }
        }
        Err(_) => "E",
    };
    let mut s = format!("{} {} {} {}", count.get(), res, kinds.borrow(), dt.as_millis());
    if mode == 3 {
        s.push_str(&match reader.snapshot().map(|c| *c) {
            Ok(c) => format!(" {}", join(&cells_of(&c))),
            Err(_) => " E".to_string(),
        });
    }
    drop(reader);
    drop(w);
    drop(map);
    let _ = std::fs::remove_file(&path);
    s
}
