//! C11: the real `ShmWriter::write` started from every generation value.
//!   gen <g> [<variant>]   variant 0 (default): a record that differs from the published one in
//!   every field; 1: the published record with only the status changed; 2: the published record
//!   again; 3: the daemon is restarted first (ShmWriter::new over the file with generation g), then
//!   publishes.  The generation protocol must not depend on any of this.
//! -> <g> <generation during the copy | -1> <generation after>
use crate::util::*;
use crate::Ctx;
use clock_bound_shm::verif::{self, Access, Reply};
use clock_bound_shm::{ClockErrorBound, ClockStatus, ShmWrite, ShmWriter};
use std::cell::Cell;
use std::rc::Rc;

pub struct GenCtx {
    writer: ShmWriter,
    map: RawMap,
    path: std::path::PathBuf,
    last: (i64, u8),
}

fn ceb_with(n: i64, st: u8) -> ClockErrorBound {
    ClockErrorBound::new(
        libc::timespec { tv_sec: n, tv_nsec: 1 },
        libc::timespec { tv_sec: n + 1000, tv_nsec: 0 },
        n,
        1,
        0,
        match st % 3 {
            0 => ClockStatus::Synchronized,
            1 => ClockStatus::FreeRunning,
            _ => ClockStatus::Unknown,
        },
    )
}

pub fn run(ctx: &mut Ctx, toks: &[&str]) -> String {
    let g: u16 = p(toks[0]);
    let variant: u32 = if toks.len() > 1 { p(toks[1]) } else { 0 };
    if ctx.gen.is_none() {
        let path = scratch_dir().join("gen-segment");
        let _ = std::fs::remove_file(&path);
        let writer = ShmWriter::new(&path).expect("ShmWriter::new");
        let map = RawMap::open(&path, 72);
        ctx.gen = Some(GenCtx { writer, map, path, last: (-1, 0) });
    }
    let c = ctx.gen.as_mut().unwrap();
    c.map.set_u16(OFF_GENERATION, g);
    let mut after_restart: Option<u16> = None;
    if variant == 3 {
        // the previous daemon is gone (its mapping with it); a new one starts over the file as it is
        let path = c.path.clone();
        let writer = ShmWriter::new(&path).expect("ShmWriter::new (restart)");
        let old = std::mem::replace(&mut c.writer, writer);
        drop(old);
        c.map = RawMap::open(&path, 72);
        after_restart = Some(c.map.u16_at(OFF_GENERATION));
    }
    let rec = match variant {
        1 if c.last.0 >= 0 => (c.last.0, (c.last.1 + 1) % 3),
        2 if c.last.0 >= 0 => c.last,
        _ => (g as i64 + if c.last.0 == g as i64 { 100000 } else { 0 }, 0),
    };
    // Observe the generation at every cell store of the copy: it must be one constant value.
    let base = c.map.base as usize;
    let seen: Rc<Cell<(i64, i64, u32)>> = Rc::new(Cell::new((-1, -1, 0)));
    let seen2 = seen.clone();
    verif::install(Some(Box::new(move |a: &Access| {
        if let Access::CellWrite { .. } = a {
            let v = unsafe { (base as *const u8).add(OFF_GENERATION).cast::<u16>().read_volatile() } as i64;
            let (lo, hi, n) = seen2.get();
            let lo = if n == 0 { v } else { lo.min(v) };
            let hi = if n == 0 { v } else { hi.max(v) };
            seen2.set((lo, hi, n + 1));
        }
        Reply::Pass
    })));
    c.writer.write(&ceb_with(rec.0, rec.1));
    c.last = rec;
    verif::install(None);
    let (lo, hi, n) = seen.get();
    let post = c.map.u16_at(OFF_GENERATION);
    // mid = the constant value seen during the copy, or -1 if it was not constant / not seen
    let mid = if n == 7 && lo == hi { lo } else { -1 };
    match after_restart {
        Some(r) => format!("{} {} {} {}", g, mid, post, r),
        None => format!("{} {} {}", g, mid, post),
    }
}
