//! Virtual clock: this binary defines `clock_gettime`, which takes precedence over libc's for
//! every caller linked into it (clock_gettime_safe, Instant::now, SystemTime::now). While the
//! virtual clock is off the call is forwarded to the kernel.
use std::sync::atomic::{AtomicBool, AtomicI64, AtomicU64, Ordering::SeqCst};
use std::sync::Mutex;

static ON: AtomicBool = AtomicBool::new(false);
static REAL_S: AtomicI64 = AtomicI64::new(0);
static REAL_N: AtomicI64 = AtomicI64::new(0);
static MONO_S: AtomicI64 = AtomicI64::new(0);
static MONO_N: AtomicI64 = AtomicI64::new(0);
static READS: AtomicU64 = AtomicU64::new(0);
/// When non-zero only this thread (gettid) sees the virtual clock; every other thread gets real time.
static ONLY_TID: AtomicI64 = AtomicI64::new(0);

/// While set (and the virtual clock is on), a sleep of a thread that sees the virtual clock does not wait:
/// it moves both virtual clocks on by the time asked for - time passes while a caller sleeps.
static SLEEP_ADVANCES: AtomicBool = AtomicBool::new(false);
pub fn sleep_advances(on: bool) {
    SLEEP_ADVANCES.store(on, SeqCst);
}
fn virtual_here() -> bool {
    if !ON.load(SeqCst) || !SLEEP_ADVANCES.load(SeqCst) {
        return false;
    }
    let only = ONLY_TID.load(SeqCst);
    only == 0 || only == gettid()
}

/// `nanosleep` / `clock_nanosleep` as std::thread::sleep (and anything else linked into this binary) calls them
#[no_mangle]
pub unsafe extern "C" fn nanosleep(req: *const libc::timespec, rem: *mut libc::timespec) -> libc::c_int {
    if !virtual_here() {
        return libc::syscall(libc::SYS_nanosleep, req, rem) as libc::c_int;
    }
    advance(((*req).tv_sec as i64).saturating_mul(1_000_000_000).saturating_add((*req).tv_nsec as i64).max(0));
    0
}
#[no_mangle]
pub unsafe extern "C" fn clock_nanosleep(clk: libc::clockid_t, flags: libc::c_int, req: *const libc::timespec, rem: *mut libc::timespec) -> libc::c_int {
    if !virtual_here() {
        let r = libc::syscall(libc::SYS_clock_nanosleep, clk as libc::c_long, flags as libc::c_long, req, rem);
        return if r == 0 { 0 } else { *libc::__errno_location() };
    }
    let want = ((*req).tv_sec as i64).saturating_mul(1_000_000_000).saturating_add((*req).tv_nsec as i64);
    let ns = if flags & libc::TIMER_ABSTIME != 0 {
        let (s, n) = if is_mono(clk) { get_mono() } else { get_real() };
        want.saturating_sub(s.saturating_mul(1_000_000_000).saturating_add(n))
    } else {
        want
    };
    advance(ns.max(0));
    0
}

pub fn gettid() -> i64 {
    unsafe { libc::syscall(libc::SYS_gettid) as i64 }
}
pub fn only_thread(tid: i64) {
    ONLY_TID.store(tid, SeqCst);
}

/// Optional callback run on every virtual read *before* the value is returned
/// (argument: clock id). Lets a script advance time or park the reading thread.
pub type Hook = Box<dyn FnMut(libc::clockid_t) + Send>;
static HOOK: Mutex<Option<Hook>> = Mutex::new(None);
static LOG: Mutex<Vec<(libc::clockid_t, i64, i64)>> = Mutex::new(Vec::new());
thread_local! {
    static IN_HOOK: std::cell::Cell<bool> = std::cell::Cell::new(false);
}

pub fn enable(on: bool) {
    ON.store(on, SeqCst);
}
pub fn set_real(s: i64, n: i64) {
    REAL_S.store(s, SeqCst);
    REAL_N.store(n, SeqCst);
}
pub fn set_mono(s: i64, n: i64) {
    MONO_S.store(s, SeqCst);
    MONO_N.store(n, SeqCst);
}
pub fn get_mono() -> (i64, i64) {
    (MONO_S.load(SeqCst), MONO_N.load(SeqCst))
}
pub fn get_real() -> (i64, i64) {
    (REAL_S.load(SeqCst), REAL_N.load(SeqCst))
}
/// Advance both clocks by `ns` nanoseconds.
pub fn advance(ns: i64) {
    let add = |s: &AtomicI64, n: &AtomicI64| {
        let t = s.load(SeqCst) as i128 * 1_000_000_000 + n.load(SeqCst) as i128 + ns as i128;
        s.store(t.div_euclid(1_000_000_000) as i64, SeqCst);
        n.store(t.rem_euclid(1_000_000_000) as i64, SeqCst);
    };
    add(&REAL_S, &REAL_N);
    add(&MONO_S, &MONO_N);
}
pub fn set_hook(h: Option<Hook>) {
    *HOOK.lock().unwrap_or_else(|e| e.into_inner()) = h;
}
pub fn reads() -> u64 {
    READS.load(SeqCst)
}
pub fn take_log() -> Vec<(libc::clockid_t, i64, i64)> {
    std::mem::take(&mut *LOG.lock().unwrap_or_else(|e| e.into_inner()))
}
pub fn clear_log() {
    LOG.lock().unwrap_or_else(|e| e.into_inner()).clear();
}

fn is_mono(clk: libc::clockid_t) -> bool {
    clk == libc::CLOCK_MONOTONIC
        || clk == libc::CLOCK_MONOTONIC_COARSE
        || clk == libc::CLOCK_MONOTONIC_RAW
        || clk == libc::CLOCK_BOOTTIME
}

#[no_mangle]
pub unsafe extern "C" fn clock_gettime(clk: libc::clockid_t, ts: *mut libc::timespec) -> libc::c_int {
    if !ON.load(SeqCst) {
        return libc::syscall(libc::SYS_clock_gettime, clk as libc::c_long, ts) as libc::c_int;
    }
    let only = ONLY_TID.load(SeqCst);
    if only != 0 && only != gettid() {
        return libc::syscall(libc::SYS_clock_gettime, clk as libc::c_long, ts) as libc::c_int;
    }
    READS.fetch_add(1, SeqCst);
    // The hook runs under its lock: every read of every thread goes through it, one at a time (taking
    // it out while it runs would let a read of another thread slip past it).  A read made by the hook
    // itself, on the same thread, is not hooked.
    let inside = IN_HOOK.try_with(|f| f.get()).unwrap_or(true);
    if !inside {
        let mut slot = HOOK.lock().unwrap_or_else(|e| e.into_inner());
        if let Some(h) = slot.as_mut() {
            struct Reset;
            impl Drop for Reset {
                fn drop(&mut self) {
                    let _ = IN_HOOK.try_with(|f| f.set(false));
                }
            }
            let _ = IN_HOOK.try_with(|f| f.set(true));
            let _reset = Reset;
            h(clk);
        }
    }
    let (s, n) = if is_mono(clk) { get_mono() } else { get_real() };
    {
        // bounded: a call that spins on the clock must not exhaust memory before the watchdog ends it
        let mut log = LOG.lock().unwrap_or_else(|e| e.into_inner());
        if log.len() < 100_000 {
            log.push((clk, s, n));
        }
    }
    (*ts).tv_sec = s;
    (*ts).tv_nsec = n;
    0
}
