//! C15: the real `thread_manager::run` with a fault injected into one worker (cfg-gated fault
//! points) or a real cause of death; how long until run() returns.  One scenario per process,
//! inside a private mount namespace (the daemon uses /var/run/clockbound/shm and chronyd's socket).
//!   thr <point|unwritable-segment> <nth> <0 = panic | 1 = return> [<chronyd: 0 = absent | 1 = hung | 2 = answers once | 3 = answers after 150 ms | 4 = absent, and the segment file locked by another process
//!                                                 | 5 = answers at once, never with tracking data | 6 = answers with a datagram that is no reply
//!                                                 | 7 = absent, and the segment file left with an odd generation by a daemon killed mid-update>
//!       [<delay point> <nth> <ms>]]
//! chronyd answers once: the first request gets tracking data, every later one a well-formed reply
//! without tracking data (so the poller reports "not responding, within the grace period").
//! delay: the thread reaching <delay point> for the <nth> time sleeps <ms> (a slow thread: messages queue up behind it).
//! chronyd absent: the poller's request fails at once.  chronyd hung: its socket exists and queues
//! requests nobody answers, so the poller sits in each request for the client's time-out (3 x 1 s)
//! and is not at its mailbox when another thread dies.
//! -> fired=<0|1> returned=<0|1> ms_after_death=<n> total_ms=<n> died_before_the_fault=<0|1> segment_generation=<n>  (fired: a worker died, by the
//!    armed fault or - seen as a drop in the number of threads - for a reason of its own)
use crate::util::p;
use clock_bound_d::verif_fault::{self, Fault};
use std::time::{Duration, Instant};

const DEADLINE: Duration = Duration::from_secs(20);

pub fn run(toks: &[&str]) -> String {
    let point = toks[0];
    let nth: u64 = p(toks[1]);
    let fault = if p::<i64>(toks[2]) == 0 { Fault::Panic } else { Fault::Return };
    let hung_chronyd = toks.len() > 3 && p::<i64>(toks[3]) == 1;
    let _hung_socket = if hung_chronyd {
        let _ = std::fs::create_dir_all("/var/run/chrony");
        let _ = std::fs::remove_file("/var/run/chrony/chronyd.sock");
        Some(std::os::unix::net::UnixDatagram::bind("/var/run/chrony/chronyd.sock").expect("bind the hung chronyd's socket (run inside the namespace)"))
    } else {
        None
    };
    // 2: answers once, then refuses; 3: answers every request, each time after 150 ms (a loaded host)
    let slow = toks.len() > 3 && p::<i64>(toks[3]) == 3;
    // 5: answers every request at once with a well-formed reply that carries no tracking data; 6: with a datagram that is no reply at all
    let never = toks.len() > 3 && p::<i64>(toks[3]) == 5;
    let garbage = toks.len() > 3 && p::<i64>(toks[3]) == 6;
    let answering = toks.len() > 3 && (p::<i64>(toks[3]) == 2 || slow || never || garbage);
    if answering {
        let _ = std::fs::create_dir_all("/var/run/chrony");
        let _ = std::fs::remove_file("/var/run/chrony/chronyd.sock");
        let srv = std::os::unix::net::UnixDatagram::bind("/var/run/chrony/chronyd.sock").expect("bind the fake chronyd's socket (run inside the namespace)");
        std::thread::spawn(move || {
            use bytes::BytesMut;
            use chrony_candm::reply::{Reply, ReplyBody, Status};
            use chrony_candm::request::Request;
            let mut buf = [0u8; 1500];
            let mut n = 0u32;
            loop {
                let (len, from) = match srv.recv_from(&mut buf) {
                    Ok(x) => x,
                    Err(_) => continue,
                };
                let mut b = &buf[..len];
                let req = match Request::deserialize(&mut b) {
                    Ok(r) => r,
                    Err(_) => continue,
                };
                let path = match from.as_pathname() {
                    Some(p) => p.to_owned(),
                    None => continue,
                };
                if slow {
                    std::thread::sleep(Duration::from_millis(150));
                }
                if garbage {
                    let _ = srv.send_to(&[0x06, 0x02, 0x00, 0x21, 0xde, 0xad, 0xbe, 0xef, 0x00, 0x01], &path);
                    continue;
                }
                let reply = if (n == 0 && !never) || slow {
                    let now = std::time::SystemTime::now().duration_since(std::time::UNIX_EPOCH).unwrap();
                    let t = crate::bound::mk_tracking(7, 0, now.as_secs() as i64, now.subsec_nanos(), 0, 0, 0, 4 << 25 | 1 << 23);
                    Reply { status: Status::Success, cmd: 33, sequence: req.sequence, body: ReplyBody::Tracking(t) }
                } else {
                    Reply { status: Status::Unauth, cmd: 33, sequence: req.sequence, body: ReplyBody::Null }
                };
                n += 1;
                let mut out = BytesMut::with_capacity(reply.length());
                reply.serialize(&mut out);
                let _ = srv.send_to(&out, &path);
            }
        });
    }
    // 4: chronyd absent, and another process holds an exclusive flock and an exclusive record lock on the segment file
    let locked = toks.len() > 3 && p::<i64>(toks[3]) == 4;
    let mut lock_holder: Option<std::process::Child> = None;
    if locked {
        let _ = std::fs::remove_file("/var/run/clockbound");
        let _ = std::fs::create_dir_all("/var/run/clockbound");
        let _ = std::fs::OpenOptions::new().create(true).write(true).open("/var/run/clockbound/shm");
        let mut ch = std::process::Command::new("python3")
            .args(["-c", "import fcntl,sys,time\nf=open('/var/run/clockbound/shm','r+b')\nfcntl.flock(f,fcntl.LOCK_EX)\nfcntl.lockf(f,fcntl.LOCK_EX)\nprint('locked',flush=True)\ntime.sleep(120)"])
            .stdout(std::process::Stdio::piped())
            .spawn()
            .expect("lock holder");
        let mut line = String::new();
        use std::io::BufRead;
        let _ = std::io::BufReader::new(ch.stdout.take().unwrap()).read_line(&mut line);
        assert!(line.starts_with("locked"), "the lock holder could not lock the segment file");
        lock_holder = Some(ch);
    }
    // 7: chronyd absent, and the segment file as a daemon killed in the middle of an update left it: a valid header,
    // the generation odd
    if toks.len() > 3 && p::<i64>(toks[3]) == 7 {
        let _ = std::fs::remove_file("/var/run/clockbound");
        let _ = std::fs::create_dir_all("/var/run/clockbound");
        let mut b = Vec::with_capacity(72);
        b.extend_from_slice(&0x414D5A4Eu32.to_ne_bytes());
        b.extend_from_slice(&0x43420200u32.to_ne_bytes());
        b.extend_from_slice(&72u32.to_ne_bytes());
        b.extend_from_slice(&1u16.to_ne_bytes());
        b.extend_from_slice(&7u16.to_ne_bytes());
        b.extend_from_slice(&[0u8; 56]);
        std::fs::write("/var/run/clockbound/shm", &b).expect("segment left by a dead daemon (run inside the namespace)");
    }
    let real_cause = point == "unwritable-segment";
    if real_cause {
        // the segment's directory cannot be created: ShmWriter::new fails, the writer thread panics
        let _ = std::fs::remove_dir_all("/var/run/clockbound");
        std::fs::write("/var/run/clockbound", b"not a directory").expect("scratch /var/run (run inside the namespace)");
        verif_fault::arm(None);
    } else {
        if !locked && !(toks.len() > 3 && p::<i64>(toks[3]) == 7) {
            let _ = std::fs::remove_file("/var/run/clockbound");
        }
        verif_fault::arm(Some((point, nth, fault)));
    }
    if toks.len() > 6 {
        verif_fault::arm_delay(toks[4], p(toks[5]), p(toks[6]));
    }
    let tasks_before = ntasks();
    let t0 = Instant::now();
    let (tx, rx) = std::sync::mpsc::channel();
    std::thread::spawn(move || {
        clock_bound_d::thread_manager::run(1000, None);
        let _ = tx.send(());
    });
    let mut fired_at: Option<Instant> = if real_cause { Some(t0) } else { None };
    let mut returned_at: Option<Instant> = None;
    // a worker may also die for a reason of its own, before the armed fault is reached: the number of
    // threads of this process (runner + two workers on top of what was there before) drops
    let mut max_tasks = 0usize;
    let mut died_otherwise = false;
    while t0.elapsed() < DEADLINE + Duration::from_secs(nth + 2) {
        if fired_at.is_none() && verif_fault::report().0 {
            fired_at = Some(Instant::now());
        }
        let n = ntasks();
        max_tasks = max_tasks.max(n);
        if fired_at.is_none() && max_tasks >= tasks_before + 3 && n < max_tasks {
            fired_at = Some(Instant::now());
            died_otherwise = true;
        }
        if rx.recv_timeout(Duration::from_millis(2)).is_ok() {
            returned_at = Some(Instant::now());
            break;
        }
        if let Some(f) = fired_at {
            if f.elapsed() > DEADLINE {
                break;
            }
        }
    }
    if let Some(mut ch) = lock_holder {
        let _ = ch.kill();
        let _ = ch.wait();
    }
    let fired = fired_at.is_some() || verif_fault::report().0;   // the armed fault, or a death of the worker's own
    let ms = match (fired_at, returned_at) {
        (Some(f), Some(r)) => r.saturating_duration_since(f).as_millis() as i64,
        (None, Some(_)) if fired => 0, // death and return inside one polling tick
        _ => -1,
    };
    // what the daemon left in the segment file: the generation (-1: no such file, or shorter than its header)
    let gen = match std::fs::read("/var/run/clockbound/shm") {
        Ok(b) if b.len() >= 16 => u16::from_ne_bytes([b[14], b[15]]) as i64,
        _ => -1,
    };
    format!("fired={} returned={} ms_after_death={} total_ms={} died_before_the_fault={} segment_generation={}", fired as u8, returned_at.is_some() as u8, ms, t0.elapsed().as_millis(), died_otherwise as u8, gen)
}

fn ntasks() -> usize {
    std::fs::read_dir("/proc/self/task").map(|d| d.count()).unwrap_or(0)
}
