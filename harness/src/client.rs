//! C05 / C06 / C14: the public `now()` of clock-bound-shm and of the Rust client under the
//! virtual clock. One line per case:
//!   cba as_s as_n va_s va_n bound drift status real_s real_n mono_s mono_n
//! -> ok e_s e_n l_s l_n status | err malformed | err causality | err <other> | panic
use crate::util::*;
use crate::vclock;
use crate::Ctx;
use clock_bound_client::{ClockBoundClient, ClockBoundErrorKind};
use clock_bound_shm::{ClockErrorBound, ClockStatus, ShmError, ShmWrite, ShmWriter};

pub struct ClientCtx {
    _writer: ShmWriter,
    map: RawMap,
    client: ClockBoundClient,
    gen: u16,
}

fn status_of(code: i64) -> ClockStatus {
    match code {
        1 => ClockStatus::Synchronized,
        2 => ClockStatus::FreeRunning,
        _ => ClockStatus::Unknown,
    }
}
fn code_of(s: ClockStatus) -> i64 {
    match s {
        ClockStatus::Unknown => 0,
        ClockStatus::Synchronized => 1,
        ClockStatus::FreeRunning => 2,
    }
}

pub fn mk_ceb(t: &[i64]) -> ClockErrorBound {
    ClockErrorBound::new(
        libc::timespec { tv_sec: t[0], tv_nsec: t[1] },
        libc::timespec { tv_sec: t[2], tv_nsec: t[3] },
        t[4],
        t[5] as u32,
        0,
        status_of(t[6]),
    )
}

fn fmt_shm(r: Result<(libc::timespec, libc::timespec, ClockStatus), ShmError>) -> String {
    match r {
        Ok((e, l, s)) => format!("ok {} {} {} {} {}", e.tv_sec, e.tv_nsec, l.tv_sec, l.tv_nsec, code_of(s)),
        Err(ShmError::SegmentMalformed) => "err malformed".into(),
        Err(ShmError::CausalityBreach) => "err causality".into(),
        Err(ShmError::SegmentNotInitialized) => "err notinit".into(),
        Err(ShmError::SyscallError(e, o)) => format!("err syscall {} {:?}", e.0, o),
    }
}

/// The next generation a case publishes under: even, non-zero, different from the current one, and NOT
/// growing steadily - a client must re-read whenever the generation differs from the one it cached,
/// whether it is larger or smaller (after a wrap, or after a daemon restarted over a wiped segment)
fn next_gen(g: u16) -> u16 {
    let k = (g / 2) as u32;
    let g2 = (((k * 7919 + 13) % 32767 + 1) * 2) as u16;
    if g2 != g {
        g2
    } else if g2 >= 65534 {
        2
    } else {
        g2 + 2
    }
}

fn ensure_client(ctx: &mut Ctx, ceb: &ClockErrorBound) {
    if ctx.client.is_none() {
        let path = scratch_dir().join("client-segment");
        let _ = std::fs::remove_file(&path);
        let mut writer = ShmWriter::new(&path).expect("ShmWriter::new");
        writer.write(&ceb);
        let map = RawMap::open(&path, 72);
        let client = ClockBoundClient::new_with_path(path.to_str().unwrap()).expect("client");
        ctx.client = Some(ClientCtx { _writer: writer, map, client, gen: 2 });
    }
}

fn fmt_client(r2: std::thread::Result<Result<clock_bound_client::ClockBoundNowResult, clock_bound_client::ClockBoundError>>) -> String {
    match r2 {
        Ok(Ok(n)) => {
            let e: libc::timespec = *n.earliest.as_ref();
            let l: libc::timespec = *n.latest.as_ref();
            format!("ok {} {} {} {} {}", e.tv_sec, e.tv_nsec, l.tv_sec, l.tv_nsec, code_of(n.clock_status))
        }
        Ok(Err(e)) => match e.kind {
            ClockBoundErrorKind::SegmentMalformed => "err malformed".into(),
            ClockBoundErrorKind::CausalityBreach => "err causality".into(),
            ClockBoundErrorKind::SegmentNotInitialized => "err notinit".into(),
            ClockBoundErrorKind::Syscall => format!("err syscall {} {:?}", e.errno.0, e.detail),
        },
        Err(_) => "panic".to_string(),
    }
}

/// cbp <old record 7> <new record 7> real_s real_n mono_s mono_n : the segment holds the old record; while
/// the call reads its first clock the daemon publishes the new one. The call took its snapshot before it
/// read the clocks, so it answers from the old record. -> result as for cba
pub fn run_cbp(ctx: &mut Ctx, toks: &[&str]) -> String {
    let t: Vec<i64> = toks.iter().map(|s| p::<i64>(s)).collect();
    let (old, new) = (mk_ceb(&t[0..7]), mk_ceb(&t[7..14]));
    vclock::set_real(t[14], t[15]);
    vclock::set_mono(t[16], t[17]);
    ensure_client(ctx, &old);
    let c = ctx.client.as_mut().unwrap();
    unsafe { (c.map.base.add(OFF_RECORD) as *mut ClockErrorBound).write_volatile(old) };
    c.gen = next_gen(c.gen);
    c.map.set_u16(OFF_GENERATION, c.gen);
    let g_new = next_gen(c.gen);
    c.gen = g_new;
    let base = c.map.base as usize;
    let done = std::sync::Arc::new(std::sync::atomic::AtomicBool::new(false));
    let d2 = done.clone();
    vclock::set_hook(Some(Box::new(move |_clk| {
        if !d2.swap(true, std::sync::atomic::Ordering::SeqCst) {
            unsafe {
                ((base + OFF_GENERATION) as *mut u16).write_volatile(g_new.wrapping_sub(1));
                ((base + OFF_RECORD) as *mut ClockErrorBound).write_volatile(new);
                ((base + OFF_GENERATION) as *mut u16).write_volatile(g_new);
            }
        }
    })));
    vclock::sleep_advances(true);
    vclock::enable(true);
    let client = &mut c.client;
    let r = std::panic::catch_unwind(std::panic::AssertUnwindSafe(|| client.now()));
    vclock::enable(false);
    vclock::sleep_advances(false);
    vclock::set_hook(None);
    fmt_client(r)
}

pub fn run(ctx: &mut Ctx, toks: &[&str]) -> String {
    let t: Vec<i64> = toks.iter().map(|s| p::<i64>(s)).collect();
    let ceb = mk_ceb(&t[0..7]);
    vclock::set_real(t[7], t[8]);
    vclock::set_mono(t[9], t[10]);

    // 1. the shm crate's public now() on the record
    vclock::sleep_advances(true);
    vclock::enable(true);
    let r1 = std::panic::catch_unwind(|| ceb.now());
    vclock::enable(false);
    vclock::sleep_advances(false);
    vclock::set_real(t[7], t[8]);
    vclock::set_mono(t[9], t[10]);
    let s1 = match r1 {
        Ok(r) => fmt_shm(r),
        Err(_) => "panic".to_string(),
    };

    // 2. the Rust client library on a real segment holding the same record
    ensure_client(ctx, &ceb);
    let c = ctx.client.as_mut().unwrap();
    // store the record and move the generation to a fresh even value so the reader re-reads
    unsafe { (c.map.base.add(OFF_RECORD) as *mut ClockErrorBound).write_volatile(ceb) };
    c.gen = next_gen(c.gen);
    c.map.set_u16(OFF_GENERATION, c.gen);
    // a client that sleeps inside the call sees time pass: the virtual clocks move on by what it sleeps
    vclock::sleep_advances(true);
    vclock::enable(true);
    let client = &mut c.client;
    let r2 = std::panic::catch_unwind(std::panic::AssertUnwindSafe(|| client.now()));
    // the same call again: same segment content (same generation), same clock readings
    vclock::set_real(t[7], t[8]);
    vclock::set_mono(t[9], t[10]);
    let r2b = std::panic::catch_unwind(std::panic::AssertUnwindSafe(|| client.now()));
    vclock::enable(false);
    vclock::sleep_advances(false);
    let fmt = |r2: std::thread::Result<Result<clock_bound_client::ClockBoundNowResult, clock_bound_client::ClockBoundError>>| match r2 {
        Ok(Ok(n)) => {
            let e: libc::timespec = *n.earliest.as_ref();
            let l: libc::timespec = *n.latest.as_ref();
            format!("ok {} {} {} {} {}", e.tv_sec, e.tv_nsec, l.tv_sec, l.tv_nsec, code_of(n.clock_status))
        }
        Ok(Err(e)) => match e.kind {
            ClockBoundErrorKind::SegmentMalformed => "err malformed".into(),
            ClockBoundErrorKind::CausalityBreach => "err causality".into(),
            ClockBoundErrorKind::SegmentNotInitialized => "err notinit".into(),
            ClockBoundErrorKind::Syscall => format!("err syscall {} {:?}", e.errno.0, e.detail),
        },
        Err(_) => "panic".to_string(),
    };
    let (s2, s2b) = (fmt(r2), fmt(r2b));
    if s2 != s2b {
        format!("MISMATCH client=[{}] same-call-repeated=[{}]", s2, s2b)
    } else if s1 == s2 {
        s1
    } else {
        format!("MISMATCH shm=[{}] client=[{}]", s1, s2)
    }
}

/// C12: order of the two clock reads of `now()`.  `ord <cba fields> <delta_ns>`: every clock read
/// after the first one sees both clocks `delta` later than the previous read did.
/// -> <order of clock ids, R = realtime, M = monotonic> <result as for cba>
/// ordv <record 7> real_s real_n mono_s mono_n k d_1 .. d_k : now() on the record under a clock that is
/// moved on by d_i nanoseconds before the i-th read after the first (0 beyond k)
/// -> <ids of the clocks read, in order: R realtime, M monotonic> <result>
pub fn run_ordv(toks: &[&str]) -> String {
    let t: Vec<i64> = toks.iter().map(|s| p::<i64>(s)).collect();
    let ceb = mk_ceb(&t[0..7]);
    let k = t[11] as usize;
    let ds: Vec<i64> = t[12..12 + k].to_vec();
    vclock::set_real(t[7], t[8]);
    vclock::set_mono(t[9], t[10]);
    let n = std::sync::Arc::new(std::sync::atomic::AtomicU64::new(0));
    let n2 = n.clone();
    vclock::set_hook(Some(Box::new(move |_clk| {
        let i = n2.fetch_add(1, std::sync::atomic::Ordering::SeqCst) as usize;
        if i > 0 && i <= ds.len() {
            vclock::advance(ds[i - 1]);
        }
    })));
    vclock::clear_log();
    vclock::enable(true);
    let r1 = std::panic::catch_unwind(|| ceb.now());
    vclock::enable(false);
    vclock::set_hook(None);
    let order: String = vclock::take_log().iter().map(|(clk, _, _)| if *clk == libc::CLOCK_REALTIME { 'R' } else { 'M' }).collect();
    let s1 = match r1 {
        Ok(r) => fmt_shm(r),
        Err(_) => "panic".to_string(),
    };
    format!("{} {}", order, s1)
}

pub fn run_ord(toks: &[&str]) -> String {
    let t: Vec<i64> = toks.iter().map(|s| p::<i64>(s)).collect();
    let ceb = mk_ceb(&t[0..7]);
    let delta = t[11];
    vclock::set_real(t[7], t[8]);
    vclock::set_mono(t[9], t[10]);
    let n = std::sync::Arc::new(std::sync::atomic::AtomicU64::new(0));
    let n2 = n.clone();
    vclock::set_hook(Some(Box::new(move |_clk| {
        if n2.fetch_add(1, std::sync::atomic::Ordering::SeqCst) > 0 {
            vclock::advance(delta);
        }
    })));
    vclock::clear_log();
    vclock::enable(true);
    let r1 = std::panic::catch_unwind(|| ceb.now());
    vclock::enable(false);
    vclock::set_hook(None);
    let order: String = vclock::take_log().iter().map(|(clk, _, _)| if *clk == libc::CLOCK_REALTIME { 'R' } else { 'M' }).collect();
    let s1 = match r1 {
        Ok(r) => fmt_shm(r),
        Err(_) => "panic".to_string(),
    };
    format!("{} {}", order, s1)
}
