use std::path::PathBuf;

/// Per-process scratch directory (tmpfs by default; VERIF_SCRATCH overrides the parent).
pub fn scratch_dir() -> PathBuf {
    let parent = std::env::var("VERIF_SCRATCH").unwrap_or_else(|_| "/dev/shm".to_string());
    let d = PathBuf::from(parent).join(format!("cbverif-{}", std::process::id()));
    std::fs::create_dir_all(&d).expect("scratch dir");
    d
}

pub fn cleanup_scratch() {
    let parent = std::env::var("VERIF_SCRATCH").unwrap_or_else(|_| "/dev/shm".to_string());
    let d = PathBuf::from(parent).join(format!("cbverif-{}", std::process::id()));
    let _ = std::fs::remove_dir_all(d);
}

pub fn p<T: std::str::FromStr>(s: &str) -> T
where
    T::Err: std::fmt::Debug,
{
    s.parse::<T>().unwrap_or_else(|e| panic!("bad integer {:?}: {:?}", s, e))
}

/// A second, harness-owned read/write mapping of a segment file.
pub struct RawMap {
    pub base: *mut u8,
    pub len: usize,
}

impl RawMap {
    pub fn open(path: &std::path::Path, len: usize) -> RawMap {
        use std::os::unix::io::AsRawFd;
        let f = std::fs::OpenOptions::new().read(true).write(true).open(path).expect("open segment");
        let base = unsafe {
            libc::mmap(
                std::ptr::null_mut(),
                len,
                libc::PROT_READ | libc::PROT_WRITE,
                libc::MAP_SHARED,
                f.as_raw_fd(),
                0,
            )
        };
        assert!(base != libc::MAP_FAILED, "mmap");
        RawMap { base: base.cast(), len }
    }
    pub fn u16_at(&self, off: usize) -> u16 {
        unsafe { self.base.add(off).cast::<u16>().read_volatile() }
    }
    pub fn set_u16(&self, off: usize, v: u16) {
        unsafe { self.base.add(off).cast::<u16>().write_volatile(v) }
    }
    pub fn bytes(&self) -> Vec<u8> {
        (0..self.len).map(|i| unsafe { self.base.add(i).read_volatile() }).collect()
    }
}

impl Drop for RawMap {
    fn drop(&mut self) {
        unsafe { libc::munmap(self.base.cast(), self.len) };
    }
}

pub const OFF_VERSION: usize = 12;
pub const OFF_GENERATION: usize = 14;
pub const OFF_RECORD: usize = 16;
