//! Correspondence harness: runs the real clock-bound code (built from /repo's working tree with
//! `--cfg clockbound_verif`) on the cases read from stdin, one per line, and prints one canonical
//! result line per case in the same format as the model driver (ocaml/driver.ml).

mod bound;
mod client;
mod engine;
mod gen;
mod world;
mod threads;
mod poller;
mod segfile;
mod updater;
mod util;
mod vclock;

use std::io::{BufRead, Write};

fn main() {
    let args: Vec<String> = std::env::args().collect();
    let cmd = args.get(1).map(|s| s.as_str()).unwrap_or("lines");
    match cmd {
        "lines" => lines(),
        other => {
            eprintln!("unknown sub-command {}", other);
            std::process::exit(2);
        }
    }
}

/// Generic mode: each line is `<tag> <ints...>`.
fn lines() {
    // panics are outcomes here, not noise
    if std::env::var_os("VERIF_PANIC_MESSAGES").is_none() {
        std::panic::set_hook(Box::new(|_| {}));
    }
    let stdin = std::io::stdin();
    let stdout = std::io::stdout();
    let mut out = std::io::BufWriter::new(stdout.lock());
    let mut ctx = Ctx::default();
    for line in stdin.lock().lines() {
        let line = line.expect("stdin");
        let toks: Vec<&str> = line.split_whitespace().collect();
        if toks.is_empty() {
            continue;
        }
        let res = match toks[0] {
            "gen" => gen::run(&mut ctx, &toks[1..]),
            "cba" => client::run(&mut ctx, &toks[1..]),
            "cbp" => client::run_cbp(&mut ctx, &toks[1..]),
            "ord" => client::run_ord(&toks[1..]),
            "ordv" => client::run_ordv(&toks[1..]),
            "bnd" => bound::run_bnd(&toks[1..]),
            "cls" => bound::run_cls(&toks[1..]),
            "upd" => updater::run(&toks[1..]),
            "rid" => {
                // refid_to_u32 (value parser of --phc-ref-id) on the string made of the given bytes
                let b: Vec<u8> = toks[2..].iter().map(|x| x.parse::<u8>().unwrap()).collect();
                match String::from_utf8(b) {
                    Ok(st) => match clock_bound_d::refid_to_u32(&st) {
                        Ok(v) => format!("ok {}", v),
                        Err(_) => "rejected".to_string(),
                    },
                    Err(_) => "not-utf8".to_string(),
                }
            }
            "updt" => updater::run_timed(&toks[1..]),
            "upd2" => updater::run_two(&toks[1..]),
            "updl" => updater::run_live(&toks[1..]),
            "shm" => match std::panic::catch_unwind(|| engine::run(&toks[1..])) {
                Ok(s) => s,
                // a worker thread (the daemon's writer starting over the file, a client attaching or calling) did not
                // reach its next access within the engine's time-out: reported as an outcome, the thread is abandoned
                Err(_) => "STUCK".to_string(),
            },
            "shmd" | "shmc" => {
                engine::FAMILY.store(if toks[0] == "shmc" { 2 } else { 1 }, std::sync::atomic::Ordering::SeqCst);
                let r = std::panic::catch_unwind(|| engine::run(&toks[1..]));
                engine::FAMILY.store(0, std::sync::atomic::Ordering::SeqCst);
                match r {
                    Ok(s) => s,
                    Err(_) => "STUCK".to_string(),
                }
            }
            "stall" => engine::run_stall(&toks[1..]),
            "seg" => {
                // a process that opens segment after segment must not run out of descriptors: whatever an open
                // that fails acquired on the way is given back (the limit makes a leak show within one chunk)
                static LOW: std::sync::Once = std::sync::Once::new();
                LOW.call_once(|| unsafe {
                    let mut rl = libc::rlimit { rlim_cur: 0, rlim_max: 0 };
                    if libc::getrlimit(libc::RLIMIT_NOFILE, &mut rl) == 0 {
                        rl.rlim_cur = 96.min(rl.rlim_max);
                        libc::setrlimit(libc::RLIMIT_NOFILE, &rl);
                    }
                });
                segfile::run_seg(&toks[1..])
            }
            "sgo" => segfile::run_sgo(&toks[1..]),
            "pubs" => segfile::run_pubs(&toks[1..]),
            "pubr" => segfile::run_pubr(&toks[1..]),
            "lng" => segfile::run_lng(&toks[1..]),
            "pol" => poller::run(&toks[1..]),
            "polt" => poller::run_timed(&toks[1..]),
            "wld" => world::run(&toks[1..]),
            "thr" => {
                // worker threads may be left behind on a violation: answer and leave the process
                let r = threads::run(&toks[1..]);
                writeln!(out, "{}", r).unwrap();
                out.flush().unwrap();
                std::process::exit(0);
            }
            "wrt" => segfile::run_wrt(&toks[1..]),
            "wrn" => segfile::run_wrn(&toks[1..]),
            t => {
                eprintln!("unknown tag {}", t);
                std::process::exit(2);
            }
        };
        writeln!(out, "{}", res).unwrap();
    }
    out.flush().unwrap();
    drop(ctx);
    util::cleanup_scratch();
}

/// State shared by the cases of one run (lazily created scratch segment etc.).
#[derive(Default)]
pub struct Ctx {
    pub gen: Option<gen::GenCtx>,
    pub client: Option<client::ClientCtx>,
}
