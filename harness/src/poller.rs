//! C13 / C12: the real polling loop (`run_clock_error_bound_poller` with the real
//! `ClockErrorBoundPoller`, i.e. chrony-candm's blocking UDS client) against a scripted fake
//! chronyd on /var/run/chrony/chronyd.sock and a virtual clock. Must run inside a private mount
//! namespace with a tmpfs on /run (the check starts the harness under `unshare -m`).
//!   pol <start_ns> <cfg_refid|-1> <n> { t_ns mode d_ns e_ns phc refid tag }*n
//!     mode 1: tracking reply after d ns; 0: reply with a wrong sequence number; 2: garbage datagram;
//!     3: no socket; 4: a reply without tracking data; 5: no reply at all (the query times out, 3 x 1 s of real time);
//!     6: no socket when the poll asks, there again right after (chronyd restarted while the loop waits).  e: extra time until the grace period is evaluated.  phc -1: file absent, -2: a directory in its place (open succeeds, read fails), -3: the file is there and empty.
//! -> per iteration  D:<as_of_ns>:<phc>:<refid>:<tag> | NG | NR | PG | PF , then  ORDER:<ok|query-before-read@i>
use crate::bound::mk_tracking;
use crate::util::*;
use crate::vclock;
use bytes::BytesMut;
use chrony_candm::reply::{Reply, ReplyBody, Status};
use chrony_candm::request::Request;
use clock_bound_d::channels::new_channel_web;
use clock_bound_d::thread_manager::Context;
use clock_bound_d::verif_chrony_poller as pverif;
use clock_bound_d::{ChannelId, Message, PhcInfo};
use std::os::unix::net::UnixDatagram;
use std::sync::atomic::{AtomicI64, AtomicUsize, Ordering::SeqCst};
use std::sync::{Arc, Mutex};
use std::time::Duration;

const SOCK: &str = "/var/run/chrony/chronyd.sock";
const HIDDEN: &str = "/var/run/chrony/chronyd.sock.hidden";
const NS: i64 = 1_000_000_000;

#[derive(Clone, Copy)]
struct Step {
    t: i64,
    mode: i64,
    d: i64,
    e: i64,
    phc: i64,
    refid: u32,
    tag: i64,
}

struct Shared {
    steps: Vec<Step>,
    phc_path: std::path::PathBuf,
    applied: AtomicUsize,   // number of steps applied so far
    coarse: AtomicUsize,    // coarse (as_of) reads so far
    completed: AtomicUsize, // iterations whose message has been received by the writer mailbox
    mono_reads: AtomicI64,  // CLOCK_MONOTONIC reads by the poller in the current iteration
    order_bad: Mutex<Option<usize>>,
}

fn set_mono_ns(ns: i64) {
    vclock::set_mono(ns.div_euclid(NS), ns.rem_euclid(NS));
    // realtime: fixed offset from the monotonic clock, so that reference times can be made fresh
    let r = ns + 1_600_000_000 * NS;
    vclock::set_real(r.div_euclid(NS), r.rem_euclid(NS));
}
fn mono_ns() -> i64 {
    let (s, n) = vclock::get_mono();
    s * NS + n
}

fn apply_step(sh: &Shared, i: usize) {
    if i >= sh.steps.len() || sh.applied.load(SeqCst) > i {
        return;
    }
    sh.applied.store(i + 1, SeqCst);
    sh.mono_reads.store(0, SeqCst);
    let s = sh.steps[i];
    set_mono_ns(s.t);
    if s.mode == 3 || s.mode == 6 {
        let _ = std::fs::rename(SOCK, HIDDEN);
    } else {
        let _ = std::fs::rename(HIDDEN, SOCK);
    }
    if s.phc == -3 {
        // the attribute is there and reads back empty (the driver has nothing to report yet)
        let _ = std::fs::remove_dir(&sh.phc_path);
        std::fs::write(&sh.phc_path, "\n").expect("phc file");
    } else if s.phc < 0 {
        let _ = std::fs::remove_file(&sh.phc_path);
        let _ = std::fs::remove_dir(&sh.phc_path);
        if s.phc == -2 {
            // an attribute that can be opened but not read (read(2) on a directory fails with EISDIR)
            let _ = std::fs::create_dir(&sh.phc_path);
        }
    } else {
        let _ = std::fs::remove_dir(&sh.phc_path);
        std::fs::write(&sh.phc_path, format!("{}\n", s.phc)).expect("phc file");
    }
}

/// polt: the same script, but the loop is left to its own cadence - a wait of 60 ms (of real time) that ends by
/// time-out, nobody writing to the poller's mailbox between two polls - as in the running daemon
pub fn run_timed(toks: &[&str]) -> String {
    run_with(toks, true)
}

pub fn run(toks: &[&str]) -> String {
    run_with(toks, false)
}

fn run_with(toks: &[&str], timed: bool) -> String {
    let start: i64 = p(toks[0]);
    let cfg_refid: i64 = p(toks[1]);
    let n: usize = p(toks[2]);
    let mut steps = Vec::new();
    for k in 0..n {
        let v: Vec<i64> = toks[3 + 7 * k..10 + 7 * k].iter().map(|s| p::<i64>(s)).collect();
        steps.push(Step { t: v[0], mode: v[1], d: v[2], e: v[3], phc: v[4], refid: v[5] as u32, tag: v[6] });
    }
    std::fs::create_dir_all("/var/run/chrony").expect("/var/run/chrony (run the harness inside the private namespace)");
    let _ = std::fs::remove_file(SOCK);
    let _ = std::fs::remove_file(HIDDEN);
    let srv = UnixDatagram::bind(SOCK).expect("bind fake chronyd");
    srv.set_read_timeout(Some(Duration::from_millis(50))).unwrap();
    let phc_path = scratch_dir().join("phc_error_bound");
    let sh = Arc::new(Shared {
        steps: steps.clone(),
        phc_path: phc_path.clone(),
        applied: AtomicUsize::new(0),
        coarse: AtomicUsize::new(0),
        completed: AtomicUsize::new(0),
        mono_reads: AtomicI64::new(0),
        order_bad: Mutex::new(None),
    });
    let stop = Arc::new(std::sync::atomic::AtomicBool::new(false));

    // fake chronyd
    let (sh2, stop2) = (sh.clone(), stop.clone());
    let server = std::thread::spawn(move || {
        let mut buf = [0u8; 1500];
        let mut last_req: Option<usize> = None;
        while !stop2.load(SeqCst) {
            let (len, from) = match srv.recv_from(&mut buf) {
                Ok(x) => x,
                Err(_) => continue,
            };
            let i = if timed {
                // the loop runs on its own cadence and the scripts used here make it ask once per poll: the
                // request belongs to the poll whose as-of reading was taken last; a second request without a new
                // as-of reading in between belongs to a poll that has not taken its reading yet
                let it = sh2.coarse.load(SeqCst).saturating_sub(1);
                if it >= sh2.steps.len() {
                    continue; // a poll beyond the script (the abort is on its way): not answered, not judged
                }
                if last_req == Some(it) && it + 1 < sh2.steps.len() {
                    let mut ob = sh2.order_bad.lock().unwrap();
                    if ob.is_none() {
                        *ob = Some(it + 1);
                    }
                    last_req = Some(it + 1);
                    it + 1
                } else {
                    last_req = Some(it);
                    it
                }
            } else {
                sh2.completed.load(SeqCst)      // the iteration this request belongs to
            };
            if !timed && sh2.coarse.load(SeqCst) <= i {
                // the request of iteration i arrived before the as_of reading of iteration i was taken
                let mut ob = sh2.order_bad.lock().unwrap();
                if ob.is_none() {
                    *ob = Some(i);
                }
            }
            apply_step(&sh2, i);
            let s = match sh2.steps.get(i) {
                Some(s) => *s,
                None => continue,
            };
            let mut b = &buf[..len];
            let req = match Request::deserialize(&mut b) {
                Ok(r) => r,
                Err(_) => continue,
            };
            // the answer takes d ns
            set_mono_ns(mono_ns() + s.d);
            let path = match from.as_pathname() {
                Some(p) => p.to_owned(),
                None => continue,
            };
            if s.mode == 2 {
                let _ = srv.send_to(&[1, 2, 3], &path);
                continue;
            }
            if s.mode == 5 {
                // chronyd holds its socket but does not reply (stopped, hung): the client's query times out
                continue;
            }
            if s.mode == 4 {
                // chronyd is there and answers, but not with tracking data (e.g. it refuses the command)
                let reply = Reply { status: Status::Unauth, cmd: 33, sequence: req.sequence, body: ReplyBody::Null };
                let mut out = BytesMut::with_capacity(reply.length());
                reply.serialize(&mut out);
                let _ = srv.send_to(&out, &path);
                continue;
            }
            // leap = tag (0..2), interval 4 s: the report itself is not judged here.  Reference time: the
            // current instant, or - for tags = 3 mod 4 - one fixed instant (chronyd repeats its reference
            // time while it has had no new measurement; nothing in the poller may hang on that)
            let (rs, rn) = if s.tag % 4 == 3 { (1_600_000_000i64, 123_456_789i64) } else { vclock::get_real() };
            let t = mk_tracking(s.refid, (s.tag % 3) as u16, rs, rn as u32, (s.tag as u32) << 8, 0, 0, 4 << 25 | 1 << 23);
            let seq = if s.mode == 0 { req.sequence ^ 1 } else { req.sequence };
            let reply = Reply { status: Status::Success, cmd: 33, sequence: seq, body: ReplyBody::Tracking(t) };
            let mut out = BytesMut::with_capacity(reply.length());
            reply.serialize(&mut out);
            let _ = srv.send_to(&out, &path);
        }
    });

    // channels and the poller thread
    let (mut mboxes, dbox) = new_channel_web(vec![ChannelId::ClockErrorBoundPoller, ChannelId::ShmWriter, ChannelId::MainThread]);
    let pmbox = mboxes.get_mailbox(&ChannelId::ClockErrorBoundPoller).unwrap();
    let wmbox = mboxes.get_mailbox(&ChannelId::ShmWriter).unwrap();
    let _main = mboxes.get_mailbox(&ChannelId::MainThread).unwrap();
    let ctx = Context { mbox: pmbox, dbox: dbox.clone(), channel_id: ChannelId::ClockErrorBoundPoller };
    let phc_info = if cfg_refid >= 0 { Some(PhcInfo { refid: cfg_refid as u32, sysfs_error_bound_path: phc_path.clone() }) } else { None };

    set_mono_ns(start);
    let sh3 = sh.clone();
    vclock::set_hook(Some(Box::new(move |clk| {
        if clk == libc::CLOCK_MONOTONIC_COARSE {
            let i = sh3.coarse.fetch_add(1, SeqCst);
            apply_step(&sh3, i);
        } else if clk == libc::CLOCK_MONOTONIC {
            let i = sh3.applied.load(SeqCst);
            if i == 0 {
                return; // ClockErrorBoundPoller::default(): Instant::now() at `start`
            }
            // (a poll loop that reads its clocks more often than the script has steps is answered from the last step)
            let s = sh3.steps[(i - 1).min(sh3.steps.len() - 1)];
            let k = sh3.mono_reads.fetch_add(1, SeqCst) + 1;
            let grace_read = if s.mode == 1 { 2 } else { 1 };
            if k == grace_read {
                let extra = s.e + if s.mode == 3 || s.mode == 6 { s.d } else { 0 };
                set_mono_ns(mono_ns() + extra);
                if s.mode == 6 {
                    // chronyd is back right after the poll that missed it, while the loop waits for its next turn
                    let _ = std::fs::rename(HIDDEN, SOCK);
                }
            } else if timed && k > grace_read {
                // the readings of the wait itself: virtual time has to pass for its time-out to come (and some
                // real time too, so that the coordinator has recorded the outcome of this poll before the next)
                std::thread::sleep(Duration::from_millis(25));
                set_mono_ns(mono_ns() + 100_000_000);
            }
        }
    })));
    let (tid_tx, tid_rx) = std::sync::mpsc::channel();
    let poller = std::thread::spawn(move || {
        vclock::only_thread(vclock::gettid());
        vclock::enable(true);
        tid_tx.send(()).unwrap();
        let r = std::panic::catch_unwind(std::panic::AssertUnwindSafe(|| pverif::run_poller(ctx, phc_info, if timed { Duration::from_millis(60) } else { Duration::from_secs(1_000_000_000) })));
        vclock::enable(false);
        vclock::only_thread(0);
        r.is_ok()
    });
    tid_rx.recv().unwrap();

    let mut out: Vec<String> = Vec::new();
    for i in 0..n {
        // (in slices, so that a poll loop that has ended - a panic - is noticed at once: `DIED`)
        let mut got = Err(std::sync::mpsc::RecvTimeoutError::Timeout);
        for _slice in 0..75 {
            got = wmbox.recv_timeout(Duration::from_millis(200));
            if got.is_ok() || poller.is_finished() {
                break;
            }
        }
        if got.is_err() && poller.is_finished() {
            if let Ok(m) = wmbox.try_recv() {
                got = Ok(m);
            } else {
                out.push("DIED".into());
                break;
            }
        }
        match got {
            Ok(Message::ClockErrorBoundData((t, phc, as_of))) => {
                // the tag travels in the report's current_correction word (tag << 8 = tag * 2^-17) and leap status
                let f: f64 = t.current_correction.into();
                let tag = (f * 131072.0) as i64;
                let tag = if t.leap_status as i64 == tag % 3 { tag } else { -1 };
                out.push(format!("D:{}:{}:{}:{}", as_of.tv_sec as i128 * NS as i128 + as_of.tv_nsec as i128, phc, t.ref_id, tag));
            }
            Ok(Message::ChronyNotRespondingGracePeriod) => out.push("NG".into()),
            Ok(Message::ChronyNotResponding) => out.push("NR".into()),
            Ok(Message::PhcErrorBoundRetrievalFailedGracePeriod) => out.push("PG".into()),
            Ok(Message::PhcErrorBoundRetrievalFailed) => out.push("PF".into()),
            Ok(m) => out.push(format!("OTHER:{:?}", m).replace(' ', "_")),
            Err(_) => {
                out.push("TIMEOUT".into());
                break;
            }
        }
        sh.completed.store(i + 1, SeqCst);
        // wake the poller for its next iteration (or tell it to stop)
        let m = if i + 1 == n { Message::ThreadAbort } else { Message::ChronyNotRespondingGracePeriod };
        if !timed || i + 1 == n {
            let _ = dbox.send(&ChannelId::ClockErrorBoundPoller, m);
        }
    }
    if n == 0 {
        let _ = dbox.send(&ChannelId::ClockErrorBoundPoller, Message::ThreadAbort);
    }
    let ok = poller.join().unwrap_or(false);
    vclock::set_hook(None);
    stop.store(true, SeqCst);
    let _ = server.join();
    let _ = std::fs::remove_file(SOCK);
    let _ = std::fs::remove_file(HIDDEN);
    let order = match *sh.order_bad.lock().unwrap() {
        None => "ORDER:ok".to_string(),
        Some(i) => format!("ORDER:query-before-read@{}", i),
    };
    out.push(order);
    if !ok {
        out.push("POLLER-PANIC".into());
    }
    out.join(" ")
}

