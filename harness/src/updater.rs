//! C08 / C09 / C07(PHC): the real `process_messages` loop of the writer thread driven by a scripted
//! message list. Every publication goes through the real `ShmWriter::write` into a segment file and
//! is read back with a real `ShmReader::snapshot` (both results are recorded and must agree). The updater
//! owns the real `ShmWriter` (no wrapper); publications are observed through the shim's controller.
//!   upd <drift> <n> { r d e o leap interval kind secs nanos phc as_s as_n | m <grace> | p <grace> }*n
//! -> <k> { as_s as_n va_s va_n bound drift status }*k   | panic
//!   updt <drift> <n> { <off_ns> <message as above> }*n : the same, but the realtime clock reads
//!   NOW + off while the corresponding message is processed (one publication per message, so the
//!   clock is moved on after each publication); the report's reference time stays NOW - (secs, nanos).
use crate::bound::{mk_tracking_aged, NOW_N, NOW_S};
use crate::util::*;
use crate::vclock;
use clock_bound_d::channels::new_channel_web;
use clock_bound_d::thread_manager::Context;
use clock_bound_d::verif_shm_writer as dverif;
use clock_bound_d::{ChannelId, Message};
use clock_bound_shm::verif::{self, Access, Reply};
use clock_bound_shm::{ClockErrorBound, ShmReader, ShmWriter};
use std::cell::RefCell;
use std::rc::Rc;

/// What the writer side published, captured without wrapping the writer: the updater is given the
/// real `ShmWriter` itself (so that whatever the updater asks of its writer reaches the real one), and
/// the verification shim's controller looks at the segment at every closing (even) generation store;
/// the record is read back through a real `ShmReader` before the writer's next access.
struct Cap {
    log: Vec<([i64; 7], [i64; 7])>,
    pending: Option<[i64; 7]>,
    r: Option<ShmReader>,
    path: std::ffi::CString,
    offs: Vec<i64>,
}

impl Cap {
    fn flush(&mut self) {
        if let Some(sent) = self.pending.take() {
            if self.r.is_none() {
                self.r = Some(ShmReader::new(self.path.as_c_str()).expect("reader after first publication"));
            }
            let snap = *self.r.as_mut().unwrap().snapshot().expect("snapshot");
            self.log.push((sent, fields(&snap)));
        }
    }
}

fn fields(c: &ClockErrorBound) -> [i64; 7] {
    // ClockErrorBound's fields are private: read them through its documented repr(C) layout
    let p = c as *const ClockErrorBound as *const u8;
    unsafe {
        [
            p.cast::<i64>().read_unaligned(),
            p.add(8).cast::<i64>().read_unaligned(),
            p.add(16).cast::<i64>().read_unaligned(),
            p.add(24).cast::<i64>().read_unaligned(),
            p.add(32).cast::<i64>().read_unaligned(),
            p.add(40).cast::<u32>().read_unaligned() as i64,
            p.add(48).cast::<u32>().read_unaligned() as i64,
        ]
    }
}

fn set_now_plus(off: i64) {
    let t = NOW_S as i128 * 1_000_000_000 + NOW_N as i128 + off as i128;
    vclock::set_real((t.div_euclid(1_000_000_000)) as i64, (t.rem_euclid(1_000_000_000)) as i64);
}

pub fn run(toks: &[&str]) -> String {
    run_with(toks, false, true)
}

/// upd2 <drift1> <n1> msgs1... <drift2> <n2> msgs2... : two lives of the daemon's writer side over one
/// segment file (the second instance starts over what the first one left, possibly with another rate)
/// -> <k1 + k2> records of both lives | panic
pub fn run_two(toks: &[&str]) -> String {
    let n1: usize = p(toks[1]);
    let mut i = 2;
    for _ in 0..n1 {
        i += if toks[i] == "r" { 12 } else { 2 };
    }
    let a = run_with(&toks[..i], false, true);
    let b = run_with(&toks[i..], false, false);
    if a.starts_with("panic") || a.starts_with("MISMATCH") || b.starts_with("panic") || b.starts_with("MISMATCH") {
        return format!("panic-or-mismatch first=[{}] second=[{}]", a, b);
    }
    let (ka, ra) = a.split_once(' ').map(|(k, r)| (k.to_string(), format!(" {}", r))).unwrap_or((a.clone(), String::new()));
    let (kb, rb) = b.split_once(' ').map(|(k, r)| (k.to_string(), format!(" {}", r))).unwrap_or((b.clone(), String::new()));
    format!("{}{}{}", p::<usize>(&ka) + p::<usize>(&kb), ra, rb)
}

pub fn run_timed(toks: &[&str]) -> String {
    run_with(toks, true, true)
}

/// updl <drift> <n> { <off_ns> <wait_ns> <message> }*n : as updt, but the writer runs on its own thread and is
/// already waiting at its mailbox when each message arrives (as in the running daemon): while it waits the
/// clock reads NOW + off - wait, and NOW + off from the moment the message is sent. -> as upd
pub fn run_live(toks: &[&str]) -> String {
    use std::sync::{Arc, Mutex};
    let drift: u32 = p(toks[0]);
    let n: usize = p(toks[1]);
    let mut i = 2;
    let (mut mboxes, dbox) = new_channel_web(vec![ChannelId::ClockErrorBoundPoller, ChannelId::ShmWriter, ChannelId::MainThread]);
    let mbox = mboxes.get_mailbox(&ChannelId::ShmWriter).unwrap();
    let _main = mboxes.get_mailbox(&ChannelId::MainThread).unwrap();
    let ctx = Context { mbox, dbox: dbox.clone(), channel_id: ChannelId::ShmWriter };
    let mut msgs: Vec<(i64, i64, Message)> = Vec::new();
    for _ in 0..n {
        let off: i64 = p(toks[i]);
        let wait: i64 = p(toks[i + 1]);
        i += 2;
        match toks[i] {
            "r" => {
                let v: Vec<i64> = toks[i + 1..i + 12].iter().map(|s| p::<i64>(s)).collect();
                let t = mk_tracking_aged(crate::bound::ANY_REF, v[3] as u16, v[5], v[6], v[7], v[2] as u32, v[0] as u32, v[1] as u32, v[4] as u32);
                let as_of = libc::timespec { tv_sec: v[9], tv_nsec: v[10] };
                msgs.push((off, wait, Message::ClockErrorBoundData((t, v[8], as_of))));
                i += 12;
            }
            "m" => {
                let g: i64 = p(toks[i + 1]);
                msgs.push((off, wait, if g != 0 { Message::ChronyNotRespondingGracePeriod } else { Message::ChronyNotResponding }));
                i += 2;
            }
            "p" => {
                let g: i64 = p(toks[i + 1]);
                msgs.push((off, wait, if g != 0 { Message::PhcErrorBoundRetrievalFailedGracePeriod } else { Message::PhcErrorBoundRetrievalFailed }));
                i += 2;
            }
            t => panic!("updl: bad message tag {}", t),
        }
    }
    let path = scratch_dir().join("updl-segment");
    let _ = std::fs::remove_file(&path);
    let w = ShmWriter::new(&path).expect("ShmWriter::new");
    vclock::set_real(NOW_S, NOW_N);
    vclock::only_thread(0);
    vclock::enable(true);
    let log: Arc<Mutex<Vec<[i64; 7]>>> = Arc::new(Mutex::new(Vec::new()));
    let (tx, rx) = std::sync::mpsc::channel::<()>();
    struct SendW(ShmWriter, Context);
    unsafe impl Send for SendW {}
    let sw = SendW(w, ctx);
    let log2 = log.clone();
    let th = std::thread::spawn(move || {
        let sw = sw;
        verif::install(Some(Box::new(move |a: &Access| {
            if let Access::Store16 { addr, ord, val } = a {
                if *val != 0 && *val % 2 == 0 {
                    let rec: ClockErrorBound = unsafe { std::ptr::read_unaligned((*addr + 2) as *const ClockErrorBound) };
                    unsafe { (*(*addr as *const std::sync::atomic::AtomicU16)).store(*val, *ord) };
                    log2.lock().unwrap().push(fields(&rec));
                    let _ = tx.send(());
                    return Reply::Skip;
                }
            }
            Reply::Pass
        })));
        let r = std::panic::catch_unwind(std::panic::AssertUnwindSafe(|| dverif::run_updater(sw.1, sw.0, drift)));
        verif::install(None);
        r.is_ok()
    });
    let nap = |ms: u64| std::thread::sleep(std::time::Duration::from_millis(ms));
    for (off, wait, m) in msgs {
        set_now_plus(off - wait);
        nap(15); // the writer is at its mailbox by now
        set_now_plus(off);
        dbox.send(&ChannelId::ShmWriter, m).unwrap();
        for _ in 0..2000 {
            if rx.try_recv().is_ok() {
                break;
            }
            nap(1);
        }
    }
    nap(5);
    dbox.send(&ChannelId::ShmWriter, Message::ThreadAbort).unwrap();
    let ok = th.join().unwrap_or(false);
    vclock::enable(false);
    if !ok {
        return "panic".into();
    }
    let log = log.lock().unwrap();
    let mut out = format!("{}", log.len());
    for a in log.iter() {
        for x in a {
            out.push_str(&format!(" {}", x));
        }
    }
    out
}

fn run_with(toks: &[&str], timed: bool, fresh_file: bool) -> String {
    let drift: u32 = p(toks[0]);
    let n: usize = p(toks[1]);
    let mut i = 2;
    let (mut mboxes, dbox) = new_channel_web(vec![ChannelId::ClockErrorBoundPoller, ChannelId::ShmWriter, ChannelId::MainThread]);
    let mbox = mboxes.get_mailbox(&ChannelId::ShmWriter).unwrap();
    let _main = mboxes.get_mailbox(&ChannelId::MainThread).unwrap();
    let ctx = Context { mbox, dbox: dbox.clone(), channel_id: ChannelId::ShmWriter };
    vclock::set_real(NOW_S, NOW_N);
    vclock::enable(true);
    let mut offs: Vec<i64> = Vec::new();
    for _ in 0..n {
        if timed {
            offs.push(p(toks[i]));
            i += 1;
        }
        match toks[i] {
            "r" => {
                let v: Vec<i64> = toks[i + 1..i + 12].iter().map(|s| p::<i64>(s)).collect();
                let t = mk_tracking_aged(crate::bound::ANY_REF, v[3] as u16, v[5], v[6], v[7], v[2] as u32, v[0] as u32, v[1] as u32, v[4] as u32);
                let as_of = libc::timespec { tv_sec: v[9], tv_nsec: v[10] };
                dbox.send(&ChannelId::ShmWriter, Message::ClockErrorBoundData((t, v[8], as_of))).unwrap();
                i += 12;
            }
            "m" => {
                let g: i64 = p(toks[i + 1]);
                let m = if g != 0 { Message::ChronyNotRespondingGracePeriod } else { Message::ChronyNotResponding };
                dbox.send(&ChannelId::ShmWriter, m).unwrap();
                i += 2;
            }
            "p" => {
                let g: i64 = p(toks[i + 1]);
                let m = if g != 0 { Message::PhcErrorBoundRetrievalFailedGracePeriod } else { Message::PhcErrorBoundRetrievalFailed };
                dbox.send(&ChannelId::ShmWriter, m).unwrap();
                i += 2;
            }
            t => panic!("upd: bad message tag {}", t),
        }
    }
    dbox.send(&ChannelId::ShmWriter, Message::ThreadAbort).unwrap();
    let path = scratch_dir().join("upd-segment");
    if fresh_file {
        let _ = std::fs::remove_file(&path);
    }
    // a daemon that starts over the segment of an earlier instance takes it over as it is: until its own first
    // publication clients keep reading the record that was there, bit for bit
    let before = if fresh_file { None } else { std::fs::read(&path).ok() };
    let w = ShmWriter::new(&path).expect("ShmWriter::new");
    if let (Some(b), Ok(a)) = (before, std::fs::read(&path)) {
        if b.len() >= 72 && a.len() >= 72 && b[14] % 2 == 0 && (b[14] != 0 || b[15] != 0) && (b[14..68] != a[14..68]) {
            return format!("MISMATCH a daemon starting over a valid segment altered it before publishing anything: generation+record bytes {:?} -> {:?}", &b[14..68], &a[14..68]);
        }
    }
    if let Some(o) = offs.first() {
        set_now_plus(*o);
    }
    let cap = Rc::new(RefCell::new(Cap { log: Vec::new(), pending: None, r: None, path: std::ffi::CString::new(path.to_str().unwrap()).unwrap(), offs }));
    let c2 = cap.clone();
    verif::install(Some(Box::new(move |a: &Access| {
        let mut c = c2.borrow_mut();
        match a {
            Access::Store16 { addr, val, .. } if *val != 0 && *val % 2 == 0 => {
                c.flush();
                // the record sits right behind the generation field (PROTOCOL.md: generation at 14, record at 16)
                let rec: ClockErrorBound = unsafe { std::ptr::read_unaligned((*addr + 2) as *const ClockErrorBound) };
                c.pending = Some(fields(&rec));
                let k = c.log.len() + 1;
                if k < c.offs.len() {
                    set_now_plus(c.offs[k]);
                }
            }
            Access::Load16 { .. } => c.flush(),
            _ => (),
        }
        Reply::Pass
    })));
    let r = std::panic::catch_unwind(std::panic::AssertUnwindSafe(|| dverif::run_updater(ctx, w, drift)));
    verif::install(None);
    vclock::enable(false);
    if r.is_err() {
        return "panic".into();
    }
    cap.borrow_mut().flush();
    let cap = cap.borrow();
    let mut out = format!("{}", cap.log.len());
    for (a, b) in cap.log.iter() {
        if a != b {
            return format!("MISMATCH written={:?} read-back={:?}", a, b);
        }
        for x in a {
            out.push_str(&format!(" {}", x));
        }
    }
    out
}
