//! C08 / C09 / C07(PHC): the real `process_messages` loop of the writer thread driven by a scripted
//! message list. Every publication goes through the real `ShmWriter::write` into a segment file and
//! is read back with a real `ShmReader::snapshot` (both results are recorded and must agree). The updater
//! owns the real `ShmWriter` (no wrapper); publications are observed through the shim's controller.
//!   upd <drift> <n> { r d e o leap interval kind secs nanos phc as_s as_n | m <grace> | p <grace> }*n
//! -> <k> { as_s as_n va_s va_n bound drift status }*k   | panic
//!   updt <drift> <n> { <off_ns> <message as above> }*n : the same, but the realtime clock reads
//!   NOW + off while the corresponding message is processed (one publication per message, so the
//!   clock is moved on after each publication); the report's reference time stays NOW - (secs, nanos).
use crate::bound::{mk_tracking_aged, NOW_N, NOW_S};
use crate::util::*;
use crate::vclock;
use clock_bound_d::channels::new_channel_web;
use clock_bound_d::thread_manager::Context;
use clock_bound_d::verif_shm_writer as dverif;
use clock_bound_d::{ChannelId, Message};
use clock_bound_shm::verif::{self, Access, Reply};
use clock_bound_shm::{ClockErrorBound, ShmReader, ShmWriter};
use std::cell::RefCell;
use std::rc::Rc;

/// What the writer side published, captured without wrapping the writer: the updater is given the
/// real `ShmWriter` itself (so that whatever the updater asks of its writer reaches the real one), and
/// the verification shim's controller looks at the segment at every closing (even) generation store;
/// the record is read back through a real `ShmReader` before the writer's next access.
struct Cap {
    log: Vec<([i64; 7], [i64; 7])>,
    pending: Option<[i64; 7]>,
    r: Option<ShmReader>,
    path: std::ffi::CString,
    offs: Vec<i64>,
}

impl Cap {
    fn flush(&mut self) {
        if let Some(sent) = self.pending.take() {
            if self.r.is_none() {
                self.r = Some(ShmReader::new(self.path.as_c_str()).expect("reader after first publication"));
            }
            let snap = *self.r.as_mut().unwrap().snapshot().expect("snapshot");
            self.log.push((sent, fields(&snap)));
        }
    }
}

fn fields(c: &ClockErrorBound) -> [i64; 7] {
    // ClockErrorBound's fields are private: read them through its documented repr(C) layout
    let p = c as *const ClockErrorBound as *const u8;
    unsafe {
        [
            p.cast::<i64>().read_unaligned(),
            p.add(8).cast::<i64>().read_unaligned(),
            p.add(16).cast::<i64>().read_unaligned(),
            p.add(24).cast::<i64>().read_unaligned(),
            p.add(32).cast::<i64>().read_unaligned(),
            p.add(40).cast::<u32>().read_unaligned() as i64,
            p.add(48).cast::<u32>().read_unaligned() as i64,
        ]
    }
}

fn set_now_plus(off: i64) {
    let t = NOW_S as i128 * 1_000_000_000 + NOW_N as i128 + off as i128;
    vclock::set_real((t.div_euclid(1_000_000_000)) as i64, (t.rem_euclid(1_000_000_000)) as i64);
}

pub fn run(toks: &[&str]) -> String {
    run_with(toks, false, true)
}

/// upd2 <drift1> <n1> msgs1... <drift2> <n2> msgs2... : two lives of the daemon's writer side over one
/// segment file (the second instance starts over what the first one left, possibly with another rate)
/// -> <k1 + k2> records of both lives | panic
pub fn run_two(toks: &[&str]) -> String {
    let n1: usize = p(toks[1]);
    let mut i = 2;
    for _ in 0..n1 {
        i += if toks[i] == "r" { 12 } else { 2 };
    }
    let a = run_with(&toks[..i], false, true);
    let b = run_with(&toks[i..], false, false);
    if a.starts_with("panic") || a.starts_with("MISMATCH") || b.starts_with("panic") || b.starts_with("MISMATCH") {
        return format!("panic-or-mismatch first=[{}] second=[{}]", a, b);
    }
    let (ka, ra) = a.split_once(' ').map(|(k, r)| (k.to_string(), format!(" {}", r))).unwrap_or((a.clone(), String::new()));
    let (kb, rb) = b.split_once(' ').map(|(k, r)| (k.to_string(), format!(" {}", r))).unwrap_or((b.clone(), String::new()));
    format!("{}{}{}", p::<usize>(&ka) + p::<usize>(&kb), ra, rb)
}

pub fn run_timed(toks: &[&str]) -> String {
    run_with(toks, true, true)
}

fn run_with(toks: &[&str], timed: bool, fresh_file: bool) -> String {
    let drift: u32 = p(toks[0]);
    let n: usize = p(toks[1]);
    let mut i = 2;
    let (mut mboxes, dbox) = new_channel_web(vec![ChannelId::ClockErrorBoundPoller, ChannelId::ShmWriter, ChannelId::MainThread]);
    let mbox = mboxes.get_mailbox(&ChannelId::ShmWriter).unwrap();
    let _main = mboxes.get_mailbox(&ChannelId::MainThread).unwrap();
    let ctx = Context { mbox, dbox: dbox.clone(), channel_id: ChannelId::ShmWriter };
    vclock::set_real(NOW_S, NOW_N);
    vclock::enable(true);
    let mut offs: Vec<i64> = Vec::new();
    for _ in 0..n {
        if timed {
            offs.push(p(toks[i]));
            i += 1;
        }
        match toks[i] {
            "r" => {
                let v: Vec<i64> = toks[i + 1..i + 12].iter().map(|s| p::<i64>(s)).collect();
                let t = mk_tracking_aged(0, v[3] as u16, v[5], v[6], v[7], v[2] as u32, v[0] as u32, v[1] as u32, v[4] as u32);
                let as_of = libc::timespec { tv_sec: v[9], tv_nsec: v[10] };
                dbox.send(&ChannelId::ShmWriter, Message::ClockErrorBoundData((t, v[8], as_of))).unwrap();
                i += 12;
            }
            "m" => {
                let g: i64 = p(toks[i + 1]);
                let m = if g != 0 { Message::ChronyNotRespondingGracePeriod } else { Message::ChronyNotResponding };
                dbox.send(&ChannelId::ShmWriter, m).unwrap();
                i += 2;
            }
            "p" => {
                let g: i64 = p(toks[i + 1]);
                let m = if g != 0 { Message::PhcErrorBoundRetrievalFailedGracePeriod } else { Message::PhcErrorBoundRetrievalFailed };
                dbox.send(&ChannelId::ShmWriter, m).unwrap();
                i += 2;
            }
            t => panic!("upd: bad message tag {}", t),
        }
    }
    dbox.send(&ChannelId::ShmWriter, Message::ThreadAbort).unwrap();
    let path = scratch_dir().join("upd-segment");
    if fresh_file {
        let _ = std::fs::remove_file(&path);
    }
    let w = ShmWriter::new(&path).expect("ShmWriter::new");
    if let Some(o) = offs.first() {
        set_now_plus(*o);
    }
    let cap = Rc::new(RefCell::new(Cap { log: Vec::new(), pending: None, r: None, path: std::ffi::CString::new(path.to_str().unwrap()).unwrap(), offs }));
    let c2 = cap.clone();
    verif::install(Some(Box::new(move |a: &Access| {
        let mut c = c2.borrow_mut();
        match a {
            Access::Store16 { addr, val, .. } if *val != 0 && *val % 2 == 0 => {
                c.flush();
                // the record sits right behind the generation field (PROTOCOL.md: generation at 14, record at 16)
                let rec: ClockErrorBound = unsafe { std::ptr::read_unaligned((*addr + 2) as *const ClockErrorBound) };
                c.pending = Some(fields(&rec));
                let k = c.log.len() + 1;
                if k < c.offs.len() {
                    set_now_plus(c.offs[k]);
                }
            }
            Access::Load16 { .. } => c.flush(),
            _ => (),
        }
        Reply::Pass
    })));
    let r = std::panic::catch_unwind(std::panic::AssertUnwindSafe(|| dverif::run_updater(ctx, w, drift)));
    verif::install(None);
    vclock::enable(false);
    if r.is_err() {
        return "panic".into();
    }
    cap.borrow_mut().flush();
    let cap = cap.borrow();
    let mut out = format!("{}", cap.log.len());
    for (a, b) in cap.log.iter() {
        if a != b {
            return format!("MISMATCH written={:?} read-back={:?}", a, b);
        }
        for x in a {
            out.push_str(&format!(" {}", x));
        }
    }
    out
}
