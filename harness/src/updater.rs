//! C08 / C09 / C07(PHC): the real `process_messages` loop of the writer thread driven by a scripted
//! message list. Every publication goes through the real `ShmWriter::write` into a segment file and
//! is read back with a real `ShmReader::snapshot` (both results are recorded and must agree).
//!   upd <drift> <n> { r d e o leap interval kind secs nanos phc as_s as_n | m <grace> | p <grace> }*n
//! -> <k> { as_s as_n va_s va_n bound drift status }*k   | panic
//!   updt <drift> <n> { <off_ns> <message as above> }*n : the same, but the realtime clock reads
//!   NOW + off while the corresponding message is processed (one publication per message, so the
//!   clock is moved on after each publication); the report's reference time stays NOW - (secs, nanos).
use crate::bound::{mk_tracking_aged, NOW_N, NOW_S};
use crate::util::*;
use crate::vclock;
use clock_bound_d::channels::new_channel_web;
use clock_bound_d::thread_manager::Context;
use clock_bound_d::verif_shm_writer as dverif;
use clock_bound_d::{ChannelId, Message};
use clock_bound_shm::{ClockErrorBound, ShmReader, ShmWrite, ShmWriter};
use std::cell::RefCell;
use std::rc::Rc;

struct Tee {
    w: ShmWriter,
    r: Option<ShmReader>,
    path: std::ffi::CString,
    log: Rc<RefCell<Vec<(ClockErrorBound, ClockErrorBound)>>>,
    offs: Vec<i64>,
}

impl ShmWrite for Tee {
    fn write(&mut self, ceb: &ClockErrorBound) {
        self.w.write(ceb);
        if self.r.is_none() {
            self.r = Some(ShmReader::new(self.path.as_c_str()).expect("reader after first publication"));
        }
        let snap = *self.r.as_mut().unwrap().snapshot().expect("snapshot");
        self.log.borrow_mut().push((*ceb, snap));
        let k = self.log.borrow().len();
        if k < self.offs.len() {
            set_now_plus(self.offs[k]);
        }
    }
}

fn fields(c: &ClockErrorBound) -> [i64; 7] {
    // ClockErrorBound's fields are private: read them through its documented repr(C) layout
    let p = c as *const ClockErrorBound as *const u8;
    unsafe {
        [
            p.cast::<i64>().read_unaligned(),
            p.add(8).cast::<i64>().read_unaligned(),
            p.add(16).cast::<i64>().read_unaligned(),
            p.add(24).cast::<i64>().read_unaligned(),
            p.add(32).cast::<i64>().read_unaligned(),
            p.add(40).cast::<u32>().read_unaligned() as i64,
            p.add(48).cast::<u32>().read_unaligned() as i64,
        ]
    }
}

fn set_now_plus(off: i64) {
    let t = NOW_S as i128 * 1_000_000_000 + NOW_N as i128 + off as i128;
    vclock::set_real((t.div_euclid(1_000_000_000)) as i64, (t.rem_euclid(1_000_000_000)) as i64);
}

pub fn run(toks: &[&str]) -> String {
    run_with(toks, false)
}

pub fn run_timed(toks: &[&str]) -> String {
    run_with(toks, true)
}

fn run_with(toks: &[&str], timed: bool) -> String {
    let drift: u32 = p(toks[0]);
    let n: usize = p(toks[1]);
    let mut i = 2;
    let (mut mboxes, dbox) = new_channel_web(vec![ChannelId::ClockErrorBoundPoller, ChannelId::ShmWriter, ChannelId::MainThread]);
    let mbox = mboxes.get_mailbox(&ChannelId::ShmWriter).unwrap();
    let _main = mboxes.get_mailbox(&ChannelId::MainThread).unwrap();
    let ctx = Context { mbox, dbox: dbox.clone(), channel_id: ChannelId::ShmWriter };
    vclock::set_real(NOW_S, NOW_N);
    vclock::enable(true);
    let mut offs: Vec<i64> = Vec::new();
    for _ in 0..n {
        if timed {
            offs.push(p(toks[i]));
            i += 1;
        }
        match toks[i] {
            "r" => {
                let v: Vec<i64> = toks[i + 1..i + 12].iter().map(|s| p::<i64>(s)).collect();
                let t = mk_tracking_aged(0, v[3] as u16, v[5], v[6], v[7], v[2] as u32, v[0] as u32, v[1] as u32, v[4] as u32);
                let as_of = libc::timespec { tv_sec: v[9], tv_nsec: v[10] };
                dbox.send(&ChannelId::ShmWriter, Message::ClockErrorBoundData((t, v[8], as_of))).unwrap();
                i += 12;
            }
            "m" => {
                let g: i64 = p(toks[i + 1]);
                let m = if g != 0 { Message::ChronyNotRespondingGracePeriod } else { Message::ChronyNotResponding };
                dbox.send(&ChannelId::ShmWriter, m).unwrap();
                i += 2;
            }
            "p" => {
                let g: i64 = p(toks[i + 1]);
                let m = if g != 0 { Message::PhcErrorBoundRetrievalFailedGracePeriod } else { Message::PhcErrorBoundRetrievalFailed };
                dbox.send(&ChannelId::ShmWriter, m).unwrap();
                i += 2;
            }
            t => panic!("upd: bad message tag {}", t),
        }
    }
    dbox.send(&ChannelId::ShmWriter, Message::ThreadAbort).unwrap();
    let path = scratch_dir().join("upd-segment");
    let _ = std::fs::remove_file(&path);
    let w = ShmWriter::new(&path).expect("ShmWriter::new");
    let log = Rc::new(RefCell::new(Vec::new()));
    if let Some(o) = offs.first() {
        set_now_plus(*o);
    }
    let tee = Tee { w, r: None, path: std::ffi::CString::new(path.to_str().unwrap()).unwrap(), log: log.clone(), offs };
    let r = std::panic::catch_unwind(std::panic::AssertUnwindSafe(|| dverif::run_updater(ctx, tee, drift)));
    vclock::enable(false);
    if r.is_err() {
        return "panic".into();
    }
    let log = log.borrow();
    let mut out = format!("{}", log.len());
    for (sent, read) in log.iter() {
        let (a, b) = (fields(sent), fields(read));
        if a != b {
            return format!("MISMATCH written={:?} read-back={:?}", a, b);
        }
        for x in a {
            out.push_str(&format!(" {}", x));
        }
    }
    out
}
