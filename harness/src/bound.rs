//! C07 / C10: the private `extract_bound_from_tracking` on crafted tracking reports.
//!   bnd delay_word disp_word corr_word                 -> bound
//!   cls leap interval_word kind secs nanos             -> status code
//!       kind 0: reference time is `secs.nanos` in the past; kind 1: in the future
use crate::util::*;
use crate::vclock;
use bytes::BufMut;
use chrony_candm::reply::{Reply, ReplyBody, Tracking};
use clock_bound_d::verif_shm_writer as dverif;

pub const NOW_S: i64 = 1_700_000_000;
pub const NOW_N: i64 = 500_000_000;

/// Build a Tracking by deserialising a crafted reply packet (the only public way to put
/// arbitrary wire words into the private ChronyFloat fields).
/// Every crafted report gets different values in the fields no property lets the daemon depend on
/// (stratum, source address, last/RMS offset, frequency, residual frequency, skew): a chrony float
/// word taken from a small table, the stratum cycling through 1, 2, 3, 10, 15, 0.
/// reference id "any": replaced by one of a table of real-world values, the same for reports that are otherwise equal
pub const ANY_REF: u32 = 0xA11_0000;
static VARIANT: std::sync::atomic::AtomicU32 = std::sync::atomic::AtomicU32::new(0);
const FILL: [u32; 6] = [0, 0x0180_0000, 0xF27F_FFFF, 0x0A12_3456, 0xFE80_0001, 0x7FFF_FFFF];

pub fn mk_tracking(ref_id: u32, leap: u16, ref_s: i64, ref_n: u32, corr: u32, delay: u32, disp: u32, interval: u32) -> Tracking {
    // ... except that a report equal to the one crafted just before in every field that matters gets the same
    // filling again: chronyd repeats its tracking data, bit for bit, until it has a new measurement
    static LAST: std::sync::Mutex<Option<((u32, u16, i64, u32, u32, u32, u32, u32), usize)>> = std::sync::Mutex::new(None);
    let key = (ref_id, leap, ref_s, ref_n, corr, delay, disp, interval);
    let v = {
        let mut last = LAST.lock().unwrap_or_else(|e| e.into_inner());
        match *last {
            Some((k, v)) if k == key => v,
            _ => {
                let v = VARIANT.fetch_add(1, std::sync::atomic::Ordering::SeqCst) as usize;
                *last = Some((key, v));
                v
            }
        }
    };
    let fill = |k: usize| FILL[(v + k) % FILL.len()];
    // where the reference id is of no concern to the code under test (the bound, the classification, the updater:
    // callers pass ANY_REF) it takes the values chronyd really reports, its own local reference among them
    let ref_id = if ref_id == ANY_REF { [0u32, 7, 0x7F7F_0101, 0x4E54_5031, 0x5048_4330, 0xFFFF_FFFF, 0x7F7F_0101][v % 7] } else { ref_id };
    let mut b: Vec<u8> = Vec::with_capacity(128);
    b.put_u8(6);
    b.put_u8(2);
    b.put_u8(0);
    b.put_u8(0);
    b.put_u16(33); // command: tracking
    b.put_u16(5); // reply: tracking
    b.put_u16(0); // status: success
    b.put_u16(0);
    b.put_u16(0);
    b.put_u16(0);
    b.put_u32(0); // sequence
    b.put_u32(0);
    b.put_u32(0);
    // body
    b.put_u32(ref_id);
    b.put_slice(&[(v % 251) as u8; 16]); // address bytes
    b.put_u16(0); // family: unspec
    b.put_u16(0); // padding
    b.put_u16([1u16, 2, 3, 10, 15, 0][v % 6]); // stratum
    b.put_u16(leap);
    b.put_i32((ref_s >> 32) as i32);
    b.put_u32((ref_s & 0xffff_ffff) as u32);
    b.put_u32(ref_n);
    b.put_u32(corr); // current_correction
    b.put_u32(fill(0)); // last_offset
    b.put_u32(fill(1)); // rms_offset
    b.put_u32(fill(2)); // freq_ppm
    b.put_u32(fill(3)); // resid_freq_ppm
    b.put_u32(fill(4)); // skew_ppm
    b.put_u32(delay); // root_delay
    b.put_u32(disp); // root_dispersion
    b.put_u32(interval); // last_update_interval
    let mut s = &b[..];
    match Reply::deserialize(&mut s) {
        Ok(Reply { body: ReplyBody::Tracking(t), .. }) => t,
        other => panic!("crafted tracking packet rejected: {:?}", other),
    }
}

/// Tracking whose reference time lies `secs.nanos` in the past (kind 0) or future (kind 1) of the
/// virtual realtime clock NOW.
#[allow(clippy::too_many_arguments)]
pub fn mk_tracking_aged(ref_id: u32, leap: u16, kind: i64, secs: i64, nanos: i64, corr: u32, delay: u32, disp: u32, interval: u32) -> Tracking {
    let d = secs as i128 * 1_000_000_000 + nanos as i128;
    let now = NOW_S as i128 * 1_000_000_000 + NOW_N as i128;
    let r = if kind == 0 { now - d } else { now + d };
    let (rs, rn) = (r.div_euclid(1_000_000_000) as i64, r.rem_euclid(1_000_000_000) as u32);
    mk_tracking(ref_id, leap, rs, rn, corr, delay, disp, interval)
}

pub fn run_bnd(toks: &[&str]) -> String {
    let delay: u32 = p(toks[0]);
    let disp: u32 = p(toks[1]);
    let corr: u32 = p(toks[2]);
    vclock::set_real(NOW_S, NOW_N);
    vclock::enable(true);
    let t = mk_tracking(ANY_REF, 0, NOW_S, NOW_N as u32, corr, delay, disp, 0);
    let r = std::panic::catch_unwind(|| dverif::extract_bound(t));
    vclock::enable(false);
    match r {
        Ok((b, _)) => format!("{}", b),
        Err(_) => "panic".into(),
    }
}

pub fn run_cls(toks: &[&str]) -> String {
    let leap: u16 = p(toks[0]);
    let interval: u32 = p(toks[1]);
    let kind: i64 = p(toks[2]);
    let secs: i64 = p(toks[3]);
    let nanos: i64 = p(toks[4]);
    let d = secs as i128 * 1_000_000_000 + nanos as i128;
    let now = NOW_S as i128 * 1_000_000_000 + NOW_N as i128;
    let r = if kind == 0 { now - d } else { now + d };
    let (rs, rn) = (r.div_euclid(1_000_000_000) as i64, r.rem_euclid(1_000_000_000) as u32);
    vclock::set_real(NOW_S, NOW_N);
    vclock::enable(true);
    let t = mk_tracking(ANY_REF, leap, rs, rn, 0, 0, 0, interval);
    let r = std::panic::catch_unwind(|| dverif::extract_bound(t));
    vclock::enable(false);
    match r {
        Ok((_, s)) => format!("{}", s),
        Err(_) => "panic".into(),
    }
}
