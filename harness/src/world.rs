//! C01: the whole pipeline in one process under a virtual clock: fake chronyd -> real polling
//! loop (real chrony UDS client) -> real process_messages / ShmUpdater / FSM -> real ShmWriter ->
//! segment file -> real ClockBoundClient::now().  Must run inside a private mount namespace.
//!   wld <drift_ppb> <cfg_refid|-1> <n> items...
//!     P t mode d e phc refid leap interval kind age_s age_n corr delay disp   one poll iteration (see poller.rs)
//!     C real1 mono1 real2 mono2                                             one client call: the first clock read of the
//!                                                                           call (whichever clock it is) sees (real1, mono1),
//!                                                                           every later read sees (real2, mono2) - time
//!                                                                           passes between the two reads of now()
//!     R t                                                                   daemon restart at time t (threads end, new ones start at the next P)
//!     K t                                                                   the daemon dies at time t in the middle of a publication: its threads are gone and
//!                                                                           the segment is left as write() leaves it after the odd generation store and the
//!                                                                           as-of field of the record it was storing (as-of = t); everything else is the old record
//!     F                                                                     the client process is replaced by a new one (attaches at its next call)
//!     N t                                                                   a new daemon process starts at time t over the segment as it is (ShmWriter::new) and dies
//!                                                                           before it has published anything
//! -> per P: `p:<as_s>:<as_n>:<va_s>:<va_n>:<bound>:<drift>:<status>` (record in the segment after the iteration)
//!    per C: `c:<result of ClockBoundClient::now()>:<order of the clock reads, R = realtime, M = monotonic>`;  per R: `r`; per K: `k`; per F: `f`;  last: ORDER:...
use crate::util::*;
use crate::vclock;
use bytes::BytesMut;
use chrony_candm::reply::{Reply, ReplyBody, Status};
use chrony_candm::request::Request;
use clock_bound_client::{ClockBoundClient, ClockBoundErrorKind};
use clock_bound_d::channels::new_channel_web;
use clock_bound_d::thread_manager::Context;
use clock_bound_d::{verif_chrony_poller as pverif, verif_shm_writer as wverif};
use clock_bound_d::{ChannelId, Message, PhcInfo};
use clock_bound_shm::{ClockErrorBound, ShmWrite, ShmWriter};
use std::os::unix::net::UnixDatagram;
use std::sync::atomic::{AtomicBool, AtomicI64, AtomicUsize, Ordering::SeqCst};
use std::sync::mpsc::{channel, Sender};
use std::sync::{Arc, Mutex};
use std::time::Duration;

const SOCK: &str = "/var/run/chrony/chronyd.sock";
const HIDDEN: &str = "/var/run/chrony/chronyd.sock.hidden";
const NS: i64 = 1_000_000_000;
const REAL_OFFSET: i64 = 1_600_000_000 * NS;

#[derive(Clone, Copy, Default)]
struct Step {
    t: i64,
    mode: i64,
    d: i64,
    e: i64,
    phc: i64,
    refid: u32,
    leap: u16,
    interval: u32,
    kind: i64,
    age_s: i64,
    age_n: i64,
    corr: u32,
    delay: u32,
    disp: u32,
}

struct Shared {
    cur: Mutex<Option<Step>>,
    applied: AtomicBool,
    coarse_seen: AtomicBool,
    mono_reads: AtomicI64,
    order_bad: AtomicUsize, // 0 = ok, k+1 = bad at poll k
    polls: AtomicUsize,
    phc_path: std::path::PathBuf,
    /// a client call in progress: (thread id, realtime and monotonic values for the reads after the
    /// first one, clocks read so far)
    call: Mutex<Option<(i64, i64, i64, String)>>,
}

fn set_time_ns(ns: i64) {
    vclock::set_mono(ns.div_euclid(NS), ns.rem_euclid(NS));
    let r = ns + REAL_OFFSET;
    vclock::set_real(r.div_euclid(NS), r.rem_euclid(NS));
}
fn mono_ns() -> i64 {
    let (s, n) = vclock::get_mono();
    s * NS + n
}

fn apply(sh: &Shared) {
    if sh.applied.swap(true, SeqCst) {
        return;
    }
    sh.mono_reads.store(0, SeqCst);
    let s = match *sh.cur.lock().unwrap() {
        Some(s) => s,
        None => return,
    };
    set_time_ns(s.t);
    if s.mode == 3 {
        let _ = std::fs::rename(SOCK, HIDDEN);
    } else {
        let _ = std::fs::rename(HIDDEN, SOCK);
    }
    if s.phc < 0 {
        let _ = std::fs::remove_file(&sh.phc_path);
        let _ = std::fs::remove_dir(&sh.phc_path);
        if s.phc == -2 {
            // an attribute that can be opened but not read (read(2) on a directory fails with EISDIR)
            let _ = std::fs::create_dir(&sh.phc_path);
        }
    } else {
        let _ = std::fs::remove_dir(&sh.phc_path);
        std::fs::write(&sh.phc_path, format!("{}\n", s.phc)).expect("phc file");
    }
}

struct Daemon {
    dbox: clock_bound_d::channels::DispatchBox<ChannelId, Message>,
    poller: std::thread::JoinHandle<()>,
    writer: std::thread::JoinHandle<()>,
    _main_mbox: std::sync::mpsc::Receiver<Message>,
}

fn start_daemon(path: &std::path::Path, drift: u32, phc_info: Option<PhcInfo>, pub_tx: Sender<()>) -> Daemon {
    let (mut mboxes, dbox) = new_channel_web(vec![ChannelId::ClockErrorBoundPoller, ChannelId::ShmWriter, ChannelId::MainThread]);
    let pmbox = mboxes.get_mailbox(&ChannelId::ClockErrorBoundPoller).unwrap();
    let wmbox = mboxes.get_mailbox(&ChannelId::ShmWriter).unwrap();
    let main_mbox = mboxes.get_mailbox(&ChannelId::MainThread).unwrap();
    let pctx = Context { mbox: pmbox, dbox: dbox.clone(), channel_id: ChannelId::ClockErrorBoundPoller };
    let wctx = Context { mbox: wmbox, dbox: dbox.clone(), channel_id: ChannelId::ShmWriter };
    let w = ShmWriter::new(path).expect("ShmWriter::new");
    // The updater owns the real writer (no wrapper: whatever it asks of its writer reaches the real one).
    // The coordinator learns of a publication from the shim's controller on the writer thread, which
    // performs the closing (even) generation store itself and then tells it.
    struct SendW(ShmWriter);
    unsafe impl Send for SendW {}
    let nw = SendW(w);
    let writer = std::thread::spawn(move || {
        let nw = nw;
        let tx = pub_tx;
        clock_bound_shm::verif::install(Some(Box::new(move |a: &clock_bound_shm::verif::Access| {
            if let clock_bound_shm::verif::Access::Store16 { addr, ord, val } = a {
                if *val != 0 && *val % 2 == 0 {
                    unsafe { (*(*addr as *const std::sync::atomic::AtomicU16)).store(*val, *ord) };
                    let _ = tx.send(());
                    return clock_bound_shm::verif::Reply::Skip;
                }
            }
            clock_bound_shm::verif::Reply::Pass
        })));
        wverif::run_updater(wctx, nw.0, drift);
        clock_bound_shm::verif::install(None);
    });
    let poller = std::thread::spawn(move || {
        pverif::run_poller(pctx, phc_info, Duration::from_secs(1_000_000_000)); // woken by messages only: virtual time jumps must not end the wait
    });
    Daemon { dbox, poller, writer, _main_mbox: main_mbox }
}

fn stop_daemon(d: Daemon) {
    let _ = d.dbox.send(&ChannelId::ClockErrorBoundPoller, Message::ThreadAbort);
    let _ = d.dbox.send(&ChannelId::ShmWriter, Message::ThreadAbort);
    let _ = d.poller.join();
    let _ = d.writer.join();
}

/// wait for a publication without consulting the (virtual) clock: poll + nanosleep
fn wait_real(rx: &std::sync::mpsc::Receiver<()>, ms: u64) -> bool {
    for _ in 0..ms * 2 {
        if rx.try_recv().is_ok() {
            return true;
        }
        std::thread::sleep(Duration::from_micros(500));
    }
    false
}

fn record_in_file(path: &std::path::Path) -> String {
    match std::fs::read(path) {
        Ok(b) if b.len() >= 72 => {
            let q = |o: usize| i64::from_ne_bytes(b[o..o + 8].try_into().unwrap());
            let u = |o: usize| u32::from_ne_bytes(b[o..o + 4].try_into().unwrap());
            format!("p:{}:{}:{}:{}:{}:{}:{}", q(16), q(24), q(32), q(40), q(48), u(56), u(64))
        }
        _ => "p:nofile".into(),
    }
}

pub fn run(toks: &[&str]) -> String {
    let drift: u32 = p(toks[0]);
    let cfg_refid: i64 = p(toks[1]);
    let n: usize = p(toks[2]);
    std::fs::create_dir_all("/var/run/chrony").expect("/var/run/chrony (run the harness inside the private namespace)");
    let _ = std::fs::remove_file(SOCK);
    let _ = std::fs::remove_file(HIDDEN);
    let srv = UnixDatagram::bind(SOCK).expect("bind fake chronyd");
    srv.set_read_timeout(Some(Duration::from_millis(50))).unwrap();
    let phc_path = scratch_dir().join("phc_error_bound_world");
    let seg_path = scratch_dir().join("world-segment");
    let _ = std::fs::remove_file(&seg_path);
    let sh = Arc::new(Shared {
        cur: Mutex::new(None),
        applied: AtomicBool::new(true),
        coarse_seen: AtomicBool::new(false),
        mono_reads: AtomicI64::new(0),
        order_bad: AtomicUsize::new(0),
        polls: AtomicUsize::new(0),
        phc_path: phc_path.clone(),
        call: Mutex::new(None),
    });
    let stop = Arc::new(AtomicBool::new(false));
    let (sh2, stop2) = (sh.clone(), stop.clone());
    let server = std::thread::spawn(move || {
        let mut buf = [0u8; 1500];
        while !stop2.load(SeqCst) {
            let (len, from) = match srv.recv_from(&mut buf) {
                Ok(x) => x,
                Err(_) => continue,
            };
            if !sh2.coarse_seen.load(SeqCst) && sh2.order_bad.load(SeqCst) == 0 {
                sh2.order_bad.store(sh2.polls.load(SeqCst) + 1, SeqCst);
            }
            apply(&sh2);
            let s = match *sh2.cur.lock().unwrap() {
                Some(s) => s,
                None => continue,
            };
            let mut b = &buf[..len];
            let req = match Request::deserialize(&mut b) {
                Ok(r) => r,
                Err(_) => continue,
            };
            set_time_ns(mono_ns() + s.d);
            let path = match from.as_pathname() {
                Some(p) => p.to_owned(),
                None => continue,
            };
            if s.mode == 2 {
                let _ = srv.send_to(&[1, 2, 3], &path);
                continue;
            }
            // reference time relative to the realtime clock at the instant of the reply
            let (rs, rn) = vclock::get_real();
            let t = mk_tracking_at(rs, rn, &s);
            let seq = if s.mode == 0 { req.sequence ^ 1 } else { req.sequence };
            let reply = Reply { status: Status::Success, cmd: 33, sequence: seq, body: ReplyBody::Tracking(t) };
            let mut out = BytesMut::with_capacity(reply.length());
            reply.serialize(&mut out);
            let _ = srv.send_to(&out, &path);
        }
    });

    let sh3 = sh.clone();
    vclock::set_hook(Some(Box::new(move |clk| {
        {
            let mut call = sh3.call.lock().unwrap();
            if let Some((tid, real2, mono2, reads)) = call.as_mut() {
                if vclock::gettid() == *tid {
                    if reads.len() == 1 {
                        // the first read of now() is over: time has passed before the second one
                        vclock::set_real(real2.div_euclid(NS), real2.rem_euclid(NS));
                        vclock::set_mono(mono2.div_euclid(NS), mono2.rem_euclid(NS));
                    }
                    reads.push(if clk == libc::CLOCK_REALTIME { 'R' } else { 'M' });
                    return;
                }
            }
        }
        if clk == libc::CLOCK_MONOTONIC_COARSE {
            sh3.coarse_seen.store(true, SeqCst);
            apply(&sh3);
        } else if clk == libc::CLOCK_MONOTONIC {
            if !sh3.applied.load(SeqCst) {
                return;
            }
            let s = match *sh3.cur.lock().unwrap() {
                Some(s) => s,
                None => return,
            };
            let k = sh3.mono_reads.fetch_add(1, SeqCst) + 1;
            let grace_read = if s.mode == 1 { 2 } else { 1 };
            if k == grace_read {
                let extra = s.e + if s.mode == 3 { s.d } else { 0 };
                if extra != 0 {
                    set_time_ns(mono_ns() + extra);
                }
            }
        }
    })));
    vclock::only_thread(0);
    vclock::enable(true);

    let phc_info = if cfg_refid >= 0 { Some(PhcInfo { refid: cfg_refid as u32, sysfs_error_bound_path: phc_path.clone() }) } else { None };
    let (pub_tx, pub_rx) = channel::<()>();
    let mut daemon: Option<Daemon> = None;
    let mut client: Option<ClockBoundClient> = None;
    let mut out: Vec<String> = Vec::new();
    let mut i = 3;
    for _ in 0..n {
        match toks[i] {
            "P" => {
                let v: Vec<i64> = toks[i + 1..i + 15].iter().map(|s| p::<i64>(s)).collect();
                i += 15;
                let s = Step { t: v[0], mode: v[1], d: v[2], e: v[3], phc: v[4], refid: v[5] as u32, leap: v[6] as u16, interval: v[7] as u32,
                               kind: v[8], age_s: v[9], age_n: v[10], corr: v[11] as u32, delay: v[12] as u32, disp: v[13] as u32 };
                *sh.cur.lock().unwrap() = Some(s);
                sh.coarse_seen.store(false, SeqCst);
                sh.applied.store(false, SeqCst);
                match &daemon {
                    None => {
                        // the poller's ClockErrorBoundPoller::default() reads the clock at thread start:
                        // a (re)started daemon starts at the time of its first iteration
                        set_time_ns(s.t);
                        daemon = Some(start_daemon(&seg_path, drift, phc_info.clone(), pub_tx.clone()));
                    }
                    Some(d) => {
                        let _ = d.dbox.send(&ChannelId::ClockErrorBoundPoller, Message::ChronyNotRespondingGracePeriod);
                    }
                }
                if !wait_real(&pub_rx, 20_000) {
                    out.push("p:TIMEOUT".into());
                    break;
                }
                sh.polls.fetch_add(1, SeqCst);
                out.push(record_in_file(&seg_path));
            }
            "C" => {
                let real: i64 = p(toks[i + 1]);
                let mono: i64 = p(toks[i + 2]);
                let real2: i64 = p(toks[i + 3]);
                let mono2: i64 = p(toks[i + 4]);
                i += 5;
                *sh.cur.lock().unwrap() = None;
                if client.is_none() {
                    vclock::set_real(real.div_euclid(NS), real.rem_euclid(NS));
                    vclock::set_mono(mono.div_euclid(NS), mono.rem_euclid(NS));
                    client = ClockBoundClient::new_with_path(seg_path.to_str().unwrap()).ok();
                }
                vclock::set_real(real.div_euclid(NS), real.rem_euclid(NS));
                vclock::set_mono(mono.div_euclid(NS), mono.rem_euclid(NS));
                *sh.call.lock().unwrap() = Some((vclock::gettid(), real2, mono2, String::new()));
                let s = match client.as_mut() {
                    None => "c:noclient".to_string(),
                    Some(c) => match std::panic::catch_unwind(std::panic::AssertUnwindSafe(|| c.now())) {
                        Err(_) => "c:panic".to_string(),
                        Ok(Err(e)) => format!("c:err:{}", match e.kind {
                            ClockBoundErrorKind::Syscall => "syscall",
                            ClockBoundErrorKind::SegmentNotInitialized => "notinit",
                            ClockBoundErrorKind::SegmentMalformed => "malformed",
                            ClockBoundErrorKind::CausalityBreach => "causality",
                        }),
                        Ok(Ok(r)) => {
                            let e: libc::timespec = *r.earliest.as_ref();
                            let l: libc::timespec = *r.latest.as_ref();
                            format!("c:ok:{}:{}:{}", e.tv_sec * NS + e.tv_nsec, l.tv_sec * NS + l.tv_nsec, r.clock_status as i64)
                        }
                    },
                };
                let order = sh.call.lock().unwrap().take().map(|c| c.3).unwrap_or_default();
                out.push(format!("{}:{}", s, if order.is_empty() { "-".to_string() } else { order }));
            }
            "K" => {
                let t: i64 = p(toks[i + 1]);
                i += 2;
                *sh.cur.lock().unwrap() = None;
                if let Some(d) = daemon.take() {
                    stop_daemon(d);
                }
                while pub_rx.try_recv().is_ok() {}
                set_time_ns(t);
                if seg_path.exists() {
                    let map = RawMap::open(&seg_path, 72);
                    let g = map.u16_at(OFF_GENERATION);
                    if g != 0 {
                        map.set_u16(OFF_GENERATION, g | 1);
                        let ts = libc::timespec { tv_sec: t.div_euclid(NS), tv_nsec: t.rem_euclid(NS) };
                        unsafe { std::ptr::copy_nonoverlapping(&ts as *const libc::timespec as *const u8, map.base.add(OFF_RECORD), 16) };
                    }
                }
                out.push("k".into());
            }
            "F" => {
                i += 1;
                client = None;
                out.push("f".into());
            }
            "N" => {
                let t: i64 = p(toks[i + 1]);
                i += 2;
                set_time_ns(t);
                if daemon.is_none() {
                    drop(ShmWriter::new(&seg_path).expect("ShmWriter::new"));
                }
                out.push("n".into());
            }
            "R" => {
                let t: i64 = p(toks[i + 1]);
                i += 2;
                *sh.cur.lock().unwrap() = None;
                if let Some(d) = daemon.take() {
                    stop_daemon(d);
                }
                while pub_rx.try_recv().is_ok() {}
                set_time_ns(t);
                out.push("r".into());
            }
            t => panic!("wld: bad item {}", t),
        }
    }
    *sh.cur.lock().unwrap() = None;
    if let Some(d) = daemon.take() {
        stop_daemon(d);
    }
    vclock::enable(false);
    vclock::set_hook(None);
    stop.store(true, SeqCst);
    let _ = server.join();
    let _ = std::fs::remove_file(SOCK);
    let _ = std::fs::remove_file(HIDDEN);
    let _ = std::fs::remove_file(&seg_path);
    out.push(match sh.order_bad.load(SeqCst) {
        0 => "ORDER:ok".to_string(),
        k => format!("ORDER:query-before-read@{}", k - 1),
    });
    out.join(" ")
}

fn mk_tracking_at(real_s: i64, real_n: i64, s: &Step) -> chrony_candm::reply::Tracking {
    // reference time = realtime clock at the reply -/+ the scripted age
    let now = real_s as i128 * NS as i128 + real_n as i128;
    let d = s.age_s as i128 * NS as i128 + s.age_n as i128;
    let r = if s.kind == 0 { now - d } else { now + d };
    crate::bound::mk_tracking(s.refid, s.leap, r.div_euclid(NS as i128) as i64, r.rem_euclid(NS as i128) as u32, s.corr, s.delay, s.disp, s.interval)
}

