//! C16 / C17: opening segment files through the public APIs and repairing them with the daemon's
//! writer.
//!   seg <path> real_s real_n mono_s mono_n  -> O:<open result of ShmReader::new> K:<ClockBoundClient::new_with_path> N:<now()>
//!   wrt <path> as_s as_n va_s va_n bound drift status -> W:ok R:<record a fresh reader obtains> | W:err:<io error kind>
use crate::util::*;
use crate::vclock;
use clock_bound_client::{ClockBoundClient, ClockBoundErrorKind};
use clock_bound_shm::{ShmError, ShmReader, ShmWrite, ShmWriter};

fn origin(s: &str) -> String {
    s.replace(' ', "_")
}

fn shm_err(e: ShmError) -> String {
    match e {
        ShmError::SegmentNotInitialized => "notinit:0:".into(),
        ShmError::SegmentMalformed => "malformed:0:".into(),
        ShmError::CausalityBreach => "causality:0:".into(),
        ShmError::SyscallError(en, o) => format!("syscall:{}:{}", en.0, origin(o.to_str().unwrap_or("?"))),
    }
}

fn cb_err(e: clock_bound_client::ClockBoundError) -> String {
    let k = match e.kind {
        ClockBoundErrorKind::Syscall => "syscall",
        ClockBoundErrorKind::SegmentNotInitialized => "notinit",
        ClockBoundErrorKind::SegmentMalformed => "malformed",
        ClockBoundErrorKind::CausalityBreach => "causality",
    };
    format!("{}:{}:{}", k, e.errno.0, origin(&e.detail))
}

/// the status word of the record in the file must be a valid discriminant before the record may be
/// copied into a typed value
fn status_word_valid(path: &str) -> bool {
    match std::fs::read(path) {
        Ok(b) if b.len() >= 68 => u32::from_ne_bytes([b[64], b[65], b[66], b[67]]) <= 2,
        Ok(_) => true, // beyond EOF the mapping reads as zeros
        Err(_) => true,
    }
}

pub fn run_seg(toks: &[&str]) -> String {
    let path = toks[0];
    let t: Vec<i64> = toks[1..5].iter().map(|s| p::<i64>(s)).collect();
    let cpath = std::ffi::CString::new(path).unwrap();
    // whatever an earlier, unrelated system call of this thread left in errno must not show in the
    // outcome: errno only means something after a call that failed
    static CASE: std::sync::atomic::AtomicUsize = std::sync::atomic::AtomicUsize::new(0);
    let stale = [libc::EINTR, libc::EAGAIN, libc::EINTR, libc::ENOENT, libc::EINTR, 0][CASE.fetch_add(1, std::sync::atomic::Ordering::SeqCst) % 6];
    unsafe { *libc::__errno_location() = stale };
    let o = match std::panic::catch_unwind(|| ShmReader::new(cpath.as_c_str()).map(|_| ())) {
        Ok(Ok(())) => "ok".to_string(),
        Ok(Err(e)) => shm_err(e),
        Err(_) => "panic".into(),
    };
    let safe = status_word_valid(path);
    unsafe { *libc::__errno_location() = stale };
    let (k, n) = match std::panic::catch_unwind(|| ClockBoundClient::new_with_path(path)) {
        Err(_) => ("panic".to_string(), "-".to_string()),
        Ok(Err(e)) => (cb_err(e), "-".to_string()),
        Ok(Ok(mut c)) => {
            if !safe {
                ("ok".to_string(), "skip".to_string())
            } else {
                vclock::set_real(t[0], t[1]);
                vclock::set_mono(t[2], t[3]);
                vclock::sleep_advances(true);
                vclock::enable(true);
                let r = std::panic::catch_unwind(std::panic::AssertUnwindSafe(|| c.now()));
                vclock::enable(false);
                vclock::sleep_advances(false);
                let n = match r {
                    Err(_) => "panic".to_string(),
                    Ok(Err(e)) => cb_err(e),
                    Ok(Ok(n)) => {
                        let e: libc::timespec = *n.earliest.as_ref();
                        let l: libc::timespec = *n.latest.as_ref();
                        format!("ok:{}:{}:{}:{}:{}", e.tv_sec, e.tv_nsec, l.tv_sec, l.tv_nsec, n.clock_status as i64)
                    }
                };
                ("ok".to_string(), n)
            }
        }
    };
    format!("O:{} K:{} N:{}", o, k, n)
}

/// sgo <path> real_s real_n mono_s mono_n <what> : a client attaches; before its first call the header changes
/// under it (1: the generation turns odd, 2: the version reads 0, 3: the generation reads 0); it has no
/// snapshot yet, so it answers from the empty record.  -> K:<open result> N:<now result>
pub fn run_sgo(toks: &[&str]) -> String {
    use std::os::unix::fs::FileExt;
    let path = toks[0];
    let t: Vec<i64> = toks[1..6].iter().map(|s| p::<i64>(s)).collect();
    let (k, n) = match std::panic::catch_unwind(|| ClockBoundClient::new_with_path(path)) {
        Err(_) => ("panic".to_string(), "-".to_string()),
        Ok(Err(e)) => (cb_err(e), "-".to_string()),
        Ok(Ok(mut c)) => {
            let f = std::fs::OpenOptions::new().read(true).write(true).open(path).expect("segment file");
            let mut g = [0u8; 2];
            f.read_exact_at(&mut g, 14).expect("generation");
            match t[4] {
                1 => f.write_all_at(&(u16::from_ne_bytes(g) | 1).to_ne_bytes(), 14).expect("poke"),
                2 => f.write_all_at(&[0, 0], 12).expect("poke"),
                3 => f.write_all_at(&[0, 0], 14).expect("poke"),
                _ => (),
            }
            vclock::set_real(t[0], t[1]);
            vclock::set_mono(t[2], t[3]);
            vclock::sleep_advances(true);
            vclock::enable(true);
            let r = std::panic::catch_unwind(std::panic::AssertUnwindSafe(|| c.now()));
            vclock::enable(false);
            vclock::sleep_advances(false);
            let n = match r {
                Err(_) => "panic".to_string(),
                Ok(Err(e)) => cb_err(e),
                Ok(Ok(n)) => {
                    let e: libc::timespec = *n.earliest.as_ref();
                    let l: libc::timespec = *n.latest.as_ref();
                    format!("ok:{}:{}:{}:{}:{}", e.tv_sec, e.tv_nsec, l.tv_sec, l.tv_nsec, n.clock_status as i64)
                }
            };
            ("ok".to_string(), n)
        }
    };
    format!("K:{} N:{}", k, n)
}

/// pubs <n> { as_s as_n va_s va_n bound drift status }*n : n publications through the real writer (no shim),
/// a client that attached after the first one calling snapshot() after each, and a client that attaches
/// afresh after each.  -> per publication  L:<record the long-lived client obtained> F:<record the fresh one obtained>
pub fn run_pubs(toks: &[&str]) -> String {
    static SEQ: std::sync::atomic::AtomicUsize = std::sync::atomic::AtomicUsize::new(0);
    let n: usize = p(toks[0]);
    let path = scratch_dir().join(format!("pubs-{}", SEQ.fetch_add(1, std::sync::atomic::Ordering::SeqCst)));
    let _ = std::fs::remove_file(&path);
    let mut w = match ShmWriter::new(&path) {
        Ok(w) => w,
        Err(e) => return format!("W:err:{:?}", e.kind()),
    };
    let cpath = std::ffi::CString::new(path.to_str().unwrap()).unwrap();
    let mut long_lived: Option<ShmReader> = None;
    let show = |r: &mut ShmReader| match r.snapshot() {
        Err(e) => format!("snapshot-failed:{}", shm_err(e)),
        Ok(c) => {
            let v = crate::engine::cells_of(c);
            format!("{}:{}:{}:{}:{}:{}:{}", v[0], v[1], v[2], v[3], v[4], v[5] & 0xffff_ffff, v[6])
        }
    };
    let mut out = Vec::new();
    for k in 0..n {
        let t: Vec<i64> = toks[1 + 7 * k..8 + 7 * k].iter().map(|s| p::<i64>(s)).collect();
        w.write(&crate::client::mk_ceb(&t));
        if long_lived.is_none() {
            long_lived = ShmReader::new(cpath.as_c_str()).ok();
        }
        let l = match long_lived.as_mut() {
            Some(r) => show(r),
            None => "open-failed".to_string(),
        };
        let f = match ShmReader::new(cpath.as_c_str()) {
            Ok(mut r) => show(&mut r),
            Err(e) => format!("open-failed:{}", shm_err(e)),
        };
        out.push(format!("L:{} F:{}", l, f));
    }
    drop(long_lived);
    drop(w);
    let _ = std::fs::remove_file(&path);
    out.join(" ")
}

/// lng <dir> <n> real_s real_n mono_s mono_n : the segment <dir>/shm reached through a path of exactly n bytes
/// (the separator before the file name repeated), as `seg`
pub fn padded_path(dir: &str, n: usize) -> String {
    let pad = n.saturating_sub(dir.len() + 3).max(1);
    format!("{}{}shm", dir, "/".repeat(pad))
}
pub fn run_lng(toks: &[&str]) -> String {
    let path = padded_path(toks[0], p(toks[1]));
    let mut t2: Vec<&str> = vec![&path];
    t2.extend_from_slice(&toks[2..6]);
    format!("len:{} {}", path.len(), run_seg(&t2))
}

/// pubr <n1> <cut> <n2> <mask> <ver> { record }*(n1+n2) : a daemon publishes n1 records and goes away; the file is cut to <cut>
/// bytes (72: left whole); a second daemon starts over it and publishes n2 records.  A client attached after the first
/// publication calls snapshot() after every publication of the first daemon, and after publication j (0-based) of the
/// second one iff bit j of <mask> is set, and after the last one; a fresh client attaches at the end.  No shim.
/// -> L<k>:<record> per look (k = number of publications so far, both daemons together) ... F:<record>
pub fn run_pubr(toks: &[&str]) -> String {
    static SEQ: std::sync::atomic::AtomicUsize = std::sync::atomic::AtomicUsize::new(0);
    let (n1, cut, n2, mask): (usize, u64, usize, u64) = (p(toks[0]), p(toks[1]), p(toks[2]), p(toks[3]));
    // <ver>: the layout version the header carries while the client attaches (the first daemon's publications leave it
    // alone; a daemon that takes the segment over stamps its own)
    let ver: u16 = p(toks[4]);
    let toks = &toks[1..];
    let path = scratch_dir().join(format!("pubr-{}", SEQ.fetch_add(1, std::sync::atomic::Ordering::SeqCst)));
    let _ = std::fs::remove_file(&path);
    let cpath = std::ffi::CString::new(path.to_str().unwrap()).unwrap();
    let rec = |k: usize| {
        let t: Vec<i64> = toks[4 + 7 * k..11 + 7 * k].iter().map(|s| p::<i64>(s)).collect();
        crate::client::mk_ceb(&t)
    };
    let show = |r: &mut ShmReader| match r.snapshot() {
        Err(e) => format!("snapshot-failed:{}", shm_err(e)),
        Ok(c) => {
            let v = crate::engine::cells_of(c);
            format!("{}:{}:{}:{}:{}:{}:{}", v[0], v[1], v[2], v[3], v[4], v[5] & 0xffff_ffff, v[6])
        }
    };
    let mut out = Vec::new();
    let mut long_lived: Option<ShmReader> = None;
    {
        let mut w = match ShmWriter::new(&path) {
            Ok(w) => w,
            Err(e) => return format!("W:err:{:?}", e.kind()),
        };
        for k in 0..n1 {
            w.write(&rec(k));
            if long_lived.is_none() {
                if ver != 1 {
                    use std::os::unix::fs::FileExt;
                    let f = std::fs::OpenOptions::new().write(true).open(&path).expect("segment file");
                    f.write_all_at(&ver.to_ne_bytes(), 12).expect("poke version");
                }
                long_lived = ShmReader::new(cpath.as_c_str()).ok();
            }
            out.push(match long_lived.as_mut() {
                Some(r) => format!("L{}:{}", k + 1, show(r)),
                None => format!("L{}:open-failed", k + 1),
            });
        }
    }
    if cut < 72 {
        if let Ok(f) = std::fs::OpenOptions::new().write(true).open(&path) {
            let _ = f.set_len(cut);
        }
    }
    let mut w = match std::panic::catch_unwind(|| ShmWriter::new(&path)) {
        Ok(Ok(w)) => w,
        Ok(Err(e)) => return format!("{} W2:err:{:?}", out.join(" "), e.kind()),
        Err(_) => return format!("{} W2:panic", out.join(" ")),
    };
    for j in 0..n2 {
        w.write(&rec(n1 + j));
        if mask >> j & 1 == 1 || j + 1 == n2 {
            out.push(match long_lived.as_mut() {
                Some(r) => format!("L{}:{}", n1 + j + 1, show(r)),
                None => format!("L{}:open-failed", n1 + j + 1),
            });
        }
    }
    out.push(match ShmReader::new(cpath.as_c_str()) {
        Ok(mut r) => format!("F:{}", show(&mut r)),
        Err(e) => format!("F:open-failed:{}", shm_err(e)),
    });
    drop(long_lived);
    drop(w);
    let _ = std::fs::remove_file(&path);
    out.join(" ")
}

/// wrn <path> real_s real_n mono_s mono_n : a daemon starts over the file (ShmWriter::new) and has not published
/// anything yet; a client attaches now and calls.  -> W:ok|W:err:<kind> then as `seg`
pub fn run_wrn(toks: &[&str]) -> String {
    let w = std::panic::catch_unwind(|| ShmWriter::new(std::path::Path::new(toks[0])));
    let w = match w {
        Err(_) => return "W:panic".into(),
        Ok(Err(e)) => return format!("W:err:{:?}", e.kind()),
        Ok(Ok(w)) => w,
    };
    let out = format!("W:ok {}", run_seg(toks));
    drop(w);
    out
}

pub fn run_wrt(toks: &[&str]) -> String {
    let path = toks[0];
    let t: Vec<i64> = toks[1..8].iter().map(|s| p::<i64>(s)).collect();
    let rec = crate::client::mk_ceb(&t);
    let w = std::panic::catch_unwind(|| ShmWriter::new(std::path::Path::new(path)));
    let mut w = match w {
        Err(_) => return "W:panic".into(),
        Ok(Err(e)) => return format!("W:err:{:?}", e.kind()),
        Ok(Ok(w)) => w,
    };
    w.write(&rec);
    drop(w);
    let cpath = std::ffi::CString::new(path).unwrap();
    match ShmReader::new(cpath.as_c_str()) {
        Err(e) => format!("W:ok R:open-failed:{}", shm_err(e)),
        Ok(mut r) => match r.snapshot() {
            Err(e) => format!("W:ok R:snapshot-failed:{}", shm_err(e)),
            Ok(c) => {
                let v = crate::engine::cells_of(c);
                // cells: as_s as_n va_s va_n bound (drift | reserved << 32) status
                format!("W:ok R:{}:{}:{}:{}:{}:{}:{}", v[0], v[1], v[2], v[3], v[4], v[5] & 0xffff_ffff, v[6])
            }
        },
    }
}
