/* C17: the C client library exactly as clockbound.h declares it, under a virtual clock.
 *   seg <path> real_s real_n mono_s mono_n   ->  K:<open result> N:<now result>
 *   siz                                       ->  sizes and offsets of the public structs
 * Built by the check with: gcc cdriver.c -I<repo>/clock-bound-ffi/include -L<target> -lclockbound -rdynamic
 * This program defines clock_gettime, which takes precedence over libc's for libclockbound.so too. */
#define _GNU_SOURCE
#include <stddef.h>
#include <stdio.h>
#include <stdlib.h>
#include <string.h>
#include <time.h>
#include <unistd.h>
#include <sys/syscall.h>
#include "clockbound.h"

static int vclock_on = 0;
static struct timespec v_real, v_mono;

int clock_gettime(clockid_t clk, struct timespec *ts) {
    if (!vclock_on) return (int)syscall(SYS_clock_gettime, clk, ts);
    if (clk == CLOCK_MONOTONIC || clk == CLOCK_MONOTONIC_COARSE || clk == CLOCK_MONOTONIC_RAW || clk == CLOCK_BOOTTIME) *ts = v_mono;
    else *ts = v_real;
    return 0;
}

static const char *kind_name(clockbound_err_kind k) {
    switch (k) {
    case CLOCKBOUND_ERR_NONE: return "none";
    case CLOCKBOUND_ERR_SYSCALL: return "syscall";
    case CLOCKBOUND_ERR_SEGMENT_NOT_INITIALIZED: return "notinit";
    case CLOCKBOUND_ERR_SEGMENT_MALFORMED: return "malformed";
    case CLOCKBOUND_ERR_CAUSALITY_BREACH: return "causality";
    }
    return "unknown-kind";
}

static void print_err(const clockbound_err *e) {
    char detail[128] = "";
    if (e->detail) { strncpy(detail, e->detail, sizeof detail - 1); for (char *p = detail; *p; p++) if (*p == ' ') *p = '_'; }
    printf("%s:%d:%s", kind_name(e->kind), e->sys_errno, detail);
}

static int status_word_valid(const char *path) {
    FILE *f = fopen(path, "rb");
    unsigned char b[72];
    if (!f) return 1;
    size_t n = fread(b, 1, sizeof b, f);
    fclose(f);
    if (n < 68) return 1;
    unsigned v; memcpy(&v, b + 64, 4);
    return v <= 2;
}

int main(void) {
    char line[4096];
    while (fgets(line, sizeof line, stdin)) {
        char tag[16], path[2048];
        long long rs, rn, ms, mn;
        if (sscanf(line, "%15s", tag) != 1) continue;
        if (strcmp(tag, "siz") == 0) {
            printf("now_result %zu %zu %zu %zu err %zu %zu %zu %zu status %d %d %d kinds %d %d %d %d %d\n",
                   sizeof(clockbound_now_result), offsetof(clockbound_now_result, earliest), offsetof(clockbound_now_result, latest),
                   offsetof(clockbound_now_result, clock_status), sizeof(clockbound_err), offsetof(clockbound_err, kind),
                   offsetof(clockbound_err, sys_errno), offsetof(clockbound_err, detail),
                   CLOCKBOUND_STA_UNKNOWN, CLOCKBOUND_STA_SYNCHRONIZED, CLOCKBOUND_STA_FREE_RUNNING,
                   CLOCKBOUND_ERR_NONE, CLOCKBOUND_ERR_SYSCALL, CLOCKBOUND_ERR_SEGMENT_NOT_INITIALIZED,
                   CLOCKBOUND_ERR_SEGMENT_MALFORMED, CLOCKBOUND_ERR_CAUSALITY_BREACH);
            fflush(stdout);
            continue;
        }
        if (sscanf(line, "%15s %2047s %lld %lld %lld %lld", tag, path, &rs, &rn, &ms, &mn) != 6) { printf("bad-line\n"); fflush(stdout); continue; }
        clockbound_err err; memset(&err, 0, sizeof err);
        clockbound_ctx *ctx = clockbound_open(path, &err);
        if (!ctx) { printf("K:"); print_err(&err); printf(" N:-\n"); fflush(stdout); continue; }
        printf("K:ok N:");
        if (!status_word_valid(path)) { printf("skip\n"); clockbound_close(ctx); fflush(stdout); continue; }
        v_real.tv_sec = rs; v_real.tv_nsec = rn; v_mono.tv_sec = ms; v_mono.tv_nsec = mn;
        clockbound_now_result res; memset(&res, 0, sizeof res);
        vclock_on = 1;
        const clockbound_err *e = clockbound_now(ctx, &res);
        vclock_on = 0;
        if (e) print_err(e);
        else printf("ok:%lld:%lld:%lld:%lld:%d", (long long)res.earliest.tv_sec, (long long)res.earliest.tv_nsec,
                    (long long)res.latest.tv_sec, (long long)res.latest.tv_nsec, (int)res.clock_status);
        printf("\n");
        clockbound_close(ctx);
        fflush(stdout);
    }
    return 0;
}
