/* C17 (and C05 C06 C14): the C client library exactly as clockbound.h declares it, under a virtual clock.
 *   seg <path> real_s real_n mono_s mono_n   ->  K:<open result> N:<now result>
 *   cba as_s as_n va_s va_n bound drift status real_s real_n mono_s mono_n
 *        -> ok e_s e_n l_s l_n status | err <kind>      one context for the whole run: the record of
 *           each case is stored into the segment the context has open (PROTOCOL.md offsets), so
 *           anything a context remembers from earlier calls shows
 *   sgo <path> real_s real_n mono_s mono_n <what>  as seg, but between the open and the call the header changes under the
 *        client (1: generation odd, 2: version 0, 3: generation 0): it has no snapshot yet and answers from the empty record
 *   lng <dir> <n> real_s real_n mono_s mono_n  as seg, <dir>/shm reached through a path of exactly n bytes
 *   siz                                       ->  sizes and offsets of the public structs
 * Built by the check with: gcc cdriver.c -I<repo>/clock-bound-ffi/include -L<target> -lclockbound -rdynamic
 * This program defines clock_gettime, which takes precedence over libc's for libclockbound.so too. */
#define _GNU_SOURCE
#include <stddef.h>
#include <stdio.h>
#include <stdlib.h>
#include <string.h>
#include <time.h>
#include <unistd.h>
#include <fcntl.h>
#include <errno.h>
#include <stdint.h>
#include <sys/syscall.h>
#include <sys/resource.h>
#include "clockbound.h"

static int vclock_on = 0;
static struct timespec v_real, v_mono;

static const long long *publish_on_read = NULL;   /* cbp: the daemon publishes this record while the call reads its first clock */
static void cba_store(const long long *t);

int clock_gettime(clockid_t clk, struct timespec *ts) {
    if (!vclock_on) return (int)syscall(SYS_clock_gettime, clk, ts);
    if (publish_on_read) { const long long *p = publish_on_read; publish_on_read = NULL; cba_store(p); }
    if (clk == CLOCK_MONOTONIC || clk == CLOCK_MONOTONIC_COARSE || clk == CLOCK_MONOTONIC_RAW || clk == CLOCK_BOOTTIME) *ts = v_mono;
    else *ts = v_real;
    return 0;
}

/* a client that sleeps inside a call sees time pass: while the virtual clock is on a sleep does not wait,
 * it moves both virtual clocks on by the time asked for */
static void v_advance(long long ns) {
    if (ns <= 0) return;
    struct timespec *c[2] = { &v_real, &v_mono };
    for (int i = 0; i < 2; i++) {
        __int128 t = (__int128)c[i]->tv_sec * 1000000000 + c[i]->tv_nsec + ns;
        c[i]->tv_sec = (time_t)(t / 1000000000); c[i]->tv_nsec = (long)(t % 1000000000);
    }
}
int nanosleep(const struct timespec *req, struct timespec *rem) {
    if (!vclock_on) return (int)syscall(SYS_nanosleep, req, rem);
    v_advance((long long)req->tv_sec * 1000000000LL + req->tv_nsec);
    return 0;
}
int clock_nanosleep(clockid_t clk, int flags, const struct timespec *req, struct timespec *rem) {
    if (!vclock_on) { long r = syscall(SYS_clock_nanosleep, clk, flags, req, rem); return r == 0 ? 0 : errno; }
    long long want = (long long)req->tv_sec * 1000000000LL + req->tv_nsec;
    if (flags & TIMER_ABSTIME) {
        const struct timespec *cur = (clk == CLOCK_REALTIME) ? &v_real : &v_mono;
        want -= (long long)cur->tv_sec * 1000000000LL + cur->tv_nsec;
    }
    v_advance(want);
    return 0;
}

static const char *kind_name(clockbound_err_kind k) {
    switch (k) {
    case CLOCKBOUND_ERR_NONE: return "none";
    case CLOCKBOUND_ERR_SYSCALL: return "syscall";
    case CLOCKBOUND_ERR_SEGMENT_NOT_INITIALIZED: return "notinit";
    case CLOCKBOUND_ERR_SEGMENT_MALFORMED: return "malformed";
    case CLOCKBOUND_ERR_CAUSALITY_BREACH: return "causality";
    }
    return "unknown-kind";
}

static void print_err(const clockbound_err *e) {
    char detail[128] = "";
    if (e->detail) { strncpy(detail, e->detail, sizeof detail - 1); for (char *p = detail; *p; p++) if (*p == ' ') *p = '_'; }
    printf("%s:%d:%s", kind_name(e->kind), e->sys_errno, detail);
}

static int status_word_valid(const char *path) {
    FILE *f = fopen(path, "rb");
    unsigned char b[72];
    if (!f) return 1;
    size_t n = fread(b, 1, sizeof b, f);
    fclose(f);
    if (n < 68) return 1;
    unsigned v; memcpy(&v, b + 64, 4);
    return v <= 2;
}

static clockbound_ctx *cba_ctx = NULL;
static int cba_fd = -1;
static uint16_t cba_gen = 2;
static char cba_path[512];

static void put64(unsigned char *b, long long v) { uint64_t u = (uint64_t)v; memcpy(b, &u, 8); }

static void cba_store(const long long *t) {
    unsigned char rec[56];
    memset(rec, 0, sizeof rec);
    put64(rec, t[0]); put64(rec + 8, t[1]); put64(rec + 16, t[2]); put64(rec + 24, t[3]); put64(rec + 32, t[4]);
    uint32_t drift = (uint32_t)t[5]; memcpy(rec + 40, &drift, 4);
    int32_t st = (int32_t)t[6]; memcpy(rec + 48, &st, 4);
    uint16_t odd = (uint16_t)(cba_gen + 1);
    if (pwrite(cba_fd, &odd, 2, 14) != 2) abort();
    if (pwrite(cba_fd, rec, 56, 16) != 56) abort();
    /* even, non-zero, different from the current one, not growing steadily: a client re-reads whenever the
       generation differs from the one it cached, larger or smaller */
    { uint32_t k = cba_gen / 2; uint16_t g2 = (uint16_t)(((k * 7919u + 13u) % 32767u + 1u) * 2u);
      cba_gen = (g2 != cba_gen) ? g2 : (g2 >= 65534 ? 2 : (uint16_t)(g2 + 2)); }
    if (pwrite(cba_fd, &cba_gen, 2, 14) != 2) abort();
}

static int cba_ensure(void) {
    if (!cba_ctx) {
        const char *dir = getenv("VERIF_SCRATCH");
        snprintf(cba_path, sizeof cba_path, "%s/cdriver-segment-%d", dir ? dir : "/dev/shm", (int)getpid());
        cba_fd = open(cba_path, O_RDWR | O_CREAT | O_TRUNC, 0644);
        if (cba_fd < 0) { printf("cannot-create-segment\n"); return 0; }
        unsigned char hdr[72];
        memset(hdr, 0, sizeof hdr);
        uint32_t m0 = 0x414D5A4E, m1 = 0x43420200, size = 72; uint16_t ver = 1, gen = 2;
        memcpy(hdr, &m0, 4); memcpy(hdr + 4, &m1, 4); memcpy(hdr + 8, &size, 4); memcpy(hdr + 12, &ver, 2); memcpy(hdr + 14, &gen, 2);
        if (pwrite(cba_fd, hdr, 72, 0) != 72) abort();
        clockbound_err err; memset(&err, 0, sizeof err);
        cba_ctx = clockbound_open(cba_path, &err);
        if (!cba_ctx) { printf("cannot-open-segment:"); print_err(&err); printf("\n"); return 0; }
    }
    return 1;
}

static void run_cba(const char *line) {
    long long t[11];
    if (sscanf(line, "cba %lld %lld %lld %lld %lld %lld %lld %lld %lld %lld %lld", t, t + 1, t + 2, t + 3, t + 4, t + 5, t + 6, t + 7, t + 8, t + 9, t + 10) != 11) {
        printf("bad-line\n");
        return;
    }
    if (!cba_ensure()) return;
    cba_store(t);
    v_real.tv_sec = t[7]; v_real.tv_nsec = t[8]; v_mono.tv_sec = t[9]; v_mono.tv_nsec = t[10];
    clockbound_now_result res; memset(&res, 0, sizeof res);
    vclock_on = 1;
    /* a stale errno from an earlier, unrelated call must not show in the error a call reports */
    { static const int stale[4] = { EINTR, 0, ENOENT, EAGAIN }; static unsigned ncall = 0; errno = stale[ncall++ % 4]; }
    const clockbound_err *e = clockbound_now(cba_ctx, &res);
    int errno1 = e ? e->sys_errno : 0;
    /* the same call again: same segment content (same generation), same clock readings */
    v_real.tv_sec = t[7]; v_real.tv_nsec = t[8]; v_mono.tv_sec = t[9]; v_mono.tv_nsec = t[10];
    clockbound_now_result res2; memset(&res2, 0, sizeof res2);
    clockbound_err_kind k1 = e ? e->kind : CLOCKBOUND_ERR_NONE;
    const clockbound_err *e2 = clockbound_now(cba_ctx, &res2);
    clockbound_err_kind k2 = e2 ? e2->kind : CLOCKBOUND_ERR_NONE;
    vclock_on = 0;
    if (k1 != k2 || (!e && memcmp(&res, &res2, sizeof res) != 0)) {
        printf("MISMATCH client=[");
        if (e) printf("err %s", kind_name(k1));
        else printf("ok %lld %lld %lld %lld %d", (long long)res.earliest.tv_sec, (long long)res.earliest.tv_nsec,
                    (long long)res.latest.tv_sec, (long long)res.latest.tv_nsec, (int)res.clock_status);
        printf("] same-call-repeated=[");
        if (e2) printf("err %s", kind_name(k2));
        else printf("ok %lld %lld %lld %lld %d", (long long)res2.earliest.tv_sec, (long long)res2.earliest.tv_nsec,
                    (long long)res2.latest.tv_sec, (long long)res2.latest.tv_nsec, (int)res2.clock_status);
        printf("]\n");
        return;
    }
    if (e && errno1 != 0 && k1 != CLOCKBOUND_ERR_SYSCALL) printf("err %s with-errno-%d-although-no-system-call-failed\n", kind_name(k1), errno1);
    else if (e) printf("err %s\n", kind_name(e->kind));
    else printf("ok %lld %lld %lld %lld %d\n", (long long)res.earliest.tv_sec, (long long)res.earliest.tv_nsec,
                (long long)res.latest.tv_sec, (long long)res.latest.tv_nsec, (int)res.clock_status);
}

/* cbp <old record 7> <new record 7> real_s real_n mono_s mono_n : the segment holds the old record; while the
 * call reads its first clock the daemon publishes the new one.  The call took its snapshot before it read
 * the clocks, so it answers from the old record (as the Rust client does). */
static void run_cbp(const char *line) {
    static long long t[18];
    if (sscanf(line, "cbp %lld %lld %lld %lld %lld %lld %lld %lld %lld %lld %lld %lld %lld %lld %lld %lld %lld %lld",
               t, t + 1, t + 2, t + 3, t + 4, t + 5, t + 6, t + 7, t + 8, t + 9, t + 10, t + 11, t + 12, t + 13, t + 14, t + 15, t + 16, t + 17) != 18) {
        printf("bad-line\n");
        return;
    }
    if (!cba_ensure()) return;
    cba_store(t);
    v_real.tv_sec = t[14]; v_real.tv_nsec = t[15]; v_mono.tv_sec = t[16]; v_mono.tv_nsec = t[17];
    clockbound_now_result res; memset(&res, 0, sizeof res);
    publish_on_read = t + 7;
    vclock_on = 1;
    const clockbound_err *e = clockbound_now(cba_ctx, &res);
    vclock_on = 0;
    publish_on_read = NULL;
    if (e) printf("err %s\n", kind_name(e->kind));
    else printf("ok %lld %lld %lld %lld %d\n", (long long)res.earliest.tv_sec, (long long)res.earliest.tv_nsec,
                (long long)res.latest.tv_sec, (long long)res.latest.tv_nsec, (int)res.clock_status);
}

int main(void) {
    char line[4096];
    while (fgets(line, sizeof line, stdin)) {
        char tag[16]; static char path[12000];
        long long rs, rn, ms, mn;
        if (sscanf(line, "%15s", tag) != 1) continue;
        if (strcmp(tag, "cba") == 0) { run_cba(line); fflush(stdout); continue; }
        if (strcmp(tag, "cbp") == 0) { run_cbp(line); fflush(stdout); continue; }
        if (strcmp(tag, "siz") == 0) {
            printf("now_result %zu %zu %zu %zu err %zu %zu %zu %zu status %d %d %d kinds %d %d %d %d %d\n",
                   sizeof(clockbound_now_result), offsetof(clockbound_now_result, earliest), offsetof(clockbound_now_result, latest),
                   offsetof(clockbound_now_result, clock_status), sizeof(clockbound_err), offsetof(clockbound_err, kind),
                   offsetof(clockbound_err, sys_errno), offsetof(clockbound_err, detail),
                   CLOCKBOUND_STA_UNKNOWN, CLOCKBOUND_STA_SYNCHRONIZED, CLOCKBOUND_STA_FREE_RUNNING,
                   CLOCKBOUND_ERR_NONE, CLOCKBOUND_ERR_SYSCALL, CLOCKBOUND_ERR_SEGMENT_NOT_INITIALIZED,
                   CLOCKBOUND_ERR_SEGMENT_MALFORMED, CLOCKBOUND_ERR_CAUSALITY_BREACH);
            fflush(stdout);
            continue;
        }
        if (strcmp(tag, "seg") == 0) {
            /* a process that opens segment after segment must not run out of descriptors (see the Rust harness) */
            static int low = 0;
            if (!low) { struct rlimit rl; low = 1; if (getrlimit(RLIMIT_NOFILE, &rl) == 0) { rl.rlim_cur = rl.rlim_max < 96 ? rl.rlim_max : 96; setrlimit(RLIMIT_NOFILE, &rl); } }
        }
        long long what = 0;   /* sgo: what the daemon does to the header between the open and the call (1 generation odd, 2 version 0, 3 generation 0) */
        if (strcmp(tag, "lng") == 0) {
            /* lng <dir> <n> clocks : <dir>/shm reached through a path of exactly n bytes (the separator repeated) */
            char dir[2048]; long long n;
            if (sscanf(line, "%15s %2047s %lld %lld %lld %lld %lld", tag, dir, &n, &rs, &rn, &ms, &mn) != 7 || n > 11000) { printf("bad-line\n"); fflush(stdout); continue; }
            long long pad = n - (long long)strlen(dir) - 3;
            if (pad < 1) pad = 1;
            strcpy(path, dir); memset(path + strlen(dir), '/', (size_t)pad); strcpy(path + strlen(dir) + pad, "shm");
            printf("len:%zu ", strlen(path));
        } else
        if (sscanf(line, "%15s %2047s %lld %lld %lld %lld %lld", tag, path, &rs, &rn, &ms, &mn, &what) < 6) { printf("bad-line\n"); fflush(stdout); continue; }
        /* one error struct for the whole run, as a caller retrying in a loop would use it: a failed
           open must overwrite every field of it */
        static clockbound_err err;
        /* a stale errno from an earlier, unrelated call must not show in the outcome */
        { static const int stale[6] = { EINTR, EAGAIN, EINTR, ENOENT, EINTR, 0 }; static unsigned ncase = 0; errno = stale[ncase++ % 6]; }
        clockbound_ctx *ctx = clockbound_open(path, &err);
        if (!ctx) { printf("K:"); print_err(&err); printf(" N:-\n"); fflush(stdout); continue; }
        printf("K:ok N:");
        if (!status_word_valid(path)) { printf("skip\n"); clockbound_close(ctx); fflush(stdout); continue; }
        if (strcmp(tag, "sgo") == 0 && what) {
            int fd = open(path, O_RDWR);
            uint16_t g = 0, z = 0;
            if (fd < 0 || pread(fd, &g, 2, 14) != 2) abort();
            if (what == 1) { g |= 1; if (pwrite(fd, &g, 2, 14) != 2) abort(); }
            else if (what == 2) { if (pwrite(fd, &z, 2, 12) != 2) abort(); }
            else { if (pwrite(fd, &z, 2, 14) != 2) abort(); }
            close(fd);
        }
        v_real.tv_sec = rs; v_real.tv_nsec = rn; v_mono.tv_sec = ms; v_mono.tv_nsec = mn;
        clockbound_now_result res; memset(&res, 0, sizeof res);
        vclock_on = 1;
        const clockbound_err *e = clockbound_now(ctx, &res);
        vclock_on = 0;
        if (e) print_err(e);
        else printf("ok:%lld:%lld:%lld:%lld:%d", (long long)res.earliest.tv_sec, (long long)res.earliest.tv_nsec,
                    (long long)res.latest.tv_sec, (long long)res.latest.tv_nsec, (int)res.clock_status);
        printf("\n");
        clockbound_close(ctx);
        fflush(stdout);
    }
    if (cba_ctx) { clockbound_close(cba_ctx); close(cba_fd); unlink(cba_path); }
    return 0;
}
