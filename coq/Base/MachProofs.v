(* Facts about the nix TimeSpec model on normalised timestamps in a bounded range. *)
From Coq Require Import ZArith Lia Bool ZifyBool.
From CB Require Import Mach.
Open Scope Z_scope.
Ltac Zify.zify_post_hook ::= Z.div_mod_to_equations.

Definition SECMAX := 2147483648.   (* 2^31 s, about 68 years *)

Definition ts_inR (t : timespec) : Prop :=
  0 <= ts_nsec t < NS /\ - SECMAX <= ts_sec t <= SECMAX.

Lemma ns_range t : ts_inR t -> - SECMAX * NS <= ns t < (SECMAX + 1) * NS.
Proof. unfold ts_inR, ns, SECMAX, NS. lia. Qed.

Lemma num_nanoseconds_inR t : ts_inR t -> ts_num_nanoseconds t = Some (ns t).
Proof.
  unfold ts_inR, ts_num_nanoseconds, ts_num_seconds, ts_nanos_mod_sec, chk_i64, in_i64, ns,
    i64_min, i64_max, SECMAX, NS.
  intros [Hn Hs].
  destruct ((ts_sec t <? 0) && (0 <? ts_nsec t)) eqn:E.
  - replace ((-9223372036854775808 <=? (ts_sec t + 1) * 1000000000) &&
             ((ts_sec t + 1) * 1000000000 <=? 9223372036854775807)) with true by lia.
    replace ((-9223372036854775808 <=? (ts_sec t + 1) * 1000000000 + (ts_nsec t - 1000000000)) &&
             ((ts_sec t + 1) * 1000000000 + (ts_nsec t - 1000000000) <=? 9223372036854775807)) with true by lia.
    f_equal. lia.
  - replace ((-9223372036854775808 <=? ts_sec t * 1000000000) &&
             (ts_sec t * 1000000000 <=? 9223372036854775807)) with true by lia.
    replace ((-9223372036854775808 <=? ts_sec t * 1000000000 + ts_nsec t) &&
             (ts_sec t * 1000000000 + ts_nsec t <=? 9223372036854775807)) with true by lia.
    reflexivity.
Qed.

(* TimeSpec::nanoseconds succeeds on anything below ~292 years and is the inverse of [ns] *)
Definition NSMAX := 9000000000000000000.

Lemma nanoseconds_ok n : - NSMAX <= n <= NSMAX ->
  exists t, ts_nanoseconds n = Some t /\ ns t = n /\ 0 <= ts_nsec t < NS /\ ts_sec t = n / NS.
Proof.
  unfold ts_nanoseconds, NSMAX, ns. intros H.
  change TS_MAX_SECONDS with 9223372035. unfold NS.
  match goal with |- context [if ?c then _ else _] => destruct c eqn:E end; [|lia].
  eexists; split; [reflexivity|]. cbn [ts_sec ts_nsec]. lia.
Qed.

Lemma chk_i64_ok x : i64_min <= x <= i64_max -> chk_i64 x = Some x.
Proof. unfold chk_i64, in_i64. intros H. replace ((i64_min <=? x) && (x <=? i64_max)) with true by lia. reflexivity. Qed.

Lemma ts_ltb_ns a b : 0 <= ts_nsec a < NS -> 0 <= ts_nsec b < NS -> ts_ltb a b = (ns a <? ns b).
Proof. unfold ts_ltb, ns, NS. intros Ha Hb. lia. Qed.

Lemma ts_leb_ns a b : 0 <= ts_nsec a < NS -> 0 <= ts_nsec b < NS -> ts_leb a b = (ns a <=? ns b).
Proof. unfold ts_leb, ns, NS. intros Ha Hb. lia. Qed.

(* a + b and a - b on timestamps whose nanosecond counts are known *)
Lemma ts_add_ok a b x y : ts_num_nanoseconds a = Some x -> ts_num_nanoseconds b = Some y ->
  - NSMAX <= x + y <= NSMAX ->
  exists t, ts_add a b = Some t /\ ns t = x + y /\ 0 <= ts_nsec t < NS.
Proof.
  intros Ha Hb H. unfold ts_add. rewrite Ha, Hb.
  rewrite chk_i64_ok by (unfold i64_min, i64_max, NSMAX in *; lia).
  destruct (nanoseconds_ok (x + y) H) as (t & Ht & Hn & Hr & _). eauto.
Qed.

Lemma ts_sub_ok a b x y : ts_num_nanoseconds a = Some x -> ts_num_nanoseconds b = Some y ->
  - NSMAX <= x - y <= NSMAX ->
  exists t, ts_sub a b = Some t /\ ns t = x - y /\ 0 <= ts_nsec t < NS.
Proof.
  intros Ha Hb H. unfold ts_sub. rewrite Ha, Hb.
  rewrite chk_i64_ok by (unfold i64_min, i64_max, NSMAX in *; lia).
  destruct (nanoseconds_ok (x - y) H) as (t & Ht & Hn & Hr & _). eauto.
Qed.

Lemma num_nanoseconds_norm t : 0 <= ts_nsec t < NS -> - 9000000000 <= ts_sec t <= 9000000000 ->
  ts_num_nanoseconds t = Some (ns t).
Proof.
  unfold ts_num_nanoseconds, ts_num_seconds, ts_nanos_mod_sec, chk_i64, in_i64, ns, i64_min, i64_max, NS.
  intros Hn Hs.
  destruct ((ts_sec t <? 0) && (0 <? ts_nsec t)) eqn:E.
  - replace ((-9223372036854775808 <=? (ts_sec t + 1) * 1000000000) &&
             ((ts_sec t + 1) * 1000000000 <=? 9223372036854775807)) with true by lia.
    replace ((-9223372036854775808 <=? (ts_sec t + 1) * 1000000000 + (ts_nsec t - 1000000000)) &&
             ((ts_sec t + 1) * 1000000000 + (ts_nsec t - 1000000000) <=? 9223372036854775807)) with true by lia.
    f_equal. lia.
  - replace ((-9223372036854775808 <=? ts_sec t * 1000000000) &&
             (ts_sec t * 1000000000 <=? 9223372036854775807)) with true by lia.
    replace ((-9223372036854775808 <=? ts_sec t * 1000000000 + ts_nsec t) &&
             (ts_sec t * 1000000000 + ts_nsec t <=? 9223372036854775807)) with true by lia.
    reflexivity.
Qed.
