(* chrony's 32-bit wire float (7-bit signed exponent, 25-bit signed coefficient) and its
   conversion to f64 as implemented by chrony-candm 0.1.1 (`impl From<ChronyFloat> for f64`):
     exp  = x >> 25, sign-extended from 7 bits, minus 25
     coef = x % 2^25, sign-extended from 25 bits
     (coef as f64) * 2.0f64.powi(exp)
   Both factors and the product are exact in binary64 (|coef| <= 2^24, -89 <= exp <= 38). *)
From Coq Require Import ZArith.
From CB Require Import Mach F64.
Open Scope Z_scope.

Definition cf_exp (w : Z) : Z :=
  let e := w / 33554432 in (if 64 <=? e then e - 128 else e) - 25.
Definition cf_coef (w : Z) : Z :=
  let c := w mod 33554432 in if 16777216 <=? c then c - 33554432 else c.

Definition cf_to_f64 (w : Z) : f64 := ofZe (cf_coef w) (cf_exp w).
