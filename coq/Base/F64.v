(* IEEE-754 binary64 as Flocq's binary_float 53 1024, and the Rust operations the code uses on it.
   Model only (executable definitions); the lemmas are in Base/F64Proofs.v. *)
From Coq Require Import ZArith Bool.
From Flocq Require Import Core BinarySingleNaN.
From CB Require Import Mach.
Open Scope Z_scope.

Definition prec := 53.
Definition emax := 1024.
Definition f64 := binary_float prec emax.

Lemma Hprec : FLX.Prec_gt_0 prec. Proof. unfold FLX.Prec_gt_0, prec; reflexivity. Qed.
Lemma Hmax : Prec_lt_emax prec emax. Proof. unfold Prec_lt_emax, prec, emax; reflexivity. Qed.

(* m * 2^e rounded to nearest-even: `m as f64` for e = 0 *)
Definition ofZe (m e : Z) : f64 := binary_normalize prec emax Hprec Hmax mode_NE m e false.
Definition of_Z (m : Z) : f64 := ofZe m 0.

Definition add : f64 -> f64 -> f64 := Bplus (prec_gt_0_ := Hprec) (prec_lt_emax_ := Hmax) mode_NE.
Definition mul : f64 -> f64 -> f64 := Bmult (prec_gt_0_ := Hprec) (prec_lt_emax_ := Hmax) mode_NE.
Definition div : f64 -> f64 -> f64 := Bdiv (prec_gt_0_ := Hprec) (prec_lt_emax_ := Hmax) mode_NE.
Definition fabs : f64 -> f64 := Babs (prec := prec) (emax := emax).
(* f64::ceil *)
Definition ceil : f64 -> f64 := Bnearbyint (prec := prec) (emax := emax) (prec_lt_emax_ := Hmax) mode_UP.

(* Rust `x as i64`: NaN -> 0, truncation toward zero, saturating. *)
Definition to_i64 (x : f64) : Z :=
  match x with
  | B754_nan => 0
  | B754_infinity s => if s then i64_min else i64_max
  | B754_zero _ => 0
  | B754_finite _ _ _ _ =>
      let t := Btrunc x in
      if t <? i64_min then i64_min else if i64_max <? t then i64_max else t
  end.

(* Rust `x as u64`: NaN -> 0, negative -> 0, saturating. *)
Definition to_u64 (x : f64) : Z :=
  match x with
  | B754_nan => 0
  | B754_infinity s => if s then 0 else u64_max
  | B754_zero _ => 0
  | B754_finite _ _ _ _ =>
      let t := Btrunc x in
      if t <? 0 then 0 else if u64_max <? t then u64_max else t
  end.

Definition f1e9 : f64 := of_Z 1000000000.
Definition f2 : f64 := of_Z 2.
Definition f8 : f64 := of_Z 8.
