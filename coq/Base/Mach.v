(* Machine integers and nix TimeSpec arithmetic, as the Rust code uses them.
   Everything is a total function on Z; operations that can overflow in Rust return [option]
   ([None] = the debug build panics) and have a wrapping twin for the release build. *)
From Coq Require Import ZArith Lia Bool List.
Import ListNotations.
Open Scope Z_scope.

Definition u16_mod := 65536.
Definition u32_mod := 4294967296.
Definition i64_min := - 9223372036854775808.
Definition i64_max := 9223372036854775807.
Definition u64_max := 18446744073709551615.

Definition in_u16 (x : Z) : bool := (0 <=? x) && (x <? u16_mod).
Definition in_u32 (x : Z) : bool := (0 <=? x) && (x <? u32_mod).
Definition in_i64 (x : Z) : bool := (i64_min <=? x) && (x <=? i64_max).

Definition wrap_u16 (x : Z) : Z := x mod u16_mod.
Definition wrap_u32 (x : Z) : Z := x mod u32_mod.
(* two's complement wrap to i64 *)
Definition wrap_i64 (x : Z) : Z := (x - i64_min) mod 18446744073709551616 + i64_min.

Definition chk_i64 (x : Z) : option Z := if in_i64 x then Some x else None.

Lemma wrap_i64_id x : in_i64 x = true -> wrap_i64 x = x.
Proof.
  unfold in_i64, wrap_i64, i64_min, i64_max. intros H.
  apply andb_true_iff in H as [H1 H2]. apply Z.leb_le in H1, H2.
  rewrite Z.mod_small; lia.
Qed.

Lemma chk_i64_some x y : chk_i64 x = Some y -> y = x /\ in_i64 x = true.
Proof. unfold chk_i64. destruct (in_i64 x); intros H; inversion H; auto. Qed.

(* ---------- timespec ---------- *)
(* libc::timespec {tv_sec, tv_nsec}; nix's TimeSpec wraps it unchanged. *)
Record timespec := mkts { ts_sec : Z; ts_nsec : Z }.

Definition NS := 1000000000.

(* value in nanoseconds as a mathematical integer *)
Definition ns (t : timespec) : Z := ts_sec t * NS + ts_nsec t.

Definition ts_norm (t : timespec) : bool := (0 <=? ts_nsec t) && (ts_nsec t <? NS).

(* nix 0.26 TimeSpec::num_nanoseconds:
     let secs = self.num_seconds() * 1_000_000_000;  (num_seconds adjusts negative values)
     let nsec = self.nanos_mod_sec(); secs + nsec
   num_seconds(): if tv_sec < 0 && tv_nsec > 0 { tv_sec + 1 } else { tv_sec }
   nanos_mod_sec(): if tv_sec < 0 && tv_nsec > 0 { tv_nsec - 1e9 } else { tv_nsec }        *)
Definition ts_num_seconds (t : timespec) : Z :=
  if (ts_sec t <? 0) && (0 <? ts_nsec t) then ts_sec t + 1 else ts_sec t.
Definition ts_nanos_mod_sec (t : timespec) : Z :=
  if (ts_sec t <? 0) && (0 <? ts_nsec t) then ts_nsec t - NS else ts_nsec t.
Definition ts_num_nanoseconds (t : timespec) : option Z :=
  match chk_i64 (ts_num_seconds t * NS) with
  | Some s => chk_i64 (s + ts_nanos_mod_sec t)
  | None => None
  end.

(* nix 0.26 TimeSpec::nanoseconds(n):
     let (secs, nanos) = div_mod_floor_64(n, 1e9);
     assert!(secs >= TS_MIN_SECONDS && secs <= TS_MAX_SECONDS, "TimeSpec out of bounds");
   with TS_MAX_SECONDS = i64::MAX / 1e9 - 1, TS_MIN_SECONDS = -TS_MAX_SECONDS.
   Z.div / Z.modulo are floor division for a positive divisor, as div_mod_floor_64. *)
Definition TS_MAX_SECONDS := i64_max / NS - 1.
Definition ts_nanoseconds (n : Z) : option timespec :=
  let secs := n / NS in
  let nanos := n mod NS in
  if (- TS_MAX_SECONDS <=? secs) && (secs <=? TS_MAX_SECONDS) then Some (mkts secs nanos) else None.

(* Add/Sub: TimeSpec::nanoseconds(lhs.num_nanoseconds() +/- rhs.num_nanoseconds()) *)
Definition ts_add (a b : timespec) : option timespec :=
  match ts_num_nanoseconds a, ts_num_nanoseconds b with
  | Some x, Some y => match chk_i64 (x + y) with Some s => ts_nanoseconds s | None => None end
  | _, _ => None
  end.
Definition ts_sub (a b : timespec) : option timespec :=
  match ts_num_nanoseconds a, ts_num_nanoseconds b with
  | Some x, Some y => match chk_i64 (x - y) with Some s => ts_nanoseconds s | None => None end
  | _, _ => None
  end.

(* Ord for TimeSpec (nix 0.26): compares tv_sec, then tv_nsec (both as signed integers). *)
Definition ts_ltb (a b : timespec) : bool :=
  (ts_sec a <? ts_sec b) || ((ts_sec a =? ts_sec b) && (ts_nsec a <? ts_nsec b)).
Definition ts_leb (a b : timespec) : bool :=
  (ts_sec a <? ts_sec b) || ((ts_sec a =? ts_sec b) && (ts_nsec a <=? ts_nsec b)).
