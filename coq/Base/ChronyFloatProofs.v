(* The chrony wire float denotes the dyadic rational coef * 2^exp exactly, and its conversion to
   binary64 is exact for every 32-bit word. *)
From Coq Require Import ZArith Reals Lia Lra Psatz Bool ZifyBool.
From Flocq Require Import Core Relative BinarySingleNaN.
From CB Require Import Mach F64 F64Proofs ChronyFloat.
Open Scope Z_scope.
Ltac Zify.zify_post_hook ::= Z.div_mod_to_equations.

Definition cf_value (w : Z) : R := (IZR (cf_coef w) * bpow radix2 (cf_exp w))%R.

Lemma cf_ranges w : 0 <= w < 4294967296 ->
  - 16777216 <= cf_coef w < 16777216 /\ -89 <= cf_exp w <= 38.
Proof.
  unfold cf_coef, cf_exp. intros H. cbv zeta.
  destruct (Z.leb_spec 16777216 (w mod 33554432)); destruct (Z.leb_spec 64 (w / 33554432)); split; lia.
Qed.

Lemma cf_exact w : 0 <= w < 4294967296 -> fin (cf_to_f64 w) /\ B2R (cf_to_f64 w) = cf_value w.
Proof.
  intros H. destruct (cf_ranges w H) as [Hc He]. unfold cf_to_f64, cf_value.
  assert (G : generic_format radix2 fexp (IZR (cf_coef w) * bpow radix2 (cf_exp w))).
  { apply generic_format_FLT. exists (Float radix2 (cf_coef w) (cf_exp w)); cbn [Fnum Fexp].
    - reflexivity.
    - unfold prec. change (radix2 ^ 53) with (2 ^ 53). lia.
    - unfold emax, prec. lia. }
  destruct (ofZe_spec (cf_coef w) (cf_exp w)) as [F E].
  - rewrite Rabs_mult. rewrite (Rabs_pos_eq (bpow _ _)) by apply bpow_ge_0.
    apply Rle_trans with (bpow radix2 24 * bpow radix2 38)%R.
    + apply Rmult_le_compat; [apply Rabs_pos | apply bpow_ge_0 | | apply bpow_le; lia].
      rewrite <- abs_IZR. replace (bpow radix2 24) with (IZR (2 ^ 24)) by (rewrite <- (IZR_Zpower radix2 24) by lia; reflexivity).
      apply IZR_le. lia.
    + rewrite <- bpow_plus. unfold BIG. apply bpow_le. lia.
  - split; [exact F|]. rewrite E. apply round_generic; auto with typeclass_instances.
Qed.

(* a non-negative wire value is zero or at least 2^-89 *)
Lemma cf_value_pos w : 0 <= w < 4294967296 -> (0 <= cf_value w)%R ->
  (cf_value w = 0 \/ bpow radix2 (-89) <= cf_value w)%R.
Proof.
  intros H H0. destruct (cf_ranges w H) as [Hc He]. unfold cf_value in *.
  pose proof (bpow_gt_0 radix2 (cf_exp w)) as Bp.
  destruct (Z.eq_dec (cf_coef w) 0) as [E|E]; [left; rewrite E; lra|]. right.
  assert (1 <= cf_coef w).
  { destruct (Z_lt_le_dec (cf_coef w) 0) as [N|N]; [|lia].
    exfalso. assert (IZR (cf_coef w) <= -1)%R by (apply IZR_le; lia). nra. }
  apply Rle_trans with (1 * bpow radix2 (cf_exp w))%R.
  - rewrite Rmult_1_l. apply bpow_le. lia.
  - apply Rmult_le_compat_r; [lra|]. apply IZR_le. lia.
Qed.

Lemma cf_value_abs_pos w : 0 <= w < 4294967296 ->
  (Rabs (cf_value w) = 0 \/ bpow radix2 (-89) <= Rabs (cf_value w))%R.
Proof.
  intros H. destruct (cf_ranges w H) as [Hc He]. unfold cf_value.
  pose proof (bpow_gt_0 radix2 (cf_exp w)) as Bp.
  rewrite Rabs_mult, (Rabs_pos_eq (bpow _ _)) by lra.
  destruct (Z.eq_dec (cf_coef w) 0) as [E|E]; [left; rewrite E, Rabs_R0; lra|]. right.
  assert (1 <= Rabs (IZR (cf_coef w)))%R by (rewrite <- abs_IZR; apply IZR_le; lia).
  apply Rle_trans with (1 * bpow radix2 (cf_exp w))%R.
  - rewrite Rmult_1_l. apply bpow_le. lia.
  - apply Rmult_le_compat_r; lra.
Qed.
