(* Specification lemmas for the binary64 operations of Base/F64.v: each operation, on finite
   operands whose exact result is below 2^1000 in magnitude, returns the correctly rounded real
   and a finite float.  Monotonicity and relative-error bounds of the rounding. *)
From Coq Require Import ZArith Reals Lia Lra Psatz Bool.
From Flocq Require Import Core Relative BinarySingleNaN.
From CB Require Import Mach F64.
Open Scope R_scope.

#[export] Existing Instance Hprec.
#[export] Existing Instance Hmax.
Notation fexp := (FLT_exp (3 - emax - prec) prec).
Notation rnd := (round radix2 fexp ZnearestE).
Definition BIG : R := bpow radix2 1000.
Definition u : R := bpow radix2 (-53).
Definition fin (x : f64) : Prop := is_finite x = true.

Lemma BIG_pos : 0 < BIG. Proof. apply bpow_gt_0. Qed.
Lemma u_pos : 0 < u. Proof. apply bpow_gt_0. Qed.
Lemma u_small : u <= / 1000000.
Proof.
  unfold u. replace (/ 1000000) with (/ IZR 1000000) by (simpl; lra).
  replace (bpow radix2 (-53)) with (/ bpow radix2 53) by (symmetry; apply (bpow_opp radix2 53)).
  apply Rinv_le; [lra|].
  rewrite <- (IZR_Zpower radix2 53) by lia. apply IZR_le. vm_compute. discriminate.
Qed.

Lemma rnd_mono x y : x <= y -> rnd x <= rnd y.
Proof. intros H. apply round_le; auto with typeclass_instances. Qed.

Lemma rnd_0 : rnd 0 = 0. Proof. apply round_0; auto with typeclass_instances. Qed.

Lemma rnd_nonneg x : 0 <= x -> 0 <= rnd x.
Proof. intros H. rewrite <- rnd_0. apply rnd_mono, H. Qed.

Lemma rnd_nonpos x : x <= 0 -> rnd x <= 0.
Proof. intros H. rewrite <- rnd_0. apply rnd_mono, H. Qed.

Lemma format_BIG : generic_format radix2 fexp BIG.
Proof. apply generic_format_bpow. unfold FLT_exp, prec, emax. lia. Qed.

Lemma rnd_abs_le_BIG x : Rabs x <= BIG -> Rabs (rnd x) <= BIG.
Proof. intros H. apply abs_round_le_generic; auto with typeclass_instances. apply format_BIG. Qed.

Lemma rnd_no_overflow x : Rabs x <= BIG -> Rlt_bool (Rabs (rnd x)) (bpow radix2 emax) = true.
Proof.
  intros H. apply Rlt_bool_true. eapply Rle_lt_trans; [apply rnd_abs_le_BIG, H|].
  apply bpow_lt. unfold emax. lia.
Qed.

Lemma rnd_IZR z : (Z.abs z <= 2 ^ 53)%Z -> rnd (IZR z) = IZR z.
Proof.
  intros H. apply round_generic; auto with typeclass_instances.
  apply generic_format_FLT. destruct (Z.eq_dec (Z.abs z) (2 ^ 53)) as [E|E].
  - exists (Float radix2 (z / 2) 1); cbn [Fnum Fexp].
    + unfold F2R; cbn [Fnum Fexp]. change (bpow radix2 1) with 2. rewrite <- mult_IZR. f_equal.
      assert (z = 2 ^ 53 \/ z = - 2 ^ 53)%Z as [-> | ->] by lia; reflexivity.
    + unfold prec. assert (z = 2 ^ 53 \/ z = - 2 ^ 53)%Z as [-> | ->] by lia; vm_compute; reflexivity.
    + unfold emax, prec. lia.
  - exists (Float radix2 z 0); cbn [Fnum Fexp].
    + unfold F2R; cbn [Fnum Fexp]. simpl. lra.
    + unfold prec. change (radix2 ^ 53)%Z with (2 ^ 53)%Z. lia.
    + unfold emax, prec. lia.
Qed.

(* relative error of rounding, for values that are zero or at least 2^-1022 in magnitude *)
Lemma rnd_rel x : x = 0 \/ bpow radix2 (-1022) <= Rabs x -> Rabs (rnd x - x) <= u * Rabs x.
Proof.
  intros [-> | H].
  - rewrite rnd_0, Rminus_0_r, Rabs_R0. lra.
  - pose proof (relative_error_N_FLT radix2 (3 - emax - prec) prec Hprec (fun x => negb (Z.even x)) x) as E.
    change (3 - emax - prec + prec - 1)%Z with (-1022)%Z in E. specialize (E H).
    change (- prec + 1)%Z with (-53 + 1)%Z in E. rewrite bpow_plus in E.
    change (bpow radix2 1) with 2 in E. fold u in E. lra.
Qed.

Lemma rnd_lower x : 0 <= x -> (x = 0 \/ bpow radix2 (-1022) <= x) -> x * (1 - u) <= rnd x.
Proof.
  intros H0 H. assert (E : Rabs (rnd x - x) <= u * Rabs x).
  { apply rnd_rel. destruct H as [H|H]; [left; exact H | right; rewrite Rabs_pos_eq; assumption]. }
  rewrite (Rabs_pos_eq x H0) in E. apply Rabs_le_inv in E. lra.
Qed.

Lemma rnd_upper x : 0 <= x -> (x = 0 \/ bpow radix2 (-1022) <= x) -> rnd x <= x * (1 + u).
Proof.
  intros H0 H. assert (E : Rabs (rnd x - x) <= u * Rabs x).
  { apply rnd_rel. destruct H as [H|H]; [left; exact H | right; rewrite Rabs_pos_eq; assumption]. }
  rewrite (Rabs_pos_eq x H0) in E. apply Rabs_le_inv in E. lra.
Qed.

(* ---- operations ---- *)
Lemma ofZe_spec m e : Rabs (IZR m * bpow radix2 e) <= BIG ->
  fin (ofZe m e) /\ B2R (ofZe m e) = rnd (IZR m * bpow radix2 e).
Proof.
  intros H. pose proof (binary_normalize_correct prec emax Hprec Hmax mode_NE m e false) as C.
  cbv zeta in C. change (round_mode mode_NE) with ZnearestE in C.
  change (SpecFloat.fexp prec emax) with fexp in C.
  unfold F2R in C; cbn [Fnum Fexp] in C.
  rewrite (rnd_no_overflow _ H) in C. destruct C as (C1 & C2 & _). split; assumption.
Qed.

Lemma of_Z_spec m : (Z.abs m <= 2 ^ 64)%Z -> fin (of_Z m) /\ B2R (of_Z m) = rnd (IZR m).
Proof.
  intros H. destruct (ofZe_spec m 0) as [F E].
  - simpl bpow. rewrite Rmult_1_r, <- abs_IZR. unfold BIG.
    apply Rle_trans with (IZR (2 ^ 64)); [apply IZR_le, H|].
    replace (IZR (2 ^ 64)) with (bpow radix2 64) by (rewrite <- (IZR_Zpower radix2 64) by lia; reflexivity).
    apply bpow_le. lia.
  - split; [exact F|]. unfold of_Z. rewrite E. simpl bpow. rewrite Rmult_1_r. reflexivity.
Qed.

Lemma of_Z_exact m : (Z.abs m <= 2 ^ 53)%Z -> fin (of_Z m) /\ B2R (of_Z m) = IZR m.
Proof.
  intros H. destruct (of_Z_spec m) as [F E]; [lia|]. split; [exact F|]. rewrite E. apply rnd_IZR, H.
Qed.

Lemma add_spec a b : fin a -> fin b -> Rabs (B2R a + B2R b) <= BIG ->
  fin (add a b) /\ B2R (add a b) = rnd (B2R a + B2R b).
Proof.
  intros Fa Fb H. pose proof (Bplus_correct prec emax Hprec Hmax mode_NE a b Fa Fb) as C.
  change (round_mode mode_NE) with ZnearestE in C. change (SpecFloat.fexp prec emax) with fexp in C.
  rewrite (rnd_no_overflow _ H) in C. destruct C as (C1 & C2 & _). split; assumption.
Qed.

Lemma mul_spec a b : fin a -> fin b -> Rabs (B2R a * B2R b) <= BIG ->
  fin (mul a b) /\ B2R (mul a b) = rnd (B2R a * B2R b).
Proof.
  intros Fa Fb H. pose proof (Bmult_correct prec emax Hprec Hmax mode_NE a b) as C.
  change (round_mode mode_NE) with ZnearestE in C. change (SpecFloat.fexp prec emax) with fexp in C.
  rewrite (rnd_no_overflow _ H) in C. destruct C as (C1 & C2 & _).
  unfold fin in *. rewrite Fa, Fb in C2. split; assumption.
Qed.

Lemma div_spec a b : fin a -> B2R b <> 0 -> Rabs (B2R a / B2R b) <= BIG ->
  fin (div a b) /\ B2R (div a b) = rnd (B2R a / B2R b).
Proof.
  intros Fa Hb H. pose proof (Bdiv_correct prec emax Hprec Hmax mode_NE a b Hb) as C.
  change (round_mode mode_NE) with ZnearestE in C. change (SpecFloat.fexp prec emax) with fexp in C.
  rewrite (rnd_no_overflow _ H) in C. destruct C as (C1 & C2 & _).
  unfold fin in *. rewrite Fa in C2. split; assumption.
Qed.

Lemma fabs_spec a : fin a -> fin (fabs a) /\ B2R (fabs a) = Rabs (B2R a).
Proof.
  intros Fa. unfold fin, fabs in *. rewrite is_finite_Babs, B2R_Babs. split; [exact Fa | reflexivity].
Qed.

Lemma ceil_spec a : fin a -> fin (ceil a) /\ B2R (ceil a) = IZR (Zceil (B2R a)).
Proof.
  intros Fa. pose proof (Bnearbyint_correct prec emax Hmax mode_UP a) as (C1 & C2 & _).
  unfold fin, ceil in *. rewrite C2. split; [exact Fa|]. rewrite C1.
  change (round_mode mode_UP) with Zceil. unfold round, F2R, scaled_mantissa, cexp, FIX_exp; cbn [Fnum Fexp].
  simpl bpow. rewrite Rmult_1_r, Rmult_1_r. reflexivity.
Qed.

Lemma trunc_spec (a : f64) : Btrunc a = Ztrunc (B2R a).
Proof.
  apply eq_IZR. rewrite (Btrunc_correct prec emax Hmax).
  unfold round, F2R, scaled_mantissa, cexp, FIX_exp; cbn [Fnum Fexp].
  simpl bpow. rewrite Rmult_1_r, Rmult_1_r. reflexivity.
Qed.

(* `as i64` on a finite float whose value lies inside the i64 range *)
Lemma to_i64_spec a : fin a -> (i64_min <= Ztrunc (B2R a) <= i64_max)%Z -> to_i64 a = Ztrunc (B2R a).
Proof.
  intros Fa H. unfold to_i64. destruct a; try discriminate Fa.
  - simpl. rewrite Ztrunc_IZR. reflexivity.
  - rewrite trunc_spec.
    destruct (Z.ltb_spec (Ztrunc (B2R (B754_finite s m e e0))) i64_min); [lia|].
    destruct (Z.ltb_spec i64_max (Ztrunc (B2R (B754_finite s m e e0)))); [lia|]. reflexivity.
Qed.

Lemma to_u64_spec a : fin a -> (0 <= Ztrunc (B2R a) <= u64_max)%Z -> to_u64 a = Ztrunc (B2R a).
Proof.
  intros Fa H. unfold to_u64. destruct a; try discriminate Fa.
  - simpl. rewrite Ztrunc_IZR. reflexivity.
  - rewrite trunc_spec.
    destruct (Z.ltb_spec (Ztrunc (B2R (B754_finite s m e e0))) 0); [lia|].
    destruct (Z.ltb_spec u64_max (Ztrunc (B2R (B754_finite s m e e0)))); [lia|]. reflexivity.
Qed.

Lemma Ztrunc_mono x y : x <= y -> (Ztrunc x <= Ztrunc y)%Z.
Proof. apply Ztrunc_le. Qed.

Lemma f1e9_spec : fin f1e9 /\ B2R f1e9 = 1000000000.
Proof. destruct (of_Z_exact 1000000000) as [F E]; [vm_compute; discriminate|]. split; [exact F|exact E]. Qed.
Lemma f2_spec : fin f2 /\ B2R f2 = 2.
Proof. destruct (of_Z_exact 2) as [F E]; [vm_compute; discriminate|]. split; [exact F|exact E]. Qed.
Lemma f8_spec : fin f8 /\ B2R f8 = 8.
Proof. destruct (of_Z_exact 8) as [F E]; [vm_compute; discriminate|]. split; [exact F|exact E]. Qed.
