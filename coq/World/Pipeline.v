(* The whole pipeline as one statement: chrony message histories -> the updater (successive daemon
   instances, Daemon/Updater.v [lives]) -> the records handed to write() -> the segment under the
   release/acquire machine with deaths, restarts and any number of clients (Shm/Machine.v, proved to
   be the standard view semantics in Shm/MachineGenSys.v) -> the record a client's snapshot() returns.
   Every record any client ever obtains, decoded from its cells, is the empty initial record or
   [spec_rec d h] for one daemon instance (rate d) and one prefix h of that instance's message
   history - exactly the records Properties/C01.v proves containment for. *)
From Coq Require Import ZArith List Bool Lia.
From CB Require Import Mach Client Updater UpdaterProofs Gen Machine MachineFacts SeqlockInv GenCyc SeqlockRA.
Import ListNotations.
Open Scope Z_scope.

(* ------------------------------------------------------------------ a record as 8-byte cells *)
Definition ceb_cells (x : ceb) : list Z :=
  [ts_sec (c_as_of x); ts_nsec (c_as_of x); ts_sec (c_void_after x); ts_nsec (c_void_after x);
   c_bound x; c_drift x + 4294967296 * c_reserved x; status_code (c_status x)].

Definition cells_ceb (l : list Z) : ceb :=
  mkceb (mkts (nth 0 l 0) (nth 1 l 0)) (mkts (nth 2 l 0) (nth 3 l 0)) (nth 4 l 0)
        (nth 5 l 0 mod 4294967296) (nth 5 l 0 / 4294967296)
        (match status_of_code (nth 6 l 0) with Some s => s | None => Unknown end).

Definition empty_ceb : ceb := mkceb (mkts 0 0) (mkts 0 0) 0 0 0 Unknown.

Lemma cells_ceb_cells x : 0 <= c_drift x < 4294967296 -> cells_ceb (ceb_cells x) = x.
Proof.
  intros H. destruct x as [[as_s as_n] [va_s va_n] b d r st]. unfold cells_ceb, ceb_cells.
  cbn [nth c_as_of c_void_after c_bound c_drift c_reserved c_status ts_sec ts_nsec] in *.
  assert (E1 : (d + 4294967296 * r) mod 4294967296 = d) by (Z.div_mod_to_equations; lia).
  assert (E2 : (d + 4294967296 * r) / 4294967296 = r) by (Z.div_mod_to_equations; lia).
  rewrite E1, E2. destruct st; reflexivity.
Qed.

Lemma cells_ceb_zero : cells_ceb (repeat 0 7) = empty_ceb.
Proof. reflexivity. Qed.

(* ------------------------------------------------------------------ what the daemon hands to write() *)
(* the k-th write() call (k >= 1) publishes the k-th record of the list *)
Definition pub_of (cs : list ceb) (k : nat) : ceb := nth (k - 1) cs empty_ceb.

Definition pad (n : nat) (l : list Z) : list Z := firstn n l ++ repeat 0 (n - length (firstn n l)).
Lemma pad_length n l : length (pad n l) = n.
Proof. unfold pad. rewrite app_length, repeat_length. pose proof (firstn_le_length n l). lia. Qed.
Lemma pad_7 x : pad 7 (ceb_cells x) = ceb_cells x.
Proof. reflexivity. Qed.

Definition recs_fun (cs : list ceb) : RecFun :=
  {| recf := fun n k => pad n (ceb_cells (pub_of cs k)); recf_len := fun n k => pad_length n _ |}.

(* ------------------------------------------------------------------ every published record has a history *)
Definition from_history (ls : list (Z * list msg)) (x : ceb) : Prop :=
  exists pre d ms post k, ls = pre ++ (d, ms) :: post /\ (k < length ms)%nat /\
                          x = spec_rec d (rev (firstn (S k) ms)).

Lemma spec_run_elements d : forall ms h x, In x (spec_run d h ms) ->
  exists k, (k < length ms)%nat /\ x = spec_rec d (rev (firstn (S k) ms) ++ h).
Proof.
  induction ms as [|m ms IH]; intros h x Hin; cbn [spec_run] in Hin; [contradiction|].
  destruct Hin as [<- | Hin].
  - exists 0%nat. split; [cbn; lia | reflexivity].
  - destruct (IH (m :: h) x Hin) as (k & Hk & ->). exists (S k). split; [cbn; lia|].
    f_equal. change (firstn (S (S k)) (m :: ms)) with (m :: firstn (S k) ms).
    cbn [rev]. rewrite <- app_assoc. reflexivity.
Qed.

Theorem lives_from_history : forall ls cs, lives ls = Some cs -> forall x, In x cs -> from_history ls x.
Proof.
  induction ls as [|[d ms] rest IH]; intros cs H x Hin; cbn [lives] in H.
  - inversion H; subst. contradiction.
  - destruct (urun (u_init d) ms) as [[u b]|] eqn:R; [|discriminate].
    destruct (lives rest) as [c|] eqn:Lr; [|discriminate]. inversion H; subst; clear H.
    apply in_app_or in Hin as [Hin|Hin].
    + rewrite <- state_after_nil in R. destruct (urun_spec d ms [] u b R) as (_ & -> & _).
      destruct (spec_run_elements d ms [] x Hin) as (k & Hk & ->). rewrite app_nil_r.
      exists [], d, ms, rest, k. repeat split; auto.
    + destruct (IH c eq_refl x Hin) as (pre & d' & ms' & post & k & -> & Hk & ->).
      exists ((d, ms) :: pre), d', ms', post, k. repeat split; auto.
Qed.

(* ------------------------------------------------------------------ the chain *)
Section Chain.
Variable ls : list (Z * list msg).      (* the daemon instances: rate and message history of each *)
Variable cs : list ceb.
Hypothesis Hlives : lives ls = Some cs.
Hypothesis Hrates : forall d ms, In (d, ms) ls -> 0 <= d < 4294967296.

Lemma spec_rec_drift_range x : from_history ls x -> 0 <= c_drift x < 4294967296.
Proof.
  intros (pre & d & ms & post & k & E & _ & ->). rewrite spec_drift. apply (Hrates d ms).
  rewrite E. apply in_or_app. right. left. reflexivity.
Qed.

Lemma pub_of_cases k : pub_of cs k = empty_ceb \/ from_history ls (pub_of cs k).
Proof.
  unfold pub_of. destruct (Nat.lt_ge_cases (k - 1) (length cs)) as [H|H].
  - right. apply (lives_from_history ls cs Hlives). apply nth_In. exact H.
  - left. apply nth_overflow. exact H.
Qed.

(* every record any client obtains in any execution - any schedule of writer accesses, client
   accesses with any release/acquire-legal choice of the store each load returns, daemon deaths at
   any access, restarts, new clients - decodes to the empty record or to the record the
   specification gives for one instance's history prefix *)
Theorem snapshot_is_a_specified_record : forall c ts m o,
  c_cells c = 7%nat -> safe_cfg c = true -> Forall real_token ts ->
  @m_run (recs_fun cs) (m_init c) ts = (m, o) -> Z.of_nat (m_nrec m) < 32767 ->
  forall j ret rec, In (ORet j ret rec) o -> ret <> RetErr ->
    cells_ceb rec = empty_ceb \/ from_history ls (cells_ceb rec).
Proof.
  intros c ts m o H7 Hs Hts R Hn j ret rec Hin Hne.
  destruct (@m_run_inv (recs_fun cs) c Hs ts (m_init c) m o (@MInv_init (recs_fun cs) c) Hts R Hn) as (_ & _ & _ & H).
  destruct (H j ret rec Hin Hne) as [-> | (a & q & e & Ha & _ & _ & _ & ->)].
  - left. rewrite H7. reflexivity.
  - cbn [recf recs_fun]. rewrite H7, pad_7.
    destruct (pub_of_cases a) as [E|E].
    + left. rewrite E. reflexivity.
    + right. rewrite cells_ceb_cells by (apply spec_rec_drift_range; exact E). exact E.
Qed.
End Chain.
