(* C01: end-to-end containment.  World model over the reals (unit: ns).
   C, M : R -> R are what the realtime / monotonic clock show at true time t; a *read* returns the
   floor.  For one record of the segment (produced by any daemon incarnation from its message
   history h) and one client call:
     t_a  true instant of the daemon's as-of reading      (as_of <= M t_a)
     t_r  true instant the chrony report is valid for     (t_a <= t_r : the reading precedes the query, C12)
     t_c  true instant of the client's realtime read      (t_r <= t_c : the record was published before it was read)
     t_m  true instant of the client's monotonic read     (t_c <= t_m : realtime is read first, C12)
   Hypotheses of the property: chrony's report is valid at t_r; the clock error grows no faster
   than the configured drift rate, measured on the monotonic clock; M is non-decreasing. *)
From Coq Require Import ZArith Reals Lra Psatz List.
From Flocq Require Import Core.
From CB Require Import Mach MachProofs F64 F64Proofs ChronyFloat ChronyFloatProofs Client ClientProofs
                       Bound BoundProofs Updater UpdaterProofs.
Import ListNotations.
Open Scope R_scope.

Section Core.
Variables Er Ec : R.            (* |C(t_r) - t_r|, |C(t_c) - t_c| *)
Variables Ctc tc : R.           (* ideal realtime clock at t_c, true time *)
Variables Mtm Mta : R.          (* ideal monotonic clock at t_m and t_a *)
Variables real mono asof bound g : R.  (* integers returned / stored, as reals *)
Variables rho u4 : R.           (* drift rate (ppb/1e9), 4*2^-53 *)
Hypothesis Hrho : 0 <= rho < 1.
Hypothesis Hu4 : 0 < u4 <= / 1125899906842624.   (* 2^-50 *)
Hypothesis HEc_def : Ec = Rabs (Ctc - tc).
Hypothesis HEr0 : 0 <= Er.
Hypothesis Hdrift : Ec <= Er + rho * (Mtm - Mta).
Hypothesis Hreal : Ctc - 1 < real <= Ctc.
Hypothesis Hmono : Mtm - 1 < mono <= Mtm.
Hypothesis Hasof : asof <= Mta.
Hypothesis Hbound : Er * (1 - u4) <= bound.
Hypothesis Hbrange : 0 <= bound <= 8796093022208.          (* 2^43 *)
Hypothesis Hx : 0 <= mono - asof <= 1000000000000.
Hypothesis Hg : rho * (mono - asof) * (1 - u4) - 1 < g.
Let hw := bound + g.
Theorem containment_core : real - hw - 4 <= tc <= real + hw + 4.
Proof.
  unfold hw.
  assert (Hx2 : rho * (mono - asof) <= 1000000000000) by nra.
  assert (HEr : Er <= bound + u4 * Er) by lra.
  assert (HErb : Er <= 2 * 8796093022208).
  { assert (u4 <= /2). { destruct Hu4. eapply Rle_trans; [eassumption|]. lra. } nra. }
  assert (Hu4Er : u4 * Er <= 1/32). { destruct Hu4 as [_ Hle]. assert (u4 * Er <= / 1125899906842624 * (2 * 8796093022208)) by nra. lra. }
  assert (Hu4x : u4 * (rho * (mono - asof)) <= 1/1000). { destruct Hu4 as [_ Hle]. assert (u4 * (rho * (mono - asof)) <= / 1125899906842624 * 1000000000000) by nra. lra. }
  assert (HM : rho * (Mtm - Mta) <= rho * (mono - asof) + rho) by nra.
  assert (HEcb : Ec <= bound + g + 3) by nra.
  rewrite HEc_def in HEcb. unfold Rabs in HEcb. destruct (Rcase_abs (Ctc - tc)); lra.
Qed.
End Core.

Lemma u4_small : 0 < 4 * u <= / 1125899906842624.
Proof.
  pose proof u_pos. split; [lra|]. unfold u.
  replace (bpow radix2 (-53)) with (/ bpow radix2 53) by (symmetry; apply (bpow_opp radix2 53)).
  replace (bpow radix2 53) with 9007199254740992 by (rewrite <- (IZR_Zpower radix2 53) by Lia.lia; reflexivity).
  lra.
Qed.

(* ---------------------------------------------------------------------------------------------
   The composition: any published record that carries a measurement (history h of its daemon
   incarnation, most recent message first), read by a client at any later instant. *)
Theorem containment :
  forall (drift : Z) (h : list msg) (d e o phc : Z) (a real mono el lt : timespec) (st : status)
         (C M : R -> R) (ta tr tc tm : R),
  (* the record's measurement is the report (d, e, o, phc) stamped a *)
  last_sync h = Some ((bound_of_words d e o + phc)%Z, a) ->
  (* meaningful range *)
  word d -> word e -> word o -> 0 <= cf_value d < 1024 -> 0 <= cf_value e < 1024 -> Rabs (cf_value o) < 1024 ->
  (0 <= phc)%Z -> (bound_of_words d e o + phc < 2 ^ 43)%Z -> (0 <= drift < 1000000000)%Z ->
  ts_inR a -> ts_inR (mkts (ts_sec a + 1000) 0) -> ts_inR real -> ts_inR mono ->
  (* the world *)
  (forall x y, x <= y -> M x <= M y) -> ta <= tr -> tr <= tc -> tc <= tm ->
  IZR (ns a) <= M ta ->                                                     (* as-of = floor of the monotonic clock at t_a *)
  Rabs (C tr - tr) <= S d e o * 1000000000 + IZR phc ->                      (* chrony's report is valid at t_r *)
  Rabs (C tc - tc) <= Rabs (C tr - tr) + IZR drift / 1000000000 * (M tc - M tr) ->   (* drift hypothesis *)
  C tc - 1 < IZR (ns real) <= C tc ->                                       (* the client's realtime read *)
  M tm - 1 < IZR (ns mono) <= M tm ->                                       (* ... and its later monotonic read *)
  (* the client's result *)
  compute_bound_at (spec_rec drift h) real mono = Ok (el, lt, st) -> st <> Unknown ->
  IZR (ns el) - 4 <= tc <= IZR (ns lt) + 4.
Proof.
  intros drift h d e o phc a real mono el lt st C M ta tr tc tm
         HL Wd We Wo Rd Re Ro Hphc Hb43 Hdr Ha Hva Hreal Hmono Mmono Hab Hbc Hcd Hasof Hvalid Hdrift Hrr Hmr HC Hst.
  (* the record *)
  set (c := spec_rec drift h) in *.
  assert (Ec : c = mkceb a (mkts (ts_sec a + 1000) 0) (bound_of_words d e o + phc) drift 0 (latest_class h)).
  { unfold c, spec_rec. rewrite HL. reflexivity. }
  destruct (bound_spec d e o Wd We Wo Rd Re Ro) as (B0 & BL & _).
  assert (HcR : ceb_inR c).
  { rewrite Ec. unfold ceb_inR; cbn [c_as_of c_void_after c_bound c_drift].
    split; [exact Ha | split; [exact Hva | split; Lia.lia]]. }
  assert (Hd9 : (c_drift c < 1000000000)%Z) by (rewrite Ec; cbn; Lia.lia).
  destruct (interval_symmetric c real mono el lt st HcR Hreal Hmono HC) as (Hup & Hdn & _ & _).
  pose proof (status_is_decay c real mono el lt st HcR Hreal Hmono HC) as Hdec.
  (* no causality error: mono >= as_of from the world *)
  assert (Hma : (ns a <= ns mono)%Z).
  { assert (IZR (ns a) < IZR (ns mono) + 1).
    { assert (M ta <= M tm) by (apply Mmono; lra). lra. }
    replace (IZR (ns mono) + 1) with (IZR (ns mono + 1)) in H by (rewrite plus_IZR; reflexivity).
    apply lt_IZR in H. Lia.lia. }
  assert (Hel : elapsed c mono = (ns mono - ns a)%Z).
  { unfold elapsed. rewrite Ec. cbn [c_as_of]. Lia.lia. }
  (* status not Unknown: the record is younger than 1000 s *)
  assert (Hyoung : (ns mono - ns a <= 1000000000000)%Z).
  { rewrite Hdec in Hst. unfold decay in Hst. rewrite Ec in Hst. cbn [c_status c_as_of c_void_after] in Hst.
    pose proof (ts_inR_norm _ Ha) as Na. unfold NS in Na.
    assert (Hv : (ns (mkts (ts_sec a + 1000) 0) <= ns a + 1000000000000)%Z) by (unfold ns, NS; cbn; Lia.lia).
    destruct (latest_class h); try (exfalso; apply Hst; reflexivity);
      destruct (Z.ltb_spec (ns mono) (ns a + 5000000000)); try Lia.lia;
      destruct (Z.ltb_spec (ns mono) (ns (mkts (ts_sec a + 1000) 0))); try Lia.lia; exfalso; apply Hst; reflexivity. }
  (* growth *)
  assert (HeR : (0 <= elapsed c mono <= EMAX)%Z) by (rewrite Hel; unfold EMAX; Lia.lia).
  assert (HdR : (0 <= c_drift c <= DOK)%Z) by (rewrite Ec; cbn; unfold DOK; Lia.lia).
  pose proof (growth_width (elapsed c mono) (c_drift c) HeR HdR) as [GW _]. cbv zeta in GW.
  unfold halfwidth in Hup, Hdn.
  set (g := growth (elapsed c mono) (c_drift c)) in *.
  assert (Ecb : c_bound c = (bound_of_words d e o + phc)%Z) by (rewrite Ec; reflexivity).
  assert (Ecd : c_drift c = drift) by (rewrite Ec; reflexivity).
  rewrite Ecb in Hup, Hdn. rewrite Ecd, Hel in GW.
  pose proof u4_small as U4. pose proof u_pos as Up.
  (* instantiate the core *)
  pose proof (containment_core (Rabs (C tr - tr)) (Rabs (C tc - tc)) (C tc) tc (M tm) (M ta)
                (IZR (ns real)) (IZR (ns mono)) (IZR (ns a)) (IZR (bound_of_words d e o + phc)) (IZR g)
                (IZR drift / 1000000000) (4 * u)) as K.
  assert (Hrho : 0 <= IZR drift / 1000000000 < 1).
  { assert (0 <= IZR drift) by (apply IZR_le; Lia.lia). assert (IZR drift < 1000000000) by (apply IZR_lt; Lia.lia). split; [|lra].
    apply Rmult_le_pos; lra. }
  assert (E1 : IZR (ns lt) = IZR (ns real) + (IZR (bound_of_words d e o + phc) + IZR g)).
  { rewrite <- !plus_IZR. f_equal. Lia.lia. }
  assert (E2 : IZR (ns el) = IZR (ns real) - (IZR (bound_of_words d e o + phc) + IZR g)).
  { rewrite <- plus_IZR, <- minus_IZR. f_equal. Lia.lia. }
  rewrite E1, E2.
  assert (KK : IZR (ns real) - (IZR (bound_of_words d e o + phc) + IZR g) - 4 <= tc <=
               IZR (ns real) + (IZR (bound_of_words d e o + phc) + IZR g) + 4).
  { apply K; clear K.
    - exact Hrho.
    - exact U4.
    - reflexivity.
    - apply Rabs_pos.
    - (* drift: M tc <= M tm, M ta <= M tr *)
      assert (M tc <= M tm) by (apply Mmono; lra). assert (M ta <= M tr) by (apply Mmono; lra).
      eapply Rle_trans; [exact Hdrift|]. apply Rplus_le_compat_l. apply Rmult_le_compat_l; lra.
    - exact Hrr.
    - exact Hmr.
    - exact Hasof.
    - (* the published bound covers the report's validity radius up to 4u *)
      rewrite plus_IZR.
      assert (0 <= IZR phc) by (apply IZR_le; Lia.lia).
      assert (Rabs (C tr - tr) * (1 - 4 * u) <= (S d e o * 1000000000 + IZR phc) * (1 - 4 * u)).
      { apply Rmult_le_compat_r; [pose proof u_small; lra | exact Hvalid]. }
      assert (IZR phc * (1 - 4 * u) <= IZR phc) by (pose proof u_small; nra).
      lra.
    - split; [apply IZR_le; Lia.lia|]. apply IZR_le. change 8796093022208%Z with (2 ^ 43)%Z. Lia.lia.
    - rewrite <- minus_IZR. split; [apply IZR_le; Lia.lia | apply IZR_le; Lia.lia].
    - rewrite <- minus_IZR.
      replace (IZR drift / 1000000000 * IZR (ns mono - ns a) * (1 - 4 * u))
        with (IZR (ns mono - ns a) * IZR drift / 1000000000 * (1 - 4 * u)) by (unfold Rdiv; ring).
      exact GW. }
  lra.
Qed.
