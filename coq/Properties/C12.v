(* C12 - clock reads are ordered so that delays only make the bound more pessimistic.
   The order of the reads is a fact about the code that no input/output experiment on the pure
   functions reveals; it is measured on every run (virtual clock + fake chronyd recording which of
   "as-of reading" and "request received" came first; log of the clock ids read by now()) and the
   generated Current_C12.v must prove that the measured orders are the ones below. *)
From Coq Require Import ZArith List.
From CB Require Import Mach MachProofs Client ClientProofs Poller PollerProofs.
Import ListNotations.
Open Scope Z_scope.

Theorem C12_poller_order : poller_actions = [AReadMono; AQuery].
Proof. reflexivity. Qed.

Theorem C12_client_order : now_actions = [AReadReal; AReadMonoC].
Proof. reflexivity. Qed.

(* the as-of of a forwarded report is the reading taken at the top of the iteration (before the query) *)
Theorem C12_as_of_is_pre_query_reading : forall cfg lg s a v r t,
  snd (poll_step cfg lg s) = PMData a v r t -> a = p_t s /\ p_mode s = PReply.
Proof. exact data_as_of. Qed.

(* whatever time the query takes, an earlier as-of only enlarges what every client computes *)
Theorem C12_earlier_as_of_is_pessimistic : forall c c' mono,
  ceb_inR c -> ceb_inR c' -> ts_inR mono -> c_drift c < 1000000000 ->
  c_bound c' = c_bound c -> c_drift c' = c_drift c -> ns (c_as_of c') <= ns (c_as_of c) ->
  halfwidth c mono <= halfwidth c' mono.
Proof. exact halfwidth_antitone_as_of. Qed.

(* any delay between the realtime read and the later monotonic read only enlarges the interval,
   which stays centred on the realtime reading (C05_symmetric) *)
Theorem C12_client_delay_is_pessimistic : forall c mono mono',
  ceb_inR c -> ts_inR mono -> ts_inR mono' -> c_drift c < 1000000000 ->
  ns mono <= ns mono' -> halfwidth c mono <= halfwidth c mono'.
Proof. exact halfwidth_delay_pessimistic. Qed.
