(* C13 - chronyd outages and PHC read failures degrade status on schedule.
   Model: Daemon/Poller.v (poll_step = one iteration of run_clock_error_bound_poller with the real
   ClockErrorBoundPoller; instants in ns; p_t = as_of reading, p_d = duration of the query,
   p_e = further delay until the grace period is evaluated). *)
From Coq Require Import ZArith Bool List.
From CB Require Import Poller PollerProofs.
Import ListNotations.
Open Scope Z_scope.

Theorem C13_silence_class : forall cfg lg s, p_mode s = PSilent ->
  snd (poll_step cfg lg s) = (if (p_t s + p_d s + p_e s) - lg <? GRACE_NS then PMNoReplyGrace else PMNoReply) /\
  fst (poll_step cfg lg s) = lg.
Proof. exact silence_class. Qed.

(* every history: the state threaded through the loop is the reception instant of the most recent
   tracking reply (start - 5 s before any), so the class above is "last good answer < 5 s old" *)
Theorem C13_history : forall cfg start ss h,
  poll_run cfg (last_good_of start h) ss =
  (fix go h ss := match ss with [] => [] | s :: ss' => snd (poll_step cfg (last_good_of start h) s) :: go (s :: h) ss' end) h ss.
Proof. exact poll_run_spec. Qed.

Theorem C13_startup_unknown_class : forall cfg start ss,
  Forall (fun s => p_mode s = PSilent /\ start <= p_t s + p_d s + p_e s) ss ->
  Forall (fun m => m = PMNoReply) (poll_run cfg (poller_init start) ss).
Proof. exact startup_silence. Qed.

Theorem C13_phc_unreadable_is_not_a_measurement : forall cfg_refid lg s,
  p_mode s = PReply -> p_refid s = cfg_refid -> p_phc s = None ->
  let m := snd (poll_step (Some cfg_refid) lg s) in
  (m = PMPhcFailGrace \/ m = PMPhcFail) /\ (m = PMPhcFailGrace <-> p_e s < GRACE_NS).
Proof. exact phc_unreadable. Qed.

Theorem C13_phc_added_iff_refid_matches : forall cfg lg s, p_mode s = PReply ->
  match cfg with
  | Some r =>
      if r =? p_refid s then
        match p_phc s with
        | Some v => snd (poll_step cfg lg s) = PMData (p_t s) v (p_refid s) (p_tag s)
        | None => True
        end
      else snd (poll_step cfg lg s) = PMData (p_t s) 0 (p_refid s) (p_tag s)
  | None => snd (poll_step cfg lg s) = PMData (p_t s) 0 (p_refid s) (p_tag s)
  end.
Proof. exact phc_added_iff. Qed.

Example C13_example :   (* good answer at 100 s; silences evaluated 4.999999999 s and 5 s after it *)
  poll_run (Some 5) (poller_init 90000000000)
    [ mkps 95000000000 PSilent 0 0 None 0 0;
      mkps 100000000000 PReply 1000 0 (Some 77) 5 1;
      mkps 104000000000 PSilent 1000000000 999 None 0 0;
      mkps 104000000000 PSilent 1000000000 1000 None 0 0;
      mkps 106000000000 PReply 0 5000000000 None 5 2 ]
  = [PMNoReply; PMData 100000000000 77 5 1; PMNoReplyGrace; PMNoReply; PMPhcFail].
Proof. vm_compute. reflexivity. Qed.

(* the configured reference id (value parser of --phc-ref-id): a four-character ASCII name is the
   big-endian number of its bytes, two different four-character names never give the same id, and
   the result is a u32; a shorter name is right-aligned (so "PHC" is 0x00504843, not chronyd's
   left-aligned 0x50484300: such a name never matches - an observation, not a finding) *)
From CB Require Import Cli.

Theorem C13_refid_of_four_chars : forall a b c d, is_ascii a = true -> is_ascii b = true -> is_ascii c = true -> is_ascii d = true ->
  refid_of [a; b; c; d] = Some (a * 16777216 + b * 65536 + c * 256 + d).
Proof. exact refid_of_four. Qed.

Theorem C13_refid_of_injective_on_four_chars : forall a b c d a' b' c' d',
  is_ascii a = true -> is_ascii b = true -> is_ascii c = true -> is_ascii d = true ->
  is_ascii a' = true -> is_ascii b' = true -> is_ascii c' = true -> is_ascii d' = true ->
  refid_of [a; b; c; d] = refid_of [a'; b'; c'; d'] -> [a; b; c; d] = [a'; b'; c'; d'].
Proof. exact refid_of_four_injective. Qed.

Theorem C13_refid_is_u32 : forall bs v, refid_of bs = Some v -> 0 <= v < 4294967296.
Proof. exact refid_of_range. Qed.

Example C13_refid_examples :
  refid_of [80; 72; 67; 48] = Some 1346913072 (* "PHC0" = 0x50484330 *) /\
  refid_of [80; 72; 67] = Some 5261379 (* "PHC" = 0x00504843 *) /\
  refid_of [80; 72; 67; 48; 48] = None /\ refid_of [80; 200; 67; 48] = None /\ refid_of [] = Some 0.
Proof. repeat split; reflexivity. Qed.
