(* C05 - client interval: centred on the clock reading, wide enough, growing with age.
   Model: Shm/Client.v (compute_bound_at, bit-exact binary64 growth).  Range R: normalised
   timestamps with |sec| <= 2^31, 0 <= bound < 2^60, u32 drift (ClientProofs.ceb_inR). *)
From Coq Require Import ZArith Reals.
From Flocq Require Import Core.
From CB Require Import Mach MachProofs F64 F64Proofs Client ClientProofs.
Open Scope Z_scope.

(* symmetric around the realtime reading, earliest <= latest, half-width = bound + growth >= bound *)
Theorem C05_symmetric : forall c real mono e l st, ceb_inR c -> ts_inR real -> ts_inR mono ->
  compute_bound_at c real mono = Ok (e, l, st) ->
  ns l - ns real = halfwidth c mono /\ ns real - ns e = halfwidth c mono /\ ns e <= ns l /\
  c_bound c <= halfwidth c mono.
Proof. exact interval_symmetric. Qed.

(* the growth term against the exact product elapsed * drift / 10^9: never less up to 1 ns of
   integer truncation and the binary64 relative error 4 * 2^-53; never more than 4 * 2^-53 above *)
Theorem C05_width : forall e d, 0 <= e <= EMAX -> 0 <= d <= DOK ->
  let x := (IZR e * IZR d / 1000000000)%R in
  (x * (1 - 4 * u) - 1 < IZR (growth e d) <= x * (1 + 4 * u))%R.
Proof. exact growth_width. Qed.

(* the half-width never shrinks as the record gets older (exact, no tolerance) *)
Theorem C05_monotone : forall c mono1 mono2, ceb_inR c -> ts_inR mono1 -> ts_inR mono2 ->
  c_drift c < 1000000000 -> ns mono1 <= ns mono2 -> halfwidth c mono1 <= halfwidth c mono2.
Proof. exact halfwidth_monotone. Qed.

(* non-vacuity: a concrete record / reading in range R with an Ok outcome; 0.29 s x 100 ppb
   gives 28 ns (the -1 ns of C05_width is attained: exact product 29 ns) *)
Example C05_example :
  let c := mkceb (mkts 100 0) (mkts 1100 0) 5000 100 0 Synchronized in
  compute_bound_at c (mkts 1700000000 500) (mkts 100 290000000)
  = Ok (mkts 1699999999 999995472, mkts 1700000000 5528, Synchronized).
Proof. vm_compute. reflexivity. Qed.
