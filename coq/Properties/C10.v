(* C10 - only a fresh, well-formed chrony report counts as synchronised.
   Model: Daemon/Bound.v classify leap interval age, age = None when the reference time is in the
   future, else Some (whole seconds, nanoseconds) elapsed; T = stale_threshold interval. *)
From Coq Require Import ZArith Reals.
From Flocq Require Import Core.
From CB Require Import Mach F64 ChronyFloat ChronyFloatProofs Client Bound BoundProofs.
Open Scope Z_scope.

Theorem C10_synchronized_iff : forall leap interval age, 0 <= leap ->
  (classify leap interval age = Synchronized <->
   leap <= 2 /\ exists s n, age = Some (s, n) /\ (s < stale_threshold interval \/ (s = stale_threshold interval /\ n <= 0))).
Proof. exact classify_sync_iff. Qed.

Theorem C10_freerunning_iff : forall leap interval age, 0 <= leap ->
  (classify leap interval age = FreeRunning <->
   exists s n, age = Some (s, n) /\
     (leap = 3 \/ (leap <= 2 /\ (stale_threshold interval < s \/ (s = stale_threshold interval /\ 0 < n))))).
Proof. exact classify_freerunning_iff. Qed.

Theorem C10_unknown_iff : forall leap interval age, 0 <= leap ->
  (classify leap interval age = Unknown <-> age = None \/ 4 <= leap).
Proof. exact classify_unknown_iff. Qed.

(* the staleness threshold is eight update intervals, truncated to whole seconds (saturating) *)
Theorem C10_threshold : forall w, 0 <= w < 4294967296 ->
  stale_threshold w = Z.min u64_max (Z.max 0 (Ztrunc (8 * cf_value w))).
Proof. exact stale_threshold_spec. Qed.

Example C10_example :   (* interval 4.0 s (coef 2^23, exponent field 4): threshold 32 s *)
  let w := 4 * 33554432 + 8388608 in
  stale_threshold w = 32 /\ classify 1 w (Some (32, 0)) = Synchronized /\
  classify 1 w (Some (32, 1)) = FreeRunning /\ classify 3 w (Some (0, 0)) = FreeRunning /\
  classify 4 w (Some (0, 0)) = Unknown /\ classify 0 w None = Unknown.
Proof. vm_compute. repeat split. Qed.
