(* C10 - only a fresh, well-formed chrony report counts as synchronised.
   Model: Daemon/Bound.v classify leap interval age, age = None when the reference time is in the
   future, else Some (whole seconds, nanoseconds) elapsed; T = stale_threshold interval. *)
From Coq Require Import ZArith Reals Lia Lra.
From Flocq Require Import Core.
From CB Require Import Mach F64 ChronyFloat ChronyFloatProofs Client Bound BoundProofs.
Open Scope Z_scope.

Theorem C10_synchronized_iff : forall leap interval age, 0 <= leap ->
  (classify leap interval age = Synchronized <->
   leap <= 2 /\ exists s n, age = Some (s, n) /\ (s < stale_threshold interval \/ (s = stale_threshold interval /\ n <= 0))).
Proof. exact classify_sync_iff. Qed.

Theorem C10_freerunning_iff : forall leap interval age, 0 <= leap ->
  (classify leap interval age = FreeRunning <->
   exists s n, age = Some (s, n) /\
     (leap = 3 \/ (leap <= 2 /\ (stale_threshold interval < s \/ (s = stale_threshold interval /\ 0 < n))))).
Proof. exact classify_freerunning_iff. Qed.

Theorem C10_unknown_iff : forall leap interval age, 0 <= leap ->
  (classify leap interval age = Unknown <-> age = None \/ 4 <= leap).
Proof. exact classify_unknown_iff. Qed.

(* the staleness threshold is eight update intervals, truncated to whole seconds (saturating) *)
Theorem C10_threshold : forall w, 0 <= w < 4294967296 ->
  stale_threshold w = Z.min u64_max (Z.max 0 (Ztrunc (8 * cf_value w))).
Proof. exact stale_threshold_spec. Qed.

Example C10_example :   (* interval 4.0 s (coef 2^23, exponent field 4): threshold 32 s *)
  let w := 4 * 33554432 + 8388608 in
  stale_threshold w = 32 /\ classify 1 w (Some (32, 0)) = Synchronized /\
  classify 1 w (Some (32, 1)) = FreeRunning /\ classify 3 w (Some (0, 0)) = FreeRunning /\
  classify 4 w (Some (0, 0)) = Unknown /\ classify 0 w None = Unknown.
Proof. vm_compute. repeat split. Qed.

(* a negative update interval (chronyd can report one after a backwards step of the clock): eight
   intervals are negative, the threshold saturates to 0 s, and only an age of exactly zero is
   not "older than eight intervals" *)
Theorem C10_negative_interval_is_always_stale : forall w leap s n, 0 <= w < 4294967296 -> 0 <= leap ->
  (cf_value w < 0)%R -> classify leap w (Some (s, n)) = Synchronized -> s < 0 \/ (s = 0 /\ n <= 0).
Proof.
  intros w leap s n Hw Hl Hneg H.
  apply C10_synchronized_iff in H; [|exact Hl]. destruct H as (_ & s' & n' & E & H). inversion E; subst s' n'.
  assert (T : stale_threshold w = 0).
  { rewrite C10_threshold by exact Hw.
    assert (Ztrunc (8 * cf_value w) <= 0).
    { rewrite Raux.Ztrunc_ceil by (lra). apply Raux.Zceil_glb. simpl. lra. }
    unfold u64_max. lia. }
  rewrite T in H. exact H.
Qed.

Example C10_negative_interval_example :   (* interval -4.0 s (coefficient -2^23, exponent field 4) *)
  let w := 4 * 33554432 + (33554432 - 8388608) in
  stale_threshold w = 0 /\ classify 0 w (Some (0, 1)) = FreeRunning /\ classify 1 w (Some (86400, 0)) = FreeRunning /\
  classify 0 w (Some (0, 0)) = Synchronized.
Proof. vm_compute. repeat split; reflexivity. Qed.
