(* C07 - the published bound implements |offset| + dispersion + delay/2 (+PHC), rounded up.
   Model: Daemon/Bound.v (bit-exact binary64 on the raw chrony wire words).
   S d e o = delay/2 + dispersion + |offset| in seconds as an exact real. *)
From Coq Require Import ZArith Reals Lra.
From Flocq Require Import Core.
From CB Require Import Mach F64 F64Proofs ChronyFloat ChronyFloatProofs Bound BoundProofs.
Open Scope R_scope.

(* meaningful range: delay and dispersion non-negative, all three magnitudes below 1024 s *)
Theorem C07_bound : forall d e o, word d -> word e -> word o ->
  0 <= cf_value d < 1024 -> 0 <= cf_value e < 1024 -> Rabs (cf_value o) < 1024 ->
  (0 <= bound_of_words d e o)%Z /\
  S d e o * 1000000000 * (1 - 4 * u) <= IZR (bound_of_words d e o) < S d e o * 1000000000 * (1 + 5 * u) + 1.
Proof. exact bound_spec. Qed.

(* Known finding C07-fp: the strict reading "never smaller than the sum" fails by binary64 rounding.
   C07_bound says every deficit is at most 4u * S * 1e9 (the class); this is an instance:
   dispersion 2^-9 s, offset 2^-70 s, delay 0: the exact sum is 1953125 ns + 8.5e-13 ns, the code gives 1953125. *)
Definition w_disp : Z := 121 * 33554432 + 8388608.   (* 2^23 * 2^(-7-25) = 2^-9 *)
Definition w_off : Z := 83 * 33554432 + 1.            (* 1 * 2^(-45-25) = 2^-70 *)

Theorem C07_fp_witness :
  bound_of_words 0 w_disp w_off = 1953125%Z /\ IZR 1953125 < S 0 w_disp w_off * 1000000000.
Proof.
  split; [vm_compute; reflexivity|].
  unfold S, cf_value.
  replace (cf_coef 0) with 0%Z by (vm_compute; reflexivity).
  replace (cf_coef w_disp) with 8388608%Z by (vm_compute; reflexivity).
  replace (cf_exp w_disp) with (-32)%Z by (vm_compute; reflexivity).
  replace (cf_coef w_off) with 1%Z by (vm_compute; reflexivity).
  replace (cf_exp w_off) with (-70)%Z by (vm_compute; reflexivity).
  replace (bpow radix2 (-32)) with (/ 4294967296).
  2:{ replace (bpow radix2 (-32)) with (/ bpow radix2 32) by (symmetry; apply (bpow_opp radix2 32)).
      f_equal. }
  pose proof (bpow_gt_0 radix2 (-70)) as P.
  rewrite Rabs_pos_eq by lra. lra.
Qed.

Example C07_example :   (* delay 100 ms, dispersion 20 ms, offset -7 ms (negative) -> 77000001 *)
  bound_of_words (126 * 33554432 + 13421773) (124 * 33554432 + 10737418) (122 * 33554432 + (33554432 - 15032385)) = 77000001%Z.
Proof. vm_compute. reflexivity. Qed.
