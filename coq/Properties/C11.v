(* C11 - generation field obeys the documented protocol in every reachable state. *)
From Coq Require Import ZArith List.
From CB Require Import Gen GenProofs GenHistory.
Import ListNotations.
Open Scope Z_scope.

(* one update, from every 16-bit start value *)
Theorem C11_generation_step : forall g, 0 <= g < 65536 ->
  Z.odd (pre g) = true /\ Z.even (post (pre g)) = true /\ post (pre g) <> 0 /\ post (pre g) <> g /\
  (65534 <= g -> post (pre g) = 2) /\ (Z.odd g = true -> pre g = g) /\
  0 <= pre g < 65536 /\ 0 <= post (pre g) < 65536.
Proof. exact generation_step_spec. Qed.

(* every history of complete and interrupted updates, from any published state *)
Theorem C11_history : forall s ops, GInv s -> GInv (grun s ops).
Proof. exact GInv_run. Qed.

(* the first publication on a wiped segment (generation 0) establishes the invariant *)
Theorem C11_first_publication :
  GInv (grun {| g_val := 0; g_phase := Clean |} [Begin; End]).
Proof. exact ginv_first_publication. Qed.

Theorem C11_constant_during_update : forall s, g_phase s = Copying ->
  forall o, o <> End -> g_val (gstep s o) = g_val s.
Proof. exact copying_constant. Qed.

Theorem C11_completed_update_changes : forall s, GInv s -> g_phase s <> Copying ->
  g_val (gstep (gstep s Begin) End) <> g_val s /\ g_phase (gstep (gstep s Begin) End) = Clean.
Proof. exact complete_update_changes. Qed.

Theorem C11_adopts_crashed_value : forall s, GInv s -> g_phase s = Dirty ->
  g_val (gstep s Begin) = g_val s.
Proof. exact adopt_dirty. Qed.
