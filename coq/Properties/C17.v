(* C17 - segment layout and C ABI match their published descriptions.
   Shm/Layout.v is the transcription of docs/PROTOCOL.md (trusted, 40 lines). *)
From Coq Require Import ZArith List Bool.
From CB Require Import Mach Client Layout LayoutProofs.
Import ListNotations.
Open Scope Z_scope.

Theorem C17_total_size : forall h c, length (encode_header h ++ encode_ceb c) = 72%nat.
Proof. exact segment_is_72_bytes. Qed.

(* header fields at offsets 0, 4, 8, 12, 14 with widths 4, 4, 4, 2, 2 (little endian) *)
Theorem C17_header_fields : forall h rest, hdr_ok h ->
  let bs := encode_header h ++ rest in
  le_value (slice bs 0 4) = h_magic0 h /\ le_value (slice bs 4 4) = h_magic1 h /\
  le_value (slice bs 8 4) = h_size h /\ le_value (slice bs 12 2) = h_version h /\ le_value (slice bs 14 2) = h_generation h.
Proof. exact header_fields. Qed.

(* record fields at offsets 16, 24, 32, 40, 48 (i64), 56, 60 (u32), 64 (status 0/1/2): decoding
   by those offsets inverts the encoding, for every record *)
Theorem C17_record_round_trip : forall pre c tl, ceb_ok c -> decode_ceb (pre ++ encode_ceb c ++ tl) (length pre) = Some c.
Proof. exact decode_encode_ceb_tl. Qed.

Theorem C17_header_round_trip : forall h rest, hdr_ok h -> decode_header (encode_header h ++ rest) = h.
Proof. exact decode_encode_header. Qed.

Example C17_example_bytes :   (* the first 16 bytes of a freshly created segment after one publication *)
  encode_header (fresh_header 2) = [78; 90; 77; 65; 0; 2; 66; 67; 72; 0; 0; 0; 1; 0; 2; 0].
Proof. vm_compute. reflexivity. Qed.

Example C17_example_status :
  slice (encode_header (fresh_header 2) ++ encode_ceb (mkceb (mkts 1 2) (mkts 3 4) 5 6 7 FreeRunning)) 64 4 = [2; 0; 0; 0].
Proof. vm_compute. reflexivity. Qed.
