(* C15 - if any daemon thread dies, the whole daemon exits promptly.
   Model: Daemon/Threads.v - FIFO mailboxes, receivers that disappear with their thread, the
   death notice posted by Context::drop, main's broadcast and join.  A schedule is any list of
   events (which thread steps next; a panic or an early return striking a worker at any point). *)
From Coq Require Import List Bool Arith.
From CB Require Import Threads ThreadsProofs.
Import ListNotations.

Theorem C15_invariant : forall s, reachable s -> Inv s.
Proof. exact reachable_inv. Qed.

(* a worker is gone while main is still in its receive loop: main's next step is enabled and it is
   the broadcast of ThreadAbort *)
Theorem C15_main_reacts : forall s, reachable s -> pM s = MRecv -> (p_alive s = false \/ w_alive s = false) ->
  exists s', t_step s StepM = Some s' /\ pM s' = MJoin.
Proof. intros s R. apply main_reacts, reachable_inv, R. Qed.

(* after the broadcast: every live worker has an enabled step, every worker step (and every further
   fault) strictly decreases the measure mu, and once both are gone main's join completes: no
   execution lingers with only part of the pipeline alive *)
Theorem C15_join_progress : forall s, reachable s -> pM s = MJoin ->
  (p_alive s = true -> exists s', t_step s StepP = Some s' /\ mu s' < mu s /\ pM s' = MJoin) /\
  (w_alive s = true -> exists s', t_step s StepW = Some s' /\ mu s' < mu s /\ pM s' = MJoin) /\
  (p_alive s = false -> w_alive s = false -> exists s', t_step s StepM = Some s' /\ pM s' = MDone).
Proof. intros s R. apply join_progress, reachable_inv, R. Qed.

Theorem C15_faults_only_help : forall s e s', pM s = MJoin -> (exists b, e = FaultP b \/ e = FaultW b) ->
  t_step s e = Some s' -> mu s' < mu s /\ pM s' = MJoin.
Proof. exact fault_decreases. Qed.

Theorem C15_returned_means_all_gone : forall s, reachable s -> pM s = MDone -> p_alive s = false /\ w_alive s = false.
Proof. intros s R. apply done_means_all_gone, reachable_inv, R. Qed.

(* non-vacuity: the writer panics while the poller is mid-iteration; the poller's next send fails
   and it panics too; main broadcasts and returns *)
Example C15_example :
  let s := t_run t_init [StepP; StepW; StepP; FaultW true; StepP; StepM; StepP; StepM] in
  pM s = MDone /\ p_alive s = false /\ w_alive s = false.
Proof. vm_compute. repeat split. Qed.
