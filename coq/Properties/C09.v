(* C09 - no trust is advertised before a first measurement exists. *)
From Coq Require Import ZArith List.
From CB Require Import Mach Client ClientProofs Bound Updater UpdaterProofs.
Import ListNotations.
Open Scope Z_scope.

(* every history without a report classified Synchronized: every published record is Unknown *)
Theorem C09_unknown_until_measured : forall drift ms u cs,
  urun (u_init drift) ms = Some (u, cs) -> last_sync (rev ms) = None ->
  forall c, In c cs -> c_status c = Unknown.
Proof.
  intros drift ms u cs H E c Hin. rewrite <- state_after_nil in H.
  destruct (urun_spec drift ms [] u cs H) as (_ & -> & _).
  apply (spec_run_unknown drift ms []); [rewrite app_nil_r; exact E | exact Hin].
Qed.

(* ... and a client then reports Unknown at every uptime *)
Theorem C09_client_sees_unknown : forall c mono, c_status c = Unknown -> decay c mono = Unknown.
Proof. intros c mono H. apply decay_unknown. left. exact H. Qed.

(* a status other than Unknown is published only with a bound from a synchronised measurement *)
Theorem C09_trusted_implies_measured : forall drift h,
  c_status (spec_rec drift h) <> Unknown -> has_sync h.
Proof.
  intros drift h H. unfold has_sync. destruct (last_sync h) as [x|] eqn:E; [eauto|].
  exfalso. apply H. apply spec_status_before_first_sync. exact E.
Qed.

Example C09_example :    (* leap 3, stale, PHC failure in grace, brief outage: all Unknown *)
  let itv := 4 * 33554432 + 8388608 in
  exists u cs, urun (u_init 1000)
    [ MReport 0 0 0 3 itv (Some (0, 0)) 0 (mkts 10 5); MReport 0 0 0 1 itv (Some (40, 0)) 0 (mkts 11 5);
      MMissing true; MMissing false ] = Some (u, cs) /\ map c_status cs = [Unknown; Unknown; Unknown; Unknown].
Proof. eexists _, _. vm_compute. split; reflexivity. Qed.

(* A restarted daemon: every instance starts unmeasured, whatever the instance before it published
   and left in the segment (a trusted record included): until ITS first synchronised report all of
   its records are Unknown. *)
Theorem C09_every_instance_starts_unmeasured : forall pre d ms post cs,
  lives (pre ++ (d, ms) :: post) = Some cs -> last_sync (rev ms) = None ->
  exists a b c, cs = a ++ b ++ c /\ lives pre = Some a /\ length b = length ms /\
                forall x, In x b -> c_status x = Unknown.
Proof.
  intros pre d ms post cs H E. destruct (lives_life pre d ms post cs H) as (a & c & Ha & _ & -> & L).
  exists a, (spec_run d [] ms), c. repeat split; auto.
  intros x Hx. apply (spec_run_unknown d ms []); [rewrite app_nil_r; exact E | exact Hx].
Qed.

Example C09_restart_example :   (* first instance synchronised; the second hears leap 3, then nothing: Unknown twice *)
  let itv := 4 * 33554432 + 8388608 in
  lives [ (1000, [MReport 0 0 0 0 itv (Some (0, 0)) 0 (mkts 10 5)]);
          (1000, [MReport 0 0 0 3 itv (Some (0, 0)) 0 (mkts 20 5); MMissing true]) ] <> None /\
  option_map (map c_status) (lives [ (1000, [MReport 0 0 0 0 itv (Some (0, 0)) 0 (mkts 10 5)]);
          (1000, [MReport 0 0 0 3 itv (Some (0, 0)) 0 (mkts 20 5); MMissing true]) ]) = Some [Synchronized; Unknown; Unknown].
Proof. vm_compute. split; [discriminate | reflexivity]. Qed.
