(* C02 - a snapshot is never a mixture of two published records.
   Model: the single-writer release/acquire machine of Shm/Machine.v; a reader step names the
   event its load returns ([Some i]); the machine refuses ([OStuck]) events the release/acquire
   rules do not allow. *)
From Coq Require Import ZArith List Bool NArith.
From CB Require Import Gen Machine MachineFacts.
Import ListNotations.
Open Scope Z_scope.

(* computed witnesses and examples run the instance that publishes the records [rec_of] *)
#[local] Existing Instance std_rec.

Definition cfg2 (wf rf : option ord) : cfg := mkcfg Acq Rel wf Rel Acq Acq rf Acq 2 [0;1]%nat [0;1]%nat 5.

(* the torn read: generation 2 (event 8), cell 0 of publication 1 (event 6), cell 1 of
   publication 2 (event 11), generation 2 again (event 8) *)
Definition torn (c : cfg) (wsteps : nat) (fence_step : list token) : list obs :=
  snd (m_run (m_init c) (repeat TW wsteps ++ [TNewReader] ++ repeat TW wsteps ++
     [TR 0 (Some 4%nat); TR 0 (Some 8%nat); TR 0 (Some 6%nat); TR 0 (Some 11%nat)] ++ fence_step ++ [TR 0 (Some 8%nat)])).

(* finding F2 (fixed by the fix: commit that added the fences): without both fences the
   release/acquire model lets snapshot() accept the mixture [1000; 2001] *)
Theorem C02_unfenced_refuted : In (ORet 0 RetFresh [1000; 2001]) (torn (cfg2 None None) 5 []).
Proof. vm_compute. tauto. Qed.

Theorem C02_writerfence_only_refuted : In (ORet 0 RetFresh [1000; 2001]) (torn (cfg2 (Some Rel) None) 6 []).
Proof. vm_compute. tauto. Qed.

Theorem C02_readerfence_only_refuted : In (ORet 0 RetFresh [1000; 2001]) (torn (cfg2 None (Some Acq)) 5 [TR 0 None]).
Proof. vm_compute. tauto. Qed.

(* with both fences the same choice of events is not an execution the model admits *)
Theorem C02_fenced_rejects_torn_read : In OStuck (torn (cfg2 (Some Rel) (Some Acq)) 6 [TR 0 None]).
Proof. vm_compute. tauto. Qed.

(* a record is accepted only through a generation re-load that returns the tracked value *)
Theorem C02_accept_condition : forall c L r ch r' it,
  r_step c L r ch = Some (r', it, Some RetFresh) ->
  exists g acc b v p, r_pc r = RReload g acc b /\ do_read L (r_view r) LGen (c_r_g2 c) ch = Some (g, p, v).
Proof. exact accept_needs_equal_even. Qed.

Theorem C02_fixed_cfg_is_safe : safe_cfg fixed_cfg = true /\ safe_cfg unfenced_cfg = false.
Proof. split; vm_compute; reflexivity. Qed.

(* ---------------------------------------------------------------------------------------------
   The general theorem.  For every configuration that passes [safe_cfg] (a release fence or
   equivalent after the odd store, Release on the final store, Acquire on the generation loads, an
   acquire fence before the re-load, copy orders that are permutations), every number of cells,
   every schedule of writer steps, reader steps with ANY choice of the event each load returns that
   the release/acquire rules allow (sequential consistency is the special case "latest event"),
   crashes of the writer at any access, restarts, new readers: every record a snapshot() call
   returns - accepted afresh or served from the cache - is the all-zero initial record or,
   cell for cell, the record of one write() call that completed (its even generation store is in
   the log).  Side condition: fewer than 32767 write() calls in the run, so that the 16-bit
   generation does not return to a value a reader may still hold (known finding C02-aba). *)
From CB Require Import SeqlockInv GenCyc SeqlockRA.

(* [RF]: what the daemon publishes - any function from the number of the write() call to a record;
   the theorems of this section hold for all of them (the protocol never looks at the content) *)
Section General.
Context {RF : RecFun}.

Theorem C02_RA : forall c ts m o, safe_cfg c = true -> Forall real_token ts ->
  m_run (m_init c) ts = (m, o) -> (Z.of_nat (m_nrec m) < 32767)%Z ->
  forall j ret rec, In (ORet j ret rec) o -> ret <> RetErr ->
    rec = repeat 0%Z (c_cells c) \/
    exists a q e, (0 < a)%nat /\ ev (w_log (m_w m)) q = Some e /\ e_kind e = KEven /\ e_att e = a /\ rec = recf (c_cells c) a.
Proof.
  intros c ts m o Hs Hts R Hn j ret rec Hin Hne.
  destruct (m_run_inv c Hs ts (m_init c) m o (MInv_init c) Hts R Hn) as (_ & _ & _ & H).
  exact (H j ret rec Hin Hne).
Qed.

(* the invariant behind it holds in every reachable state *)
Theorem C02_reachable_invariant : forall c ts m o, safe_cfg c = true -> Forall real_token ts ->
  m_run (m_init c) ts = (m, o) -> (Z.of_nat (m_nrec m) < 32767)%Z -> MInv c m.
Proof.
  intros c ts m o Hs Hts R Hn. exact (proj1 (m_run_inv c Hs ts (m_init c) m o (MInv_init c) Hts R Hn)).
Qed.

(* one accepting step, in any state satisfying the invariants *)
Theorem C02_accept_is_one_completed_write : forall c L r ch r' it,
  safe_cfg c = true -> LogInv (c_cells c) L -> GenCyc L -> window_ok L r -> RInv c L r ->
  r_step c L r ch = Some (r', it, Some RetFresh) ->
  exists a q e, (0 < a)%nat /\ ev L q = Some e /\ e_kind e = KEven /\ e_att e = a /\ r_cache r' = recf (c_cells c) a.
Proof. exact r_step_accept. Qed.

(* ---------------------------------------------------------------------------------------------
   Runs of any length.  The bound "fewer than 32767 write() calls in the run" of C02_RA is replaced
   by the window condition [run_windows]: at every point of the schedule, every reader that is
   inside an iteration of snapshot() started that iteration from a generation store that fewer
   than 32767 completed publications have followed.  The daemon may publish for ever and the
   16-bit generation may wrap any number of times.  This is the exact complement of the known
   finding C02-aba (C02_aba_witness: a reader suspended inside one iteration for 32767
   publications accepts a mixture). *)
Theorem C02_RA_window : forall c ts m o, safe_cfg c = true -> Forall real_token ts ->
  m_run (m_init c) ts = (m, o) -> run_windows (m_init c) ts ->
  forall j ret rec, In (ORet j ret rec) o -> ret <> RetErr ->
    rec = repeat 0%Z (c_cells c) \/ published c (w_log (m_w m)) rec.
Proof.
  intros c ts m o Hs Hts R Hw j ret rec Hin Hne.
  destruct (m_run_inv_win c Hs ts (m_init c) m o (MInv_init c) Hts R Hw) as (_ & _ & H).
  exact (H j ret rec Hin Hne).
Qed.

(* C02_RA is the special case: short runs satisfy the window condition *)
Theorem C02_short_runs_have_short_windows : forall c ts m o, safe_cfg c = true -> Forall real_token ts ->
  m_run (m_init c) ts = (m, o) -> (Z.of_nat (m_nrec m) < 32767)%Z -> run_windows (m_init c) ts.
Proof. intros c ts m o Hs Hts R Hn. exact (run_windows_of_nowrap c Hs ts (m_init c) m o (MInv_init c) Hts R Hn). Qed.

(* the generation values along every log, with no bound: the k-th completed publication stores
   gv k = 2 * ((k - 1) mod 32767) + 2, and within a window of fewer than 32767 publications these
   values are pairwise different *)
Theorem C02_generation_cycle : forall c ts m o, safe_cfg c = true -> Forall real_token ts ->
  m_run (m_init c) ts = (m, o) -> run_windows (m_init c) ts ->
  forall p e, ev (w_log (m_w m)) p = Some e -> e_kind e = KEven -> e_val e = gv (evens_upto (w_log (m_w m)) p).
Proof.
  intros c ts m o Hs Hts R Hw.
  destruct (m_run_inv_win c Hs ts (m_init c) m o (MInv_init c) Hts R Hw) as (I & _).
  exact (GC_even _ (W4_log _ (M_gen _ _ I))).
Qed.

Theorem C02_window_values_distinct : forall k1 k2, (0 < k1)%nat -> (k1 <= k2)%nat ->
  (Z.of_nat k2 < Z.of_nat k1 + 32767)%Z -> gv k1 = gv k2 -> k1 = k2.
Proof. exact gv_inj_window. Qed.

End General.

(* non-vacuity: the configuration measured from the code is safe, and a run with crashes, restarts
   and two readers returns records 1 and 3 *)
Example C02_example :
  let ts := repeat TW 11 ++ [TNewReader] ++ repeat (TR 0 None) 11 ++ repeat TW 6 ++ [TCrash; TRestart; TNewReader] ++
            repeat TW 11 ++ repeat (TR 1 None) 11 ++ repeat (TR 0 None) 11 in
  Forall real_token ts /\ exists m o, m_run (m_init fixed_cfg) ts = (m, o) /\ (Z.of_nat (m_nrec m) < 32767)%Z /\
    filter (fun x => match x with ORet _ _ _ => true | _ => false end) o =
      [ORet 0 RetFresh (rec_of 7 1); ORet 1 RetFresh (rec_of 7 3); ORet 0 RetFresh (rec_of 7 3)].
Proof.
  split; [repeat constructor|]. eexists _, _. split; [vm_compute; reflexivity|]. split; vm_compute; reflexivity.
Qed.

(* Known finding C02-aba: the side condition of C02_RA is needed.  A reader suspended inside one
   call while the 16-bit generation goes once around its cycle of 32767 even values accepts a
   mixture.  [TJump 65534] stands for the 32765 publications that lead from generation 4 to 65534;
   the next publication wraps to 2, the value the reader loaded first. *)
Theorem C02_aba_witness :
  let c := cfg2 (Some Rel) (Some Acq) in
  let ts := repeat TW 6 ++ [TNewReader; TR 0 None; TR 0 None; TR 0 None] ++ [TJump 65534%Z] ++ repeat TW 6 ++ repeat (TR 0 None) 3 in
  In (ORet 0 RetFresh [1000; 2001]%Z) (snd (m_run (m_init c) ts)).
Proof. vm_compute. tauto. Qed.

(* ---------------------------------------------------------------------------------------------
   What "every reordering that the Rust/C11 memory model permits" means in these theorems.  The
   machine of Shm/Machine.v keeps a reader's view as two prefixes of the writer's log plus
   per-location floors.  Shm/MachineGen.v defines the standard view-based semantics of
   release/acquire (per-location timestamps, views cur <= acq, message views; the promise-free
   fragment of Kang et al., POPL 2017, without RMWs and SC fences, which the protocol does not use)
   and proves that the machine IS that semantics for a single-writer log:
   - the reader of the machine is the reader program run over prefix views (by computation);
   - the same program run over standard views takes the same steps: every load choice is enabled
     in one iff it is in the other, loads return the same values, every snapshot() returns the
     same result, whatever the writer appends between two accesses;
   - every store of write() carries exactly the message view the standard semantics gives it, and
     its release fence is the standard release fence.
   So C02_RA / C03_monotone_RA quantify over exactly the executions of the standard semantics. *)
From CB Require Import SeqlockFresh MachineGen.

Theorem C02_reader_is_the_program : forall c L r ch,
  r_step c L r ch =
  match gr_step do_read r_fence c L (to_g r) ch with
  | Some (r', it, ret) => Some (of_g r', it, ret)
  | None => None
  end.
Proof. exact r_step_is_the_program. Qed.

Theorem C02_loads_are_standard_loads : forall L v l o i,
  (do_read L v l o (Some i) = None <-> g_read L (alpha L v) l o i = None) /\
  (forall x j v', vwf v -> cell_ok v l -> do_read L v l o (Some i) = Some (x, j, v') ->
     j = i /\ vwf v' /\ (forall l', cell_ok v l' -> cell_ok v' l') /\
     exists t', g_read L (alpha L v) l o i = Some (x, t') /\ gteq t' (alpha L v')).
Proof.
  intros L v l o i. split; [apply do_read_enabled_iff|].
  intros x j v' W Hok H. exact (do_read_is_standard_read L v l o i x j v' W Hok H).
Qed.

Theorem C02_reader_runs_are_standard_runs : forall c, (forall i, In i (c_r_order c) -> (i < c_cells c)%nat) ->
  forall steps L r s, rel_pos (final_log L steps) -> (acq (g_view r) <= length L)%nat -> sim_ok c L r s ->
  match gr_run do_read r_fence c L r steps, gr_run g_rd g_fence c L s steps with
  | Some (L1, r', tr), Some (L2, s', tr') => L1 = L2 /\ tr = tr' /\ sim_ok c L1 r' s'
  | None, None => True
  | _, _ => False
  end.
Proof. exact reader_runs_are_standard_runs. Qed.

Theorem C02_new_client_has_the_full_view : forall c L,
  sim_ok c L (to_g (r_new c L))
    (mkgr (mkg (prefix_view L (length L)) (prefix_view L (length L))) RIdle (repeat 0%Z (c_cells c)) 0%Z 0%nat []).
Proof. exact new_reader_sim. Qed.

Theorem C02_writer_accesses_are_standard : forall c w r k w' it,
  (w_relview w <= length (w_log w))%nat -> w_step c w r k = (w', it) ->
  (w_relview w' <= length (w_log w'))%nat /\
  ( (w_log w' = w_log w /\ w_relview w' = w_relview w)
    \/ (exists o, it = Some (mkti AFence LGen o 0) /\ w_log w' = w_log w /\
          gweq (walpha (w_log w') (w_relview w')) (gw_fence (walpha (w_log w) (w_relview w)) o))
    \/ (exists e o ak, it = Some (mkti ak (e_loc e) o (e_val e)) /\ w_log w' = w_log w ++ [e] /\ w_relview w' = w_relview w /\
          geqv (mview (w_log w') (length (w_log w)) e)
               (snd (gw_store (walpha (w_log w) (w_relview w)) (e_loc e) o (length (w_log w)))) /\
          gweq (walpha (w_log w') (w_relview w'))
               (fst (gw_store (walpha (w_log w) (w_relview w)) (e_loc e) o (length (w_log w))))) ).
Proof. exact writer_step_is_standard. Qed.

Theorem C02_published_views_are_never_revised : forall L x p e,
  (e_rel e <= length L)%nat -> geqv (mview (L ++ x) p e) (mview L p e).
Proof. exact mview_app. Qed.

(* non-vacuity: one publication and one snapshot() under the configuration of the code *)
Theorem C02_standard_run_example :
  match gr_run do_read r_fence fixed_cfg demo_log0 (to_g (r_new fixed_cfg demo_log0)) demo_steps with
  | Some (L, r, tr) => L = demo_log1 /\ g_cache r = rec_of 7 1 /\ last tr (None, None) = (Some (mkti ALoad LGen Acq 2%Z), Some RetFresh)
  | None => False
  end.
Proof. exact demo_run_prefix_machine. Qed.

(* The whole system over the standard semantics ([std_run]: the writer, any number of clients each
   holding standard views, deaths, restarts, new clients; Shm/MachineGenSys.v) makes, for every
   schedule, exactly the observations of the machine - every access, every value loaded, every
   record returned - and ends with the same writer log.  C02_RA is therefore a theorem about the
   executions of the standard release/acquire semantics. *)
From CB Require Import MachineGenSys.

Section Standard.
Context {RF : RecFun}.

Theorem C02_machine_is_the_system_at_prefix_views : forall ts m,
  gm_run do_read r_fence newv_prefix (to_gm m) ts = (to_gm (fst (m_run m ts)), snd (m_run m ts)).
Proof. exact m_run_is_the_system. Qed.

Theorem C02_standard_system_is_the_machine : forall c ts, cfg_ok c -> Forall real_token ts ->
  snd (std_run c ts) = snd (m_run (m_init c) ts) /\
  gm_w (fst (std_run c ts)) = m_w (fst (m_run (m_init c) ts)) /\
  gm_nrec (fst (std_run c ts)) = m_nrec (fst (m_run (m_init c) ts)).
Proof. exact standard_system_is_the_machine. Qed.

Theorem C02_RA_standard_semantics : forall c ts, safe_cfg c = true -> Forall real_token ts ->
  (Z.of_nat (gm_nrec (fst (std_run c ts))) < 32767)%Z ->
  forall j ret rec, In (ORet j ret rec) (snd (std_run c ts)) -> ret <> RetErr ->
    rec = repeat 0%Z (c_cells c) \/
    exists a q e, (0 < a)%nat /\ ev (w_log (gm_w (fst (std_run c ts)))) q = Some e /\ e_kind e = KEven /\ e_att e = a /\ rec = recf (c_cells c) a.
Proof. exact C02_RA_standard_semantics. Qed.

End Standard.

(* non-vacuity: the run of C02_example over the standard semantics returns records 1 and 3 *)
Example C02_standard_example :
  let ts := repeat TW 11 ++ [TNewReader] ++ repeat (TR 0 None) 11 ++ repeat TW 6 ++ [TCrash; TRestart; TNewReader] ++
            repeat TW 11 ++ repeat (TR 1 None) 11 ++ repeat (TR 0 None) 11 in
  filter (fun x => match x with ORet _ _ _ => true | _ => false end) (snd (std_run fixed_cfg ts)) =
    [ORet 0 RetFresh (rec_of 7 1); ORet 1 RetFresh (rec_of 7 3); ORet 0 RetFresh (rec_of 7 3)].
Proof. vm_compute. reflexivity. Qed.
