(* C02 - a snapshot is never a mixture of two published records.
   Model: the single-writer release/acquire machine of Shm/Machine.v; a reader step names the
   event its load returns ([Some i]); the machine refuses ([OStuck]) events the release/acquire
   rules do not allow. *)
From Coq Require Import ZArith List Bool NArith.
From CB Require Import Gen Machine MachineFacts.
Import ListNotations.
Open Scope Z_scope.

Definition cfg2 (wf rf : option ord) : cfg := mkcfg Acq Rel wf Rel Acq Acq rf Acq 2 [0;1]%nat [0;1]%nat 5.

(* the torn read: generation 2 (event 8), cell 0 of publication 1 (event 6), cell 1 of
   publication 2 (event 11), generation 2 again (event 8) *)
Definition torn (c : cfg) (wsteps : nat) (fence_step : list token) : list obs :=
  snd (m_run (m_init c) (repeat TW wsteps ++ [TNewReader] ++ repeat TW wsteps ++
     [TR 0 (Some 4%nat); TR 0 (Some 8%nat); TR 0 (Some 6%nat); TR 0 (Some 11%nat)] ++ fence_step ++ [TR 0 (Some 8%nat)])).

(* finding F2 (fixed by the fix: commit that added the fences): without both fences the
   release/acquire model lets snapshot() accept the mixture [1000; 2001] *)
Theorem C02_unfenced_refuted : In (ORet 0 RetFresh [1000; 2001]) (torn (cfg2 None None) 5 []).
Proof. vm_compute. tauto. Qed.

Theorem C02_writerfence_only_refuted : In (ORet 0 RetFresh [1000; 2001]) (torn (cfg2 (Some Rel) None) 6 []).
Proof. vm_compute. tauto. Qed.

Theorem C02_readerfence_only_refuted : In (ORet 0 RetFresh [1000; 2001]) (torn (cfg2 None (Some Acq)) 5 [TR 0 None]).
Proof. vm_compute. tauto. Qed.

(* with both fences the same choice of events is not an execution the model admits *)
Theorem C02_fenced_rejects_torn_read : In OStuck (torn (cfg2 (Some Rel) (Some Acq)) 6 [TR 0 None]).
Proof. vm_compute. tauto. Qed.

(* a record is accepted only through a generation re-load that returns the tracked value *)
Theorem C02_accept_condition : forall c L r ch r' it,
  r_step c L r ch = Some (r', it, Some RetFresh) ->
  exists g acc b v p, r_pc r = RReload g acc b /\ do_read L (r_view r) LGen (c_r_g2 c) ch = Some (g, p, v).
Proof. exact accept_needs_equal_even. Qed.

Theorem C02_fixed_cfg_is_safe : safe_cfg fixed_cfg = true /\ safe_cfg unfenced_cfg = false.
Proof. split; vm_compute; reflexivity. Qed.
