(* C06 - the client never reports a status stronger than the record's age justifies. *)
From Coq Require Import ZArith.
From CB Require Import Mach MachProofs Client ClientProofs.
Open Scope Z_scope.

(* the status returned by compute_bound_at is [decay] on nanosecond counts (range R) *)
Theorem C06_status_is_decay : forall c real mono e l st, ceb_inR c -> ts_inR real -> ts_inR mono ->
  compute_bound_at c real mono = Ok (e, l, st) -> st = decay c mono.
Proof. exact status_is_decay. Qed.

Theorem C06_synchronized_iff : forall c mono,
  decay c mono = Synchronized <-> c_status c = Synchronized /\ ns mono < ns (c_as_of c) + 5000000000.
Proof. exact decay_sync. Qed.

Theorem C06_freerunning_iff : forall c mono,
  decay c mono = FreeRunning <->
  (c_status c = FreeRunning /\ (ns mono < ns (c_as_of c) + 5000000000 \/ ns mono < ns (c_void_after c))) \/
  (c_status c = Synchronized /\ ns (c_as_of c) + 5000000000 <= ns mono < ns (c_void_after c)).
Proof. exact decay_freerunning. Qed.

(* with void-after at least the grace period after as-of (the daemon writes as-of + 1000 s rounded
   down to a second) FreeRunning is reported only before void-after *)
Theorem C06_freerunning_before_void : forall c mono,
  ns (c_as_of c) + 5000000000 <= ns (c_void_after c) ->
  decay c mono = FreeRunning ->
  (c_status c = FreeRunning \/ c_status c = Synchronized) /\ ns mono < ns (c_void_after c).
Proof.
  intros c mono Hv H. apply decay_freerunning in H.
  destruct H as [[H1 H2]|[H1 H2]]; (split; [tauto|]); destruct H2; Lia.lia.
Qed.

Theorem C06_unknown : forall c mono,
  c_status c = Unknown \/ (ns (c_as_of c) + 5000000000 <= ns mono /\ ns (c_void_after c) <= ns mono) ->
  decay c mono = Unknown.
Proof. exact decay_unknown. Qed.

Theorem C06_fresh_passthrough : forall c mono,
  ns mono < ns (c_as_of c) + 5000000000 -> decay c mono = c_status c.
Proof. exact decay_fresh. Qed.

Example C06_example :
  let c := mkceb (mkts 100 0) (mkts 1100 0) 5000 100 0 Synchronized in
  decay c (mkts 104 999999999) = Synchronized /\ decay c (mkts 105 0) = FreeRunning /\
  decay c (mkts 1099 999999999) = FreeRunning /\ decay c (mkts 1100 0) = Unknown.
Proof. vm_compute. repeat split. Qed.
