(* C19 - the configured drift rate is published exactly, or the daemon refuses to start. *)
From Coq Require Import ZArith Lia Bool List.
From CB Require Import Mach Client Updater UpdaterProofs Cli.
Open Scope Z_scope.

Theorem C19_exact_or_rejected : forall r p,
  cli_ppb (Some r) = CliOk p -> p = 1000 * r /\ 0 <= r /\ p < 4294967296.
Proof.
  intros r p. unfold cli_ppb, in_u32, u32_mod.
  destruct ((0 <=? r) && (r <? 4294967296)) eqn:A; [|discriminate].
  destruct ((0 <=? r * 1000) && (r * 1000 <? 4294967296)) eqn:B; [|discriminate].
  intros H; inversion H; subst. lia.
Qed.

Theorem C19_unrepresentable_rejected : forall r,
  4294967296 <= 1000 * r \/ r < 0 -> cli_ppb (Some r) = CliRejected.
Proof.
  intros r H. unfold cli_ppb, in_u32, u32_mod.
  destruct ((0 <=? r) && (r <? 4294967296)) eqn:A; [|reflexivity].
  destruct ((0 <=? r * 1000) && (r * 1000 <? 4294967296)) eqn:B; [lia | reflexivity].
Qed.

Theorem C19_representable_accepted : forall r,
  0 <= r -> 1000 * r < 4294967296 -> cli_ppb (Some r) = CliOk (1000 * r).
Proof.
  intros r H0 H. unfold cli_ppb, in_u32, u32_mod.
  replace ((0 <=? r) && (r <? 4294967296)) with true by lia.
  replace ((0 <=? r * 1000) && (r * 1000 <? 4294967296)) with true by lia.
  f_equal. lia.
Qed.

Theorem C19_default : cli_ppb None = CliOk 1000.
Proof. reflexivity. Qed.

(* the drift handed to the updater is copied verbatim into every published record *)
Theorem C19_published_verbatim : forall drift h, c_drift (spec_rec drift h) = drift.
Proof. exact spec_drift. Qed.

(* the wrapping conversion of the tree before the fix violates the property (finding F4, fixed) *)
Theorem C19_wrapping_refuted : cli_ppb_wrapping (Some 4294968) = CliOk 704.
Proof. vm_compute. reflexivity. Qed.

(* a restarted daemon publishes the rate given to THIS instance in every one of its records,
   whatever rate the instance before it was started with *)
Theorem C19_every_instance_publishes_its_own_rate : forall pre d ms post cs,
  lives (pre ++ (d, ms) :: post) = Some cs ->
  exists a b c, cs = a ++ b ++ c /\ lives pre = Some a /\ length b = length ms /\
                forall x, List.In x b -> c_drift x = d.
Proof.
  intros pre d ms post cs H. destruct (lives_life pre d ms post cs H) as (a & c & Ha & _ & -> & L).
  exists a, (spec_run d nil ms), c. repeat split; auto.
  intros x Hx. exact (spec_run_drift d ms nil x Hx).
Qed.
