(* C14 - client calls fail cleanly instead of answering from inconsistent data.
   [Panic] is the model's outcome for every i64 overflow / nix assert that aborts a debug build. *)
From Coq Require Import ZArith.
From CB Require Import Mach MachProofs Client ClientProofs.
Open Scope Z_scope.

Theorem C14_never_panics : forall c real mono, ceb_inR c -> ts_inR real -> ts_inR mono ->
  compute_bound_at c real mono <> Panic.
Proof. exact never_panics. Qed.

Theorem C14_malformed_iff : forall c real mono, ceb_inR c -> ts_inR real -> ts_inR mono ->
  (compute_bound_at c real mono = Err EMalformed <-> 1000000000 <= c_drift c).
Proof. exact malformed_iff. Qed.

Theorem C14_causality_iff : forall c real mono, ceb_inR c -> ts_inR real -> ts_inR mono ->
  c_drift c < 1000000000 ->
  (compute_bound_at c real mono = Err ECausality <-> ns mono <= ns (c_as_of c) - 1000).
Proof. exact causality_iff. Qed.

Theorem C14_blur_age_zero : forall c real mono, ceb_inR c -> ts_inR real -> ts_inR mono ->
  c_drift c < 1000000000 -> ns (c_as_of c) - 1000 < ns mono <= ns (c_as_of c) ->
  exists e l, compute_bound_at c real mono = Ok (e, l, decay c mono) /\
    ns e = ns real - c_bound c /\ ns l = ns real + c_bound c.
Proof. exact blur_age_zero. Qed.

(* the complete outcome on range R *)
Theorem C14_outcome : forall c real mono,
  ceb_inR c -> ts_inR real -> ts_inR mono -> c_drift c < 1000000000 ->
  if ns mono <=? ns (c_as_of c) - 1000 then compute_bound_at c real mono = Err ECausality
  else exists e l, compute_bound_at c real mono = Ok (e, l, decay c mono) /\
         ns e = ns real - halfwidth c mono /\ ns l = ns real + halfwidth c mono /\
         0 <= ts_nsec e < NS /\ 0 <= ts_nsec l < NS /\ 0 <= halfwidth c mono.
Proof. exact cba_char. Qed.

(* range edges are inside the hypotheses (non-vacuity), and just outside the range the debug
   build does panic (so the range is not accidentally generous) *)
Example C14_edge :
  let c := mkceb (mkts (-2147483648) 0) (mkts 2147483648 999999999) (2 ^ 60 - 1) 999999999 0 FreeRunning in
  ceb_inR c /\ ts_inR (mkts 2147483648 999999999) /\
  exists e l st, compute_bound_at c (mkts 2147483648 999999999) (mkts 2147483648 999999999) = Ok (e, l, st).
Proof.
  cbv zeta. split; [|split].
  - unfold ceb_inR, ts_inR, SECMAX, NS; cbn. Lia.lia.
  - unfold ts_inR, SECMAX, NS; cbn. Lia.lia.
  - eexists _, _, _. vm_compute. reflexivity.
Qed.

Example C14_outside_range_panics :
  compute_bound_at (mkceb (mkts 0 0) (mkts 1000 0) (2 ^ 63 - 1) 1 0 Synchronized) (mkts 0 0) (mkts 4 0) = Panic.
Proof. vm_compute. reflexivity. Qed.
