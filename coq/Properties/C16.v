(* C16 - segment files are validated on open, and repaired by the daemon.
   Models: Shm/Layout.v (byte layout), Shm/Open.v (reader_open = ShmReader::new;
   after_first_publication = ShmWriter::new + write, writer dropped). *)
From Coq Require Import ZArith List Bool.
From CB Require Import Mach Client Gen Layout Open LayoutProofs.
Import ListNotations.
Open Scope Z_scope.

(* opening succeeds exactly for: at least a header, both magic words, version and generation
   non-zero, declared size covering header + record *)
Theorem C16_open_iff : forall bs h, reader_open (FFile bs) = OpenOk h <->
  (16 <= length bs)%nat /\ h = decode_header bs /\ h_magic0 h = MAGIC0 /\ h_magic1 h = MAGIC1 /\
  h_version h <> 0 /\ h_generation h <> 0 /\ 72 <= h_size h.
Proof. exact open_ok_iff. Qed.

(* every other content yields the documented error kind: missing -> open/ENOENT, directory ->
   read/EISDIR, short -> not initialised, bad magic / version 0 / generation 0 -> not initialised,
   declared size below 72 -> malformed.  reader_open is a total function: never a crash. *)
Theorem C16_error_table : forall f,
  match f with
  | FMissing => reader_open f = OpenErr (KSyscall ENOENT 1)
  | FDir => reader_open f = OpenErr (KSyscall EISDIR 2)
  | FNoPath e => reader_open f = OpenErr (KSyscall e 1)
  | FFile bs =>
      ((length bs < 16)%nat -> reader_open f = OpenErr KNotInitialized) /\
      ((16 <= length bs)%nat ->
         let h := decode_header bs in
         (h_magic0 h <> MAGIC0 \/ h_magic1 h <> MAGIC1 \/ h_version h = 0 \/ h_generation h = 0 -> reader_open f = OpenErr KNotInitialized) /\
         (h_magic0 h = MAGIC0 -> h_magic1 h = MAGIC1 -> h_version h <> 0 -> h_generation h <> 0 -> h_size h < 72 -> reader_open f = OpenErr KMalformed))
  end.
Proof. exact open_error_table. Qed.

(* whatever the file contained (anything that is not a directory and that a client could not
   open): after start-up and first publication it is exactly the documented 72 bytes, clients can
   open it and read back the record *)
Theorem C16_repair_recreated : forall f r, f <> FDir -> (forall e, f <> FNoPath e) -> (forall h, reader_open f <> OpenOk h) -> ceb_ok r ->
  exists bs, after_first_publication f r = Some bs /\ bs = encode_header (fresh_header 2) ++ encode_ceb r /\
    length bs = 72%nat /\ (exists h, reader_open (FFile bs) = OpenOk h) /\ decode_ceb bs 16 = Some r.
Proof. exact repair_recreated. Qed.

(* a file clients could open is taken over in place (extended to 72 bytes when shorter): magic and
   declared size untouched, bytes beyond 72 untouched, openable, record read back *)
Theorem C16_repair_taken_over : forall bs h r, reader_open (FFile bs) = OpenOk h -> ceb_ok r -> 0 <= h_generation h < 65536 ->
  exists bs' h', after_first_publication (FFile bs) r = Some bs' /\
    reader_open (FFile bs') = OpenOk h' /\ decode_ceb bs' 16 = Some r /\
    firstn 12 bs' = firstn 12 bs /\ h_version h' = 1 /\ h_generation h' = post (pre (h_generation h)) /\
    length bs' = Nat.max (length bs) 72 /\ skipn 72 bs' = skipn 72 bs.
Proof. exact repair_taken_over. Qed.

Example C16_example_truncated :   (* finding F5 (fixed): a valid header cut to 16 bytes *)
  let bs := encode_header (mkhdr MAGIC0 MAGIC1 72 1 6) in
  let r := mkceb (mkts 5 6) (mkts 1005 0) 77 1000 0 Synchronized in
  exists h, reader_open (FFile bs) = OpenOk h /\
    after_first_publication (FFile bs) r = Some (encode_header (mkhdr MAGIC0 MAGIC1 72 1 8) ++ encode_ceb r).
Proof. eexists. split; vm_compute; reflexivity. Qed.
