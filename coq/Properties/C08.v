(* C08 - the published record tracks the chrony history: freeze on loss, advance on sync.
   Model: Daemon/Updater.v (urun = process_messages folded over the message list from
   ShmUpdater::new).  Histories [h] are written most recent message first. *)
From Coq Require Import ZArith List.
From CB Require Import Mach Client Bound Updater UpdaterProofs.
Import ListNotations.
Open Scope Z_scope.

(* every finite message history: one publication per message, and the k-th record is the
   specified function of the history up to and including the k-th message *)
Theorem C08_history : forall drift ms u cs,
  urun (u_init drift) ms = Some (u, cs) ->
  u = state_after drift (rev ms) /\ cs = spec_run drift [] ms /\ length cs = length ms.
Proof.
  intros drift ms u cs H. rewrite <- state_after_nil in H.
  destruct (urun_spec drift ms [] u cs H) as (A & B & C). rewrite app_nil_r in A. auto.
Qed.

(* (a) bound and as-of are those of the most recent synchronised report (zeros before any) *)
Theorem C08_a_last_sync : forall drift h,
  (forall b a, last_sync h = Some (b, a) -> c_bound (spec_rec drift h) = b /\ c_as_of (spec_rec drift h) = a) /\
  (last_sync h = None -> c_bound (spec_rec drift h) = 0 /\ c_as_of (spec_rec drift h) = mkts 0 0).
Proof. exact spec_bound_asof. Qed.

Theorem C08_a_frozen : forall drift h m, sync_of m = None ->
  c_bound (spec_rec drift (m :: h)) = c_bound (spec_rec drift h) /\
  c_as_of (spec_rec drift (m :: h)) = c_as_of (spec_rec drift h) /\
  c_void_after (spec_rec drift (m :: h)) = c_void_after (spec_rec drift h).
Proof. exact frozen_by_non_sync. Qed.

(* (b) void-after = as-of + 1000 s rounded down to a whole second *)
Theorem C08_b_void_after : forall drift h,
  c_void_after (spec_rec drift h) = mkts (ts_sec (c_as_of (spec_rec drift h)) + 1000) 0.
Proof. exact spec_void_after. Qed.

(* (c) the configured drift rate *)
Theorem C08_c_drift : forall drift h, c_drift (spec_rec drift h) = drift.
Proof. exact spec_drift. Qed.

(* (d) once a synchronised report has been seen the status is the class of the latest outcome *)
Theorem C08_d_status : forall drift m h,
  has_sync (m :: h) -> c_status (spec_rec drift (m :: h)) = msg_class m.
Proof. exact spec_status_after_first_sync. Qed.

Theorem C08_outcome_classes : forall m,
  match m with
  | MReport _ _ _ leap interval age _ _ => msg_class m = classify leap interval age
  | MMissing true => msg_class m = FreeRunning
  | MMissing false => msg_class m = Unknown
  end.
Proof. exact msg_class_cases. Qed.

Theorem C08_fsm_next_is_input : forall s c, fsm s c = c.
Proof. exact fsm_next_is_input. Qed.

(* non-vacuity: a six-message history (interval word = 4 s, so stale after 32 s) *)
Example C08_example :
  let itv := 4 * 33554432 + 8388608 in
  let d := 126 * 33554432 + 13421773 in
  urun (u_init 5000)
    [ MReport d 0 0 3 itv (Some (0, 0)) 0 (mkts 10 5);        (* unsynchronised before any sync *)
      MReport d 0 0 1 itv (Some (1, 0)) 7 (mkts 11 6);        (* synchronised, PHC 7 *)
      MMissing true;                                           (* brief outage *)
      MReport 0 0 0 0 itv (Some (33, 0)) 0 (mkts 13 0);       (* stale *)
      MMissing false;                                          (* prolonged outage *)
      MReport 0 0 0 2 itv (Some (0, 1)) 0 (mkts 15 9) ]       (* synchronised again *)
  = Some (mkU 5000 Synchronized 0 (mkts 15 9) true,
          [ mkceb (mkts 0 0) (mkts 1000 0) 0 5000 0 Unknown;
            mkceb (mkts 11 6) (mkts 1011 0) 50000008 5000 0 Synchronized;
            mkceb (mkts 11 6) (mkts 1011 0) 50000008 5000 0 FreeRunning;
            mkceb (mkts 11 6) (mkts 1011 0) 50000008 5000 0 FreeRunning;
            mkceb (mkts 11 6) (mkts 1011 0) 50000008 5000 0 Unknown;
            mkceb (mkts 15 9) (mkts 1015 0) 0 5000 0 Synchronized ]).
Proof. vm_compute. reflexivity. Qed.
