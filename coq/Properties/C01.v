(* C01 - true time lies inside every trusted interval (end-to-end containment).
   See World/Containment.v for the world model.  The statement is per published record and per
   client call, hence covers synchronisation losses and chronyd outages (the record then keeps the
   last measurement and the client keeps inflating it), and daemon restarts (every record in the
   segment was produced by some incarnation from its own history h; a fresh incarnation publishes
   Unknown until it has a measurement, C09). *)
From Coq Require Import ZArith Reals List Lia.
From Flocq Require Import Core.
From CB Require Import Mach MachProofs F64 F64Proofs ChronyFloat ChronyFloatProofs Client ClientProofs
                       Bound BoundProofs Updater UpdaterProofs Containment.
Import ListNotations.
Open Scope R_scope.

Theorem C01_containment :
  forall (drift : Z) (h : list msg) (d e o phc : Z) (a real mono el lt : timespec) (st : status)
         (C M : R -> R) (ta tr tc tm : R),
  last_sync h = Some ((bound_of_words d e o + phc)%Z, a) ->
  word d -> word e -> word o -> 0 <= cf_value d < 1024 -> 0 <= cf_value e < 1024 -> Rabs (cf_value o) < 1024 ->
  (0 <= phc)%Z -> (bound_of_words d e o + phc < 2 ^ 43)%Z -> (0 <= drift < 1000000000)%Z ->
  ts_inR a -> ts_inR (mkts (ts_sec a + 1000) 0) -> ts_inR real -> ts_inR mono ->
  (forall x y, x <= y -> M x <= M y) -> ta <= tr -> tr <= tc -> tc <= tm ->
  IZR (ns a) <= M ta ->
  Rabs (C tr - tr) <= S d e o * 1000000000 + IZR phc ->
  Rabs (C tc - tc) <= Rabs (C tr - tr) + IZR drift / 1000000000 * (M tc - M tr) ->
  C tc - 1 < IZR (ns real) <= C tc ->
  M tm - 1 < IZR (ns mono) <= M tm ->
  compute_bound_at (spec_rec drift h) real mono = Ok (el, lt, st) -> st <> Unknown ->
  IZR (ns el) - 4 <= tc <= IZR (ns lt) + 4.
Proof. exact containment. Qed.

(* a record without a measurement never yields a trusted interval (so the theorem above covers
   every trusted interval) *)
Theorem C01_no_measurement_no_trust : forall drift h real mono el lt st,
  last_sync h = None -> ceb_inR (spec_rec drift h) -> ts_inR real -> ts_inR mono ->
  compute_bound_at (spec_rec drift h) real mono = Ok (el, lt, st) -> st = Unknown.
Proof.
  intros drift h real mono el lt st HL HR Hr Hm HC.
  rewrite (status_is_decay _ real mono el lt st HR Hr Hm HC).
  apply decay_unknown. left. apply spec_status_before_first_sync, HL.
Qed.

(* a client that has attached to a segment but never obtained a record (e.g. it attached while an
   update abandoned by a dead daemon was in flight) evaluates the all-zero record: never trusted *)
Theorem C01_empty_record_no_trust : forall real mono el lt st,
  ts_inR real -> ts_inR mono ->
  compute_bound_at (mkceb (mkts 0 0) (mkts 0 0) 0 0 0 Unknown) real mono = Ok (el, lt, st) -> st = Unknown.
Proof.
  intros real mono el lt st Hr Hm HC.
  assert (HR : ceb_inR (mkceb (mkts 0 0) (mkts 0 0) 0 0 0 Unknown)).
  { unfold ceb_inR, ts_inR; cbn [c_as_of c_void_after c_bound c_drift ts_sec ts_nsec]. repeat split; try (apply Z.leb_le; reflexivity); try (apply Z.ltb_lt; reflexivity); try reflexivity; try (intro; discriminate). }
  rewrite (status_is_decay _ real mono el lt st HR Hr Hm HC). reflexivity.
Qed.

(* ---------------------------------------------------------------------------------------------
   The chain from the chrony histories to the record a client computes its interval from
   (World/Pipeline.v).  [ls]: the daemon instances that ever ran (rate and message history of each,
   Updater.lives); the k-th write() call publishes the k-th record they produce; the segment is the
   release/acquire machine with any schedule of accesses, deaths, restarts and clients.  Every record
   a client obtains is the empty record or spec_rec d h for one instance and one prefix h of its
   history; and whenever a client derives a trusted status from it, that history contains a
   synchronised measurement - the premise of C01_containment, whose remaining hypotheses are the
   assumptions about the world (chronyd's figures valid, drift within the configured rate). *)
From CB Require Import Machine SeqlockRA Pipeline.
Open Scope Z_scope.

Theorem C01_every_snapshot_is_a_specified_record : forall ls cs,
  lives ls = Some cs -> (forall d ms, In (d, ms) ls -> 0 <= d < 4294967296) ->
  forall c ts m o, c_cells c = 7%nat -> safe_cfg c = true -> Forall real_token ts ->
  @m_run (recs_fun cs) (m_init c) ts = (m, o) -> Z.of_nat (m_nrec m) < 32767 ->
  forall j ret rec, In (ORet j ret rec) o -> ret <> RetErr ->
    cells_ceb rec = empty_ceb \/ from_history ls (cells_ceb rec).
Proof. exact snapshot_is_a_specified_record. Qed.

Theorem C01_trusted_interval_has_a_measured_history : forall ls cs,
  lives ls = Some cs -> (forall d ms, In (d, ms) ls -> 0 <= d < 4294967296) ->
  forall c ts m o, c_cells c = 7%nat -> safe_cfg c = true -> Forall real_token ts ->
  @m_run (recs_fun cs) (m_init c) ts = (m, o) -> Z.of_nat (m_nrec m) < 32767 ->
  forall j ret rec real mono el lt st, In (ORet j ret rec) o -> ret <> RetErr ->
  ts_inR real -> ts_inR mono ->
  compute_bound_at (cells_ceb rec) real mono = Ok (el, lt, st) -> st <> Unknown ->
  exists d h b a, cells_ceb rec = spec_rec d h /\ last_sync h = Some (b, a) /\ 0 <= d < 4294967296 /\
                  exists pre ms post (k : nat), ls = pre ++ (d, ms) :: post /\ (k < length ms)%nat /\ h = rev (firstn (Datatypes.S k) ms).
Proof.
  intros ls cs HL HR c ts m o H7 Hs Hts R Hn j ret rec real mono el lt st Hin Hne Hr Hm HC Hst.
  destruct (snapshot_is_a_specified_record ls cs HL HR c ts m o H7 Hs Hts R Hn j ret rec Hin Hne) as [E|E].
  - exfalso. apply Hst. rewrite E in HC. exact (C01_empty_record_no_trust real mono el lt st Hr Hm HC).
  - destruct E as (pre & d & ms & post & k & El & Hk & E).
    assert (Hd : 0 <= d < 4294967296).
    { apply (HR d ms). rewrite El. apply in_or_app. right. left. reflexivity. }
    exists d, (rev (firstn (Datatypes.S k) ms)).
    destruct (last_sync (rev (firstn (Datatypes.S k) ms))) as [[b a]|] eqn:LS.
    + exists b, a. split; [exact E|]. split; [reflexivity|]. split; [exact Hd|].
      exists pre, ms, post, k. repeat split; auto.
    + exfalso. apply Hst. rewrite E in HC.
      apply (C01_no_measurement_no_trust d (rev (firstn (Datatypes.S k) ms)) real mono el lt st LS); auto.
      unfold spec_rec. rewrite LS. unfold ceb_inR, ts_inR.
      cbn [c_as_of c_void_after c_bound c_drift ts_sec ts_nsec].
      repeat split; try (apply Z.leb_le; reflexivity); try (apply Z.ltb_lt; reflexivity); try reflexivity; try (intro; discriminate); lia.
Qed.
