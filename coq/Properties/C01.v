(* C01 - true time lies inside every trusted interval (end-to-end containment).
   See World/Containment.v for the world model.  The statement is per published record and per
   client call, hence covers synchronisation losses and chronyd outages (the record then keeps the
   last measurement and the client keeps inflating it), and daemon restarts (every record in the
   segment was produced by some incarnation from its own history h; a fresh incarnation publishes
   Unknown until it has a measurement, C09). *)
From Coq Require Import ZArith Reals List Lia.
From Flocq Require Import Core.
From CB Require Import Mach MachProofs F64 F64Proofs ChronyFloat ChronyFloatProofs Client ClientProofs
                       Bound BoundProofs Updater UpdaterProofs Containment.
Import ListNotations.
Open Scope R_scope.

Theorem C01_containment :
  forall (drift : Z) (h : list msg) (d e o phc : Z) (a real mono el lt : timespec) (st : status)
         (C M : R -> R) (ta tr tc tm : R),
  last_sync h = Some ((bound_of_words d e o + phc)%Z, a) ->
  word d -> word e -> word o -> 0 <= cf_value d < 1024 -> 0 <= cf_value e < 1024 -> Rabs (cf_value o) < 1024 ->
  (0 <= phc)%Z -> (bound_of_words d e o + phc < 2 ^ 43)%Z -> (0 <= drift < 1000000000)%Z ->
  ts_inR a -> ts_inR (mkts (ts_sec a + 1000) 0) -> ts_inR real -> ts_inR mono ->
  (forall x y, x <= y -> M x <= M y) -> ta <= tr -> tr <= tc -> tc <= tm ->
  IZR (ns a) <= M ta ->
  Rabs (C tr - tr) <= S d e o * 1000000000 + IZR phc ->
  Rabs (C tc - tc) <= Rabs (C tr - tr) + IZR drift / 1000000000 * (M tc - M tr) ->
  C tc - 1 < IZR (ns real) <= C tc ->
  M tm - 1 < IZR (ns mono) <= M tm ->
  compute_bound_at (spec_rec drift h) real mono = Ok (el, lt, st) -> st <> Unknown ->
  IZR (ns el) - 4 <= tc <= IZR (ns lt) + 4.
Proof. exact containment. Qed.

(* a record without a measurement never yields a trusted interval (so the theorem above covers
   every trusted interval) *)
Theorem C01_no_measurement_no_trust : forall drift h real mono el lt st,
  last_sync h = None -> ceb_inR (spec_rec drift h) -> ts_inR real -> ts_inR mono ->
  compute_bound_at (spec_rec drift h) real mono = Ok (el, lt, st) -> st = Unknown.
Proof.
  intros drift h real mono el lt st HL HR Hr Hm HC.
  rewrite (status_is_decay _ real mono el lt st HR Hr Hm HC).
  apply decay_unknown. left. apply spec_status_before_first_sync, HL.
Qed.

(* a client that has attached to a segment but never obtained a record (e.g. it attached while an
   update abandoned by a dead daemon was in flight) evaluates the all-zero record: never trusted *)
Theorem C01_empty_record_no_trust : forall real mono el lt st,
  ts_inR real -> ts_inR mono ->
  compute_bound_at (mkceb (mkts 0 0) (mkts 0 0) 0 0 0 Unknown) real mono = Ok (el, lt, st) -> st = Unknown.
Proof.
  intros real mono el lt st Hr Hm HC.
  assert (HR : ceb_inR (mkceb (mkts 0 0) (mkts 0 0) 0 0 0 Unknown)).
  { unfold ceb_inR, ts_inR; cbn [c_as_of c_void_after c_bound c_drift ts_sec ts_nsec]. repeat split; try (apply Z.leb_le; reflexivity); try (apply Z.ltb_lt; reflexivity); try reflexivity; try (intro; discriminate). }
  rewrite (status_is_decay _ real mono el lt st HR Hr Hm HC). reflexivity.
Qed.
