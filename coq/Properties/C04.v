(* C04 - daemon death at any point, and its restart, never harm attached clients.
   Model: Shm/Machine.v (w_step: one access of write(); w_crash: the process dies where it is;
   w_restart: ShmWriter::new over the file that is left). *)
From Coq Require Import ZArith List Bool.
From CB Require Import Gen Machine MachineFacts.
Import ListNotations.
Open Scope Z_scope.

(* computed examples run the instance that publishes the records [rec_of] *)
#[local] Existing Instance std_rec.

(* once valid (version and generation non-zero) the header stays valid under every writer step,
   hence at every crash point (a crash stores nothing) *)
Theorem C04_valid_step : forall c w r k w' it,
  header_valid (w_log w) = true -> w_step c w r k = (w', it) -> header_valid (w_log w') = true.
Proof. exact w_step_valid. Qed.

Theorem C04_crash_stores_nothing : forall w, w_log (w_crash w) = w_log w.
Proof. exact w_crash_log. Qed.

(* (c) a valid segment is taken over in place: the only store of the restart is version := 1;
   generation and record are untouched, the segment stays valid (it is never emptied) *)
Theorem C04_takeover_in_place : forall c w, header_valid (w_log w) = true ->
  w_log (w_restart c w) = w_log w ++ [mkev LVer 1 (w_relview w) (w_att w) KVer] /\
  header_valid (w_log (w_restart c w)) = true /\
  latest_val LGen (w_log (w_restart c w)) = latest_val LGen (w_log w) /\
  (forall i, latest_val (LCell i) (w_log (w_restart c w)) = latest_val (LCell i) (w_log w)).
Proof. exact w_restart_valid. Qed.

(* an update entered from the odd generation a dead writer left behind adopts that value *)
Theorem C04_adopts_odd_generation : forall c w r k,
  w_pc w = WIdle -> Z.odd (latest_val LGen (w_log w)) = true ->
  let w1 := fst (w_step c w r k) in let w2 := fst (w_step c w1 r k) in
  latest_val LGen (w_log w2) = latest_val LGen (w_log w).
Proof. exact adopt_odd. Qed.

Theorem C04_generation_never_zero : forall g, pre g <> 0 /\ post g <> 0.
Proof. intros g. split; [apply pre_never_zero | apply post_never_zero]. Qed.

(* death during the very first publication, restart, publication: clients can attach and read it;
   death in the middle of a later update: the attached reader keeps its record, then sees the
   restarted daemon's publication without reopening (7 cells, the measured configuration) *)
Example C04_example_first_publication :
  let ts := repeat TW 5 ++ [TCrash; TRestart] ++ repeat TW 11 ++ [TNewReader] ++ repeat (TR 0 None) 11 in
  exists m o, m_run (m_init fixed_cfg) ts = (m, o) /\
    In (ORet 0 RetFresh (rec_of 7 2)) o /\ latest_val LGen (w_log (m_w m)) = 2.
Proof. eexists _, _. split; [vm_compute; reflexivity|]. split; [cbn; tauto | reflexivity]. Qed.

Example C04_example_mid_update :
  let ts := repeat TW 11 ++ [TNewReader] ++ repeat (TR 0 None) 11 ++ repeat TW 6 ++ [TCrash] ++
            repeat (TR 0 None) 2 ++ [TRestart] ++ repeat (TR 0 None) 2 ++ repeat TW 11 ++ repeat (TR 0 None) 11 in
  exists m o, m_run (m_init fixed_cfg) ts = (m, o) /\
    filter (fun x => match x with ORet _ _ _ => true | _ => false end) o =
      [ORet 0 RetFresh (rec_of 7 1); ORet 0 RetCache (rec_of 7 1); ORet 0 RetCache (rec_of 7 1); ORet 0 RetFresh (rec_of 7 3)].
Proof. eexists _, _. split; vm_compute; reflexivity. Qed.

(* clause (b): attached clients see the restarted daemon's publications without reopening.
   [ts] ranges over every schedule, in particular those with TCrash / TRestart at any access and
   any number of them; [r] is a reader attached at any earlier time.  Whenever the (restarted)
   writer has completed a publication and is not inside another one, the reader's next call
   returns that publication (exception as in C03: live generation = cached generation).
   Clause (a) is C02_RA + C03_monotone_RA, whose schedules contain the same tokens. *)
From CB Require Import SeqlockInv SeqlockRA SeqlockFresh SeqlockInflight.
Open Scope Z_scope.

Section General.
Context {RF : RecFun}.

Theorem C04_restarted_publications_seen : forall c ts m o j r q e, safe_cfg c = true -> (0 < c_retries c)%N ->
  Forall real_token ts -> m_run (m_init c) ts = (m, o) ->
  nth_error (m_rs m) j = Some r -> r_pc r = RIdle ->
  latest LGen (w_log (m_w m)) = Some q -> ev (w_log (m_w m)) q = Some e -> e_kind e = KEven ->
  exists k m' pre ret r', (k <= c_cells c + 4)%nat /\
    m_run m (repeat (TR j None) k) = (m', pre ++ [ORet j ret (r_cache r')]) /\ Forall is_access pre /\
    nth_error (m_rs m') j = Some r' /\ r_pc r' = RIdle /\ m_w m' = m_w m /\
    ((ret = RetFresh /\ r_cache r' = recf (c_cells c) (e_att e) /\ r_cache_gen r' = e_val e) \/
     (ret = RetCache /\ r_cache r' = r_cache r /\ e_val e = r_cache_gen r)).
Proof. exact fresh_machine. Qed.

(* while a client is attached the segment is never emptied: the header stays valid through every
   step, crash and restart, for any number of publications *)
Theorem C04_never_emptied_under_clients : forall c ts m o, safe_cfg c = true -> Forall real_token ts ->
  m_run (m_init c) ts = (m, o) -> m_rs m <> [] -> header_valid (w_log (m_w m)) = true.
Proof. intros c ts m o Hs Hts R. exact (F_valid _ _ (m_run_F c Hs ts (m_init c) m o (MInvF_init c) Hts R)). Qed.

(* clause (a), the update left open: while the generation is odd - an update begun and not completed, or
   abandoned for good by a daemon that died inside it, whatever has been restarted over the segment since
   (the restart leaves the generation as it is: C04_takeover_in_place) - a call of an attached client
   returns after its two header loads with the record the client held; nothing half-written is handed
   out and nobody waits for the daemon.  [ts] is any schedule with crashes and restarts at any access. *)
Theorem C04_open_update_serves_the_held_record : forall c ts m o j r q e, safe_cfg c = true ->
  Forall real_token ts -> m_run (m_init c) ts = (m, o) ->
  nth_error (m_rs m) j = Some r -> r_pc r = RIdle ->
  latest LGen (w_log (m_w m)) = Some q -> ev (w_log (m_w m)) q = Some e -> (Z.odd (e_val e) = true \/ e_val e = 0) ->
  exists k m' pre r', (k <= 2)%nat /\
    m_run m (repeat (TR j None) k) = (m', pre ++ [ORet j RetCache (r_cache r)]) /\ Forall is_access pre /\
    nth_error (m_rs m') j = Some r' /\ r_pc r' = RIdle /\ r_cache r' = r_cache r /\ r_cache_gen r' = r_cache_gen r /\
    m_w m' = m_w m.
Proof. exact inflight_machine. Qed.

(* ... and a client that attaches meanwhile holds the empty record (all zeros: status Unknown) and is
   served that: the half-written record in the segment - e.g. the start-up record of a restarted daemon
   written halfway over the last record of the instance before - is never handed out *)
Theorem C04_attaching_during_an_open_update_gets_the_empty_record : forall c ts m o q e, safe_cfg c = true ->
  Forall real_token ts -> m_run (m_init c) ts = (m, o) -> header_valid (w_log (m_w m)) = true ->
  latest LGen (w_log (m_w m)) = Some q -> ev (w_log (m_w m)) q = Some e -> (Z.odd (e_val e) = true \/ e_val e = 0) ->
  exists k m' pre, (k <= 2)%nat /\
    m_run m (TNewReader :: repeat (TR (length (m_rs m)) None) k) =
      (m', pre ++ [ORet (length (m_rs m)) RetCache (repeat 0 (c_cells c))]) /\
    Forall is_access pre /\ m_w m' = m_w m.
Proof. exact attach_inflight_machine. Qed.

(* the premise in terms of what the daemon was doing: the first generation store of every update carries
   an odd value - through the wrap, after any crash/restart pattern - so whenever the latest generation
   event is such a store (the update is open) the two theorems above apply *)
Theorem C04_open_update_has_an_odd_generation : forall c ts m o q e, safe_cfg c = true -> Forall real_token ts ->
  m_run (m_init c) ts = (m, o) -> ev (w_log (m_w m)) q = Some e -> e_kind e = KOdd -> Z.odd (e_val e) = true.
Proof. exact open_update_is_odd. Qed.

End General.

(* the hypotheses are met: the daemon dies six accesses into its second update, another one is started over
   the segment; the generation is 3; the attached client is served publication 1, a new one the empty record *)
Example C04_example_open_update :
  let ts := repeat TW 11 ++ [TNewReader] ++ repeat (TR 0 None) 11 ++ repeat TW 6 ++ [TCrash; TRestart] in
  exists m o q e, m_run (m_init fixed_cfg) ts = (m, o) /\
    latest LGen (w_log (m_w m)) = Some q /\ ev (w_log (m_w m)) q = Some e /\ e_val e = 3 /\
    header_valid (w_log (m_w m)) = true /\
    snd (m_run m ([TR 0 None; TR 0 None; TNewReader; TR 1 None; TR 1 None])) =
      [OAccess 1 (mkti ALoad LVer (c_r_ver fixed_cfg) 1); OAccess 1 (mkti ALoad LGen (c_r_g1 fixed_cfg) 3); ORet 0 RetCache (rec_of 7 1);
       OAccess 2 (mkti ALoad LVer (c_r_ver fixed_cfg) 1); OAccess 2 (mkti ALoad LGen (c_r_g1 fixed_cfg) 3); ORet 1 RetCache (repeat 0 7)].
Proof. eexists _, _, _, _. split; [vm_compute; reflexivity|]. repeat (split; [vm_compute; reflexivity|]). vm_compute. reflexivity. Qed.

(* ---------------------------------------------------------------------------------------------
   Death while the segment file is being (re-)created: ShmWriter::wipe truncates the file and
   writes the header field by field (version and generation 0), then the zeroed body.  Every state a
   death between or inside these writes can leave - every prefix of the final image - is refused by
   readers, and the next daemon's start-up + first publication produce exactly the published
   segment.  The write sequence is measured from the running code with strace on every run
   (generated Current_C04.v: the measured writes give the modelled image, the file is opened with
   O_TRUNC, and every prefix of the measured image is refused). *)
From CB Require Import Layout Open LayoutProofs.

Theorem C04_death_inside_wipe_leaves_nothing_readable : forall n h,
  reader_open (FFile (firstn n wipe_image)) <> OpenOk h.
Proof. exact wipe_crash_never_valid. Qed.

Theorem C04_death_inside_wipe_is_repaired : forall n r, ceb_ok r ->
  after_first_publication (FFile (firstn n wipe_image)) r = Some (encode_header (fresh_header 2) ++ encode_ceb r).
Proof. exact wipe_crash_then_restart. Qed.

Theorem C04_measured_writes_criterion : forall writes, crash_states_refused writes = true ->
  forall n h, reader_open (FFile (firstn n (concat writes))) <> OpenOk h.
Proof. exact crash_states_refused_spec. Qed.

(* truncation first is essential: the same writes over the old content can pass through a state
   readers accept with the old garbage as its record *)
Theorem C04_wipe_without_truncation_refuted :
  exists old k h, (forall h', reader_open (FFile old) <> OpenOk h') /\
                  reader_open (FFile (overwrite old wipe_image k)) = OpenOk h.
Proof. exact wipe_without_truncation_refuted. Qed.

(* clause (a) over the standard view semantics of release/acquire (Shm/MachineGenSys.v): [ts] contains
   TCrash and TRestart at any access, any number of times; every record any client obtains in any such
   execution is the empty initial record or one completed publication, and a given client's records
   follow publication order *)
From CB Require Import MachineGen MachineGenSys SeqlockMono.
Open Scope Z_scope.

Theorem C04_complete_records_across_deaths_standard_semantics :
  forall {RF : RecFun} c ts, safe_cfg c = true -> Forall real_token ts ->
  (Z.of_nat (gm_nrec (fst (std_run c ts))) < 32767)%Z ->
  forall j ret rec, In (ORet j ret rec) (snd (std_run c ts)) -> ret <> RetErr ->
    rec = repeat 0%Z (c_cells c) \/ published c (w_log (gm_w (fst (std_run c ts)))) rec.
Proof. intros RF. exact C02_RA_standard_semantics. Qed.

Example C04_standard_example :   (* death in the middle of an update, restart, publication: the attached client catches up *)
  let ts := repeat TW 11 ++ [TNewReader] ++ repeat (TR 0 None) 11 ++ repeat TW 6 ++ [TCrash] ++
            repeat (TR 0 None) 2 ++ [TRestart] ++ repeat (TR 0 None) 2 ++ repeat TW 11 ++ repeat (TR 0 None) 11 in
  filter (fun x => match x with ORet _ _ _ => true | _ => false end) (snd (std_run fixed_cfg ts)) =
    [ORet 0 RetFresh (rec_of 7 1); ORet 0 RetCache (rec_of 7 1); ORet 0 RetCache (rec_of 7 1); ORet 0 RetFresh (rec_of 7 3)].
Proof. vm_compute. reflexivity. Qed.

(* clause (b) over the standard semantics: after any execution [ts] (deaths and restarts at any access)
   that leaves a completed publication in the segment and client j between two calls, the client's next
   call - at most cells + 4 of its accesses - returns that publication (or its cached record when the
   live generation equals the cached one, the documented exception) *)
Theorem C04_restarted_publications_seen_standard_semantics :
  forall {RF : RecFun} c ts m o j r q e, safe_cfg c = true -> (0 < c_retries c)%N ->
  Forall real_token ts -> m_run (m_init c) ts = (m, o) ->
  nth_error (m_rs m) j = Some r -> r_pc r = RIdle ->
  latest LGen (w_log (m_w m)) = Some q -> ev (w_log (m_w m)) q = Some e -> e_kind e = KEven ->
  exists k pre ret rec, (k <= c_cells c + 4)%nat /\
    snd (std_run c (ts ++ repeat (TR j None) k)) = snd (std_run c ts) ++ pre ++ [ORet j ret rec] /\ Forall is_access pre /\
    ((ret = RetFresh /\ rec = recf (c_cells c) (e_att e)) \/ (ret = RetCache /\ rec = r_cache r /\ e_val e = r_cache_gen r)).
Proof.
  intros RF c ts m o j r q e Hs Hr Hts R Hj Hpc Hq He Hk.
  destruct (C04_restarted_publications_seen c ts m o j r q e Hs Hr Hts R Hj Hpc Hq He Hk)
    as (k & m' & pre & ret & r' & Hkk & R2 & Hpre & _ & _ & _ & Hcase).
  exists k, pre, ret, (r_cache r'). split; [exact Hkk|].
  assert (Hrep : Forall real_token (repeat (TR j None) k)) by (apply Forall_forall; intros x Hx; apply repeat_spec in Hx; subst; exact I).
  assert (Hall : Forall real_token (ts ++ repeat (TR j None) k)) by (apply Forall_app; split; assumption).
  destruct (standard_system_is_the_machine c (ts ++ repeat (TR j None) k) (safe_cfg_ok c Hs) Hall) as (E1 & _ & _).
  destruct (standard_system_is_the_machine c ts (safe_cfg_ok c Hs) Hts) as (E0 & _ & _).
  rewrite E1, E0, m_run_app, R. cbn [fst snd]. rewrite R2. cbn [snd].
  split; [reflexivity|]. split; [exact Hpre|].
  destruct Hcase as [(-> & Hc & _) | (-> & Hc & Hg)]; [left | right]; auto.
Qed.
