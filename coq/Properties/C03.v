(* C03 - snapshots never go back in time and catch up once the writer is idle.
   Model: Shm/Machine.v r_step. *)
From Coq Require Import ZArith List Bool NArith.
From CB Require Import Gen Machine MachineFacts.
Import ListNotations.
Open Scope Z_scope.

(* publication order is observed through the records: the examples and the monotonicity theorems are
   about the instance that publishes the pairwise different records [rec_of]; the freshness theorems
   (sections General) hold for every record function *)
#[local] Existing Instance std_rec.

(* the cached record changes only when a re-load returns the tracked generation; every other
   step of every call leaves the cache and its generation alone (whatever the writer does) *)
Theorem C03_cache_changes_only_on_accept : forall c L r ch r' it ret,
  r_step c L r ch = Some (r', it, ret) ->
  (ret = Some RetFresh /\ exists g acc b, r_pc r = RReload g acc b /\ r_cache r' = assemble (c_cells c) acc /\ r_cache_gen r' = g) \/
  (ret <> Some RetFresh /\ r_cache r' = r_cache r /\ r_cache_gen r' = r_cache_gen r).
Proof. exact r_step_cache. Qed.

Theorem C03_accept_condition : forall c L r ch r' it,
  r_step c L r ch = Some (r', it, Some RetFresh) ->
  exists g acc b v p, r_pc r = RReload g acc b /\ do_read L (r_view r) LGen (c_r_g2 c) ch = Some (g, p, v).
Proof. exact accept_needs_equal_even. Qed.

(* a reader that sleeps through publications 2..5 catches up in one call when the writer is idle;
   the counter wraps from 65534 to 2 and the reader follows; a reader created between two
   publications starts from the empty record and then reads the latest one *)
Example C03_example_catch_up :
  let ts := repeat TW 11 ++ [TNewReader] ++ repeat (TR 0 None) 11 ++ repeat TW 44 ++ repeat (TR 0 None) 11 in
  exists m o, m_run (m_init fixed_cfg) ts = (m, o) /\
    filter (fun x => match x with ORet _ _ _ => true | _ => false end) o =
      [ORet 0 RetFresh (rec_of 7 1); ORet 0 RetFresh (rec_of 7 5)].
Proof. eexists _, _. split; vm_compute; reflexivity. Qed.

Example C03_example_wrap :
  let ts := repeat TW 11 ++ [TJump 65532; TNewReader] ++ repeat (TR 0 None) 11 ++ repeat TW 11 ++ repeat (TR 0 None) 11
            ++ repeat TW 11 ++ repeat (TR 0 None) 11 in
  exists m o, m_run (m_init fixed_cfg) ts = (m, o) /\
    filter (fun x => match x with ORet _ _ _ => true | _ => false end) o =
      [ORet 0 RetFresh (rec_of 7 1); ORet 0 RetFresh (rec_of 7 2); ORet 0 RetFresh (rec_of 7 3)] /\
    latest_val LGen (w_log (m_w m)) = 2.
Proof. eexists _, _. split; [vm_compute; reflexivity|]. split; vm_compute; reflexivity. Qed.

(* ---------------------------------------------------------------------------------------------
   Monotonicity for every execution the release/acquire machine admits (same quantification and
   side conditions as C02_RA): over the observation stream of a run, for each reader, the
   publication numbers of the records its successive snapshot() calls return never decrease.
   [idx_of rec] is the number of the write() call that produced [rec] (0 for the empty record). *)
From CB Require Import SeqlockInv SeqlockRA SeqlockMono.

Theorem C03_monotone_RA : forall c ts m o, safe_cfg c = true -> Forall real_token ts ->
  m_run (m_init c) ts = (m, o) -> (Z.of_nat (m_nrec m) < 32767)%Z ->
  sorted_from (fun _ => 0%nat) o.
Proof.
  intros c ts m o Hs Hts R Hn.
  apply (m_run_mono c Hs ts (m_init c) m o (fun _ => 0%nat) (MInv2_init c) Hts R Hn).
  split; [intros j r H; destruct j; discriminate | reflexivity].
Qed.

Theorem C03_later_call_never_older : forall c ts m o o1 j ret1 rec1 o2 ret2 rec2 o3,
  safe_cfg c = true -> Forall real_token ts -> m_run (m_init c) ts = (m, o) -> (Z.of_nat (m_nrec m) < 32767)%Z ->
  o = o1 ++ ORet j ret1 rec1 :: o2 ++ ORet j ret2 rec2 :: o3 ->
  (idx_of rec1 <= idx_of rec2)%nat.
Proof.
  intros c ts m o o1 j ret1 rec1 o2 ret2 rec2 o3 Hs Hts R Hn E.
  pose proof (C03_monotone_RA c ts m o Hs Hts R Hn) as S. rewrite E in S. eapply sorted_pairs; eauto.
Qed.

Theorem C03_idx_of_record : forall n a, (0 < n)%nat -> idx_of (rec_of n a) = a.
Proof. exact idx_of_rec. Qed.

(* ---------------------------------------------------------------------------------------------
   Freshness ("catches up once the writer is idle") for every reachable state: any schedule, any
   release/acquire-legal read choices before the call, crashes, restarts, readers attached at any
   time, and any number of publications - no bound, the 16-bit wrap included.  If no update is in
   flight (the latest generation event is the even store of write() call [e_att e]) and reader j
   is between calls, a call of reader j that now executes sequentially consistently while the
   writer does nothing returns within cells + 4 accesses, and it returns the record of that call;
   the cache is served only when the live generation equals the cached generation (the record is
   already current, or the documented multiple-of-32767 exception). *)
From CB Require Import SeqlockFresh.
Open Scope Z_scope.

Section General.
Context {RF : RecFun}.

Theorem C03_fresh_when_idle : forall c ts m o j r q e, safe_cfg c = true -> (0 < c_retries c)%N ->
  Forall real_token ts -> m_run (m_init c) ts = (m, o) ->
  nth_error (m_rs m) j = Some r -> r_pc r = RIdle ->
  latest LGen (w_log (m_w m)) = Some q -> ev (w_log (m_w m)) q = Some e -> e_kind e = KEven ->
  exists k m' pre ret r', (k <= c_cells c + 4)%nat /\
    m_run m (repeat (TR j None) k) = (m', pre ++ [ORet j ret (r_cache r')]) /\ Forall is_access pre /\
    nth_error (m_rs m') j = Some r' /\ r_pc r' = RIdle /\ m_w m' = m_w m /\
    ((ret = RetFresh /\ r_cache r' = recf (c_cells c) (e_att e) /\ r_cache_gen r' = e_val e) \/
     (ret = RetCache /\ r_cache r' = r_cache r /\ e_val e = r_cache_gen r)).
Proof. exact fresh_machine. Qed.

(* that call is the newest completed one, and the segment then holds exactly its record *)
Theorem C03_latest_even_is_newest : forall n L q e, LogInv n L -> latest LGen L = Some q -> ev L q = Some e ->
  forall p f, ev L p = Some f -> e_kind f = KEven -> (e_att f <= e_att e)%nat.
Proof. exact latest_even_is_newest. Qed.

Theorem C03_idle_segment_holds_latest_record : forall n L q e, LogInv n L -> LogInv2 L ->
  latest LGen L = Some q -> ev L q = Some e -> e_kind e = KEven ->
  forall i, (i < n)%nat -> latest_val (LCell i) L = nth i (recf n (e_att e)) 0.
Proof. exact quiescent_cells. Qed.

(* the invariants used above hold in every reachable state, without any bound on publications *)
Theorem C03_reachable_invariant_unbounded : forall c ts m o, safe_cfg c = true -> Forall real_token ts ->
  m_run (m_init c) ts = (m, o) -> MInvF c m.
Proof. intros c ts m o Hs Hts R. exact (m_run_F c Hs ts (m_init c) m o (MInvF_init c) Hts R). Qed.

End General.

(* the documented exception is real: a reader that holds publication 1 (generation 2) and sleeps
   until the live generation is 2 again is served its cache although publication 3 is current *)
Example C03_exception_witness :
  let ts := repeat TW 11 ++ [TNewReader] ++ repeat (TR 0 None) 11 ++ [TJump 65534] ++ repeat TW 11 ++ repeat (TR 0 None) 2 in
  exists m o, m_run (m_init fixed_cfg) ts = (m, o) /\
    filter (fun x => match x with ORet _ _ _ => true | _ => false end) o =
      [ORet 0 RetFresh (rec_of 7 1); ORet 0 RetCache (rec_of 7 1)] /\
    latest_val LGen (w_log (m_w m)) = 2 /\ map (fun i => latest_val (LCell i) (w_log (m_w m))) (seq 0 7) = rec_of 7 2.
Proof. eexists _, _. split; [vm_compute; reflexivity|]. split; [vm_compute; reflexivity|]. split; vm_compute; reflexivity. Qed.

(* ---------------------------------------------------------------------------------------------
   Runs of any length (the 16-bit generation may wrap any number of times): monotonicity under the
   window condition of C02_RA_window instead of the bound on the number of write() calls, and
   freshness with the documented exception stated exactly. *)
From CB Require Import GenCyc.
Open Scope Z_scope.

Theorem C03_monotone_RA_window : forall c ts m o, safe_cfg c = true -> Forall real_token ts ->
  m_run (m_init c) ts = (m, o) -> run_windows (m_init c) ts ->
  sorted_from (fun _ => 0%nat) o.
Proof.
  intros c ts m o Hs Hts R Hw.
  apply (m_run_mono_win c Hs ts (m_init c) m o (fun _ => 0%nat) (MInv2_init c) Hts R Hw).
  split; [intros j r H; destruct j; discriminate | reflexivity].
Qed.

Theorem C03_later_call_never_older_window : forall c ts m o o1 j ret1 rec1 o2 ret2 rec2 o3,
  safe_cfg c = true -> Forall real_token ts -> m_run (m_init c) ts = (m, o) -> run_windows (m_init c) ts ->
  o = o1 ++ ORet j ret1 rec1 :: o2 ++ ORet j ret2 rec2 :: o3 ->
  (idx_of rec1 <= idx_of rec2)%nat.
Proof.
  intros c ts m o o1 j ret1 rec1 o2 ret2 rec2 o3 Hs Hts R Hw E.
  pose proof (C03_monotone_RA_window c ts m o Hs Hts R Hw) as S. rewrite E in S. eapply sorted_pairs; eauto.
Qed.

Section GeneralExact.
Context {RF : RecFun}.

(* the call returns the newest completed publication - freshly read, or from the cache when the
   cache already holds it - unless the cached record was accepted from an even store that lies a
   positive multiple of 32767 publications before the newest one (the documented exception) *)
Theorem C03_fresh_exact : forall c ts m o j r q e, safe_cfg c = true -> (0 < c_retries c)%N ->
  Forall real_token ts -> m_run (m_init c) ts = (m, o) -> run_windows (m_init c) ts ->
  nth_error (m_rs m) j = Some r -> r_pc r = RIdle ->
  latest LGen (w_log (m_w m)) = Some q -> ev (w_log (m_w m)) q = Some e -> e_kind e = KEven ->
  exists k m' pre ret r', (k <= c_cells c + 4)%nat /\
    m_run m (repeat (TR j None) k) = (m', pre ++ [ORet j ret (r_cache r')]) /\ Forall is_access pre /\
    nth_error (m_rs m') j = Some r' /\ r_pc r' = RIdle /\ m_w m' = m_w m /\
    (r_cache r' = recf (c_cells c) (e_att e) \/
     (ret = RetCache /\ r_cache r' = r_cache r /\
      exists q' e' d, ev (w_log (m_w m)) q' = Some e' /\ e_kind e' = KEven /\ r_cache r = recf (c_cells c) (e_att e') /\
        0 < d /\ Z.of_nat (evens_upto (w_log (m_w m)) q) = Z.of_nat (evens_upto (w_log (m_w m)) q') + 32767 * d)).
Proof. exact fresh_machine_exact. Qed.

(* what the exception rests on, in every reachable state: the generation a reader keeps with its cached
   record is the value of the very even store that record was accepted from - never a generation loaded
   later (a copy filed under a newer generation would be served as current although it is not) *)
Theorem C03_cache_filed_under_its_own_generation : forall c ts m o, safe_cfg c = true ->
  Forall real_token ts -> m_run (m_init c) ts = (m, o) -> run_windows (m_init c) ts ->
  forall j r, nth_error (m_rs m) j = Some r ->
    (r_cache_gen r = 0 /\ r_cache r = repeat 0 (c_cells c)) \/
    exists q e, ev (w_log (m_w m)) q = Some e /\ e_kind e = KEven /\ e_val e = r_cache_gen r /\
                r_cache r = recf (c_cells c) (e_att e).
Proof.
  intros c ts m o Hs Hts R Hw j r Er.
  pose proof (M3_tag _ _ (m_run_tag_win c Hs ts (m_init c) m o (MInv3_init c) Hts R Hw)) as TG.
  rewrite Forall_forall in TG. exact (TG r (nth_error_In _ _ Er)).
Qed.

End GeneralExact.

(* the same over the standard view semantics of release/acquire (Shm/MachineGenSys.v: its runs make
   exactly the machine's observations) *)
From CB Require Import MachineGen MachineGenSys.

Theorem C03_later_call_never_older_standard_semantics : forall c ts o1 j ret1 rec1 o2 ret2 rec2 o3,
  safe_cfg c = true -> Forall real_token ts -> (Z.of_nat (gm_nrec (fst (std_run c ts))) < 32767)%Z ->
  snd (std_run c ts) = o1 ++ ORet j ret1 rec1 :: o2 ++ ORet j ret2 rec2 :: o3 ->
  (idx_of rec1 <= idx_of rec2)%nat.
Proof.
  intros c ts o1 j ret1 rec1 o2 ret2 rec2 o3 Hs Hts Hn E.
  destruct (standard_system_is_the_machine c ts (safe_cfg_ok c Hs) Hts) as (Eo & _ & En).
  rewrite Eo in E. rewrite En in Hn. destruct (m_run (m_init c) ts) as [m o] eqn:R. cbn [fst snd] in *.
  exact (C03_later_call_never_older c ts m o o1 j ret1 rec1 o2 ret2 rec2 o3 Hs Hts R Hn E).
Qed.

(* the theorems of this file hold for every record function (class RecFun); an instance other than
   [rec_of], run by the correspondence as `shmc`: publications whose as-of instant and bound never
   change (Machine.rec_of_c - what the daemon writes while chronyd is silent).  The second publication
   differs from the first in status and void-after only, and the client's next call returns it. *)
Example C03_unchanged_measurement_example :
  let ts := repeat TW 11 ++ [TNewReader] ++ repeat (TR 0 None) 11 ++ repeat TW 11 ++ repeat (TR 0 None) 11 in
  filter (fun x => match x with ORet _ _ _ => true | _ => false end) (snd (m_run_const (m_init fixed_cfg) ts)) =
    [ORet 0 RetFresh (rec_of_c 7 1); ORet 0 RetFresh (rec_of_c 7 2)] /\
  rec_of_c 7 1 = [7; 8; 1002; 1003; 9; 1005; 1]%Z /\ rec_of_c 7 2 = [7; 8; 2002; 2003; 9; 2005; 2]%Z.
Proof. vm_compute. repeat split; reflexivity. Qed.
