(* C03 - snapshots never go back in time and catch up once the writer is idle.
   Model: Shm/Machine.v r_step. *)
From Coq Require Import ZArith List Bool NArith.
From CB Require Import Gen Machine MachineFacts.
Import ListNotations.
Open Scope Z_scope.

(* the cached record changes only when a re-load returns the tracked generation; every other
   step of every call leaves the cache and its generation alone (whatever the writer does) *)
Theorem C03_cache_changes_only_on_accept : forall c L r ch r' it ret,
  r_step c L r ch = Some (r', it, ret) ->
  (ret = Some RetFresh /\ exists g acc b, r_pc r = RReload g acc b /\ r_cache r' = assemble (c_cells c) acc /\ r_cache_gen r' = g) \/
  (ret <> Some RetFresh /\ r_cache r' = r_cache r /\ r_cache_gen r' = r_cache_gen r).
Proof. exact r_step_cache. Qed.

Theorem C03_accept_condition : forall c L r ch r' it,
  r_step c L r ch = Some (r', it, Some RetFresh) ->
  exists g acc b v p, r_pc r = RReload g acc b /\ do_read L (r_view r) LGen (c_r_g2 c) ch = Some (g, p, v).
Proof. exact accept_needs_equal_even. Qed.

(* a reader that sleeps through publications 2..5 catches up in one call when the writer is idle;
   the counter wraps from 65534 to 2 and the reader follows; a reader created between two
   publications starts from the empty record and then reads the latest one *)
Example C03_example_catch_up :
  let ts := repeat TW 11 ++ [TNewReader] ++ repeat (TR 0 None) 11 ++ repeat TW 44 ++ repeat (TR 0 None) 11 in
  exists m o, m_run (m_init fixed_cfg) ts = (m, o) /\
    filter (fun x => match x with ORet _ _ _ => true | _ => false end) o =
      [ORet 0 RetFresh (rec_of 7 1); ORet 0 RetFresh (rec_of 7 5)].
Proof. eexists _, _. split; vm_compute; reflexivity. Qed.

Example C03_example_wrap :
  let ts := repeat TW 11 ++ [TJump 65532; TNewReader] ++ repeat (TR 0 None) 11 ++ repeat TW 11 ++ repeat (TR 0 None) 11
            ++ repeat TW 11 ++ repeat (TR 0 None) 11 in
  exists m o, m_run (m_init fixed_cfg) ts = (m, o) /\
    filter (fun x => match x with ORet _ _ _ => true | _ => false end) o =
      [ORet 0 RetFresh (rec_of 7 1); ORet 0 RetFresh (rec_of 7 2); ORet 0 RetFresh (rec_of 7 3)] /\
    latest_val LGen (w_log (m_w m)) = 2.
Proof. eexists _, _. split; [vm_compute; reflexivity|]. split; vm_compute; reflexivity. Qed.

(* ---------------------------------------------------------------------------------------------
   Monotonicity for every execution the release/acquire machine admits (same quantification and
   side conditions as C02_RA): over the observation stream of a run, for each reader, the
   publication numbers of the records its successive snapshot() calls return never decrease.
   [idx_of rec] is the number of the write() call that produced [rec] (0 for the empty record). *)
From CB Require Import SeqlockInv SeqlockRA SeqlockMono.

Theorem C03_monotone_RA : forall c ts m o, safe_cfg c = true -> Forall real_token ts ->
  m_run (m_init c) ts = (m, o) -> (Z.of_nat (m_nrec m) < 32767)%Z ->
  sorted_from (fun _ => 0%nat) o.
Proof.
  intros c ts m o Hs Hts R Hn.
  apply (m_run_mono c Hs ts (m_init c) m o (fun _ => 0%nat) (MInv2_init c) Hts R Hn).
  split; [intros j r H; destruct j; discriminate | reflexivity].
Qed.

Theorem C03_later_call_never_older : forall c ts m o o1 j ret1 rec1 o2 ret2 rec2 o3,
  safe_cfg c = true -> Forall real_token ts -> m_run (m_init c) ts = (m, o) -> (Z.of_nat (m_nrec m) < 32767)%Z ->
  o = o1 ++ ORet j ret1 rec1 :: o2 ++ ORet j ret2 rec2 :: o3 ->
  (idx_of rec1 <= idx_of rec2)%nat.
Proof.
  intros c ts m o o1 j ret1 rec1 o2 ret2 rec2 o3 Hs Hts R Hn E.
  pose proof (C03_monotone_RA c ts m o Hs Hts R Hn) as S. rewrite E in S. eapply sorted_pairs; eauto.
Qed.

Theorem C03_idx_of_record : forall n a, (0 < n)%nat -> idx_of (rec_of n a) = a.
Proof. exact idx_of_rec. Qed.
