(* C18 - reading never blocks on, or spins forever because of, the daemon.
   Model: Shm/Machine.v r_step (one step = one shared access of ShmReader::snapshot). *)
From Coq Require Import ZArith List NArith.
From CB Require Import Machine ReaderBound.
Import ListNotations.
Open Scope Z_scope.

#[local] Existing Instance std_rec.

(* for every configuration, every log at every step and every choice of the event each load
   returns (i.e. whatever the writer does or does not do): a step that does not end the call
   strictly decreases a non-negative measure *)
Theorem C18_step_decreases : forall c L r ch r' it,
  budget_ok (r_pc r) -> todo_ok c (r_pc r) ->
  r_step c L r ch = Some (r', it, None) ->
  0 <= mu c (r_pc r') < mu c (r_pc r) /\ budget_ok (r_pc r') /\ todo_ok c (r_pc r').
Proof. exact r_step_decreases. Qed.

(* hence a call from the idle state ends after at most 2 + R * (cells + 3) accesses *)
Theorem C18_bounded : forall c inputs r,
  r_pc r = RIdle -> legal_inputs c r inputs ->
  2 + Z.of_N (c_retries c) * iter_cost c <= Z.of_nat (length inputs) ->
  exists n ret r', r_call c r inputs = Some (n, ret, r') /\
                   Z.of_nat n <= 2 + Z.of_N (c_retries c) * iter_cost c.
Proof.
  intros c inputs r PC HL HM.
  destruct (call_bounded c inputs r) as (n & ret & r' & H & Hn); rewrite ?PC; cbn [budget_ok todo_ok mu]; auto.
  exists n, ret, r'. rewrite PC in Hn. auto.
Qed.

(* an update in flight (odd generation), an unchanged or zero generation: the previous snapshot
   after two accesses, without waiting *)
Theorem C18_early_return : forall c L1 ch1 L2 ch2 r r1 it1,
  r_pc r = RIdle -> r_step c L1 r ch1 = Some (r1, it1, None) ->
  forall g p v, do_read L2 (r_view r1) LGen (c_r_g1 c) ch2 = Some (g, p, v) ->
  (g = 0 \/ g = r_cache_gen r1 \/ Z.odd g = true) ->
  exists r2 it2, r_step c L2 r1 ch2 = Some (r2, it2, Some RetCache) /\ r_cache r2 = r_cache r.
Proof. exact early_return. Qed.

(* non-vacuity: a stalled writer (generation left odd after the reader's first load) with a retry
   budget of 3: the call ends with an error after 2 + 3 * 9 accesses *)
Example C18_example :
  let c := mkcfg Acq Rel (Some Rel) Rel Acq Acq (Some Acq) Acq 2 [0;1]%nat [0;1]%nat 3 in
  let m1 := fst (m_run (m_init c) (repeat TW 6 ++ [TNewReader])) in
  let L1 := w_log (m_w m1) in
  let L2 := L1 ++ [mkev LGen 3 0 2 KOdd] in
  match nth_error (m_rs m1) 0 with
  | Some r => option_map (fun x => (fst (fst x), snd (fst x)))
                (r_call c r ((L1, None) :: (L1, None) :: repeat (L2, None) 30)) = Some (14%nat, RetErr)
  | None => False
  end.
Proof. vm_compute. reflexivity. Qed.

(* The bound does not depend on the memory model: the reader program of Shm/MachineGen.v run over ANY
   view type with ANY load and fence functions - whatever values its loads return, consistent with a
   memory model or not - ends every call within the same number of accesses.  (The machine of
   Machine.v and the standard release/acquire semantics are two instances.) *)
From CB Require Import MachineGen MachineGenSys.
Open Scope Z_scope.

Theorem C18_step_decreases_whatever_the_memory_does :
  forall (V : Type) (rd : list event -> V -> loc -> ord -> option nat -> option (Z * nat * V)) (fc : V -> ord -> V)
         c L (r : grst V) ch r' it,
  budget_ok (g_pc r) -> todo_ok c (g_pc r) ->
  gr_step rd fc c L r ch = Some (r', it, None) ->
  0 <= mu c (g_pc r') < mu c (g_pc r) /\ budget_ok (g_pc r') /\ todo_ok c (g_pc r').
Proof. exact program_step_decreases. Qed.

Theorem C18_bounded_whatever_the_memory_does :
  forall (V : Type) (rd : list event -> V -> loc -> ord -> option nat -> option (Z * nat * V)) (fc : V -> ord -> V)
         c inputs (r : grst V) n ret r',
  g_pc r = RIdle -> program_call V rd fc c r inputs = Some (n, ret, r') ->
  Z.of_nat n <= 2 + Z.of_N (c_retries c) * iter_cost c.
Proof.
  intros V rd fc c inputs r n ret r' PC H.
  pose proof (program_call_bounded V rd fc c inputs r n ret r') as B. rewrite PC in B.
  apply (B I I H).
Qed.
