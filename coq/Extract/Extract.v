(* Extraction of the executable model. ExtrOcamlBasic only: Z, positive, N, nat and Flocq's
   binary_float stay the Coq inductive types. *)
From Coq Require Import ZArith List.
From Coq Require Extraction ExtrOcamlBasic.
From CB Require Import Mach F64 ChronyFloat Gen Machine Client Layout Open Bound Updater Cli Poller.
Extraction Language OCaml.
Separate Extraction Z.add Z.mul Z.opp Z.sub Z.div_eucl Z.of_nat Z.to_nat Z.of_N Z.to_N Z.compare
  Gen.pre Gen.post Gen.idx
  Client.compute_bound_at Client.growth Client.status_code Client.status_of_code
  Bound.bound_of_words Bound.bound_of_words_signed Bound.classify Bound.stale_threshold
  Updater.urun Updater.lives Updater.u_init Updater.msg_class
  Cli.cli_ppb Cli.cli_ppb_wrapping Cli.refid_of Poller.poll_run Poller.poller_init
  Layout.encode_header Layout.encode_ceb Layout.decode_header Layout.decode_ceb Open.reader_open Open.after_first_publication Open.pad_to
  Machine.m_run_std Machine.m_run_const Machine.m_init Machine.mem_of Machine.safe_cfg Machine.fixed_cfg Machine.unfenced_cfg N.of_nat N.to_nat.
