(* ShmUpdater and the clock status FSM (clock-bound-d/src/shm_writer.rs, clock_state_fsm.rs):
   one step per message received by process_messages; every step publishes one record.
   [None] = an i64 overflow that panics in a debug build (bound + phc, as_of.tv_sec + 1000). *)
From Coq Require Import ZArith Bool List.
From CB Require Import Mach F64 ChronyFloat Client Bound.
Import ListNotations.
Open Scope Z_scope.

Inductive msg :=
| MReport (d e o leap interval : Z) (age : option (Z * Z)) (phc : Z) (as_of : timespec)
| MMissing (grace : bool).      (* ChronyNotResponding[GracePeriod] / PhcErrorBoundRetrievalFailed[GracePeriod] *)

Record ustate := mkU { u_drift : Z; u_fsm : status; u_bound : Z; u_as_of : timespec; u_measured : bool }.

Definition u_init (drift : Z) : ustate := mkU drift Unknown 0 (mkts 0 0) false.

(* the three impl FSMTransition blocks, row by row *)
Definition fsm (s c : status) : status :=
  match s with
  | Unknown => match c with Unknown => Unknown | Synchronized => Synchronized | FreeRunning => FreeRunning end
  | Synchronized => match c with Unknown => Unknown | Synchronized => Synchronized | FreeRunning => FreeRunning end
  | FreeRunning => match c with Unknown => Unknown | Synchronized => Synchronized | FreeRunning => FreeRunning end
  end.

(* write_clock_error_bound *)
Definition publish (u : ustate) : option ceb :=
  match chk_i64 (ts_sec (u_as_of u) + 1000) with
  | Some va => Some (mkceb (u_as_of u) (mkts va 0) (u_bound u) (u_drift u) 0
                           (if u_measured u then u_fsm u else Unknown))
  | None => None
  end.

(* the status a message stands for *)
Definition msg_class (m : msg) : status :=
  match m with
  | MReport _ _ _ leap interval age _ _ => classify leap interval age
  | MMissing true => FreeRunning
  | MMissing false => Unknown
  end.

Definition ustep (u : ustate) (m : msg) : option (ustate * ceb) :=
  let u' : option ustate :=
    match m with
    | MReport d e o leap interval age phc as_of =>
        match chk_i64 (bound_of_words d e o + phc) with
        | None => None
        | Some b =>
            let cls := classify leap interval age in
            let f := fsm (u_fsm u) cls in
            Some (match cls with
                  | Synchronized => mkU (u_drift u) f b as_of true
                  | _ => mkU (u_drift u) f (u_bound u) (u_as_of u) (u_measured u)
                  end)
        end
    | MMissing grace => Some (mkU (u_drift u) (fsm (u_fsm u) (if grace then FreeRunning else Unknown))
                                  (u_bound u) (u_as_of u) (u_measured u))
    end in
  match u' with
  | None => None
  | Some u' => match publish u' with Some c => Some (u', c) | None => None end
  end.

(* the whole history: state after it and the records published, oldest first *)
Fixpoint urun (u : ustate) (ms : list msg) : option (ustate * list ceb) :=
  match ms with
  | [] => Some (u, [])
  | m :: ms' =>
      match ustep u m with
      | None => None
      | Some (u', c) =>
          match urun u' ms' with
          | None => None
          | Some (u'', cs) => Some (u'', c :: cs)
          end
      end
  end.

(* Successive instances of the daemon over one segment file (the first one cold, the later ones
   over whatever their predecessor left there): every instance starts from [u_init] with the rate
   it was given; the content of the segment is not an input of ShmUpdater::new. *)
Fixpoint lives (ls : list (Z * list msg)) : option (list ceb) :=
  match ls with
  | [] => Some []
  | (d, ms) :: rest =>
      match urun (u_init d) ms, lives rest with
      | Some (_, cs), Some cs' => Some (cs ++ cs')
      | _, _ => None
      end
  end.
