(* The ppm -> ppb conversion of main() (clock-bound-d/src/main.rs):
     Some(rate) => rate.checked_mul(1000).ok_or_else(..)?,   None => DEFAULT_MAX_DRIFT_RATE_PPB (1000)
   `rate` is what clap parsed as a u32: text that is not a u32 never reaches this code (usage error). *)
From Coq Require Import ZArith Bool.
From CB Require Import Mach.
Open Scope Z_scope.

Inductive cli_result := CliOk (ppb : Z) | CliRejected.

Definition cli_ppb (arg : option Z) : cli_result :=
  match arg with
  | None => CliOk 1000
  | Some r => if in_u32 r then (if in_u32 (r * 1000) then CliOk (r * 1000) else CliRejected) else CliRejected
  end.

(* the pinned tree before the fix: wrapping multiplication of the release build (finding F4) *)
Definition cli_ppb_wrapping (arg : option Z) : cli_result :=
  match arg with
  | None => CliOk 1000
  | Some r => if in_u32 r then CliOk (wrap_u32 (r * 1000)) else CliRejected
  end.
