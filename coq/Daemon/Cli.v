(* The ppm -> ppb conversion of main() (clock-bound-d/src/main.rs):
     Some(rate) => rate.checked_mul(1000).ok_or_else(..)?,   None => DEFAULT_MAX_DRIFT_RATE_PPB (1000)
   `rate` is what clap parsed as a u32: text that is not a u32 never reaches this code (usage error). *)
From Coq Require Import ZArith Bool.
From CB Require Import Mach.
Open Scope Z_scope.

Inductive cli_result := CliOk (ppb : Z) | CliRejected.

Definition cli_ppb (arg : option Z) : cli_result :=
  match arg with
  | None => CliOk 1000
  | Some r => if in_u32 r then (if in_u32 (r * 1000) then CliOk (r * 1000) else CliRejected) else CliRejected
  end.

(* the pinned tree before the fix: wrapping multiplication of the release build (finding F4) *)
Definition cli_ppb_wrapping (arg : option Z) : cli_result :=
  match arg with
  | None => CliOk 1000
  | Some r => if in_u32 r then CliOk (wrap_u32 (r * 1000)) else CliRejected
  end.

(* refid_to_u32 (clock-bound-d/src/lib.rs), the value parser of --phc-ref-id: a string of at most
   four ASCII bytes is read as a big-endian number, the last byte in the low position (a shorter
   string is therefore right-aligned); anything else is refused.  Bytes are numbers 0..255. *)
From Coq Require Import List.
Import ListNotations.

Definition is_ascii (b : Z) : bool := (0 <=? b) && (b <? 128).

Fixpoint be_value (bs : list Z) (acc : Z) : Z :=
  match bs with
  | [] => acc
  | b :: t => be_value t (acc * 256 + b)
  end.

Definition refid_of (bs : list Z) : option Z :=
  if (Nat.leb (length bs) 4) && forallb is_ascii bs then Some (be_value bs 0) else None.
