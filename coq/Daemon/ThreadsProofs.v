From Coq Require Import List Bool Arith Lia.
From CB Require Import Threads.
Import ListNotations.

Definition is_died (m : msg) : bool := match m with Died _ _ => true | _ => false end.
Definition is_abort (m : msg) : bool := match m with Abort => true | _ => false end.

(* position of the first Abort in a mailbox (length when there is none) *)
Fixpoint abort_idx (q : list msg) : nat :=
  match q with [] => 0 | Abort :: _ => 0 | _ :: t => S (abort_idx t) end.
Definition has_abort (q : list msg) : Prop := In Abort q.

Lemma abort_idx_app q x : has_abort q -> abort_idx (q ++ x) = abort_idx q.
Proof. induction q as [|m q IH]; intros H; [destruct H|]. destruct m; cbn; try reflexivity; f_equal; apply IH; destruct H as [H|H]; [discriminate | exact H | discriminate | exact H]. Qed.

Lemma has_abort_app q x : has_abort q -> has_abort (q ++ x).
Proof. unfold has_abort. intros H. apply in_or_app. left. exact H. Qed.

(* the invariant of every reachable state *)
Record Inv (s : tstate) : Prop := {
  I_qM_only_died : forall m, In m (qM s) -> is_died m = true;
  (* while main is still in its receive loop, every dead worker has its notice in main's mailbox *)
  I_notice : pM s = MRecv -> (p_alive s = false \/ w_alive s = false) -> qM s <> [];
  (* once main has broadcast, every live worker has an Abort waiting in its mailbox *)
  I_abort_p : pM s <> MRecv -> p_alive s = true -> has_abort (qP s);
  I_abort_w : pM s <> MRecv -> w_alive s = true -> has_abort (qW s);
  I_done : pM s = MDone -> p_alive s = false /\ w_alive s = false;
  (* main never reads Abort/Data: only the poller sends Data, only to the writer *)
  I_qP_no_data : pM s = MRecv -> qP s = []
}.

Lemma Inv_init : Inv t_init.
Proof. constructor; cbn; intros; try contradiction; try discriminate; auto. destruct H0; discriminate. Qed.

Lemma in_app_single {A} (x y : A) l : In x (l ++ [y]) -> In x l \/ x = y.
Proof. intros H. apply in_app_or in H. destruct H as [H|[H|[]]]; auto. Qed.

Ltac fin I :=
  cbn in *; intros; try discriminate;
  solve
  [ eapply (I_qM_only_died _ I); cbn; eauto
  | match goal with H : In _ (_ ++ [_]) |- _ =>
      apply in_app_single in H as [H| ->]; [eapply (I_qM_only_died _ I); cbn; eauto | reflexivity] end
  | let E := fresh in intros E; apply app_eq_nil in E as [_ E]; discriminate
  | apply (I_notice _ I); cbn; auto
  | apply has_abort_app; apply (I_abort_w _ I); cbn; auto
  | apply has_abort_app; apply (I_abort_p _ I); cbn; auto
  | apply (I_abort_p _ I); cbn; auto
  | apply (I_abort_w _ I); cbn; auto
  | apply (I_qP_no_data _ I); cbn; auto
  | match goal with H : _ = MDone |- _ => apply (I_done _ I) in H; cbn in H; destruct H; discriminate end
  | match goal with H : _ = MDone |- _ => apply (I_done _ I) in H; cbn in H; exact H end
  | exfalso; pose proof (I_qP_no_data _ I) as A; cbn in A;
    match goal with H : _ = MRecv |- _ => specialize (A H); discriminate end
  | pose proof (I_abort_p _ I) as A; cbn in A;
    match goal with H : _ <> MRecv |- _ => destruct (A H eq_refl) as [E|E]; [discriminate | exact E] end
  | pose proof (I_abort_w _ I) as A; cbn in A;
    match goal with H : _ <> MRecv |- _ => destruct (A H eq_refl) as [E|E]; [discriminate | exact E] end
  | exfalso; pose proof (I_abort_p _ I) as A; cbn in A;
    match goal with H : _ <> MRecv |- _ => apply (A H eq_refl) end
  | exfalso; pose proof (I_abort_w _ I) as A; cbn in A;
    match goal with H : _ <> MRecv |- _ => apply (A H eq_refl) end
  | auto ].

Lemma Inv_step s e s' : Inv s -> t_step s e = Some s' -> Inv s'.
Proof.
  intros I H. destruct s as [qm qp qw pp pw pm]. unfold t_step in H.
  destruct e as [| | |panic|panic].
  - (* poller step *)
    cbn [pP] in H. destruct pp.
    + unfold w_alive in H; cbn [pW] in H. destruct pw; inversion H; subst; clear H; unfold kill_p; constructor; fin I.
    + cbn [qP] in H. destruct qp as [|m q]; [|destruct m]; inversion H; subst; clear H; unfold kill_p; constructor; fin I.
    + discriminate.
  - (* writer step *)
    cbn [pW qW] in H. destruct pw; [|discriminate]. destruct qw as [|m q]; [discriminate|].
    destruct m; inversion H; subst; clear H; unfold kill_w; constructor; fin I.
  - (* main step *)
    cbn [pM qM] in H. destruct pm.
    + destruct qm as [|m q]; [discriminate|].
      assert (Dm : is_died m = true) by (apply (I_qM_only_died _ I); cbn; auto).
      destruct m; try discriminate Dm. inversion H; subst; clear H.
      constructor; cbn; intros; try discriminate.
      * apply (I_qM_only_died _ I). cbn. auto.
      * unfold p_alive in *; cbn in *. rewrite H0. apply in_or_app. right. cbn. auto.
      * unfold w_alive in *; cbn in *. rewrite H0. apply in_or_app. right. cbn. auto.
    + unfold p_alive, w_alive in H; cbn in H. destruct pp, pw; try discriminate; inversion H; subst; clear H.
      constructor; fin I.
    + discriminate.
  - (* fault in the poller *)
    unfold p_alive in H; cbn in H. destruct pp; try discriminate; inversion H; subst; clear H; unfold kill_p; constructor; fin I.
  - (* fault in the writer *)
    unfold w_alive in H; cbn in H. destruct pw; try discriminate; inversion H; subst; clear H; unfold kill_w; constructor; fin I.
Qed.

Theorem reachable_inv s : reachable s -> Inv s.
Proof.
  intros [es ->]. assert (G : forall es s0, Inv s0 -> Inv (t_run s0 es)).
  { induction es0 as [|e es0 IH]; intros s0 I0; [exact I0|]. cbn [t_run].
    destruct (t_step s0 e) as [s1|] eqn:E; [apply IH; eapply Inv_step; eauto | apply IH; exact I0]. }
  apply G, Inv_init.
Qed.

(* --- main reacts: a dead worker while main is in its receive loop => main's step is enabled and
       it is the broadcast --- *)
Theorem main_reacts s : Inv s -> pM s = MRecv -> (p_alive s = false \/ w_alive s = false) ->
  exists s', t_step s StepM = Some s' /\ pM s' = MJoin.
Proof.
  intros I HM HD. pose proof (I_notice _ I HM HD) as NE.
  destruct s as [qm qp qw pp pw pm]. cbn in *. subst pm. destruct qm as [|m q]; [congruence|].
  assert (Dm : is_died m = true) by (apply (I_qM_only_died _ I); cbn; auto).
  destruct m; try discriminate Dm. cbn. eexists. split; reflexivity.
Qed.

(* --- after the broadcast: a strictly decreasing measure --- *)
Definition mu (s : tstate) : nat :=
  (match pW s with WRecv => S (abort_idx (qW s)) | WGone => 0 end) +
  (match pP s with PLoop => 2 * S (abort_idx (qP s)) + 1 | PWait => 2 * S (abort_idx (qP s)) | PGone => 0 end).

Theorem join_progress s : Inv s -> pM s = MJoin ->
  (* every live worker can move, and every worker move decreases the measure *)
  (p_alive s = true -> exists s', t_step s StepP = Some s' /\ mu s' < mu s /\ pM s' = MJoin) /\
  (w_alive s = true -> exists s', t_step s StepW = Some s' /\ mu s' < mu s /\ pM s' = MJoin) /\
  (p_alive s = false -> w_alive s = false -> exists s', t_step s StepM = Some s' /\ pM s' = MDone).
Proof.
  intros I HM. assert (NM : pM s <> MRecv) by (rewrite HM; discriminate).
  destruct s as [qm qp qw pp pw pm]. cbn in HM. subst pm. split; [|split].
  - intros HP. pose proof (I_abort_p _ I NM HP) as AP. cbn in AP. unfold p_alive in HP; cbn in HP.
    destruct pp; try discriminate.
    + cbn. unfold w_alive; cbn. destruct pw.
      * eexists. split; [reflexivity|]. unfold mu; cbn.
        pose proof (I_abort_w _ I NM eq_refl) as AW. cbn in AW. rewrite abort_idx_app by exact AW. split; [lia | reflexivity].
      * eexists. split; [reflexivity|]. unfold mu, kill_p; cbn. split; [lia | reflexivity].
    + cbn. destruct qp as [|m q]; [destruct AP|]. destruct m.
      * eexists. split; [reflexivity|]. unfold mu; cbn. split; [lia | reflexivity].
      * eexists. split; [reflexivity|]. unfold mu, kill_p; cbn. split; [lia | reflexivity].
      * eexists. split; [reflexivity|]. unfold mu; cbn. split; [lia | reflexivity].
  - intros HW. pose proof (I_abort_w _ I NM HW) as AW. cbn in AW. unfold w_alive in HW; cbn in HW.
    destruct pw; try discriminate. cbn. destruct qw as [|m q]; [destruct AW|]. destruct m.
    + eexists. split; [reflexivity|]. unfold mu; cbn. split; [lia | reflexivity].
    + eexists. split; [reflexivity|]. unfold mu, kill_w; cbn. split; [lia | reflexivity].
    + eexists. split; [reflexivity|]. unfold mu; cbn. split; [lia | reflexivity].
  - intros HP HW. unfold p_alive, w_alive in *; cbn in *. destruct pp, pw; try discriminate. eexists. split; reflexivity.
Qed.

(* faults after the broadcast only help: they decrease the measure too *)
Theorem fault_decreases s e s' : pM s = MJoin -> (exists b, e = FaultP b \/ e = FaultW b) -> t_step s e = Some s' -> mu s' < mu s /\ pM s' = MJoin.
Proof.
  intros HM [b [-> | ->]] H; destruct s as [qm qp qw pp pw pm]; cbn in *; subst pm.
  - unfold p_alive in H; cbn in H. destruct pp; try discriminate; inversion H; subst; unfold mu, kill_p; cbn; split; try reflexivity; lia.
  - unfold w_alive in H; cbn in H. destruct pw; try discriminate; inversion H; subst; unfold mu, kill_w; cbn; split; try reflexivity; lia.
Qed.

(* run() has returned => nothing lingers *)
Theorem done_means_all_gone s : Inv s -> pM s = MDone -> p_alive s = false /\ w_alive s = false.
Proof. intros I H. exact (I_done _ I H). Qed.
