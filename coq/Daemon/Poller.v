(* One iteration of run_clock_error_bound_poller with the real ClockErrorBoundPoller
   (clock-bound-d/src/chrony_poller.rs), over an environment that supplies, per iteration:
   the monotonic reading taken at the top of the loop (as_of), what chronyd does (a tracking reply
   or nothing usable), how long that took (d), how much later the grace period is evaluated (e),
   and whether the PHC error bound file is readable.  All instants are nanosecond counts. *)
From Coq Require Import ZArith Bool List.
Import ListNotations.
Open Scope Z_scope.

Definition GRACE_NS := 5000000000.

Inductive pmode := PReply | PSilent.
Record pstep := mkps { p_t : Z; p_mode : pmode; p_d : Z; p_e : Z; p_phc : option Z; p_refid : Z; p_tag : Z }.
(* p_tag identifies the tracking report (it travels unchanged inside the message) *)

Inductive pmsg :=
| PMData (as_of phc refid tag : Z)
| PMNoReplyGrace | PMNoReply | PMPhcFailGrace | PMPhcFail.

(* ClockErrorBoundPoller::default(): last_tracking_data = now - 5 s *)
Definition poller_init (start : Z) : Z := start - GRACE_NS.

Definition poll_step (cfg_refid : option Z) (last_good : Z) (s : pstep) : Z * pmsg :=
  match p_mode s with
  | PReply =>
      let lg := p_t s + p_d s in          (* Instant::now() when the reply is received *)
      let plain := PMData (p_t s) 0 (p_refid s) (p_tag s) in
      match cfg_refid with
      | Some r =>
          if r =? p_refid s then
            match p_phc s with
            | Some v => (lg, PMData (p_t s) v (p_refid s) (p_tag s))
            | None => (lg, if (lg + p_e s) - lg <? GRACE_NS then PMPhcFailGrace else PMPhcFail)
            end
          else (lg, plain)
      | None => (lg, plain)
      end
  | PSilent =>
      (last_good, if (p_t s + p_d s + p_e s) - last_good <? GRACE_NS then PMNoReplyGrace else PMNoReply)
  end.

Fixpoint poll_run (cfg_refid : option Z) (last_good : Z) (ss : list pstep) : list pmsg :=
  match ss with
  | [] => []
  | s :: ss' => let '(lg, m) := poll_step cfg_refid last_good s in m :: poll_run cfg_refid lg ss'
  end.

(* order of the two observable actions at the top of an iteration *)
Inductive paction := AReadMono | AQuery.
Definition poller_actions : list paction := [AReadMono; AQuery].
Inductive caction := AReadReal | AReadMonoC.
Definition now_actions : list caction := [AReadReal; AReadMonoC].
