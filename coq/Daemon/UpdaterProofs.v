(* The published record as a function of the message history (most recent message first). *)
From Coq Require Import ZArith Bool List Lia.
From CB Require Import Mach F64 ChronyFloat Client Bound Updater.
Import ListNotations.
Open Scope Z_scope.

Lemma fsm_next_is_input s c : fsm s c = c.
Proof. destruct s, c; reflexivity. Qed.

(* the measurement carried by a message, if it is a report classified Synchronized *)
Definition sync_of (m : msg) : option (Z * timespec) :=
  match m with
  | MReport d e o leap interval age phc as_of =>
      match classify leap interval age with
      | Synchronized => Some (bound_of_words d e o + phc, as_of)
      | _ => None
      end
  | MMissing _ => None
  end.

(* history h: most recent message first *)
Fixpoint last_sync (h : list msg) : option (Z * timespec) :=
  match h with
  | [] => None
  | m :: older => match sync_of m with Some x => Some x | None => last_sync older end
  end.

Definition latest_class (h : list msg) : status :=
  match h with [] => Unknown | m :: _ => msg_class m end.

Definition state_after (drift : Z) (h : list msg) : ustate :=
  match last_sync h with
  | Some (b, a) => mkU drift (latest_class h) b a true
  | None => mkU drift (latest_class h) 0 (mkts 0 0) false
  end.

(* the record the specification expects after history h *)
Definition spec_rec (drift : Z) (h : list msg) : ceb :=
  match last_sync h with
  | Some (b, a) => mkceb a (mkts (ts_sec a + 1000) 0) b drift 0 (latest_class h)
  | None => mkceb (mkts 0 0) (mkts 1000 0) 0 drift 0 Unknown
  end.

Fixpoint spec_run (drift : Z) (h : list msg) (ms : list msg) : list ceb :=
  match ms with
  | [] => []
  | m :: ms' => spec_rec drift (m :: h) :: spec_run drift (m :: h) ms'
  end.

Lemma state_after_nil drift : state_after drift [] = u_init drift.
Proof. reflexivity. Qed.

Lemma ustep_spec drift h m u' c :
  ustep (state_after drift h) m = Some (u', c) ->
  u' = state_after drift (m :: h) /\ c = spec_rec drift (m :: h).
Proof.
  unfold ustep, state_after, spec_rec. cbn [last_sync latest_class].
  destruct m as [d e o leap interval age phc as_of | grace].
  - cbn [sync_of msg_class].
    destruct (last_sync h) as [[b a]|]; cbn [u_drift u_fsm u_bound u_as_of u_measured];
      (destruct (chk_i64 (bound_of_words d e o + phc)) as [b'|] eqn:Eb; [|discriminate]);
      apply chk_i64_some in Eb; destruct Eb as [-> _];
      rewrite fsm_next_is_input;
      destruct (classify leap interval age); unfold publish; cbn [u_drift u_fsm u_bound u_as_of u_measured ts_sec];
      match goal with |- context [chk_i64 ?x] => destruct (chk_i64 x) as [va|] eqn:Ev; [|discriminate] end;
      apply chk_i64_some in Ev; destruct Ev as [-> _];
      intros H; inversion H; subst; split; reflexivity.
  - cbn [sync_of msg_class]. rewrite fsm_next_is_input.
    destruct (last_sync h) as [[b a]|]; cbn [u_drift u_fsm u_bound u_as_of u_measured];
      unfold publish; cbn [u_drift u_fsm u_bound u_as_of u_measured ts_sec];
      match goal with |- context [chk_i64 ?x] => destruct (chk_i64 x) as [va|] eqn:Ev; [|discriminate] end;
      apply chk_i64_some in Ev; destruct Ev as [-> _];
      intros H; inversion H; subst; destruct grace; split; reflexivity.
Qed.

Theorem urun_spec drift : forall ms h u cs,
  urun (state_after drift h) ms = Some (u, cs) ->
  u = state_after drift (rev ms ++ h) /\ cs = spec_run drift h ms /\ length cs = length ms.
Proof.
  induction ms as [|m ms IH]; intros h u cs H; cbn [urun] in H.
  - inversion H; subst. repeat split; reflexivity.
  - destruct (ustep (state_after drift h) m) as [[u' c]|] eqn:E; [|discriminate].
    apply ustep_spec in E. destruct E as [-> ->].
    destruct (urun (state_after drift (m :: h)) ms) as [[u'' cs']|] eqn:R; [|discriminate].
    inversion H; subst. destruct (IH _ _ _ R) as (-> & -> & L).
    cbn [rev spec_run length]. rewrite <- app_assoc. cbn [app]. repeat split; try reflexivity. lia.
Qed.

(* -------- the clauses of C08 / C09 about the expected record -------- *)
Definition has_sync (h : list msg) : Prop := exists x, last_sync h = Some x.

Lemma spec_bound_asof drift h :
  (forall b a, last_sync h = Some (b, a) -> c_bound (spec_rec drift h) = b /\ c_as_of (spec_rec drift h) = a) /\
  (last_sync h = None -> c_bound (spec_rec drift h) = 0 /\ c_as_of (spec_rec drift h) = mkts 0 0).
Proof.
  unfold spec_rec. split.
  - intros b a ->. split; reflexivity.
  - intros ->. split; reflexivity.
Qed.

(* an unsynchronised / stale / missing outcome leaves bound and as_of unchanged *)
Lemma frozen_by_non_sync drift h m : sync_of m = None ->
  c_bound (spec_rec drift (m :: h)) = c_bound (spec_rec drift h) /\
  c_as_of (spec_rec drift (m :: h)) = c_as_of (spec_rec drift h) /\
  c_void_after (spec_rec drift (m :: h)) = c_void_after (spec_rec drift h).
Proof.
  intros E. unfold spec_rec. cbn [last_sync]. rewrite E.
  destruct (last_sync h) as [[b a]|]; repeat split; reflexivity.
Qed.

Lemma spec_void_after drift h :
  c_void_after (spec_rec drift h) = mkts (ts_sec (c_as_of (spec_rec drift h)) + 1000) 0.
Proof. unfold spec_rec. destruct (last_sync h) as [[b a]|]; reflexivity. Qed.

Lemma spec_drift drift h : c_drift (spec_rec drift h) = drift.
Proof. unfold spec_rec. destruct (last_sync h) as [[b a]|]; reflexivity. Qed.

Lemma spec_status_after_first_sync drift m h :
  has_sync (m :: h) -> c_status (spec_rec drift (m :: h)) = msg_class m.
Proof. intros [[b a] E]. unfold spec_rec. rewrite E. reflexivity. Qed.

Lemma spec_status_before_first_sync drift h :
  last_sync h = None -> c_status (spec_rec drift h) = Unknown.
Proof. intros E. unfold spec_rec. rewrite E. reflexivity. Qed.

Lemma msg_class_cases m :
  match m with
  | MReport _ _ _ leap interval age _ _ => msg_class m = classify leap interval age
  | MMissing true => msg_class m = FreeRunning
  | MMissing false => msg_class m = Unknown
  end.
Proof. destruct m as [? ? ? ? ? ? ? ?|[|]]; reflexivity. Qed.

(* every record published before a first synchronised report is Unknown, at every position *)
Lemma spec_run_unknown drift : forall ms h,
  last_sync (rev ms ++ h) = None -> forall c, In c (spec_run drift h ms) -> c_status c = Unknown.
Proof.
  induction ms as [|m ms IH]; intros h E c Hin; cbn [spec_run] in Hin; [contradiction|].
  cbn [rev] in E. rewrite <- app_assoc in E. cbn [app] in E.
  destruct Hin as [<- | Hin].
  - apply spec_status_before_first_sync.
    (* a suffix of a history without a synchronised report has none either *)
    clear IH. revert E. generalize (rev ms). intros l. induction l as [|x l IHl]; cbn [app last_sync]; [auto|].
    destruct (sync_of x); [discriminate | exact IHl].
  - apply (IH (m :: h) E c Hin).
Qed.

(* -------- successive instances of the daemon over one segment -------- *)
Lemma lives_app pre post :
  lives (pre ++ post) = match lives pre, lives post with Some a, Some b => Some (a ++ b) | _, _ => None end.
Proof.
  induction pre as [|[d ms] pre IH]; cbn [app lives].
  - destruct (lives post); reflexivity.
  - rewrite IH. destruct (urun (u_init d) ms) as [[u cs]|]; [|reflexivity].
    destruct (lives pre) as [a|]; [|reflexivity]. destruct (lives post) as [b|]; [|reflexivity].
    rewrite app_assoc. reflexivity.
Qed.

(* the records of one instance are those of its own history, whatever ran before or runs after *)
Theorem lives_life pre d ms post cs : lives (pre ++ (d, ms) :: post) = Some cs ->
  exists a c, lives pre = Some a /\ lives post = Some c /\ cs = a ++ spec_run d [] ms ++ c /\
              length (spec_run d [] ms) = length ms.
Proof.
  rewrite lives_app. cbn [lives]. destruct (lives pre) as [a|]; [|discriminate].
  destruct (urun (u_init d) ms) as [[u b]|] eqn:R; [|discriminate].
  destruct (lives post) as [c|]; [|discriminate]. intros H; inversion H; subst; clear H.
  rewrite <- state_after_nil in R. destruct (urun_spec d ms [] u b R) as (_ & -> & L).
  exists a, c. repeat split; auto.
Qed.

Lemma spec_run_drift drift : forall ms h c, In c (spec_run drift h ms) -> c_drift c = drift.
Proof.
  induction ms as [|m ms IH]; intros h c Hin; cbn [spec_run] in Hin; [contradiction|].
  destruct Hin as [<- | Hin]; [apply spec_drift | apply (IH (m :: h) c Hin)].
Qed.
