(* Proofs about extract_bound_from_tracking (model: Daemon/Bound.v): the bound against the exact
   README formula S = delay/2 + dispersion + |offset| (seconds, exact reals), and the report
   classification. *)
From Coq Require Import ZArith Reals Lia Lra Psatz Bool ZifyBool.
From Flocq Require Import Core Relative BinarySingleNaN.
From CB Require Import Mach F64 F64Proofs ChronyFloat ChronyFloatProofs Client Bound.
Open Scope R_scope.

Definition pos90 (x : R) : Prop := x = 0 \/ bpow radix2 (-90) <= x.

Lemma b90_89 : bpow radix2 (-90) <= bpow radix2 (-89). Proof. apply bpow_le; lia. Qed.
Lemma b1022_90 : bpow radix2 (-1022) <= bpow radix2 (-90). Proof. apply bpow_le; lia. Qed.
Lemma b90_pos : 0 < bpow radix2 (-90). Proof. apply bpow_gt_0. Qed.

Lemma rnd_b90 : rnd (bpow radix2 (-90)) = bpow radix2 (-90).
Proof.
  apply round_generic; auto with typeclass_instances.
  apply generic_format_bpow. unfold FLT_exp, prec, emax. lia.
Qed.

(* one rounding step on a non-negative value that is 0 or >= 2^-90 *)
Lemma rnd_step x : 0 <= x -> pos90 x ->
  x * (1 - u) <= rnd x <= x * (1 + u) /\ 0 <= rnd x /\ pos90 (rnd x).
Proof.
  intros H0 P. pose proof b1022_90. pose proof b90_pos.
  assert (P' : x = 0 \/ bpow radix2 (-1022) <= x) by (destruct P; [left | right]; lra).
  split; [split; [apply rnd_lower | apply rnd_upper]; assumption|].
  split; [apply rnd_nonneg, H0|].
  destruct P as [->|P]; [left; apply rnd_0|]. right. rewrite <- rnd_b90. apply rnd_mono, P.
Qed.

Lemma pos90_add x y : 0 <= x -> 0 <= y -> pos90 x -> pos90 y -> pos90 (x + y).
Proof. unfold pos90. intros Hx Hy [->|Px] [->|Py]; [left; lra | right; lra | right; lra | right; lra]. Qed.

Lemma up1u x b : 0 <= x <= b -> x * (1 + u) <= b * (1 + / 1000000).
Proof. intros H. pose proof u_pos. pose proof u_small. apply Rmult_le_compat; lra. Qed.

Definition S (d e o : Z) : R := cf_value d / 2 + cf_value e + Rabs (cf_value o).

Definition word (w : Z) : Prop := (0 <= w < 4294967296)%Z.

Theorem bound_spec d e o : word d -> word e -> word o ->
  0 <= cf_value d < 1024 -> 0 <= cf_value e < 1024 -> Rabs (cf_value o) < 1024 ->
  (0 <= bound_of_words d e o)%Z /\
  S d e o * 1000000000 * (1 - 4 * u) <= IZR (bound_of_words d e o) < S d e o * 1000000000 * (1 + 5 * u) + 1.
Proof.
  intros Wd We Wo Hd He Ho. pose proof u_pos as Up. pose proof u_small as Us. pose proof b90_pos as B90.
  destruct (cf_exact d Wd) as [Fd Ed]. destruct (cf_exact e We) as [Fe Ee]. destruct (cf_exact o Wo) as [Fo Eo].
  destruct f2_spec as [F2 E2]. destruct f1e9_spec as [F9 E9].
  set (vd := cf_value d) in *. set (ve := cf_value e) in *. set (vo := Rabs (cf_value o)) in *.
  assert (Hvo : 0 <= vo) by apply Rabs_pos.
  assert (Pd : pos90 (vd / 2)).
  { destruct (cf_value_pos d Wd (proj1 Hd)) as [Z|P]; fold vd in Z || fold vd in P; [left; rewrite Z; lra|].
    right. replace (-90)%Z with (-89 + -1)%Z by lia. rewrite bpow_plus.
    change (bpow radix2 (-1)) with (/ 2). unfold Rdiv. apply Rmult_le_compat_r; lra. }
  assert (Pe : pos90 ve).
  { pose proof b90_89. destruct (cf_value_pos e We (proj1 He)) as [Z|P]; [left; exact Z | right; fold ve in P; lra]. }
  assert (Po : pos90 vo).
  { pose proof b90_89. destruct (cf_value_abs_pos o Wo) as [Z|P]; [left; exact Z | right; fold vo in P; lra]. }
  (* step 1: root_delay / 2 *)
  destruct (div_spec (cf_to_f64 d) f2 Fd) as [F1 E1].
  { rewrite E2; lra. }
  { rewrite Ed, E2. fold vd. rewrite Rabs_pos_eq by lra. unfold BIG.
    apply Rle_trans with (bpow radix2 10); [simpl; lra | apply bpow_le; lia]. }
  rewrite Ed, E2 in E1. fold vd in E1.
  destruct (rnd_step (vd / 2) ltac:(lra) Pd) as ((L1 & U1) & N1 & P1). set (t1 := rnd (vd / 2)) in *.
  (* step 2: + root_dispersion *)
  destruct (add_spec (div (cf_to_f64 d) f2) (cf_to_f64 e) F1 Fe) as [Fa2 Ea2].
  { rewrite E1, Ee. fold ve. rewrite Rabs_pos_eq by lra. unfold BIG.
    apply Rle_trans with (bpow radix2 12); [simpl; nra | apply bpow_le; lia]. }
  rewrite E1, Ee in Ea2. fold ve in Ea2.
  destruct (rnd_step (t1 + ve) ltac:(lra) (pos90_add _ _ N1 (proj1 He) P1 Pe)) as ((L2 & U2) & N2 & P2).
  set (t2 := rnd (t1 + ve)) in *.
  (* step 3: + |current_correction| *)
  destruct (fabs_spec (cf_to_f64 o) Fo) as [Fab Eab]. rewrite Eo in Eab. fold vo in Eab.
  destruct (add_spec _ (fabs (cf_to_f64 o)) Fa2 Fab) as [Fa3 Ea3].
  { rewrite Ea2, Eab. rewrite Rabs_pos_eq by lra. unfold BIG.
    apply Rle_trans with (bpow radix2 13); [simpl; nra | apply bpow_le; lia]. }
  rewrite Ea2, Eab in Ea3.
  destruct (rnd_step (t2 + vo) ltac:(lra) (pos90_add _ _ N2 Hvo P2 Po)) as ((L3 & U3) & N3 & P3).
  set (t3 := rnd (t2 + vo)) in *.
  (* step 4: * 1e9 *)
  assert (T1 : t1 <= 600) by (pose proof (up1u (vd / 2) 512 ltac:(lra)); lra).
  assert (T2 : t2 <= 1700) by (pose proof (up1u (t1 + ve) 1624 ltac:(lra)); lra).
  assert (T3 : t3 <= 4000) by (pose proof (up1u (t2 + vo) 2724 ltac:(lra)); lra).
  destruct (mul_spec _ f1e9 Fa3 F9) as [Fm Em].
  { rewrite Ea3, E9. fold t3. rewrite Rabs_pos_eq by nra. unfold BIG.
    apply Rle_trans with (bpow radix2 43); [simpl; nra | apply bpow_le; lia]. }
  rewrite Ea3, E9 in Em. fold t3 in Em.
  assert (P4 : pos90 (t3 * 1000000000)).
  { destruct P3 as [Z|P]; [left; rewrite Z; lra | right; nra]. }
  destruct (rnd_step (t3 * 1000000000) ltac:(nra) P4) as ((L4 & U4) & N4 & _).
  set (t4 := rnd (t3 * 1000000000)) in *.
  (* ceil and the cast *)
  destruct (ceil_spec _ Fm) as [Fc Ec]. rewrite Em in Ec. fold t4 in Ec.
  assert (T4 : t4 <= 4100000000000) by nra.
  pose proof (Zceil_ub t4) as CU. pose proof (Zceil_lb t4) as CL.
  assert (C0 : (0 <= Zceil t4)%Z).
  { apply le_IZR. lra. }
  assert (C1 : (Zceil t4 <= 4100000000001)%Z).
  { apply le_IZR. lra. }
  assert (EB : bound_of_words d e o = Zceil t4).
  { unfold bound_of_words. rewrite to_i64_spec; [rewrite Ec; apply Ztrunc_IZR | exact Fc |].
    rewrite Ec, Ztrunc_IZR. unfold i64_min, i64_max. lia. }
  rewrite EB. split; [exact C0|].
  (* accumulate the relative errors *)
  unfold S. fold vd ve vo.
  set (a := vd / 2) in *. assert (A0 : 0 <= a) by (unfold a; lra).
  assert (Hve : 0 <= ve) by lra.
  assert (Q2l : (a + ve) * ((1 - u) * (1 - u)) <= t2).
  { apply Rle_trans with ((t1 + ve) * (1 - u)); [|lra].
    rewrite <- Rmult_assoc. apply Rmult_le_compat_r; [lra|]. nra. }
  assert (Q2u : t2 <= (a + ve) * ((1 + u) * (1 + u))).
  { apply Rle_trans with ((t1 + ve) * (1 + u)); [lra|].
    rewrite <- Rmult_assoc. apply Rmult_le_compat_r; [lra|]. nra. }
  assert (Q3l : (a + ve + vo) * ((1 - u) * (1 - u) * (1 - u)) <= t3).
  { apply Rle_trans with ((t2 + vo) * (1 - u)); [|lra].
    rewrite <- Rmult_assoc. apply Rmult_le_compat_r; [lra|].
    assert (KK : (1 - u) * (1 - u) <= 1) by nra.
    assert (vo * ((1 - u) * (1 - u)) <= vo * 1) by (apply Rmult_le_compat_l; lra).
    rewrite Rmult_plus_distr_r. lra. }
  assert (Q3u : t3 <= (a + ve + vo) * ((1 + u) * (1 + u) * (1 + u))).
  { apply Rle_trans with ((t2 + vo) * (1 + u)); [lra|].
    rewrite <- Rmult_assoc. apply Rmult_le_compat_r; [lra|].
    assert (KK : 1 <= (1 + u) * (1 + u)) by nra.
    assert (vo * 1 <= vo * ((1 + u) * (1 + u))) by (apply Rmult_le_compat_l; lra).
    rewrite Rmult_plus_distr_r. lra. }
  set (s := a + ve + vo) in *. assert (S0 : 0 <= s) by (unfold s; lra).
  assert (Q4l : s * 1000000000 * ((1 - u) * (1 - u) * (1 - u) * (1 - u)) <= t4).
  { apply Rle_trans with (t3 * 1000000000 * (1 - u)); [|lra].
    replace (s * 1000000000 * ((1 - u) * (1 - u) * (1 - u) * (1 - u)))
      with (s * ((1 - u) * (1 - u) * (1 - u)) * 1000000000 * (1 - u)) by ring.
    apply Rmult_le_compat_r; [lra|]. apply Rmult_le_compat_r; lra. }
  assert (Q4u : t4 <= s * 1000000000 * ((1 + u) * (1 + u) * (1 + u) * (1 + u))).
  { apply Rle_trans with (t3 * 1000000000 * (1 + u)); [lra|].
    replace (s * 1000000000 * ((1 + u) * (1 + u) * (1 + u) * (1 + u)))
      with (s * ((1 + u) * (1 + u) * (1 + u)) * 1000000000 * (1 + u)) by ring.
    apply Rmult_le_compat_r; [lra|]. apply Rmult_le_compat_r; lra. }
  assert (K1 : 1 - 4 * u <= (1 - u) * (1 - u) * (1 - u) * (1 - u)) by nra.
  assert (K2 : (1 + u) * (1 + u) * (1 + u) * (1 + u) <= 1 + 5 * u).
  { assert (u * u <= u / 1000000) by nra. nra. }
  assert (S9 : 0 <= s * 1000000000) by nra.
  split.
  - apply Rle_trans with t4; [|lra].
    apply Rle_trans with (s * 1000000000 * ((1 - u) * (1 - u) * (1 - u) * (1 - u))); [|lra].
    apply Rmult_le_compat_l; lra.
  - apply Rlt_le_trans with (t4 + 1); [lra|].
    apply Rplus_le_compat_r.
    apply Rle_trans with (s * 1000000000 * ((1 + u) * (1 + u) * (1 + u) * (1 + u))); [lra|].
    apply Rmult_le_compat_l; lra.
Qed.

(* ------------------------------------------------------------------ classification (C10) *)
Open Scope Z_scope.

Definition age_le (age : Z * Z) (T : Z) : Prop := fst age * 1000000000 + snd age <= T * 1000000000.

Theorem classify_sync_iff leap interval age : 0 <= leap ->
  (classify leap interval age = Synchronized <->
   leap <= 2 /\ exists s n, age = Some (s, n) /\ (s < stale_threshold interval \/ (s = stale_threshold interval /\ n <= 0))).
Proof.
  intros Hl. unfold classify, leap_class. destruct age as [[s n]|].
  - destruct (Z.leb_spec leap 2).
    + destruct (Z.ltb_spec (stale_threshold interval) s); cbn [orb].
      * split; [discriminate|]. intros (_ & s' & n' & E & H'). inversion E; subst. lia.
      * destruct (Z.eqb_spec (stale_threshold interval) s); cbn [andb].
        -- destruct (Z.ltb_spec 0 n).
           ++ split; [discriminate|]. intros (_ & s' & n' & E & H'). inversion E; subst. lia.
           ++ split; [|reflexivity]. intros _. split; [lia|]. exists s, n. split; [reflexivity|]. right. lia.
        -- split; [|reflexivity]. intros _. split; [lia|]. exists s, n. split; [reflexivity|]. left. lia.
    + destruct (Z.eqb_spec leap 3); split; try discriminate; intros (H' & _); lia.
  - split; [discriminate|]. intros (_ & s & n & E & _). discriminate.
Qed.

Theorem classify_freerunning_iff leap interval age : 0 <= leap ->
  (classify leap interval age = FreeRunning <->
   exists s n, age = Some (s, n) /\
     (leap = 3 \/ (leap <= 2 /\ (stale_threshold interval < s \/ (s = stale_threshold interval /\ 0 < n))))).
Proof.
  intros Hl. unfold classify, leap_class. destruct age as [[s n]|].
  - destruct (Z.leb_spec leap 2).
    + destruct (Z.ltb_spec (stale_threshold interval) s); cbn [orb].
      * split; [|reflexivity]. intros _. exists s, n. split; [reflexivity|]. right. lia.
      * destruct (Z.eqb_spec (stale_threshold interval) s); cbn [andb].
        -- destruct (Z.ltb_spec 0 n).
           ++ split; [|reflexivity]. intros _. exists s, n. split; [reflexivity|]. right. lia.
           ++ split; [discriminate|]. intros (s' & n' & E & H'). inversion E; subst. lia.
        -- split; [discriminate|]. intros (s' & n' & E & H'). inversion E; subst. lia.
    + destruct (Z.eqb_spec leap 3).
      * split; [|reflexivity]. intros _. exists s, n. split; [reflexivity|]. left. assumption.
      * split; [discriminate|]. intros (s' & n' & E & H'). lia.
  - split; [discriminate|]. intros (s & n & E & _). discriminate.
Qed.

Theorem classify_unknown_iff leap interval age : 0 <= leap ->
  (classify leap interval age = Unknown <-> age = None \/ 4 <= leap).
Proof.
  intros Hl. unfold classify, leap_class. destruct age as [[s n]|].
  - destruct (Z.leb_spec leap 2) as [L|L].
    + destruct ((stale_threshold interval <? s) || (stale_threshold interval =? s) && (0 <? n));
        split; intro HH; try discriminate HH; destruct HH as [HH|HH]; try discriminate HH; lia.
    + destruct (Z.eqb_spec leap 3) as [E|E]; split; intro HH; try discriminate HH.
      * destruct HH as [HH|HH]; [discriminate HH | lia].
      * right; lia.
      * reflexivity.
  - split; intro; [left|]; reflexivity.
Qed.

(* the threshold in whole seconds is the truncation of 8 * interval, saturated into u64 *)
Lemma to_u64_gen (a : f64) : fin a -> to_u64 a = Z.min u64_max (Z.max 0 (Ztrunc (B2R a))).
Proof.
  intros Fa. unfold to_u64. destruct a; try discriminate Fa.
  - simpl B2R. rewrite Ztrunc_IZR. reflexivity.
  - rewrite trunc_spec. unfold u64_max.
    destruct (Z.ltb_spec (Ztrunc (B2R (B754_finite s m e e0))) 0); [lia|].
    destruct (Z.ltb_spec 18446744073709551615 (Ztrunc (B2R (B754_finite s m e e0)))); lia.
Qed.

Theorem stale_threshold_spec w : (0 <= w < 4294967296) ->
  stale_threshold w = Z.min u64_max (Z.max 0 (Ztrunc (8 * cf_value w))).
Proof.
  intros W. destruct (cf_exact w W) as [F E]. destruct f8_spec as [F8 E8].
  destruct (cf_ranges w W) as [Hc He].
  assert (G : generic_format radix2 fexp (cf_value w * 8)).
  { unfold cf_value. apply generic_format_FLT. exists (Float radix2 (cf_coef w * 8) (cf_exp w)); cbn [Fnum Fexp].
    - unfold F2R; cbn [Fnum Fexp]. rewrite mult_IZR. ring.
    - unfold prec. change (radix2 ^ 53) with (2 ^ 53). lia.
    - unfold emax, prec. lia. }
  assert (B : (Rabs (cf_value w * 8) <= bpow radix2 65)%R).
  { unfold cf_value. rewrite !Rabs_mult. rewrite (Rabs_pos_eq (bpow _ _)) by apply bpow_ge_0.
    rewrite (Rabs_pos_eq 8) by lra. replace 65 with (24 + 38 + 3) by lia. rewrite !bpow_plus.
    apply Rmult_le_compat; [| lra | | simpl; lra].
    - apply Rmult_le_pos; [apply Rabs_pos | apply bpow_ge_0].
    - apply Rmult_le_compat; [apply Rabs_pos | apply bpow_ge_0 | | apply bpow_le; lia].
      rewrite <- abs_IZR. replace (bpow radix2 24) with (IZR (2 ^ 24)) by (rewrite <- (IZR_Zpower radix2 24) by lia; reflexivity).
      apply IZR_le. lia. }
  destruct (mul_spec (cf_to_f64 w) f8 F F8) as [Fm Em].
  { rewrite E, E8. unfold BIG. eapply Rle_trans; [exact B|]. apply bpow_le. lia. }
  rewrite E, E8 in Em. rewrite round_generic in Em by (auto with typeclass_instances).
  unfold stale_threshold. rewrite (to_u64_gen _ Fm), Em.
  replace (8 * cf_value w)%R with (cf_value w * 8)%R by ring. reflexivity.
Qed.
