(* extract_bound_from_tracking (clock-bound-d/src/shm_writer.rs) and the classification of a
   chrony report, on the raw wire words. *)
From Coq Require Import ZArith Bool.
From Flocq Require Import Core BinarySingleNaN.
From CB Require Import Mach F64 ChronyFloat Client.
Open Scope Z_scope.

(* ((root_delay / 2. + root_dispersion + current_correction.abs()) * 1e9).ceil() as i64 *)
Definition bound_of_words (delay disp corr : Z) : Z :=
  let s := add (add (div (cf_to_f64 delay) f2) (cf_to_f64 disp)) (fabs (cf_to_f64 corr)) in
  to_i64 (ceil (mul s f1e9)).

(* the pinned tree's expression, without .abs() (finding F1) *)
Definition bound_of_words_signed (delay disp corr : Z) : Z :=
  let s := add (add (div (cf_to_f64 delay) f2) (cf_to_f64 disp)) (cf_to_f64 corr) in
  to_i64 (ceil (mul s f1e9)).

(* impl From<u16> for ChronyClockStatus *)
Definition leap_class (leap : Z) : status :=
  if leap <=? 2 then Synchronized else if leap =? 3 then FreeRunning else Unknown.

(* Duration::from_secs((polling_period * 8.0) as u64) in whole seconds *)
Definition stale_threshold (interval : Z) : Z := to_u64 (mul (cf_to_f64 interval) f8).

(* age = ref_time.elapsed(): None when the reference time is in the future, else (secs, nanos) *)
Definition classify (leap interval : Z) (age : option (Z * Z)) : status :=
  match age with
  | None => Unknown
  | Some (s, n) =>
    match leap_class leap with
    | Synchronized =>
        let T := stale_threshold interval in
        if (T <? s) || ((T =? s) && (0 <? n)) then FreeRunning else Synchronized
    | st => st
    end
  end.
