(* Message-passing model of thread_manager::run and the two workers
   (clock-bound-d/src/thread_manager.rs, chrony_poller.rs, shm_writer.rs).
   Mailboxes are FIFO queues (std::sync::mpsc); a worker's receiver disappears when its Context
   is dropped, and Context::drop posts ThreadTerminate / ThreadPanic to the main thread first.
   A schedule is a list of events: which thread takes its next step, or a fault (panic / early
   return) striking a worker at whatever point it is. *)
From Coq Require Import List Bool Arith Lia.
Import ListNotations.

Inductive wid := Poller | Writer.
Inductive msg := Data | Abort | Died (w : wid) (panic : bool).

Inductive ppc := PLoop | PWait | PGone.      (* poller: about to poll+send / waiting on its mailbox / gone *)
Inductive wpc := WRecv | WGone.              (* writer: blocked on its mailbox / gone *)
Inductive mpc := MRecv | MJoin | MDone.      (* main: receive loop / joining after the broadcast / returned *)

Record tstate := mkt { qM : list msg; qP : list msg; qW : list msg; pP : ppc; pW : wpc; pM : mpc }.

Definition t_init : tstate := mkt [] [] [] PLoop WRecv MRecv.

Definition p_alive (s : tstate) : bool := match pP s with PGone => false | _ => true end.
Definition w_alive (s : tstate) : bool := match pW s with WGone => false | _ => true end.

(* a worker's Context is dropped: notify main, the receiver is gone *)
Definition kill_p (s : tstate) (panic : bool) : tstate := mkt (qM s ++ [Died Poller panic]) (qP s) (qW s) PGone (pW s) (pM s).
Definition kill_w (s : tstate) (panic : bool) : tstate := mkt (qM s ++ [Died Writer panic]) (qP s) (qW s) (pP s) WGone (pM s).

Inductive event := StepP | StepW | StepM | FaultP (panic : bool) | FaultW (panic : bool).

(* None: the event is not enabled (thread gone or blocked on an empty mailbox) *)
Definition t_step (s : tstate) (e : event) : option tstate :=
  match e with
  | StepP =>
      match pP s with
      | PLoop => (* poll chronyd, then send to the writer; a failed send panics *)
          if w_alive s then Some (mkt (qM s) (qP s) (qW s ++ [Data]) PWait (pW s) (pM s))
          else Some (kill_p s true)
      | PWait => (* recv_timeout: a message, or the timeout *)
          match qP s with
          | [] => Some (mkt (qM s) (qP s) (qW s) PLoop (pW s) (pM s))
          | Abort :: q => Some (kill_p (mkt (qM s) q (qW s) PWait (pW s) (pM s)) false)
          | _ :: q => Some (mkt (qM s) q (qW s) PLoop (pW s) (pM s))
          end
      | PGone => None
      end
  | StepW =>
      match pW s with
      | WRecv =>
          match qW s with
          | [] => None
          | Abort :: q => Some (kill_w (mkt (qM s) (qP s) q (pP s) WRecv (pM s)) false)
          | _ :: q => Some (mkt (qM s) (qP s) q (pP s) WRecv (pM s))
          end
      | WGone => None
      end
  | StepM =>
      match pM s with
      | MRecv =>
          match qM s with
          | [] => None
          | Died _ _ :: q => (* broadcast_abort: a send to a dropped receiver fails silently *)
              Some (mkt q (if p_alive s then qP s ++ [Abort] else qP s) (if w_alive s then qW s ++ [Abort] else qW s) (pP s) (pW s) MJoin)
          | _ :: q => Some (mkt q (qP s) (qW s) (pP s) (pW s) MRecv)
          end
      | MJoin => if p_alive s || w_alive s then None else Some (mkt (qM s) (qP s) (qW s) (pP s) (pW s) MDone)
      | MDone => None
      end
  | FaultP panic => if p_alive s then Some (kill_p s panic) else None
  | FaultW panic => if w_alive s then Some (kill_w s panic) else None
  end.

(* run a schedule, ignoring events that are not enabled *)
Fixpoint t_run (s : tstate) (es : list event) : tstate :=
  match es with
  | [] => s
  | e :: es' => t_run (match t_step s e with Some s' => s' | None => s end) es'
  end.

Definition reachable (s : tstate) : Prop := exists es, s = t_run t_init es.
