From Coq Require Import ZArith Bool List Lia.
From CB Require Import Poller.
Import ListNotations.
Open Scope Z_scope.

(* instant of the last good answer after a history of iterations (most recent first), declaratively *)
Fixpoint last_good_of (start : Z) (h : list pstep) : Z :=
  match h with
  | [] => start - GRACE_NS
  | s :: older => match p_mode s with PReply => p_t s + p_d s | PSilent => last_good_of start older end
  end.

Lemma poll_step_state cfg lg s : fst (poll_step cfg lg s) = match p_mode s with PReply => p_t s + p_d s | PSilent => lg end.
Proof.
  unfold poll_step. destruct (p_mode s); [|reflexivity].
  destruct cfg as [r|]; [|reflexivity]. destruct (r =? p_refid s); [|reflexivity]. destruct (p_phc s); reflexivity.
Qed.

(* the k-th message of a run is the one-step function applied to the declarative state *)
Theorem poll_run_spec cfg start : forall ss h,
  poll_run cfg (last_good_of start h) ss =
  (fix go h ss := match ss with [] => [] | s :: ss' => snd (poll_step cfg (last_good_of start h) s) :: go (s :: h) ss' end) h ss.
Proof.
  induction ss as [|s ss IH]; intros h; [reflexivity|].
  cbn [poll_run]. destruct (poll_step cfg (last_good_of start h) s) as [lg m] eqn:E.
  assert (Hlg : lg = last_good_of start (s :: h)).
  { pose proof (poll_step_state cfg (last_good_of start h) s) as P. rewrite E in P. cbn [fst] in P.
    cbn [last_good_of]. exact P. }
  rewrite Hlg, IH. cbn [snd]. reflexivity.
Qed.

(* no answer: FreeRunning-class only while the last good answer is less than 5 s old *)
Theorem silence_class cfg lg s : p_mode s = PSilent ->
  snd (poll_step cfg lg s) = (if (p_t s + p_d s + p_e s) - lg <? GRACE_NS then PMNoReplyGrace else PMNoReply) /\
  fst (poll_step cfg lg s) = lg.
Proof. intros H. unfold poll_step. rewrite H. split; reflexivity. Qed.

(* right after start, with no answer ever received: Unknown-class immediately *)
Theorem startup_silence cfg start : forall ss,
  Forall (fun s => p_mode s = PSilent /\ start <= p_t s + p_d s + p_e s) ss ->
  Forall (fun m => m = PMNoReply) (poll_run cfg (poller_init start) ss).
Proof.
  unfold poller_init. induction ss as [|s ss IH]; intros H; [constructor|].
  inversion H as [|? ? [Hm Ht] Hrest]; subst. cbn [poll_run].
  destruct (poll_step cfg (start - GRACE_NS) s) as [lg m] eqn:E.
  pose proof (silence_class cfg (start - GRACE_NS) s Hm) as [Hs Hf]. rewrite E in Hs, Hf. cbn [fst snd] in Hs, Hf.
  subst lg. constructor.
  - rewrite Hs. destruct (Z.ltb_spec (p_t s + p_d s + p_e s - (start - GRACE_NS)) GRACE_NS); [lia | reflexivity].
  - apply IH, Hrest.
Qed.

(* PHC is the reference and its bound cannot be read: the report is not used as a measurement *)
Theorem phc_unreadable cfg_refid lg s : p_mode s = PReply -> p_refid s = cfg_refid -> p_phc s = None ->
  let m := snd (poll_step (Some cfg_refid) lg s) in
  (m = PMPhcFailGrace \/ m = PMPhcFail) /\ (m = PMPhcFailGrace <-> p_e s < GRACE_NS).
Proof.
  intros Hm Hr Hp. unfold poll_step. rewrite Hm, Hp, <- Hr, Z.eqb_refl. cbn [snd].
  replace (p_t s + p_d s + p_e s - (p_t s + p_d s)) with (p_e s) by lia.
  destruct (Z.ltb_spec (p_e s) GRACE_NS); split; auto; split; intro H'; try discriminate; try reflexivity; lia.
Qed.

(* the PHC error bound is added exactly when the configured reference id matches the report's *)
Theorem phc_added_iff cfg lg s : p_mode s = PReply ->
  match cfg with
  | Some r =>
      if r =? p_refid s then
        match p_phc s with
        | Some v => snd (poll_step cfg lg s) = PMData (p_t s) v (p_refid s) (p_tag s)
        | None => True
        end
      else snd (poll_step cfg lg s) = PMData (p_t s) 0 (p_refid s) (p_tag s)
  | None => snd (poll_step cfg lg s) = PMData (p_t s) 0 (p_refid s) (p_tag s)
  end.
Proof.
  intros Hm. unfold poll_step. rewrite Hm. destruct cfg as [r|]; [|reflexivity].
  destruct (r =? p_refid s); [|reflexivity]. destruct (p_phc s); [reflexivity | exact I].
Qed.

(* the as-of instant of a forwarded report is the reading taken at the top of the iteration,
   i.e. before the request (order of actions: Poller.poller_actions) *)
Theorem data_as_of cfg lg s a v r t : snd (poll_step cfg lg s) = PMData a v r t -> a = p_t s /\ p_mode s = PReply.
Proof.
  unfold poll_step. destruct (p_mode s) eqn:M.
  - destruct cfg as [c|]; [destruct (c =? p_refid s); [destruct (p_phc s)|]|]; cbn [snd]; intros H; try (inversion H; auto).
    destruct (_ <? _); discriminate.
  - cbn [snd]. destruct (_ <? _); discriminate.
Qed.

(* ------------------------------------------------------------------ the configured reference id *)
From CB Require Import Cli.

Lemma refid_of_four a b c d : is_ascii a = true -> is_ascii b = true -> is_ascii c = true -> is_ascii d = true ->
  refid_of [a; b; c; d] = Some (a * 16777216 + b * 65536 + c * 256 + d).
Proof. intros Ha Hb Hc Hd. unfold refid_of. cbn [length Nat.leb forallb]. rewrite Ha, Hb, Hc, Hd. cbn [andb be_value]. f_equal. lia. Qed.

Lemma refid_of_range bs v : refid_of bs = Some v -> 0 <= v < 4294967296.
Proof.
  unfold refid_of. destruct (Nat.leb (length bs) 4) eqn:L; [|discriminate]. cbn [andb].
  destruct (forallb is_ascii bs) eqn:A; [|discriminate]. intros H; inversion H; subst v; clear H.
  apply Nat.leb_le in L. rewrite forallb_forall in A.
  assert (G : forall l acc, (forall x, In x l -> is_ascii x = true) -> 0 <= acc ->
              0 <= be_value l acc < (acc + 1) * 256 ^ Z.of_nat (length l)).
  { induction l as [|x l IH]; intros acc Hx Ha; cbn [be_value length].
    - cbn. lia.
    - assert (Hx0 : is_ascii x = true) by (apply Hx; left; reflexivity). unfold is_ascii in Hx0.
      apply andb_true_iff in Hx0 as [X0 X1]. apply Z.leb_le in X0. apply Z.ltb_lt in X1.
      specialize (IH (acc * 256 + x) (fun y Hy => Hx y (or_intror Hy)) ltac:(lia)).
      rewrite Nat2Z.inj_succ, Z.pow_succ_r by lia.
      assert (0 < 256 ^ Z.of_nat (length l)) by (apply Z.pow_pos_nonneg; lia). nia. }
  specialize (G bs 0 A ltac:(lia)).
  assert (256 ^ Z.of_nat (length bs) <= 256 ^ 4) by (apply Z.pow_le_mono_r; lia). lia.
Qed.

(* two four-character ASCII names give the same id only if they are the same name: the PHC term
   cannot be attached to another four-character reference by the conversion *)
Lemma refid_of_four_injective a b c d a' b' c' d' :
  is_ascii a = true -> is_ascii b = true -> is_ascii c = true -> is_ascii d = true ->
  is_ascii a' = true -> is_ascii b' = true -> is_ascii c' = true -> is_ascii d' = true ->
  refid_of [a; b; c; d] = refid_of [a'; b'; c'; d'] -> [a; b; c; d] = [a'; b'; c'; d'].
Proof.
  intros Ha Hb Hc Hd Ha' Hb' Hc' Hd' H. rewrite !refid_of_four in H by assumption. inversion H as [E]; clear H.
  unfold is_ascii in *. repeat match goal with H : (_ && _)%bool = true |- _ => apply andb_true_iff in H as [? ?] end.
  repeat match goal with H : (_ <=? _) = true |- _ => apply Z.leb_le in H | H : (_ <? _) = true |- _ => apply Z.ltb_lt in H end.
  assert (d = d') by lia. subst d'. assert (c = c') by lia. subst c'. assert (b = b') by lia. subst b'. assert (a = a') by lia. subst. reflexivity.
Qed.
