(* C03, second half, for sequentially consistent executions: when no update is in flight, a
   snapshot() call that runs while the writer does nothing returns the most recently completed
   publication - unless the live generation equals the one cached with the reader's record (the
   documented 32767 exception, or the record is already current). *)
From Coq Require Import ZArith List Bool Arith NArith Lia.
From CB Require Import Gen GenProofs Machine MachineFacts SeqlockInv GenCyc SeqlockRA SeqlockMono.
Import ListNotations.
Open Scope nat_scope.

Section Gen.
Context {RF : RecFun}.


(* ------------------------------------------------------------------ two more facts about logs *)
Definition body_kind (e : event) : Prop := e_kind e = KOdd \/ e_kind e = KCell \/ e_kind e = KEven.

Record LogInv2 (L : list event) : Prop := {
  L2_rel_pos : forall p e, ev L p = Some e -> e_rel e <= S p;
  L2_after_even : forall q p e f, q < p -> ev L q = Some e -> e_kind e = KEven -> ev L p = Some f -> body_kind f -> e_att e < e_att f
}.

Definition new_ok2 (L : list event) (x : event) : Prop :=
  e_rel x <= S (length L) /\
  (body_kind x -> forall p e, ev L p = Some e -> e_kind e = KEven -> e_att e < e_att x).

Lemma LogInv2_snoc L x : LogInv2 L -> new_ok2 L x -> LogInv2 (L ++ [x]).
Proof.
  intros I [HR HA]. constructor.
  - intros p e He. apply ev_snoc in He as [[Hp He]|[Hp ->]]; [apply (L2_rel_pos _ I p e He) | lia].
  - intros q p e f Hqp He Hk Hf Hb.
    apply ev_snoc in Hf as [[Hp Hf]|[Hp ->]]; apply ev_snoc in He as [[Hq He]|[Hq ->]]; try lia.
    + exact (L2_after_even _ I q p e f Hqp He Hk Hf Hb).
    + exact (HA Hb q e He Hk).
Qed.

Lemma LogInv2_init n : LogInv2 (init_log n).
Proof.
  constructor.
  - intros p e H. apply init_log_ev in H. lia.
  - intros q p e f _ He Hk. apply init_log_ev in He as (K & _). congruence.
Qed.

Definition evens_below (L : list event) (a : nat) : Prop := forall p e, ev L p = Some e -> e_kind e = KEven -> e_att e < a.

Record WInv2 (w : wst) : Prop := {
  W2_log : LogInv2 (w_log w);
  W2_pc : match w_pc w with
          | WLoaded _ | WOddDone _ | WCopy _ _ => evens_below (w_log w) (w_att w)
          | _ => True
          end
}.

Lemma WInv2_init c : WInv2 (w_init c).
Proof.
  unfold w_init. constructor; cbn [w_log w_pc]; [|exact I].
  apply LogInv2_snoc; [apply LogInv2_init|]. split; [cbn; lia|]. intros Hb; unfold body_kind in Hb; cbn in Hb; destruct Hb as [K|[K|K]]; discriminate K.
Qed.

Lemma WInv2_crash w : WInv2 w -> WInv2 (w_crash w).
Proof. intros [A B]. constructor; cbn; auto. Qed.

Lemma WInv2_restart c w : WInv c w -> WInv2 w -> WInv2 (w_restart c w).
Proof.
  intros I [A B]. unfold w_restart. destruct (header_valid (w_log w)); [|apply WInv2_init].
  constructor; cbn [w_log w_pc]; [|exact Logic.I]. unfold w_push. cbn [is_rel].
  apply LogInv2_snoc; [exact A|]. split; [cbn; pose proof (W_relview _ _ I); lia|]. intros Hb; unfold body_kind in Hb; cbn in Hb; destruct Hb as [K|[K|K]]; discriminate K.
Qed.

Theorem w_step_inv2 c w r k w' it : WInv c w -> WInv2 w ->
  (w_pc w = WIdle -> w_att w < k) -> w_step c w r k = (w', it) -> WInv2 w'.
Proof.
  intros I [A B] Hk H. pose proof (W_relview _ _ I) as RV. pose proof (W_att_le _ _ I) as AL.
  unfold w_step in H. destruct (w_pc w) as [| g | p | p [|i todo] |] eqn:Epc.
  - inversion H; subst; clear H. constructor; cbn [w_log w_pc w_att]; [exact A|].
    intros q e He _. specialize (AL q e He). specialize (Hk eq_refl). lia.
  - inversion H; subst; clear H. unfold w_push.
    set (x := mkev LGen (pre g) (if is_rel (c_w_odd c) then S (length (w_log w)) else w_relview w) (w_att w) KOdd).
    assert (NO : new_ok2 (w_log w) x).
    { split; [unfold x; cbn [e_rel]; destruct (is_rel (c_w_odd c)); lia|]. intros _ q e He Hke. apply (B q e He Hke). }
    assert (EB : evens_below (w_log w ++ [x]) (w_att w)).
    { intros q e He Hke. apply ev_snoc in He as [[_ He]|[_ ->]]; [apply (B q e He Hke) | discriminate Hke]. }
    constructor; cbn [w_log w_pc w_att]; [apply LogInv2_snoc; assumption|]. destruct (c_w_fence c); exact EB.
  - destruct (c_w_fence c); inversion H; subst; clear H; constructor; cbn [w_log w_pc w_att]; auto; rewrite ?Epc; auto.
  - inversion H; subst; clear H. unfold w_push.
    set (x := mkev LGen (post p) (if is_rel (c_w_even c) then S (length (w_log w)) else w_relview w) (w_att w) KEven).
    constructor; cbn [w_log w_pc w_att]; [|exact Logic.I].
    apply LogInv2_snoc; [exact A|]. split; [unfold x; cbn [e_rel]; destruct (is_rel (c_w_even c)); lia|].
    intros _ q e He Hke. apply (B q e He Hke).
  - inversion H; subst; clear H. unfold w_push. cbn [is_rel].
    set (x := mkev (LCell i) (nth i (w_rec w) 0%Z) (w_relview w) (w_att w) KCell).
    assert (NO : new_ok2 (w_log w) x).
    { split; [unfold x; cbn [e_rel]; lia|]. intros _ q e He Hke. apply (B q e He Hke). }
    constructor; cbn [w_log w_pc w_att]; [apply LogInv2_snoc; assumption|].
    intros q e He Hke. apply ev_snoc in He as [[_ He]|[_ ->]]; [apply (B q e He Hke) | discriminate Hke].
  - inversion H; subst. constructor; [exact A | rewrite Epc; exact Logic.I].
Qed.

(* ------------------------------------------------------------------ [latest] *)
Lemma latest_spec l : forall L p, latest l L = Some p ->
  exists e, ev L p = Some e /\ e_loc e = l /\ forall q f, ev L q = Some f -> e_loc f = l -> q <= p.
Proof.
  intros L. induction L as [|x L IH] using rev_ind; intros p H; [discriminate|].
  rewrite latest_snoc in H. destruct (loc_eqb (e_loc x) l) eqn:E.
  - inversion H; subst p. exists x. split; [apply ev_last|]. split; [apply loc_eqb_eq; exact E|].
    intros q f Hf _. apply ev_lt in Hf. rewrite app_length in Hf. cbn in Hf. lia.
  - destruct (IH p H) as (e & Ee & El & M). exists e. split; [apply ev_app_l; exact Ee|]. split; [exact El|].
    intros q f Hf Hl. apply ev_snoc in Hf as [[_ Hf]|[_ ->]]; [apply (M q f Hf Hl)|].
    exfalso. rewrite <- Hl in E. rewrite loc_eqb_refl in E. discriminate.
Qed.

Lemma latest_exists l L p e : ev L p = Some e -> e_loc e = l -> exists p', latest l L = Some p' /\ p <= p'.
Proof.
  revert p e. induction L as [|x L IH] using rev_ind; intros p e He Hl; [destruct p; discriminate|].
  rewrite latest_snoc. apply ev_snoc in He as [[Hp He]|[Hp ->]].
  - destruct (loc_eqb (e_loc x) l); [exists (length L); split; [reflexivity | lia]|]. apply (IH p e He Hl).
  - rewrite Hl, loc_eqb_refl. exists (length L). split; [reflexivity | lia].
Qed.

Lemma latest_val_spec l L p e : latest l L = Some p -> ev L p = Some e -> latest_val l L = e_val e.
Proof. intros H E. unfold latest_val. rewrite H. apply val_at_ev, E. Qed.

Lemma newer_in_none L l p : (forall q f, p < q -> ev L q = Some f -> e_loc f <> l) -> forall hi, newer_in L l p hi = false.
Proof.
  intros H. induction hi as [|h IH]; [reflexivity|]. cbn [newer_in].
  destruct (Nat.leb_spec (S h) (S p)); [reflexivity|]. rewrite IH, orb_false_r.
  destruct (nth_error L h) as [f|] eqn:E; [|reflexivity].
  destruct (loc_eqb (e_loc f) l) eqn:El; [|reflexivity]. exfalso. apply (H h f); [lia | exact E | apply loc_eqb_eq, El].
Qed.

(* ------------------------------------------------------------------ a quiescent segment *)
(* the latest generation event is the even store of write() call a: every cell then holds that
   call's record *)
Theorem quiescent_cells n L q e : LogInv n L -> LogInv2 L ->
  latest LGen L = Some q -> ev L q = Some e -> e_kind e = KEven ->
  forall i, i < n -> latest_val (LCell i) L = nth i (recf n (e_att e)) 0%Z.
Proof.
  intros LI LI2 HL E K i Hi.
  destruct (L_even _ _ LI q e E K) as [_ Hall]. destruct (Hall i Hi) as (p & c & Hpq & Ec & Elc & Kc & Ac).
  assert (A0 : 0 < e_att e) by (apply (L_pos _ _ LI q e E); auto).
  destruct (latest_exists (LCell i) L p c Ec Elc) as (p' & Hl' & Hpp').
  destruct (latest_spec _ _ _ Hl') as (f & Ef & Elf & _).
  destruct (latest_spec _ _ _ HL) as (e' & Ee' & Ele & Mg). rewrite E in Ee'. inversion Ee'; subst e'. clear Ee'.
  assert (Hge : e_att e <= e_att f) by (rewrite <- Ac; apply (L_att_mono _ _ LI p p' c f Ec Ef Hpp')).
  assert (Kf : e_kind f = KCell).
  { destruct (L_cell_kind _ _ LI p' f i Ef Elf) as [|Ki]; [assumption|]. apply (L_init0 _ _ LI p' f Ef) in Ki as [Hz _]. lia. }
  assert (Hle : e_att f <= e_att e).
  { destruct (Nat.lt_ge_cases p' q) as [Hlt|Hge'].
    - apply (L_att_mono _ _ LI p' q f e Ef E). lia.
    - assert (Hne : p' <> q) by (intros ->; rewrite E in Ef; inversion Ef; subst f; rewrite Ele in Elf; discriminate).
      assert (Hqp : q < p') by lia.
      pose proof (L2_after_even _ LI2 q p' e f Hqp E K Ef (or_intror (or_introl Kf))) as Hgt.
      destruct (L_cell_rel _ _ LI p' f Ef Kf) as (q' & o & Eo & Elo & Ko & Ao & Hq').
      pose proof (L2_rel_pos _ LI2 p' f Ef) as Hr.
      pose proof (Mg q' o Eo Elo) as Hq'q.
      pose proof (L_att_mono _ _ LI q' q o e Eo E Hq'q). lia. }
  rewrite (latest_val_spec _ _ _ _ Hl' Ef). replace (e_att e) with (e_att f) by lia.
  apply (L_cell_val _ _ LI p' f i Ef Kf Elf).
Qed.

(* ------------------------------------------------------------------ generation values, wrap included *)
Record GenVals (L : list event) : Prop := {
  GV_range : forall p e, ev L p = Some e -> e_loc e = LGen -> (0 <= e_val e < 65536)%Z;
  GV_even : forall p e, ev L p = Some e -> e_kind e = KEven -> Z.even (e_val e) = true /\ e_val e <> 0%Z
}.

Lemma GenVals_snoc L x : GenVals L ->
  (e_loc x = LGen -> (0 <= e_val x < 65536)%Z) -> (e_kind x = KEven -> Z.even (e_val x) = true /\ e_val x <> 0%Z) ->
  GenVals (L ++ [x]).
Proof.
  intros [A B] HA HB. constructor.
  - intros p e He Hl. apply ev_snoc in He as [[_ He]|[_ ->]]; [apply (A p e He Hl) | apply HA, Hl].
  - intros p e He Hk. apply ev_snoc in He as [[_ He]|[_ ->]]; [apply (B p e He Hk) | apply HB, Hk].
Qed.

Lemma GenVals_init n : GenVals (init_log n).
Proof.
  constructor; intros p e H; apply init_log_ev in H as (K & _ & V & _).
  - intros _. rewrite V. lia.
  - intros K'. congruence.
Qed.

Lemma latest_val_cases l L : latest_val l L = 0%Z \/
  exists p e, latest l L = Some p /\ ev L p = Some e /\ e_loc e = l /\ latest_val l L = e_val e.
Proof.
  destruct (latest l L) as [p|] eqn:E; [|left; unfold latest_val; rewrite E; reflexivity].
  destruct (latest_spec _ _ _ E) as (e & Ee & El & _). right. exists p, e. repeat split; auto.
  apply (latest_val_spec _ _ _ _ E Ee).
Qed.

Lemma GenVals_latest L : GenVals L -> (0 <= latest_val LGen L < 65536)%Z.
Proof.
  intros G. destruct (latest_val_cases LGen L) as [->|(p & e & _ & Ee & El & ->)]; [lia|]. apply (GV_range _ G p e Ee El).
Qed.

Record WInv3 (w : wst) : Prop := {
  W3_log : GenVals (w_log w);
  W3_pc : match w_pc w with
          | WLoaded g => (0 <= g < 65536)%Z
          | WOddDone p | WCopy p _ => Z.odd p = true /\ (0 <= p < 65536)%Z
          | _ => True
          end
}.

Lemma WInv3_init c : WInv3 (w_init c).
Proof.
  unfold w_init. constructor; cbn [w_log w_pc]; [|exact I].
  apply GenVals_snoc; [apply GenVals_init | discriminate | discriminate].
Qed.

Lemma WInv3_crash w : WInv3 w -> WInv3 (w_crash w).
Proof. intros [A B]. constructor; cbn; auto. Qed.

Lemma WInv3_restart c w : WInv3 w -> WInv3 (w_restart c w).
Proof.
  intros [A B]. unfold w_restart. destruct (header_valid (w_log w)); [|apply WInv3_init].
  constructor; cbn [w_log w_pc]; [|exact I]. unfold w_push. apply GenVals_snoc; [exact A | discriminate | discriminate].
Qed.

Theorem w_step_inv3 c w r k w' it : WInv3 w -> w_step c w r k = (w', it) -> WInv3 w'.
Proof.
  intros [A B] H. unfold w_step in H. destruct (w_pc w) as [| g | p | p [|i todo] |] eqn:Epc.
  - inversion H; subst; clear H. constructor; cbn [w_log w_pc]; [exact A | apply GenVals_latest, A].
  - inversion H; subst; clear H. destruct (generation_step_spec g B) as (O & _ & _ & _ & _ & _ & R & _).
    constructor; cbn [w_log w_pc].
    + unfold w_push. apply GenVals_snoc; [exact A | intros _; exact R | discriminate].
    + destruct (c_w_fence c); split; assumption.
  - destruct (c_w_fence c); inversion H; subst; clear H; constructor; cbn [w_log w_pc]; auto; rewrite ?Epc; auto.
  - inversion H; subst; clear H. destruct B as [O R].
    destruct (generation_step_spec p R) as (_ & E & NZ & _ & _ & Hp & _ & R').
    rewrite (Hp O) in E, NZ, R'.
    constructor; cbn [w_log w_pc]; [|exact I].
    unfold w_push. apply GenVals_snoc; [exact A | intros _; exact R' | intros _; split; assumption].
  - inversion H; subst; clear H. constructor; cbn [w_log w_pc]; [|exact B].
    unfold w_push. apply GenVals_snoc; [exact A | discriminate | discriminate].
  - inversion H; subst. constructor; [exact A | rewrite Epc; exact I].
Qed.

(* ------------------------------------------------------------------ a sequentially consistent call *)
Definition watched (n : nat) (l : loc) : Prop := l = LVer \/ l = LGen \/ exists i, l = LCell i /\ i < n.

(* the reader's view lies within the log: always true of a reachable reader (its coherence floors
   are positions of events it has read) *)
Definition SCInv (n : nat) (L : list event) (v : rview) : Prop :=
  cur v <= length L /\ acq v <= length L /\
  forall l, watched n l -> exists p, latest l L = Some p /\ coh_get v l <= p.

Lemma upd_nth_cases cells k x k' : nth k' (upd_nth cells k x) 0 = nth k' cells 0 \/ (k' = k /\ nth k' (upd_nth cells k x) 0 = x).
Proof.
  revert k k'. induction cells as [|h t IH]; intros k k'; [left; destruct k; reflexivity|].
  destruct k as [|k]; destruct k' as [|k']; cbn; auto.
  destruct (IH k k') as [H|[-> H]]; auto.
Qed.

Lemma coh_get_set v l p l' : coh_get (coh_set v l p) l' = coh_get v l' \/ (l' = l /\ coh_get (coh_set v l p) l' = p).
Proof.
  destruct l as [| |k]; destruct l' as [| |k']; cbn; auto.
  destruct (upd_nth_cases (coh_cell v) k p k') as [H|[-> H]]; auto.
Qed.

Lemma sc_read n L v l o : SCInv n L v -> rel_bounded L -> watched n l ->
  exists p e v', latest l L = Some p /\ ev L p = Some e /\
     do_read L v l o None = Some (e_val e, p, v') /\ SCInv n L v'.
Proof.
  intros (Hc & Ha & Hco) RB Hw. destruct (Hco l Hw) as (p & Hl & Hle).
  destruct (latest_spec _ _ _ Hl) as (e & Ee & El & M).
  assert (CR : can_read L v l p = true).
  { unfold can_read. unfold ev in Ee. rewrite Ee. rewrite El, loc_eqb_refl. cbn [andb].
    apply andb_true_iff. split; [apply Nat.leb_le; exact Hle|].
    rewrite newer_in_none; [reflexivity|]. intros q f Hq Hf Hlf. specialize (M q f Hf Hlf). lia. }
  unfold do_read. rewrite Hl, CR. unfold ev in Ee. rewrite Ee.
  eexists p, e, _. split; [reflexivity|]. split; [exact Ee|]. split; [reflexivity|].
  pose proof (RB p e Ee) as Hr.
  assert (Hcur : cur (coh_set v l p) = cur v) by (destruct l; reflexivity).
  assert (Hacq : acq (coh_set v l p) = acq v) by (destruct l; reflexivity).
  split; [|split].
  - cbn [cur]. rewrite Hcur. destruct (is_acq o); lia.
  - cbn [acq]. rewrite Hacq. lia.
  - intros l' Hw'. destruct (Hco l' Hw') as (p' & Hl' & Hle'). exists p'. split; [exact Hl'|].
    replace (coh_get _ l') with (coh_get (coh_set v l p) l') by (destruct l'; reflexivity).
    destruct (coh_get_set v l p l') as [->|[-> ->]]; [exact Hle'|]. rewrite Hl in Hl'. inversion Hl'. lia.
Qed.

Fixpoint sc_run (c : cfg) (L : list event) (r : rst) (fuel : nat) : option (rret * rst) :=
  match fuel with
  | O => None
  | S f => match r_step c L r None with
           | Some (r', _, Some ret) => Some (ret, r')
           | Some (r', _, None) => sc_run c L r' f
           | None => None
           end
  end.

Definition accP (n : nat) (L : list event) (acc : list (nat * Z)) : Prop :=
  forall j x, In (j, x) acc -> j < n /\ x = latest_val (LCell j) L.

Lemma sc_cells c L o : c_r_fence c = Some o -> rel_bounded L ->
  forall todo i r g acc b, r_pc r = RCopy g (i :: todo) acc b -> SCInv (c_cells c) L (r_view r) ->
    (forall j, In j (i :: todo) -> j < c_cells c) -> accP (c_cells c) L acc ->
    exists r' acc', (forall fuel, sc_run c L r (length (i :: todo) + fuel) = sc_run c L r' fuel) /\
      r_pc r' = RFence g acc' b /\ SCInv (c_cells c) L (r_view r') /\ accP (c_cells c) L acc' /\
      incl acc acc' /\ (forall j, In j (i :: todo) -> exists x, In (j, x) acc') /\
      r_cache r' = r_cache r /\ r_cache_gen r' = r_cache_gen r.
Proof.
  intros HF RB. induction todo as [|i' todo IH]; intros i r g acc b Hpc HS Hlt HA.
  - assert (Hw : watched (c_cells c) (LCell i)) by (right; right; exists i; split; [reflexivity | apply Hlt; left; reflexivity]).
    destruct (sc_read _ L (r_view r) (LCell i) Rlx HS RB Hw) as (p & e & v' & Hl & Ee & DR & HS').
    eexists (mkr v' (RFence g ((i, e_val e) :: acc) b) (r_cache r) (r_cache_gen r) (r_g1pos r) ((i, p) :: r_cellpos r)), _.
    split; [|split; [reflexivity|]].
    + intros fuel. cbn [length Nat.add sc_run]. unfold r_step. rewrite Hpc, DR, HF. reflexivity.
    + split; [exact HS'|]. split.
      * intros j x [H|H]; [inversion H; subst; split; [apply Hlt; left; reflexivity | symmetry; apply (latest_val_spec _ _ _ _ Hl Ee)] | apply (HA j x H)].
      * split; [intros y Hy; right; exact Hy|]. split; [|split; reflexivity]. intros j [<-|[]]. exists (e_val e). left. reflexivity.
  - assert (Hw : watched (c_cells c) (LCell i)) by (right; right; exists i; split; [reflexivity | apply Hlt; left; reflexivity]).
    destruct (sc_read _ L (r_view r) (LCell i) Rlx HS RB Hw) as (p & e & v' & Hl & Ee & DR & HS').
    set (r1 := mkr v' (RCopy g (i' :: todo) ((i, e_val e) :: acc) b) (r_cache r) (r_cache_gen r) (r_g1pos r) ((i, p) :: r_cellpos r)).
    assert (HA1 : accP (c_cells c) L ((i, e_val e) :: acc)).
    { intros j x [H|H]; [inversion H; subst; split; [apply Hlt; left; reflexivity | symmetry; apply (latest_val_spec _ _ _ _ Hl Ee)] | apply (HA j x H)]. }
    destruct (IH i' r1 g ((i, e_val e) :: acc) b eq_refl HS' (fun j Hj => Hlt j (or_intror Hj)) HA1)
      as (r' & acc' & Hrun & Hpc' & HS'' & HA' & Hincl & Hall & Hc1 & Hc2).
    exists r', acc'. split; [|split; [exact Hpc'|]].
    + intros fuel. change (length (i :: i' :: todo) + fuel) with (S (length (i' :: todo) + fuel)).
      cbn [sc_run]. unfold r_step at 1. rewrite Hpc, DR. fold r1. apply Hrun.
    + split; [exact HS''|]. split; [exact HA'|]. split; [intros y Hy; apply Hincl; right; exact Hy|].
      split; [|split; [exact Hc1 | exact Hc2]].
      intros j [<-|Hj]; [|apply Hall, Hj]. exists (e_val e). apply Hincl. left. reflexivity.
Qed.

Lemma SCInv_fence n L v o : SCInv n L v -> SCInv n L (r_fence v o).
Proof.
  intros (A & B & C). unfold r_fence. destruct (is_acq o); [|repeat split; auto].
  split; [cbn; lia|]. split; [exact B|]. intros l Hw. destruct (C l Hw) as (p & Hp & Hle). exists p. split; [exact Hp|]. destruct l; exact Hle.
Qed.

Lemma safe_parts c : safe_cfg c = true ->
  (exists o, c_r_fence c = Some o) /\ is_perm (c_r_order c) (c_cells c) = true /\ 0 < c_cells c.
Proof.
  unfold safe_cfg. intros H. repeat (apply andb_true_iff in H as [H ?]).
  split; [destruct (c_r_fence c) as [o|]; [exists o; reflexivity | discriminate]|].
  split; [assumption | apply Nat.ltb_lt; assumption].
Qed.

(* One snapshot() call that runs sequentially consistently (every load returns the latest store)
   against a log whose latest generation event is the even store of write() call number
   [e_att e] - no update in flight - and whose version is non-zero.  It returns within
   cells + 4 accesses, and either it returns the record of that call, or it serves the cache
   because the live generation equals the cached one. *)
Theorem fresh_call c L r q e : safe_cfg c = true -> (0 < c_retries c)%N ->
  LogInv (c_cells c) L -> LogInv2 L -> GenVals L -> rel_bounded L ->
  SCInv (c_cells c) L (r_view r) -> r_pc r = RIdle ->
  latest_val LVer L <> 0%Z ->
  latest LGen L = Some q -> ev L q = Some e -> e_kind e = KEven ->
  exists ret r', sc_run c L r (c_cells c + 4) = Some (ret, r') /\ r_pc r' = RIdle /\ SCInv (c_cells c) L (r_view r') /\
    ((ret = RetFresh /\ r_cache r' = recf (c_cells c) (e_att e) /\ r_cache_gen r' = e_val e) \/
     (ret = RetCache /\ r_cache r' = r_cache r /\ r_cache_gen r' = r_cache_gen r /\ e_val e = r_cache_gen r)).
Proof.
  intros Hs Hret LI LI2 GV RB HS Hpc Hver Hq Ee Ke.
  destruct (safe_parts c Hs) as ((o & HF) & Hperm & Hn).
  (* version *)
  destruct (sc_read _ L (r_view r) LVer (c_r_ver c) HS RB (or_introl eq_refl)) as (pv & ev0 & v1 & Hlv & Eev & DR1 & HS1).
  assert (Hv0 : (e_val ev0 =? 0)%Z = false) by (apply Z.eqb_neq; rewrite <- (latest_val_spec _ _ _ _ Hlv Eev); exact Hver).
  set (r1 := mkr v1 RVer (r_cache r) (r_cache_gen r) (r_g1pos r) (r_cellpos r)).
  (* first generation load *)
  destruct (sc_read _ L v1 LGen (c_r_g1 c) HS1 RB (or_intror (or_introl eq_refl))) as (q' & e' & v2 & Hq' & Ee' & DR2 & HS2).
  rewrite Hq in Hq'. inversion Hq'; subst q'. rewrite Ee in Ee'. inversion Ee'; subst e'. clear Hq' Ee'.
  destruct (GV_even _ GV q e Ee Ke) as [Hev Hnz].
  assert (Hg0 : (e_val e =? 0)%Z = false) by (apply Z.eqb_neq; exact Hnz).
  assert (Hodd : Z.odd (e_val e) = false) by (rewrite <- Z.negb_even, Hev; reflexivity).
  replace (c_cells c + 4) with (S (S (c_cells c + 2))) by lia.
  cbn [sc_run]. unfold r_step at 1. rewrite Hpc, DR1, Hv0. fold r1.
  unfold r_step at 1. cbn [r_pc r1 r_view r_cache r_cache_gen r_g1pos r_cellpos]. rewrite DR2, Hg0, Hodd. cbn [orb].
  destruct (e_val e =? r_cache_gen r)%Z eqn:Hsame.
  { (* the live generation is the cached one *)
    eexists _, _. split; [destruct (c_cells c + 2); reflexivity|]. cbn [r_pc r_view r_cache r_cache_gen].
    split; [reflexivity|]. split; [exact HS2|]. right. apply Z.eqb_eq in Hsame. auto. }
  assert (Hr0 : N.eqb (c_retries c) 0 = false) by (apply N.eqb_neq; lia). rewrite Hr0.
  (* cells *)
  assert (Hlen : length (c_r_order c) = c_cells c).
  { unfold is_perm in Hperm. apply andb_true_iff in Hperm as [Hp _]. apply andb_true_iff in Hp as [Hp _]. apply Nat.eqb_eq, Hp. }
  destruct (c_r_order c) as [|i todo] eqn:Ord; [cbn in Hlen; lia|].
  set (r2 := mkr v2 (RCopy (e_val e) (i :: todo) [] (c_retries c)) (r_cache r) (r_cache_gen r) q []).
  assert (Hlt : forall j, In j (i :: todo) -> j < c_cells c) by (intros j Hj; apply (is_perm_lt _ _ _ Hperm Hj)).
  destruct (sc_cells c L o HF RB todo i r2 (e_val e) [] (c_retries c) eq_refl HS2 Hlt (fun j x (H : In (j, x) []) => match H with end))
    as (r3 & acc & Hrun & Hpc3 & HS3 & HA3 & _ & Hall & Hc3 & Hg3).
  cbn [orb]. replace (c_cells c + 2) with (length (i :: todo) + 2) by (rewrite Hlen; reflexivity). rewrite (Hrun 2).
  (* fence, re-load *)
  cbn [sc_run]. unfold r_step at 1. rewrite Hpc3, HF.
  set (r4 := mkr (r_fence (r_view r3) o) (RReload (e_val e) acc (c_retries c)) (r_cache r3) (r_cache_gen r3) (r_g1pos r3) (r_cellpos r3)).
  destruct (sc_read _ L (r_view r4) LGen (c_r_g2 c) (SCInv_fence _ _ _ o HS3) RB (or_intror (or_introl eq_refl))) as (q' & e' & v5 & Hq' & Ee' & DR5 & HS5).
  rewrite Hq in Hq'. inversion Hq'; subst q'. rewrite Ee in Ee'. inversion Ee'; subst e'. clear Hq' Ee'.
  unfold r_step at 1. cbn [r_pc r4]. rewrite DR5, Z.eqb_refl.
  eexists _, _. split; [reflexivity|]. cbn [r_pc r_view r_cache r_cache_gen].
  split; [reflexivity|]. split; [exact HS5|]. left. split; [reflexivity|]. split; [|reflexivity].
  apply assemble_rec.
  - intros j Hj. apply Hall. apply (is_perm_all _ _ Hperm j Hj).
  - intros j x Hin. destruct (HA3 j x Hin) as [Hj ->]. apply (quiescent_cells _ L q e LI LI2 Hq Ee Ke j Hj).
Qed.

(* ------------------------------------------------------------------ every reachable state *)
Definition covers (n : nat) (L : list event) : Prop := forall l, watched n l -> exists p, latest l L = Some p.

Lemma latest_app_ge l L x p : latest l L = Some p -> exists p', latest l (L ++ x) = Some p' /\ p <= p'.
Proof.
  intros H. destruct (latest_spec _ _ _ H) as (e & Ee & El & _).
  apply (latest_exists l (L ++ x) p e (ev_app_l _ x _ _ Ee) El).
Qed.

Lemma covers_app n L x : covers n L -> covers n (L ++ x).
Proof. intros C l Hw. destruct (C l Hw) as (p & Hp). destruct (latest_app_ge l L x p Hp) as (p' & Hp' & _). exists p'. exact Hp'. Qed.

Lemma covers_init n : covers n (init_log n).
Proof.
  intros l [->|[->|(i & -> & Hi)]].
  - destruct (latest_exists LVer (init_log n) 0 _ eq_refl eq_refl) as (p & Hp & _). exists p; exact Hp.
  - destruct (latest_exists LGen (init_log n) 1 _ eq_refl eq_refl) as (p & Hp & _). exists p; exact Hp.
  - assert (E : ev (init_log n) (S (S i)) = Some (mkev (LCell i) 0 0 0 KInit)).
    { unfold ev, init_log. cbn [nth_error]. apply (map_nth_error (fun i0 => mkev (LCell i0) 0 0 0 KInit)).
      rewrite (nth_error_nth' _ 0) by (rewrite seq_length; exact Hi). rewrite seq_nth by exact Hi. reflexivity. }
    destruct (latest_exists (LCell i) (init_log n) _ _ E eq_refl) as (p & Hp & _). exists p; exact Hp.
Qed.

Lemma SCInv_app n L x v : SCInv n L v -> SCInv n (L ++ x) v.
Proof.
  intros (A & B & C). unfold SCInv. rewrite app_length. split; [lia|]. split; [lia|].
  intros l Hw. destruct (C l Hw) as (p & Hp & Hle). destruct (latest_app_ge l L x p Hp) as (p' & Hp' & Hpp'). exists p'. split; [exact Hp' | lia].
Qed.

Lemma SCInv_new c L : covers (c_cells c) L -> SCInv (c_cells c) L (r_view (r_new c L)).
Proof.
  intros C. unfold r_new, SCInv. cbn [r_view cur acq]. split; [lia|]. split; [lia|].
  intros l Hw. destruct (C l Hw) as (p & Hp). exists p. split; [exact Hp|].
  destruct l as [| |i]; cbn; try lia. destruct (nth_in_or_default i (repeat 0 (c_cells c)) 0) as [Hin|E0]; [apply repeat_spec in Hin; lia | rewrite E0; lia].
Qed.

Lemma do_read_scinv n L v l o ch x p v' : SCInv n L v -> rel_bounded L ->
  do_read L v l o ch = Some (x, p, v') -> SCInv n L v'.
Proof.
  intros (A & B & C) RB H. unfold do_read in H.
  destruct (match ch with Some i => Some i | None => latest l L end) as [i|]; [|discriminate].
  destruct (can_read L v l i) eqn:CR; [|discriminate].
  destruct (nth_error L i) as [e|] eqn:E; [|discriminate].
  inversion H; subst; clear H. pose proof (RB p e E) as Hr.
  unfold can_read in CR. rewrite E in CR. apply andb_true_iff in CR as [CR _]. apply andb_true_iff in CR as [El _]. apply loc_eqb_eq in El.
  assert (Hcur : cur (coh_set v l p) = cur v) by (destruct l; reflexivity).
  assert (Hacq : acq (coh_set v l p) = acq v) by (destruct l; reflexivity).
  split; [|split].
  - cbn [cur]. rewrite Hcur. destruct (is_acq o); lia.
  - cbn [acq]. rewrite Hacq. lia.
  - intros l' Hw'. destruct (C l' Hw') as (p' & Hl' & Hle'). exists p'. split; [exact Hl'|].
    replace (coh_get _ l') with (coh_get (coh_set v l p) l') by (destruct l'; reflexivity).
    destruct (coh_get_set v l p l') as [->|[-> ->]]; [exact Hle'|].
    destruct (latest_exists l L p e E El) as (p2 & Hp2 & Hle2). rewrite Hl' in Hp2. inversion Hp2. lia.
Qed.

Lemma r_step_scinv c L r ch r' it ret : SCInv (c_cells c) L (r_view r) -> rel_bounded L ->
  r_step c L r ch = Some (r', it, ret) -> SCInv (c_cells c) L (r_view r').
Proof.
  intros HS RB H. unfold r_step in H.
  destruct (r_pc r) as [| | g [|i todo] acc b | g acc b | g acc b].
  - destruct (do_read L (r_view r) LVer (c_r_ver c) ch) as [[[x p] v]|] eqn:D; [|discriminate].
    pose proof (do_read_scinv _ _ _ _ _ _ _ _ _ HS RB D). destruct (x =? 0)%Z; inversion H; subst; assumption.
  - destruct (do_read L (r_view r) LGen (c_r_g1 c) ch) as [[[x p] v]|] eqn:D; [|discriminate].
    pose proof (do_read_scinv _ _ _ _ _ _ _ _ _ HS RB D).
    destruct ((x =? 0)%Z || (x =? r_cache_gen r)%Z || Z.odd x); [inversion H; subst; assumption|].
    destruct (N.eqb (c_retries c) 0); inversion H; subst; assumption.
  - inversion H; subst. exact HS.
  - destruct (do_read L (r_view r) (LCell i) Rlx ch) as [[[x p] v]|] eqn:D; [|discriminate].
    pose proof (do_read_scinv _ _ _ _ _ _ _ _ _ HS RB D). inversion H; subst; assumption.
  - destruct (c_r_fence c) as [o|]; inversion H; subst; [apply SCInv_fence, HS | exact HS].
  - destruct (do_read L (r_view r) LGen (c_r_g2 c) ch) as [[[x p] v]|] eqn:D; [|discriminate].
    pose proof (do_read_scinv _ _ _ _ _ _ _ _ _ HS RB D).
    destruct (x =? g)%Z; [inversion H; subst; assumption|].
    destruct (N.eqb (N.pred b) 0); inversion H; subst; assumption.
Qed.

Record MInvF (c : cfg) (m : mstate) : Prop := {
  F_cfg : m_cfg m = c;
  F_w : WInv c (m_w m);
  F_w2 : WInv2 (m_w m);
  F_w3 : WInv3 (m_w m);
  F_cov : covers (c_cells c) (w_log (m_w m));
  F_rs : Forall (fun r => SCInv (c_cells c) (w_log (m_w m)) (r_view r)) (m_rs m);
  F_valid : m_rs m <> [] -> header_valid (w_log (m_w m)) = true;
  F_att : w_att (m_w m) <= m_nrec m
}.

Lemma covers_w_init c : covers (c_cells c) (w_log (w_init c)).
Proof. unfold w_init. cbn [w_log]. apply covers_app, covers_init. Qed.

Lemma MInvF_init c : MInvF c (m_init c).
Proof.
  constructor; cbn [m_init m_cfg m_w m_rs m_nrec].
  - reflexivity.
  - apply WInv_init.
  - apply WInv2_init.
  - apply WInv3_init.
  - apply covers_w_init.
  - constructor.
  - intros H. exfalso. apply H. reflexivity.
  - cbn. lia.
Qed.

(* no side condition on the number of publications: the generation may wrap *)
Theorem m_step_F c m t m' o : safe_cfg c = true -> MInvF c m -> real_token t -> m_step m t = (m', o) -> MInvF c m'.
Proof.
  intros Hs I Ht St. pose proof (F_cfg _ _ I) as Ec. pose proof (F_w _ _ I) as WI. pose proof (F_rs _ _ I) as RS.
  unfold m_step in St. rewrite Ec in St. destruct t as [| j ch | | | | v]; try contradiction.
  - set (starting := match w_pc (m_w m) with WIdle => true | _ => false end) in *.
    set (k := if starting then Datatypes.S (m_nrec m) else m_nrec m) in *.
    destruct (w_step c (m_w m) (recf (c_cells c) k) k) as [w' [it|]] eqn:W; inversion St; subst m' o; clear St; [|exact I].
    assert (Hk : w_pc (m_w m) = WIdle -> w_att (m_w m) < k /\ recf (c_cells c) k = recf (c_cells c) k).
    { intros E. unfold k, starting. rewrite E. pose proof (F_att _ _ I). split; [lia | reflexivity]. }
    destruct (w_step_log _ _ _ _ _ _ W) as (x & Ex).
    constructor; cbn [m_cfg m_w m_rs m_nrec].
    + reflexivity.
    + apply (w_step_inv c (m_w m) _ k w' (Some it) Hs WI Hk W).
    + apply (w_step_inv2 c (m_w m) _ k w' (Some it) WI (F_w2 _ _ I) (fun E => proj1 (Hk E)) W).
    + apply (w_step_inv3 c (m_w m) _ k w' (Some it) (F_w3 _ _ I) W).
    + rewrite Ex. apply covers_app, (F_cov _ _ I).
    + rewrite Ex. eapply Forall_impl; [|exact RS]. intros r A. apply SCInv_app, A.
    + intros NE. eapply w_step_valid; [apply (F_valid _ _ I NE) | exact W].
    + rewrite (w_step_att _ _ _ _ _ _ W). unfold k, starting. pose proof (F_att _ _ I). destruct (w_pc (m_w m)); lia.
  - destruct (nth_error (m_rs m) j) as [r|] eqn:Er; [|inversion St; subst; exact I].
    destruct (r_step c (w_log (m_w m)) r ch) as [[[r' it] ret]|] eqn:R; inversion St; subst m' o; clear St; [|exact I].
    assert (Hr : SCInv (c_cells c) (w_log (m_w m)) (r_view r)).
    { rewrite Forall_forall in RS. apply RS. eapply nth_error_In; eauto. }
    pose proof (r_step_scinv c _ r ch r' it ret Hr (W_rel_le _ _ WI) R) as Hr'.
    constructor; cbn [m_cfg m_w m_rs m_nrec]; try (apply I); auto.
    + apply Forall_replace_nth; auto.
    + intros NE. apply (F_valid _ _ I). intros E. rewrite E in Er. destruct j; discriminate.
  - destruct (w_pc (m_w m)) eqn:PC; inversion St; subst m' o; clear St; try exact I;
      (constructor; cbn [m_cfg m_w m_rs m_nrec w_crash w_log w_att]; try (apply I); auto;
       [apply WInv_crash, WI | apply WInv2_crash, I | apply WInv3_crash, I]).
  - destruct (w_pc (m_w m)) eqn:PC; inversion St; subst m' o; clear St; try exact I.
    constructor; cbn [m_cfg m_w m_rs m_nrec].
    + reflexivity.
    + apply WInv_restart, WI.
    + apply WInv2_restart; [exact WI | apply I].
    + apply WInv3_restart, I.
    + destruct (header_valid (w_log (m_w m))) eqn:HV.
      * destruct (w_restart_valid c (m_w m) HV) as (El & _). rewrite El. apply covers_app, I.
      * unfold w_restart. rewrite HV. apply covers_w_init.
    + destruct (header_valid (w_log (m_w m))) eqn:HV.
      * destruct (w_restart_valid c (m_w m) HV) as (El & _). rewrite El.
        eapply Forall_impl; [|exact RS]. intros r A. apply SCInv_app, A.
      * destruct (m_rs m) as [|r0 rs] eqn:Ers; [constructor|].
        exfalso. assert (NE : m_rs m <> []) by (rewrite Ers; discriminate). pose proof (F_valid _ _ I NE). congruence.
    + intros NE. pose proof (F_valid _ _ I NE) as HV. apply (w_restart_valid c (m_w m) HV).
    + unfold w_restart. destruct (header_valid (w_log (m_w m))); cbn [w_att]; [apply (F_att _ _ I) | lia].
  - destruct (header_valid (w_log (m_w m))) eqn:HV; inversion St; subst m' o; clear St; [|exact I].
    constructor; cbn [m_cfg m_w m_rs m_nrec]; try (apply I); auto.
    + apply Forall_app. split; [exact RS|]. constructor; [|constructor]. apply SCInv_new, I.
Qed.

Theorem m_run_F c : safe_cfg c = true -> forall ts m m' o, MInvF c m -> Forall real_token ts ->
  m_run m ts = (m', o) -> MInvF c m'.
Proof.
  intros Hs. induction ts as [|t ts IH]; intros m m' o I Ht R; cbn [m_run] in R.
  - inversion R; subst. exact I.
  - destruct (m_step m t) as [m1 o1] eqn:S1. destruct (m_run m1 ts) as [m2 o2] eqn:R2. inversion R; subst m' o; clear R.
    inversion Ht as [|? ? Ht1 Ht2]; subst. apply (IH m1 m2 o2 (m_step_F c m t m1 o1 Hs I Ht1 S1) Ht2 R2).
Qed.

(* ------------------------------------------------------------------ the call inside a run *)
Definition is_access (x : obs) : Prop := match x with OAccess _ _ => True | _ => False end.

Lemma sc_run_machine c j : forall fuel m r ret r', m_cfg m = c -> nth_error (m_rs m) j = Some r ->
  sc_run c (w_log (m_w m)) r fuel = Some (ret, r') ->
  exists k m' pre, k <= fuel /\ m_run m (repeat (TR j None) k) = (m', pre ++ [ORet j ret (r_cache r')]) /\
    Forall is_access pre /\ nth_error (m_rs m') j = Some r' /\ m_w m' = m_w m /\ m_nrec m' = m_nrec m.
Proof.
  induction fuel as [|f IH]; intros m r ret r' Ec Er H; [discriminate|]. cbn [sc_run] in H.
  destruct (r_step c (w_log (m_w m)) r None) as [[[r1 it] [ret1|]]|] eqn:R; [| |discriminate].
  - inversion H; subst ret1 r1; clear H.
    exists 1, (mkm (m_w m) (replace_nth (m_rs m) j r') (m_nrec m) c), (match it with Some it => [OAccess (S j) it] | None => [] end).
    split; [lia|]. split; [|split; [|split; [|split; reflexivity]]].
    + cbn [repeat m_run]. unfold m_step. rewrite Ec, Er, R. rewrite app_nil_r. reflexivity.
    + destruct it; repeat constructor.
    + cbn [m_rs]. rewrite nth_error_replace_nth, Nat.eqb_refl, Er. reflexivity.
  - set (m1 := mkm (m_w m) (replace_nth (m_rs m) j r1) (m_nrec m) c).
    assert (Er1 : nth_error (m_rs m1) j = Some r1) by (cbn [m1 m_rs]; rewrite nth_error_replace_nth, Nat.eqb_refl, Er; reflexivity).
    destruct (IH m1 r1 ret r' eq_refl Er1 H) as (k & m' & pre & Hk & Hrun & Hpre & Er' & Ew & En).
    exists (S k), m', ((match it with Some it => [OAccess (S j) it] | None => [] end) ++ pre).
    split; [lia|]. split; [|split; [|split; [exact Er' | split; [exact Ew | exact En]]]].
    + cbn [repeat m_run]. unfold m_step at 1. rewrite Ec, Er, R. fold m1. rewrite Hrun. rewrite app_nil_r, app_assoc. reflexivity.
    + apply Forall_app. split; [destruct it; repeat constructor | exact Hpre].
Qed.

Lemma header_valid_ver L : header_valid L = true -> latest_val LVer L <> 0%Z.
Proof. unfold header_valid. intros H. apply andb_true_iff in H as [H _]. apply negb_true_iff in H. apply Z.eqb_neq, H. Qed.

(* the latest even store belongs to the most recently completed write() call *)
Lemma latest_even_is_newest n L q e : LogInv n L -> latest LGen L = Some q -> ev L q = Some e ->
  forall p f, ev L p = Some f -> e_kind f = KEven -> e_att f <= e_att e.
Proof.
  intros LI HL E p f Ef Kf. destruct (latest_spec _ _ _ HL) as (e' & Ee' & _ & M). 
  pose proof (L_kind_gen _ _ LI p f Ef (or_intror Kf)) as Lf. specialize (M p f Ef Lf).
  apply (L_att_mono _ _ LI p q f e Ef E M).
Qed.

(* C03, second sentence, for every reachable state of the machine (any schedule, any legal read
   choices, crashes, restarts, readers attached at any time, any number of publications - the
   16-bit wrap included): if no update is in flight (the latest generation event is the even store
   of write() call [e_att e], which is then the newest completed one) and reader j is between
   calls, then a call of reader j executed now - sequentially consistently, the writer doing
   nothing meanwhile - returns after at most cells + 4 accesses, and returns the record of that
   call; the cache is served only if the live generation equals the cached one. *)
Theorem fresh_machine c ts m o j r q e : safe_cfg c = true -> (0 < c_retries c)%N ->
  Forall real_token ts -> m_run (m_init c) ts = (m, o) ->
  nth_error (m_rs m) j = Some r -> r_pc r = RIdle ->
  latest LGen (w_log (m_w m)) = Some q -> ev (w_log (m_w m)) q = Some e -> e_kind e = KEven ->
  exists k m' pre ret r', k <= c_cells c + 4 /\
    m_run m (repeat (TR j None) k) = (m', pre ++ [ORet j ret (r_cache r')]) /\ Forall is_access pre /\
    nth_error (m_rs m') j = Some r' /\ r_pc r' = RIdle /\ m_w m' = m_w m /\
    ((ret = RetFresh /\ r_cache r' = recf (c_cells c) (e_att e) /\ r_cache_gen r' = e_val e) \/
     (ret = RetCache /\ r_cache r' = r_cache r /\ e_val e = r_cache_gen r)).
Proof.
  intros Hs Hret Hts R Er Hpc Hq Ee Ke.
  pose proof (m_run_F c Hs ts (m_init c) m o (MInvF_init c) Hts R) as I.
  pose proof (F_w _ _ I) as WI.
  assert (HS : SCInv (c_cells c) (w_log (m_w m)) (r_view r)).
  { pose proof (F_rs _ _ I) as RS. rewrite Forall_forall in RS. apply RS. eapply nth_error_In; eauto. }
  assert (NE : m_rs m <> []) by (intros E; rewrite E in Er; destruct j; discriminate).
  pose proof (header_valid_ver _ (F_valid _ _ I NE)) as Hver.
  destruct (fresh_call c (w_log (m_w m)) r q e Hs Hret (W_log _ _ WI) (W2_log _ (F_w2 _ _ I)) (W3_log _ (F_w3 _ _ I))
              (W_rel_le _ _ WI) HS Hpc Hver Hq Ee Ke) as (ret & r' & Hrun & Hpc' & _ & Hres).
  destruct (sc_run_machine c j _ m r ret r' (F_cfg _ _ I) Er Hrun) as (k & m' & pre & Hk & Hm & Hpre & Er' & Ew & _).
  exists k, m', pre, ret, r'. repeat (split; [assumption|]).
  destruct Hres as [(A & B & C)|(A & B & _ & D)]; [left | right]; auto.
Qed.

(* ------------------------------------------------------------------ the exception, exactly *)
(* the generation cached with the record is the value of the even store the record was accepted
   from (needs the release/acquire invariants, hence the window condition on the history) *)
Definition GenTagInv (c : cfg) (L : list event) (r : rst) : Prop :=
  (r_cache_gen r = 0%Z /\ r_cache r = repeat 0%Z (c_cells c)) \/
  exists q e, ev L q = Some e /\ e_kind e = KEven /\ e_val e = r_cache_gen r /\ r_cache r = recf (c_cells c) (e_att e).

Lemma GenTagInv_new c L : GenTagInv c L (r_new c L).
Proof. left. split; reflexivity. Qed.

Lemma GenTagInv_app c L x r : GenTagInv c L r -> GenTagInv c (L ++ x) r.
Proof. intros [H|(q & e & E & R)]; [left; exact H|]. right. exists q, e. split; [apply ev_app_l; exact E | exact R]. Qed.

Lemma tag_step c L r ch r' it ret : safe_cfg c = true -> LogInv (c_cells c) L -> GenCyc L -> window_ok L r ->
  RInv c L r -> GenTagInv c L r -> r_step c L r ch = Some (r', it, ret) -> GenTagInv c L r'.
Proof.
  intros Hs LI GC Hw RI TI S. destruct (r_step_cache c L r ch r' it ret S) as [[-> _]|(_ & Ec & Eg)].
  - destruct (r_step_accept_pos c L r ch r' it Hs LI GC Hw RI S) as (e & E & _ & K & _ & Hc & _ & Hg & _).
    right. exists (r_g1pos r), e. auto.
  - destruct TI as [[A B]|(q & e & E & K & V & C)]; [left; rewrite Ec, Eg; auto|].
    right. exists q, e. rewrite Ec, Eg. auto.
Qed.

Record MInv3 (c : cfg) (m : mstate) : Prop := {
  M3_inv : MInv c m;
  M3_tag : Forall (GenTagInv c (w_log (m_w m))) (m_rs m)
}.

Lemma MInv3_init c : MInv3 c (m_init c).
Proof. constructor; [apply MInv_init | constructor]. Qed.

Theorem m_step_tag_win c m t m' o : safe_cfg c = true -> MInv3 c m -> real_token t ->
  m_step m t = (m', o) -> Forall (window_ok (w_log (m_w m))) (m_rs m) -> MInv3 c m'.
Proof.
  intros Hs [I TG] Ht St Hwin.
  destruct (m_step_inv_win c m t m' o Hs I Ht St Hwin) as (I' & _).
  constructor; [exact I'|].
  pose proof (M_cfg _ _ I) as Ec. pose proof (M_w _ _ I) as WI. pose proof (M_rs _ _ I) as RS.
  unfold m_step in St. rewrite Ec in St. destruct t as [| j ch | | | | v]; try contradiction.
  - destruct (w_step c (m_w m) _ _) as [w' [it|]] eqn:W; inversion St; subst m' o; clear St; [|exact TG].
    destruct (w_step_log _ _ _ _ _ _ W) as (x & Ex). cbn [m_w m_rs]. rewrite Ex.
    eapply Forall_impl; [|exact TG]. intros r. apply GenTagInv_app.
  - destruct (nth_error (m_rs m) j) as [r|] eqn:Er; [|inversion St; subst; exact TG].
    destruct (r_step c (w_log (m_w m)) r ch) as [[[r' it] ret]|] eqn:R; inversion St; subst m' o; clear St; [|exact TG].
    cbn [m_w m_rs]. apply Forall_replace_nth; [exact TG|].
    assert (Hw : window_ok (w_log (m_w m)) r) by (rewrite Forall_forall in Hwin; apply Hwin; eapply nth_error_In; eauto).
    assert (Hr : RInv c (w_log (m_w m)) r) by (rewrite Forall_forall in RS; apply RS; eapply nth_error_In; eauto).
    assert (Ht' : GenTagInv c (w_log (m_w m)) r) by (rewrite Forall_forall in TG; apply TG; eapply nth_error_In; eauto).
    apply (tag_step c _ r ch r' it ret Hs (W_log _ _ WI) (W4_log _ (M_gen _ _ I)) Hw Hr Ht' R).
  - destruct (w_pc (m_w m)); inversion St; subst m' o; exact TG.
  - destruct (w_pc (m_w m)) eqn:PC; inversion St; subst m' o; clear St; try exact TG.
    cbn [m_w m_rs]. destruct (header_valid (w_log (m_w m))) eqn:HV.
    + destruct (w_restart_valid c (m_w m) HV) as (El & _). rewrite El. eapply Forall_impl; [|exact TG]. intros r. apply GenTagInv_app.
    + destruct (m_rs m) as [|r0 rs] eqn:Ers; [constructor|].
      exfalso. assert (NE : m_rs m <> []) by (rewrite Ers; discriminate). pose proof (M_valid _ _ I NE). congruence.
  - destruct (header_valid (w_log (m_w m))) eqn:HV; inversion St; subst m' o; clear St; [|exact TG].
    cbn [m_w m_rs]. apply Forall_app. split; [exact TG|]. constructor; [apply GenTagInv_new | constructor].
Qed.

Theorem m_run_tag_win c : safe_cfg c = true -> forall ts m m' o, MInv3 c m -> Forall real_token ts ->
  m_run m ts = (m', o) -> run_windows m ts -> MInv3 c m'.
Proof.
  intros Hs. induction ts as [|t ts IH]; intros m m' o I Hts R Hw; cbn [m_run] in R.
  - inversion R; subst. exact I.
  - destruct (m_step m t) as [m1 o1] eqn:S1. destruct (m_run m1 ts) as [m2 o2] eqn:R2. inversion R; subst m' o; clear R.
    inversion Hts as [|? ? Ht1 Ht2]; subst. cbn [run_windows] in Hw. rewrite S1 in Hw. cbn [fst] in Hw. destruct Hw as [Hw0 Hw1].
    apply (IH m1 m2 o2 (m_step_tag_win c m t m1 o1 Hs I Ht1 S1 Hw0) Ht2 R2 Hw1).
Qed.

(* C03, second sentence, with the documented exception stated exactly.  The history may be of any
   length (window condition as in C02_RA_window).  The call returns the newest completed
   publication - freshly read, or from the cache when the cache already holds it - unless the
   record in the cache was accepted from an even store that lies a positive multiple of 32767
   publications before the newest one. *)
Theorem fresh_machine_exact c ts m o j r q e : safe_cfg c = true -> (0 < c_retries c)%N ->
  Forall real_token ts -> m_run (m_init c) ts = (m, o) -> run_windows (m_init c) ts ->
  nth_error (m_rs m) j = Some r -> r_pc r = RIdle ->
  latest LGen (w_log (m_w m)) = Some q -> ev (w_log (m_w m)) q = Some e -> e_kind e = KEven ->
  exists k m' pre ret r', k <= c_cells c + 4 /\
    m_run m (repeat (TR j None) k) = (m', pre ++ [ORet j ret (r_cache r')]) /\ Forall is_access pre /\
    nth_error (m_rs m') j = Some r' /\ r_pc r' = RIdle /\ m_w m' = m_w m /\
    (r_cache r' = recf (c_cells c) (e_att e) \/
     (ret = RetCache /\ r_cache r' = r_cache r /\
      exists q' e' d, ev (w_log (m_w m)) q' = Some e' /\ e_kind e' = KEven /\ r_cache r = recf (c_cells c) (e_att e') /\
        (0 < d)%Z /\ Z.of_nat (evens_upto (w_log (m_w m)) q) = (Z.of_nat (evens_upto (w_log (m_w m)) q') + 32767 * d)%Z)).
Proof.
  intros Hs Hret Hts R Hw Er Hpc Hq Ee Ke.
  destruct (fresh_machine c ts m o j r q e Hs Hret Hts R Er Hpc Hq Ee Ke) as (k & m' & pre & ret & r' & Hk & Hrun & Hpre & Er' & Hpc' & Ew & Hres).
  exists k, m', pre, ret, r'. repeat (split; [assumption|]).
  destruct Hres as [(_ & Hc & _)|(Hrc & Hc & Hg)]; [left; exact Hc|].
  pose proof (m_run_tag_win c Hs ts (m_init c) m o (MInv3_init c) Hts R Hw) as I3.
  pose proof (M3_inv _ _ I3) as I. pose proof (M_w _ _ I) as WI. pose proof (W_log _ _ WI) as LI.
  pose proof (W4_log _ (M_gen _ _ I)) as GC.
  assert (TI : GenTagInv c (w_log (m_w m)) r).
  { pose proof (M3_tag _ _ I3) as TG. rewrite Forall_forall in TG. apply TG. eapply nth_error_In; eauto. }
  set (L := w_log (m_w m)) in *.
  pose proof (GC_even _ GC q e Ee Ke) as Ve. pose proof (evens_upto_pos L q e Ee Ke) as Kq.
  destruct TI as [[Hz _]|(q' & e' & Ee' & Ke' & Ve' & Hc')].
  - exfalso. rewrite Hz in Hg. rewrite Ve in Hg. destruct (gv_pos (evens_upto L q) ltac:(lia)) as (_ & NZ & _). congruence.
  - pose proof (GC_even _ GC q' e' Ee' Ke') as Vg'. pose proof (evens_upto_pos L q' e' Ee' Ke') as Kq'.
    destruct (latest_spec _ _ _ Hq) as (e0 & Ee0 & _ & Mq). 
    pose proof (L_kind_gen _ _ LI q' e' Ee' (or_intror Ke')) as Lg'. pose proof (Mq q' e' Ee' Lg') as Hqq.
    destruct (Nat.eq_dec q' q) as [->|Hne].
    + left. rewrite Hc, Hc'. rewrite Ee in Ee'. inversion Ee'. reflexivity.
    + right. split; [exact Hrc|]. split; [exact Hc|].
      assert (Hlt : q' < q) by lia. pose proof (evens_upto_even_strict L q' q e Hlt Ee Ke) as Hst.
      assert (Hgv : gv (evens_upto L q') = gv (evens_upto L q)) by congruence.
      assert (H1 : 0 < evens_upto L q') by lia. assert (H2 : evens_upto L q' <= evens_upto L q) by lia.
      destruct (gv_eq_multiple _ _ H1 H2 Hgv) as (d & Hd & Hmul).
      exists q', e', d. split; [exact Ee'|]. split; [exact Ke'|]. split; [exact Hc'|]. split; [|exact Hmul]. clear - Hst Hmul Hd. lia.
Qed.

End Gen.
