(* C03, first half: the records one reader obtains over time follow publication order, for every
   schedule and every release/acquire-legal choice of the events its loads return. *)
From Coq Require Import ZArith List Bool Arith NArith Lia.
From CB Require Import GenCyc Gen GenProofs Machine MachineFacts SeqlockInv SeqlockRA.
Import ListNotations.
Open Scope nat_scope.

(* publication order is observed through the records: this file is about the instance [rec_of],
   whose records are pairwise different *)
#[local] Existing Instance std_rec.

(* publication number carried by a record: 0 for the empty record *)
Definition idx_of (rec : list Z) : nat := Z.to_nat (nth 0 rec 0%Z / 1000).

Lemma rec_of_nth n a i : i < n -> nth i (rec_of n a) 0%Z = (if Nat.eqb i 6 then Z.of_nat a mod 3 else 1000 * Z.of_nat a + Z.of_nat i)%Z.
Proof.
  intros Hi. unfold rec_of.
  set (f := fun i0 : nat => (if Nat.eqb i0 6 then Z.of_nat a mod 3 else 1000 * Z.of_nat a + Z.of_nat i0)%Z).
  rewrite (nth_indep _ 0%Z (f 0)) by (rewrite map_length, seq_length; exact Hi).
  rewrite map_nth, seq_nth by exact Hi. reflexivity.
Qed.

Lemma idx_of_rec n a : 0 < n -> idx_of (rec_of n a) = a.
Proof.
  intros Hn. unfold idx_of. rewrite rec_of_nth by exact Hn. cbn [Nat.eqb].
  replace (1000 * Z.of_nat a + Z.of_nat 0)%Z with (Z.of_nat a * 1000)%Z by lia.
  rewrite Z.div_mul by lia. apply Nat2Z.id.
Qed.

Lemma idx_of_zeros n : idx_of (repeat 0%Z n) = 0.
Proof. unfold idx_of. destruct n; reflexivity. Qed.

(* where the cached record comes from, and that the reader cannot look behind it any more *)
Definition MonoInv (c : cfg) (L : list event) (r : rst) : Prop :=
  r_cache r = repeat 0%Z (c_cells c) \/
  exists q e, ev L q = Some e /\ e_loc e = LGen /\ 0 < e_att e /\ r_cache r = rec_of (c_cells c) (e_att e) /\
              q <= coh_gen (r_view r) /\ (in_iteration (r_pc r) = true -> q <= r_g1pos r).

Lemma MonoInv_new c L : MonoInv c L (r_new c L).
Proof. left. reflexivity. Qed.

Lemma MonoInv_app c L x r : MonoInv c L r -> MonoInv c (L ++ x) r.
Proof.
  intros [H|(q & e & E & R)]; [left; exact H|]. right. exists q, e. split; [apply ev_app_l; exact E | exact R].
Qed.

(* one reader step: the invariant is kept and the publication number of the cache does not decrease *)
Theorem mono_step c L r ch r' it ret : safe_cfg c = true -> LogInv (c_cells c) L -> GenCyc L -> window_ok L r ->
  RInv c L r -> MonoInv c L r -> r_step c L r ch = Some (r', it, ret) ->
  MonoInv c L r' /\ idx_of (r_cache r) <= idx_of (r_cache r').
Proof.
  intros Hs LI GC Hw RI MI S. destruct (safe_parts c Hs) as (_ & _ & _ & _ & Af & _ & _ & Hn).
  destruct ret as [[| |]|] eqn:Eret.
  - (* cache served *)
    destruct (r_step_cache c L r ch r' it _ S) as [[H _]|(_ & Ec & _)]; [discriminate|].
    rewrite Ec. split; [|lia].
    assert (PC' : r_pc r' = RIdle /\ coh_gen (r_view r) <= coh_gen (r_view r')).
    { unfold r_step in S. destruct (r_pc r) as [| | g todo acc b | g acc b | g acc b].
      - destruct (do_read L (r_view r) LVer (c_r_ver c) ch) as [[[ver p] v]|] eqn:D; [|discriminate].
        apply do_read_spec in D as (e & _ & _ & _ & _ & _ & _ & _ & Cg).
        destruct (ver =? 0)%Z; inversion S; subst; cbn; split; auto; lia.
      - destruct (do_read L (r_view r) LGen (c_r_g1 c) ch) as [[[g p] v]|] eqn:D; [|discriminate].
        apply do_read_spec in D as (e & _ & _ & _ & _ & Co & _ & _ & Cg). cbn in Co.
        destruct ((g =? 0)%Z || (g =? r_cache_gen r)%Z || Z.odd g)%bool; [inversion S; subst; cbn; split; auto; lia|].
        destruct (N.eqb (c_retries c) 0); inversion S.
      - destruct todo as [|i todo]; [inversion S|]. destruct (do_read L (r_view r) (LCell i) Rlx ch) as [[[x p] v]|]; [|discriminate].
        destruct todo; inversion S.
      - destruct (c_r_fence c); inversion S.
      - destruct (do_read L (r_view r) LGen (c_r_g2 c) ch) as [[[g2 p] v]|]; [|discriminate].
        destruct (g2 =? g)%Z; [inversion S|]. destruct (N.eqb (N.pred b) 0); inversion S. }
    destruct PC' as [PC' Hcoh]. destruct MI as [Hz|(q & e & E & El & A & Hc & Hq & _)]; [left; rewrite Ec; exact Hz|].
    right. exists q, e. rewrite Ec, PC'. repeat split; auto; try lia. discriminate.
  - (* fresh record accepted *)
    destruct (r_step_accept_pos c L r ch r' it Hs LI GC Hw RI S) as (e1 & E1 & El1 & K1 & A1 & Hc1 & Hco1 & _).
    assert (PC' : r_pc r' = RIdle).
    { destruct (accept_needs_equal_even c L r ch r' it S) as (g & acc & b & v & p & PC & D).
      unfold r_step in S. rewrite PC, D, Z.eqb_refl in S. inversion S. reflexivity. }
    split.
    + right. exists (r_g1pos r), e1. rewrite PC'. repeat split; auto. discriminate.
    + rewrite Hc1, idx_of_rec by exact Hn.
      destruct MI as [Hz|(q & e & E & El & A & Hc & Hq & Hg)]; [rewrite Hz, idx_of_zeros; lia|].
      rewrite Hc, idx_of_rec by exact Hn.
      destruct (accept_needs_equal_even c L r ch r' it S) as (g & acc & b & v & p & PC & _).
      assert (Hqg : q <= r_g1pos r) by (apply Hg; rewrite PC; reflexivity).
      apply (L_att_mono _ _ LI q (r_g1pos r) e e1 E E1 Hqg).
  - (* error: budget exhausted *)
    destruct (r_step_cache c L r ch r' it _ S) as [[H _]|(_ & Ec & _)]; [discriminate|].
    rewrite Ec. split; [|lia].
    assert (PC' : r_pc r' = RIdle /\ coh_gen (r_view r) <= coh_gen (r_view r')).
    { unfold r_step in S. destruct (r_pc r) as [| | g todo acc b | g acc b | g acc b].
      - destruct (do_read L (r_view r) LVer (c_r_ver c) ch) as [[[ver p] v]|]; [|discriminate]. destruct (ver =? 0)%Z; inversion S.
      - destruct (do_read L (r_view r) LGen (c_r_g1 c) ch) as [[[g p] v]|] eqn:D; [|discriminate].
        apply do_read_spec in D as (e & _ & _ & _ & _ & Co & _ & _ & Cg). cbn in Co.
        destruct ((g =? 0)%Z || (g =? r_cache_gen r)%Z || Z.odd g)%bool; [inversion S|].
        destruct (N.eqb (c_retries c) 0); inversion S; subst; cbn; split; auto; lia.
      - destruct todo as [|i todo]; [inversion S|]. destruct (do_read L (r_view r) (LCell i) Rlx ch) as [[[x p] v]|]; [|discriminate].
        destruct todo; inversion S.
      - destruct (c_r_fence c); inversion S.
      - destruct (do_read L (r_view r) LGen (c_r_g2 c) ch) as [[[g2 p] v]|] eqn:D; [|discriminate].
        apply do_read_spec in D as (e & _ & _ & _ & _ & Co & _ & _ & Cg). cbn in Co.
        destruct (g2 =? g)%Z; [inversion S|]. destruct (N.eqb (N.pred b) 0); inversion S; subst; cbn; split; auto; lia. }
    destruct PC' as [PC' Hcoh]. destruct MI as [Hz|(q & e & E & El & A & Hc & Hq & _)]; [left; rewrite Ec; exact Hz|].
    right. exists q, e. rewrite Ec, PC'. repeat split; auto; try lia. discriminate.
  - (* the call goes on *)
    destruct (r_step_cache c L r ch r' it _ S) as [[H _]|(_ & Ec & _)]; [discriminate|].
    rewrite Ec. split; [|lia].
    destruct MI as [Hz|(q & e & E & El & A & Hc & Hq & Hg)]; [left; rewrite Ec; exact Hz|].
    right. exists q, e. rewrite Ec. split; [exact E|]. split; [exact El|]. split; [exact A|]. split; [exact Hc|].
    unfold r_step in S. destruct (r_pc r) as [| | g todo acc b | g acc b | g acc b] eqn:PC.
    + destruct (do_read L (r_view r) LVer (c_r_ver c) ch) as [[[ver p] v]|] eqn:D; [|discriminate].
      apply do_read_spec in D as (e0 & _ & _ & _ & _ & _ & _ & _ & Cg).
      destruct (ver =? 0)%Z; inversion S; subst; cbn [r_view r_pc r_g1pos in_iteration]. split; [lia | discriminate].
    + destruct (do_read L (r_view r) LGen (c_r_g1 c) ch) as [[[g p] v]|] eqn:D; [|discriminate].
      apply do_read_spec in D as (e0 & _ & _ & _ & _ & Co & _ & _ & Cg). cbn in Co.
      destruct ((g =? 0)%Z || (g =? r_cache_gen r)%Z || Z.odd g)%bool; [inversion S|].
      destruct (N.eqb (c_retries c) 0); inversion S; subst; cbn [r_view r_pc r_g1pos in_iteration]. split; [lia | intros _; lia].
    + destruct todo as [|i todo].
      * inversion S; subst; cbn [r_view r_pc r_g1pos]. split; [exact Hq|]. intros _. apply Hg. reflexivity.
      * destruct (do_read L (r_view r) (LCell i) Rlx ch) as [[[x p] v]|] eqn:D; [|discriminate].
        apply do_read_spec in D as (e0 & _ & _ & _ & _ & _ & _ & _ & Cg).
        inversion S; subst; cbn [r_view r_pc r_g1pos]. split; [lia|]. intros _. apply Hg. reflexivity.
    + destruct (c_r_fence c) as [o|]; inversion S; subst; cbn [r_view r_pc r_g1pos];
        (split; [unfold r_fence; try destruct (is_acq o); cbn; exact Hq | intros _; apply Hg; reflexivity]).
    + destruct (do_read L (r_view r) LGen (c_r_g2 c) ch) as [[[g2 p] v]|] eqn:D; [|discriminate].
      apply do_read_spec in D as (e0 & _ & _ & _ & _ & Co & _ & _ & Cg). cbn in Co.
      destruct (g2 =? g)%Z; [inversion S|]. destruct (N.eqb (N.pred b) 0); inversion S; subst; cbn [r_view r_pc r_g1pos in_iteration].
      split; [lia|]. intros _. specialize (Hg eq_refl). destruct (Z.even g2); lia.
Qed.

(* ------------------------------------------------------------------ whole-system runs *)
Definition upd (lb : nat -> nat) (j v : nat) : nat -> nat := fun k => if Nat.eqb k j then v else lb k.

Fixpoint sorted_from (lb : nat -> nat) (o : list obs) : Prop :=
  match o with
  | [] => True
  | ORet j _ rec :: o' => lb j <= idx_of rec /\ sorted_from (upd lb j (idx_of rec)) o'
  | _ :: o' => sorted_from lb o'
  end.

Fixpoint apply_obs (lb : nat -> nat) (o : list obs) : nat -> nat :=
  match o with
  | [] => lb
  | ORet j _ rec :: o' => apply_obs (upd lb j (idx_of rec)) o'
  | _ :: o' => apply_obs lb o'
  end.

Lemma sorted_app lb o1 o2 : sorted_from lb o1 -> sorted_from (apply_obs lb o1) o2 -> sorted_from lb (o1 ++ o2).
Proof.
  revert lb. induction o1 as [|x o1 IH]; intros lb H1 H2; [exact H2|].
  destruct x; cbn [app sorted_from apply_obs] in *; auto. destruct H1 as [Ha Hb]. split; [exact Ha | apply IH; assumption].
Qed.

Lemma apply_obs_app lb o1 o2 : apply_obs lb (o1 ++ o2) = apply_obs (apply_obs lb o1) o2.
Proof. revert lb. induction o1 as [|x o1 IH]; intros lb; [reflexivity|]. destruct x; cbn [app apply_obs]; auto. Qed.

Lemma sorted_weaken lb lb' o : (forall k, lb' k <= lb k) -> sorted_from lb o -> sorted_from lb' o.
Proof.
  revert lb lb'. induction o as [|x o IH]; intros lb lb' Hle H; [exact I|].
  destruct x; cbn [sorted_from] in *; try (eapply IH; eauto; fail).
  destruct H as [Ha Hb]. split; [specialize (Hle j); lia|].
  eapply IH; [|exact Hb]. intros k. unfold upd. destruct (Nat.eqb k j); [lia | apply Hle].
Qed.

Lemma sorted_ge lb o j ret rec : sorted_from lb o -> In (ORet j ret rec) o -> lb j <= idx_of rec.
Proof.
  revert lb. induction o as [|x o IH]; intros lb H Hin; [destruct Hin|].
  destruct Hin as [->|Hin].
  - cbn in H. tauto.
  - destruct x; cbn [sorted_from] in H; try (apply IH; assumption).
    destruct H as [Ha Hb]. specialize (IH _ Hb Hin). unfold upd in IH. destruct (Nat.eqb_spec j j0); [subst; lia | exact IH].
Qed.

(* the readable form: a later return of the same reader never carries an older publication *)
Lemma sorted_pairs lb o1 j ret1 rec1 o2 ret2 rec2 o3 :
  sorted_from lb (o1 ++ ORet j ret1 rec1 :: o2 ++ ORet j ret2 rec2 :: o3) -> idx_of rec1 <= idx_of rec2.
Proof.
  revert lb. induction o1 as [|x o1 IH]; intros lb H.
  - cbn [app sorted_from] in H. destruct H as [_ H].
    pose proof (sorted_ge _ _ j ret2 rec2 H) as G. unfold upd in G. rewrite Nat.eqb_refl in G. apply G.
    apply in_or_app. right. left. reflexivity.
  - destruct x; cbn [app sorted_from] in H; try (eapply IH; eauto; fail). destruct H as [_ H]. eapply IH; eauto.
Qed.

Definition caches_ge (lb : nat -> nat) (m : mstate) : Prop :=
  (forall j r, nth_error (m_rs m) j = Some r -> lb j <= idx_of (r_cache r)) /\
  (forall j, length (m_rs m) <= j -> lb j = 0).

Record MInv2 (c : cfg) (m : mstate) : Prop := {
  M2_inv : MInv c m;
  M2_mono : Forall (MonoInv c (w_log (m_w m))) (m_rs m)
}.

Lemma MInv2_init c : MInv2 c (m_init c).
Proof. constructor; [apply MInv_init | constructor]. Qed.

Lemma nth_error_replace_nth {A} (l : list A) j x k :
  nth_error (replace_nth l j x) k = if Nat.eqb k j then (match nth_error l j with Some _ => Some x | None => None end) else nth_error l k.
Proof.
  revert j k. induction l as [|a l IH]; intros j k.
  - destruct j, k; cbn; try reflexivity. destruct (Nat.eqb k j); reflexivity.
  - destruct j as [|j], k as [|k]; cbn [replace_nth nth_error Nat.eqb]; try reflexivity. apply IH.
Qed.

Lemma replace_nth_length {A} (l : list A) j x : length (replace_nth l j x) = length l.
Proof. revert j. induction l as [|a l IH]; intros j; [destruct j; reflexivity|]. destruct j; cbn; auto. Qed.

Theorem m_step_mono_win c m t m' o : safe_cfg c = true -> MInv2 c m -> real_token t ->
  m_step m t = (m', o) -> Forall (window_ok (w_log (m_w m))) (m_rs m) ->
  MInv2 c m' /\ forall lb, caches_ge lb m -> sorted_from lb o /\ caches_ge (apply_obs lb o) m'.
Proof.
  intros Hs [I MO] Ht St Hwin.
  destruct (m_step_inv_win c m t m' o Hs I Ht St Hwin) as (I' & Hle & _).
  pose proof (M_cfg _ _ I) as Ec. pose proof (M_w _ _ I) as WI. pose proof (M_rs _ _ I) as RS.
  unfold m_step in St. rewrite Ec in St. destruct t as [| j ch | | | | v]; try contradiction.
  - (* writer step: readers untouched, log extended *)
    destruct (w_step c (m_w m) _ _) as [w' [it|]] eqn:W; inversion St; subst m' o; clear St.
    + destruct (w_step_log _ _ _ _ _ _ W) as (x & Ex). split.
      * constructor; [exact I'|]. cbn [m_w m_rs]. rewrite Ex. eapply Forall_impl; [|exact MO]. intros r. apply MonoInv_app.
      * intros lb G. split; [exact Logic.I | exact G].
    + split; [constructor; assumption|]. intros lb G. split; [exact Logic.I | exact G].
  - (* reader step *)
    destruct (nth_error (m_rs m) j) as [r|] eqn:Er.
    + destruct (r_step c (w_log (m_w m)) r ch) as [[[r' it] ret]|] eqn:R; inversion St; subst m' o; clear St.
      * pose proof (W4_log _ (M_gen _ _ I)) as GC.
        assert (Hw : window_ok (w_log (m_w m)) r) by (rewrite Forall_forall in Hwin; apply Hwin; eapply nth_error_In; eauto).
        assert (Hr : RInv c (w_log (m_w m)) r) by (rewrite Forall_forall in RS; apply RS; eapply nth_error_In; eauto).
        assert (Hm : MonoInv c (w_log (m_w m)) r) by (rewrite Forall_forall in MO; apply MO; eapply nth_error_In; eauto).
        destruct (mono_step c _ r ch r' it ret Hs (W_log _ _ WI) GC Hw Hr Hm R) as [Hm' Hidx].
        split.
        -- constructor; [exact I'|]. cbn [m_w m_rs]. apply Forall_replace_nth; assumption.
        -- intros lb [G1 G2].
           assert (Hlbj : lb j <= idx_of (r_cache r)) by (apply (G1 j r Er)).
           assert (Gen : forall lb', (forall k, k <> j -> lb' k = lb k) -> lb' j <= idx_of (r_cache r') ->
                                     caches_ge lb' (mkm (m_w m) (replace_nth (m_rs m) j r') (m_nrec m) c)).
           { intros lb' Hsame Hj. split; cbn [m_rs].
             - intros k rk Hk. rewrite nth_error_replace_nth in Hk. destruct (Nat.eqb_spec k j) as [->|Hne].
               + rewrite Er in Hk. inversion Hk; subst rk. exact Hj.
               + rewrite (Hsame k Hne). apply (G1 k rk Hk).
             - intros k Hk. rewrite replace_nth_length in Hk. assert (k <> j) by (apply nth_error_Some in Er || (intros ->; apply nth_error_None in Hk; congruence)).
               rewrite (Hsame k H). apply G2, Hk. }
           destruct it as [it0|]; destruct ret as [x|]; cbn [app sorted_from apply_obs].
           ++ split; [split; [lia | exact Logic.I]|]. apply Gen; unfold upd; [intros k Hk; destruct (Nat.eqb_spec k j); [contradiction | reflexivity] | rewrite Nat.eqb_refl; lia].
           ++ split; [exact Logic.I|]. apply Gen; [reflexivity | lia].
           ++ split; [split; [lia | exact Logic.I]|]. apply Gen; unfold upd; [intros k Hk; destruct (Nat.eqb_spec k j); [contradiction | reflexivity] | rewrite Nat.eqb_refl; lia].
           ++ split; [exact Logic.I|]. apply Gen; [reflexivity | lia].
      * split; [constructor; assumption|]. intros lb G. split; [exact Logic.I | exact G].
    + inversion St; subst m' o. split; [constructor; assumption|]. intros lb G. split; [exact Logic.I | exact G].
  - (* crash *)
    destruct (w_pc (m_w m)); inversion St; subst m' o; clear St;
      (split; [constructor; [exact I' | exact MO] | intros lb G; split; [exact Logic.I | exact G]]).
  - (* restart *)
    destruct (w_pc (m_w m)) eqn:PC; inversion St; subst m' o; clear St;
      try (split; [constructor; [exact I' | exact MO] | intros lb G; split; [exact Logic.I | exact G]]).
    split; [|intros lb G; split; [exact Logic.I | exact G]].
    constructor; [exact I'|]. cbn [m_w m_rs].
    destruct (header_valid (w_log (m_w m))) eqn:HV.
    + destruct (w_restart_valid c (m_w m) HV) as (El & _). rewrite El. eapply Forall_impl; [|exact MO]. intros r. apply MonoInv_app.
    + destruct (m_rs m) as [|r0 rs] eqn:Ers; [constructor|].
      exfalso. assert (NE : m_rs m <> []) by (rewrite Ers; discriminate). pose proof (M_valid _ _ I NE). congruence.
  - (* new reader *)
    destruct (header_valid (w_log (m_w m))) eqn:HV; inversion St; subst m' o; clear St.
    + split.
      * constructor; [exact I'|]. cbn [m_w m_rs]. apply Forall_app. split; [exact MO|]. constructor; [apply MonoInv_new | constructor].
      * intros lb [G1 G2]. split; [exact Logic.I|]. cbn [apply_obs]. split; cbn [m_rs].
        -- intros k rk Hk. destruct (Nat.lt_ge_cases k (length (m_rs m))) as [Hlt|Hge].
           ++ rewrite nth_error_app1 in Hk by exact Hlt. apply (G1 k rk Hk).
           ++ rewrite (G2 k Hge). lia.
        -- intros k Hk. rewrite app_length in Hk. cbn in Hk. apply G2. lia.
    + split; [constructor; assumption|]. intros lb G. split; [exact Logic.I | exact G].
Qed.

Theorem m_step_mono c m t m' o : safe_cfg c = true -> MInv2 c m -> real_token t ->
  m_step m t = (m', o) -> (Z.of_nat (m_nrec m') < 32767)%Z ->
  MInv2 c m' /\ forall lb, caches_ge lb m -> sorted_from lb o /\ caches_ge (apply_obs lb o) m'.
Proof.
  intros Hs I2 Ht St Hn. pose proof (m_step_nrec m t m' o St) as Hle.
  apply (m_step_mono_win c m t m' o Hs I2 Ht St). apply (windows_of_nowrap c m (M2_inv _ _ I2)). lia.
Qed.

Theorem m_run_mono_win c : safe_cfg c = true -> forall ts m m' o lb, MInv2 c m -> Forall real_token ts ->
  m_run m ts = (m', o) -> run_windows m ts -> caches_ge lb m ->
  sorted_from lb o.
Proof.
  intros Hs. induction ts as [|t ts IH]; intros m m' o lb I Hts R Hw G.
  - cbn in R. inversion R; subst. exact Logic.I.
  - cbn [m_run] in R. destruct (m_step m t) as [m1 o1] eqn:S1. destruct (m_run m1 ts) as [m2 o2] eqn:R2.
    inversion R; subst m' o; clear R. inversion Hts as [|? ? Ht Hts']; subst.
    cbn [run_windows] in Hw. rewrite S1 in Hw. cbn [fst] in Hw. destruct Hw as [Hw0 Hw1].
    destruct (m_step_mono_win c m t m1 o1 Hs I Ht S1 Hw0) as (I1 & Hstep).
    destruct (Hstep lb G) as [So1 G1].
    apply sorted_app; [exact So1|]. eapply IH; eauto.
Qed.

Theorem m_run_mono c : safe_cfg c = true -> forall ts m m' o lb, MInv2 c m -> Forall real_token ts ->
  m_run m ts = (m', o) -> (Z.of_nat (m_nrec m') < 32767)%Z -> caches_ge lb m ->
  sorted_from lb o.
Proof.
  intros Hs. induction ts as [|t ts IH]; intros m m' o lb I Hts R Hn G.
  - cbn in R. inversion R; subst. exact Logic.I.
  - cbn [m_run] in R. destruct (m_step m t) as [m1 o1] eqn:S1. destruct (m_run m1 ts) as [m2 o2] eqn:R2.
    inversion R; subst m' o; clear R. inversion Hts as [|? ? Ht Hts']; subst.
    assert (Hle : m_nrec m1 <= m_nrec m2).
    { clear - R2. revert m1 m2 o2 R2. induction ts as [|t0 ts0 IH0]; intros ma mb ob R0; cbn [m_run] in R0.
      - inversion R0; subst. lia.
      - destruct (m_step ma t0) as [mc oc] eqn:Sc. destruct (m_run mc ts0) as [md od] eqn:Rd. inversion R0; subst.
        specialize (IH0 _ _ _ Rd). assert (m_nrec ma <= m_nrec mc); [|lia].
        clear - Sc. unfold m_step in Sc. destruct t0 as [| j ch | | | | v].
        + destruct (w_step _ _ _ _) as [w' [it|]]; inversion Sc; subst; cbn; [destruct (w_pc (m_w ma)); lia | lia].
        + destruct (nth_error _ _); [destruct (r_step _ _ _ _) as [[[? ?] ?]|]|]; inversion Sc; subst; cbn; lia.
        + destruct (w_pc (m_w ma)); inversion Sc; subst; cbn; lia.
        + destruct (w_pc (m_w ma)); inversion Sc; subst; cbn; lia.
        + destruct (header_valid _); inversion Sc; subst; cbn; lia.
        + destruct (w_pc (m_w ma)); inversion Sc; subst; cbn; lia. }
    assert (Hn1 : (Z.of_nat (m_nrec m1) < 32767)%Z) by lia.
    destruct (m_step_mono c m t m1 o1 Hs I Ht S1 Hn1) as (I1 & Hstep).
    destruct (Hstep lb G) as [So1 G1].
    apply sorted_app; [exact So1|]. eapply IH; eauto.
Qed.
