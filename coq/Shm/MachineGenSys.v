(* The whole system (writer, any number of clients, deaths, restarts, new clients) over the standard
   view semantics of Shm/MachineGen.v, and the proof that its runs are the runs of the machine of
   Shm/Machine.v: same observations (every access, every value loaded, every record returned) for
   every schedule.  The theorems about the machine (C02_RA, C03_monotone_RA, ...) are thereby
   theorems about the executions of the standard release/acquire semantics. *)
From Coq Require Import ZArith List Bool Arith NArith Lia.
From CB Require Import Gen GenProofs Machine MachineFacts SeqlockInv GenCyc SeqlockRA SeqlockMono SeqlockFresh MachineGen.
Import ListNotations.
Open Scope nat_scope.

(* ------------------------------------------------------------------ the system, once *)
Section Sys.
Variable V : Type.
Variable rd : list event -> V -> loc -> ord -> option nat -> option (Z * nat * V).
Variable fc : V -> ord -> V.
Variable newv : nat -> list event -> V.     (* the view of a client that has just mapped the file *)
Context {RF : RecFun}.

Record gmstate := mkgm { gm_w : wst; gm_rs : list (grst V); gm_nrec : nat; gm_cfg : cfg }.

Definition g_new (c : cfg) (L : list event) : grst V :=
  mkgr (newv (c_cells c) L) RIdle (repeat 0%Z (c_cells c)) 0%Z 0 [].

Definition gm_step (m : gmstate) (t : token) : gmstate * list obs :=
  let c := gm_cfg m in
  match t with
  | TW =>
      let starting := match w_pc (gm_w m) with WIdle => true | _ => false end in
      let k := if starting then S (gm_nrec m) else gm_nrec m in
      match w_step c (gm_w m) (recf (c_cells c) k) k with
      | (w', Some it) => (mkgm w' (gm_rs m) k c, [OAccess 0 it])
      | (w', None) => (m, [OSkip])
      end
  | TR j choice =>
      match nth_error (gm_rs m) j with
      | None => (m, [OSkip])
      | Some r =>
          match gr_step rd fc c (w_log (gm_w m)) r choice with
          | None => (m, [OStuck])
          | Some (r', it, ret) =>
              let o1 := match it with Some it => [OAccess (S j) it] | None => [] end in
              let o2 := match ret with Some x => [ORet j x (g_cache r')] | None => [] end in
              (mkgm (gm_w m) (replace_nth (gm_rs m) j r') (gm_nrec m) c, o1 ++ o2)
          end
      end
  | TCrash =>
      match w_pc (gm_w m) with
      | WDead => (m, [OSkip])
      | _ => (mkgm (w_crash (gm_w m)) (gm_rs m) (gm_nrec m) c, [])
      end
  | TRestart =>
      match w_pc (gm_w m) with
      | WDead => (mkgm (w_restart c (gm_w m)) (gm_rs m) (gm_nrec m) c, [])
      | _ => (m, [OSkip])
      end
  | TJump v =>
      match w_pc (gm_w m) with
      | WIdle | WDead =>
          let w := gm_w m in
          (mkgm (mkw (w_push w LGen v Rel KEven (w_att w)) (w_relview w) (w_pc w) (w_att w) (w_rec w)) (gm_rs m) (gm_nrec m) c, [])
      | _ => (m, [OSkip])
      end
  | TNewReader =>
      if header_valid (w_log (gm_w m)) then (mkgm (gm_w m) (gm_rs m ++ [g_new c (w_log (gm_w m))]) (gm_nrec m) c, [])
      else (m, [OSkip])
  end.

Fixpoint gm_run (m : gmstate) (ts : list token) : gmstate * list obs :=
  match ts with
  | [] => (m, [])
  | t :: ts' => let '(m1, o1) := gm_step m t in let '(m2, o2) := gm_run m1 ts' in (m2, o1 ++ o2)
  end.

Definition gm_init (c : cfg) : gmstate := mkgm (w_init c) [] 0 c.
End Sys.

Arguments mkgm {V}. Arguments gm_w {V}. Arguments gm_rs {V}. Arguments gm_nrec {V}. Arguments gm_cfg {V}.
Arguments gm_step {V} rd fc newv {RF}. Arguments gm_run {V} rd fc newv {RF}. Arguments gm_init {V}. Arguments g_new {V}.

Definition newv_prefix (n : nat) (L : list event) : rview := mkv (length L) (length L) 0 0 (repeat 0 n).
Definition newv_std (n : nat) (L : list event) : gthread := mkg (prefix_view L (length L)) (prefix_view L (length L)).

Section Gen.
Context {RF : RecFun}.

(* ------------------------------------------------------------------ the machine is the instance at prefix views *)
Definition to_gm (m : mstate) : gmstate rview := mkgm (m_w m) (map to_g (m_rs m)) (m_nrec m) (m_cfg m).

Lemma replace_nth_map {A B} (f : A -> B) : forall (l : list A) j x, map f (replace_nth l j x) = replace_nth (map f l) j (f x).
Proof. induction l as [|h t IH]; intros [|j] x; cbn; try reflexivity. rewrite IH. reflexivity. Qed.

Lemma of_to_g r : of_g (to_g r) = r. Proof. destruct r; reflexivity. Qed.
Lemma to_of_g r : to_g (of_g r) = r. Proof. destruct r; reflexivity. Qed.

Theorem m_step_is_the_system m t :
  gm_step do_read r_fence newv_prefix (to_gm m) t = (to_gm (fst (m_step m t)), snd (m_step m t)).
Proof.
  unfold gm_step, m_step, to_gm. cbn [gm_w gm_rs gm_nrec gm_cfg].
  destruct t as [| j ch | | | | v].
  - destruct (w_step (m_cfg m) (m_w m) _ _) as [w' [it|]]; reflexivity.
  - rewrite nth_error_map. destruct (nth_error (m_rs m) j) as [r|]; [|reflexivity]. cbn [option_map].
    rewrite (r_step_is_the_program (m_cfg m) (w_log (m_w m)) r ch).
    destruct (gr_step do_read r_fence (m_cfg m) (w_log (m_w m)) (to_g r) ch) as [[[r' it] ret]|]; [|reflexivity].
    cbn [fst snd m_w m_rs m_nrec m_cfg]. rewrite replace_nth_map, to_of_g. reflexivity.
  - destruct (w_pc (m_w m)); reflexivity.
  - destruct (w_pc (m_w m)); reflexivity.
  - destruct (header_valid (w_log (m_w m))); [|reflexivity]. cbn [fst snd m_w m_rs m_nrec m_cfg]. rewrite map_app. reflexivity.
  - destruct (w_pc (m_w m)); reflexivity.
Qed.

Theorem m_run_is_the_system : forall ts m,
  gm_run do_read r_fence newv_prefix (to_gm m) ts = (to_gm (fst (m_run m ts)), snd (m_run m ts)).
Proof.
  induction ts as [|t ts IH]; intros m; cbn [gm_run m_run]; [reflexivity|].
  rewrite m_step_is_the_system. destruct (m_step m t) as [m1 o1]. cbn [fst snd].
  rewrite IH. destruct (m_run m1 ts) as [m2 o2]. reflexivity.
Qed.

(* ------------------------------------------------------------------ prefix views against standard views *)
Definition cfg_ok (c : cfg) : Prop := forall i, In i (c_r_order c) -> i < c_cells c.

Lemma safe_cfg_ok c : safe_cfg c = true -> cfg_ok c.
Proof.
  unfold safe_cfg. intros H. repeat (apply andb_true_iff in H as [H ?]).
  match goal with P : is_perm (c_r_order c) (c_cells c) = true |- _ => rename P into HP end.
  unfold is_perm in HP. apply andb_true_iff in HP as [_ HP].
  intros i Hi. rewrite forallb_forall in HP. apply Nat.ltb_lt. exact (HP i Hi).
Qed.

Record SRel (a : gmstate rview) (b : gmstate gthread) : Prop := {
  S_w : gm_w b = gm_w a;
  S_n : gm_nrec b = gm_nrec a;
  S_c : gm_cfg b = gm_cfg a;
  S_rs : Forall2 (sim_ok (gm_cfg a) (w_log (gm_w a))) (gm_rs a) (gm_rs b);
  S_bound : Forall (fun r => acq (g_view r) <= length (w_log (gm_w a))) (gm_rs a);
  S_rel : rel_pos (w_log (gm_w a));
  S_rv : w_relview (gm_w a) <= length (w_log (gm_w a));
  S_hv : gm_rs a <> [] -> header_valid (w_log (gm_w a)) = true
}.

Lemma rel_pos_snoc L e : rel_pos L -> e_rel e <= S (length L) -> rel_pos (L ++ [e]).
Proof.
  intros H He p f E. apply ev_snoc in E as [[Hp E]|[Hp ->]]; [exact (H p f E) | lia].
Qed.

Lemma w_push_rel w l v o k att : w_relview w <= length (w_log w) ->
  exists e, w_push w l v o k att = w_log w ++ [e] /\ e_rel e <= S (length (w_log w)).
Proof.
  intros H. unfold w_push. eexists. split; [reflexivity|]. cbn [e_rel]. destruct (is_rel o); lia.
Qed.

(* what one access of write() does to the log *)
Lemma w_step_log c w r k w' it : w_relview w <= length (w_log w) -> w_step c w r k = (w', it) ->
  w_relview w' <= length (w_log w') /\
  (w_log w' = w_log w \/ exists e, w_log w' = w_log w ++ [e] /\ e_rel e <= S (length (w_log w))).
Proof.
  intros H S. unfold w_step in S.
  destruct (w_pc w) as [| g | p | p [|i todo] |].
  - inversion S; subst; cbn [w_log w_relview]. split; [exact H | left; reflexivity].
  - inversion S; subst; cbn [w_log w_relview].
    destruct (w_push_rel w LGen (pre g) (c_w_odd c) KOdd (w_att w) H) as (e & -> & He).
    split; [rewrite app_length; lia | right; exists e; split; [reflexivity | exact He]].
  - destruct (c_w_fence c) as [o|]; inversion S; subst; cbn [w_log w_relview].
    + split; [destruct (is_rel o); lia | left; reflexivity].
    + split; [exact H | left; reflexivity].
  - inversion S; subst; cbn [w_log w_relview].
    destruct (w_push_rel w LGen (post p) (c_w_even c) KEven (w_att w) H) as (e & -> & He).
    split; [rewrite app_length; lia | right; exists e; split; [reflexivity | exact He]].
  - inversion S; subst; cbn [w_log w_relview].
    destruct (w_push_rel w (LCell i) (nth i (w_rec w) 0%Z) Rlx KCell (w_att w) H) as (e & -> & He).
    split; [rewrite app_length; lia | right; exists e; split; [reflexivity | exact He]].
  - inversion S; subst. split; [exact H | left; reflexivity].
Qed.

Lemma Forall2_sim_app c L x rs ss :
  Forall (fun r => acq (g_view r) <= length L) rs -> Forall2 (sim_ok c L) rs ss -> Forall2 (sim_ok c (L ++ x)) rs ss.
Proof.
  intros B F. induction F as [|r s rs ss Hrs F IH]; [constructor|].
  inversion B; subst. constructor; [apply sim_ok_app; assumption | apply IH; assumption].
Qed.

Lemma Forall_bound_app (L x : list event) (rs : list (grst rview)) :
  Forall (fun r => acq (g_view r) <= length L) rs -> Forall (fun r => acq (g_view r) <= length (L ++ x)) rs.
Proof. intros B. eapply Forall_impl; [|exact B]. intros r H. cbn beta in *. rewrite app_length. lia. Qed.

Lemma Forall2_nth {A B} (P : A -> B -> Prop) : forall l1 l2 j, Forall2 P l1 l2 ->
  match nth_error l1 j, nth_error l2 j with
  | Some x, Some y => P x y
  | None, None => True
  | _, _ => False
  end.
Proof.
  intros l1 l2 j F. revert j. induction F as [|x y l1 l2 H F IH]; intros [|j]; cbn; auto. apply IH.
Qed.

Lemma Forall2_replace {A B} (P : A -> B -> Prop) : forall l1 l2 j x y, Forall2 P l1 l2 -> P x y ->
  Forall2 P (replace_nth l1 j x) (replace_nth l2 j y).
Proof.
  intros l1 l2 j x y F H. revert j. induction F as [|a b l1 l2 Hab F IH]; intros [|j]; cbn; constructor; auto.
Qed.

Lemma Forall_replace {A} (P : A -> Prop) : forall l j x, Forall P l -> P x -> Forall P (replace_nth l j x).
Proof.
  intros l j x F H. revert j. induction F as [|a l Ha F IH]; intros [|j]; cbn; constructor; auto.
Qed.

Lemma replace_nth_nil {A} (l : list A) j x : replace_nth l j x = [] -> l = [].
Proof. destruct l, j; cbn; intros H; try discriminate; reflexivity. Qed.

Lemma rel_pos_init c : rel_pos (init_log (c_cells c) ++ [mkev LVer 1 (length (init_log (c_cells c))) 0 KVer]).
Proof.
  apply rel_pos_snoc; [|cbn [e_rel]; lia].
  intros p e E. apply init_log_ev in E. lia.
Qed.

(* one token: both systems make the same observations and stay related *)
Theorem system_step_bisim a b t : cfg_ok (gm_cfg a) -> SRel a b -> real_token t ->
  let '(a', o) := gm_step do_read r_fence newv_prefix a t in
  let '(b', o') := gm_step g_rd g_fence newv_std b t in
  o = o' /\ SRel a' b'.
Proof.
  intros Hord R Ht. destruct R as [Ew En Ec Frs Fb RP RV HV].
  unfold gm_step. rewrite Ew, En, Ec. set (c := gm_cfg a) in *. set (w := gm_w a) in *.
  destruct t as [| j ch | | | | v]; try contradiction.
  - (* writer access *)
    destruct (w_step c w _ _) as [w' [it|]] eqn:S.
    + destruct (w_step_log c w _ _ w' _ RV S) as (RV' & HL).
      split; [reflexivity|]. constructor; cbn [gm_w gm_rs gm_nrec gm_cfg]; try reflexivity; auto.
      * destruct HL as [->|(e & -> & He)]; [exact Frs | apply Forall2_sim_app; assumption].
      * destruct HL as [->|(e & -> & He)]; [exact Fb | apply Forall_bound_app; assumption].
      * destruct HL as [->|(e & -> & He)]; [exact RP | apply rel_pos_snoc; assumption].
      * intros Hne. apply (w_step_valid c w _ _ w' _ (HV Hne) S).
    + split; [reflexivity|]. constructor; auto.
  - (* reader access *)
    pose proof (Forall2_nth _ _ _ j Frs) as N.
    destruct (nth_error (gm_rs a) j) as [r|] eqn:Ea; destruct (nth_error (gm_rs b) j) as [s|] eqn:Eb; try contradiction.
    + pose proof (reader_program_bisim c (w_log w) r s ch Hord N) as B.
      destruct (gr_step do_read r_fence c (w_log w) r ch) as [[[r' it] ret]|] eqn:G1;
        destruct (gr_step g_rd g_fence c (w_log w) s ch) as [[[s' it'] ret']|]; try contradiction.
      * destruct B as (-> & -> & S').
        assert (Ecache : g_cache s' = g_cache r') by (destruct S' as [(_ & _ & _ & _ & E & _) _]; exact E).
        rewrite Ecache. split; [reflexivity|].
        assert (Br : acq (g_view r) <= length (w_log w)).
        { rewrite Forall_forall in Fb. apply Fb. eapply nth_error_In; eauto. }
        constructor; cbn [gm_w gm_rs gm_nrec gm_cfg]; try reflexivity; auto.
        -- apply Forall2_replace; assumption.
        -- apply Forall_replace; [exact Fb|]. exact (gr_step_bounded c (w_log w) r ch r' it' ret' RP Br G1).
        -- intros Hne. apply HV. intros E. apply Hne. rewrite E. destruct j; reflexivity.
      * split; [reflexivity|]. constructor; auto.
    + split; [reflexivity|]. constructor; auto.
  - (* death *)
    destruct (w_pc w) eqn:PC; (split; [reflexivity|]); constructor; cbn [gm_w gm_rs gm_nrec gm_cfg w_crash w_log w_relview]; auto.
  - (* restart *)
    destruct (w_pc w) eqn:PC.
    1-4: (split; [reflexivity|]; constructor; auto).
    unfold w_restart. destruct (header_valid (w_log w)) eqn:Hh.
    + destruct (w_push_rel w LVer 1%Z Rlx KVer (w_att w) RV) as (e & Ee & He).
      split; [reflexivity|]. constructor; cbn [gm_w gm_rs gm_nrec gm_cfg w_log w_relview]; try reflexivity; rewrite ?Ee.
      * apply Forall2_sim_app; assumption.
      * apply Forall_bound_app; assumption.
      * apply rel_pos_snoc; assumption.
      * rewrite app_length; lia.
      * intros _. pose proof (w_restart_valid c w Hh) as (El & Hv & _). unfold w_restart in El, Hv. rewrite Hh in El, Hv.
        cbn [w_log] in El, Hv. rewrite <- Ee. exact Hv.
    + assert (Enil : gm_rs a = []).
      { destruct (gm_rs a) as [|r rs] eqn:E; [reflexivity|]. exfalso. assert (Hne : r :: rs <> []) by discriminate.
        specialize (HV Hne). congruence. }
      split; [reflexivity|]. constructor; cbn [gm_w gm_rs gm_nrec gm_cfg w_log w_relview]; try reflexivity.
      * rewrite Enil in Frs |- *. inversion Frs; subst. constructor.
      * rewrite Enil. constructor.
      * apply rel_pos_init.
      * rewrite app_length. cbn [length]. lia.
      * intros Hne. exfalso. apply Hne. exact Enil.
  - (* a new client *)
    destruct (header_valid (w_log w)) eqn:Hh.
    + split; [reflexivity|]. constructor; cbn [gm_w gm_rs gm_nrec gm_cfg]; try reflexivity; auto.
      * apply Forall2_app; [exact Frs|]. constructor; [|constructor]. apply new_reader_sim.
      * apply Forall_app. split; [exact Fb|]. constructor; [|constructor]. cbn. lia.
    + split; [reflexivity|]. constructor; auto. intros Hne. specialize (HV Hne). discriminate HV.
Qed.

Lemma gm_step_cfg a t : gm_cfg (fst (gm_step do_read r_fence newv_prefix a t)) = gm_cfg a.
Proof.
  unfold gm_step. destruct t as [| j ch | | | | v].
  - destruct (w_step _ _ _ _) as [w' [it|]]; reflexivity.
  - destruct (nth_error (gm_rs a) j) as [r|]; [|reflexivity].
    destruct (gr_step _ _ _ _ r ch) as [[[r' it] ret]|]; reflexivity.
  - destruct (w_pc (gm_w a)); reflexivity.
  - destruct (w_pc (gm_w a)); reflexivity.
  - destruct (header_valid _); reflexivity.
  - destruct (w_pc (gm_w a)); reflexivity.
Qed.

(* every schedule: same observations, related final states *)
Theorem system_run_bisim : forall ts a b, cfg_ok (gm_cfg a) -> SRel a b -> Forall real_token ts ->
  let '(a', o) := gm_run do_read r_fence newv_prefix a ts in
  let '(b', o') := gm_run g_rd g_fence newv_std b ts in
  o = o' /\ SRel a' b'.
Proof.
  induction ts as [|t ts IH]; intros a b Hord R Hts; cbn [gm_run]; [split; [reflexivity | exact R]|].
  inversion Hts as [|t' ts' Ht Hts']; subst.
  pose proof (system_step_bisim a b t Hord R Ht) as B.
  pose proof (gm_step_cfg a t) as Ecfg.
  destruct (gm_step do_read r_fence newv_prefix a t) as [a1 o1].
  destruct (gm_step g_rd g_fence newv_std b t) as [b1 o1'].
  destruct B as (-> & R1). cbn [fst] in Ecfg.
  assert (Hord1 : cfg_ok (gm_cfg a1)) by (rewrite Ecfg; exact Hord).
  specialize (IH a1 b1 Hord1 R1 Hts').
  destruct (gm_run do_read r_fence newv_prefix a1 ts) as [a2 o2].
  destruct (gm_run g_rd g_fence newv_std b1 ts) as [b2 o2'].
  destruct IH as (-> & R2). split; [reflexivity | exact R2].
Qed.

Lemma SRel_init c : SRel (gm_init c) (gm_init c).
Proof.
  constructor; cbn [gm_init gm_w gm_rs gm_nrec gm_cfg]; try reflexivity.
  - constructor.
  - constructor.
  - unfold w_init. cbn [w_log]. apply rel_pos_init.
  - unfold w_init. cbn [w_log w_relview]. rewrite app_length. lia.
  - intros H. exfalso. apply H. reflexivity.
Qed.

(* The standard system: writer, clients, deaths, restarts over the standard view semantics *)
Definition std_run (c : cfg) (ts : list token) : gmstate gthread * list obs :=
  gm_run g_rd g_fence newv_std (gm_init c) ts.

(* its runs are the machine's runs: same observations, same writer log, same count of write() calls *)
Theorem standard_system_is_the_machine c ts : cfg_ok c -> Forall real_token ts ->
  snd (std_run c ts) = snd (m_run (m_init c) ts) /\
  gm_w (fst (std_run c ts)) = m_w (fst (m_run (m_init c) ts)) /\
  gm_nrec (fst (std_run c ts)) = m_nrec (fst (m_run (m_init c) ts)).
Proof.
  intros Hord Hts. unfold std_run.
  pose proof (m_run_is_the_system ts (m_init c)) as A.
  assert (E0 : to_gm (m_init c) = gm_init c) by reflexivity. rewrite E0 in A.
  pose proof (system_run_bisim ts (gm_init c) (gm_init c) Hord (SRel_init c) Hts) as B.
  rewrite A in B. destruct (gm_run g_rd g_fence newv_std (gm_init c) ts) as [b' o'].
  destruct B as (Eo & R). cbn [fst snd]. split; [symmetry; exact Eo|].
  destruct R as [Ew En _ _ _ _ _ _]. cbn [to_gm gm_w gm_nrec] in Ew, En. split; assumption.
Qed.

(* C02 over the standard semantics: every record a snapshot() returns in any execution of the
   standard release/acquire semantics is the initial zero record or, cell for cell, the record of
   one completed write() call *)
Theorem C02_RA_standard_semantics c ts : safe_cfg c = true -> Forall real_token ts ->
  (Z.of_nat (gm_nrec (fst (std_run c ts))) < 32767)%Z ->
  forall j ret rec, In (ORet j ret rec) (snd (std_run c ts)) -> ret <> RetErr ->
    rec = repeat 0%Z (c_cells c) \/ published c (w_log (gm_w (fst (std_run c ts)))) rec.
Proof.
  intros Hs Hts Hn j ret rec Hin Hne.
  destruct (standard_system_is_the_machine c ts (safe_cfg_ok c Hs) Hts) as (Eo & Ew & En).
  rewrite Eo in Hin. rewrite Ew. rewrite En in Hn.
  destruct (m_run (m_init c) ts) as [m o] eqn:R. cbn [fst snd] in *.
  destruct (m_run_inv c Hs ts (m_init c) m o (MInv_init c) Hts R Hn) as (_ & _ & _ & H).
  exact (H j ret rec Hin Hne).
Qed.
End Gen.

(* runs compose *)
Lemma m_run_app {RF : RecFun} : forall ts1 ts2 m,
  m_run m (ts1 ++ ts2) =
  (fst (m_run (fst (m_run m ts1)) ts2), snd (m_run m ts1) ++ snd (m_run (fst (m_run m ts1)) ts2)).
Proof.
  induction ts1 as [|t ts1 IH]; intros ts2 m; cbn [app m_run fst snd].
  - destruct (m_run m ts2); reflexivity.
  - destruct (m_step m t) as [m1 o1]. rewrite IH.
    destruct (m_run m1 ts1) as [m2 o2]. cbn [fst snd].
    destruct (m_run m2 ts2) as [m3 o3]. cbn [fst snd]. rewrite app_assoc. reflexivity.
Qed.

(* ------------------------------------------------------------------ termination, whatever the memory does *)
(* The bound on the work of one snapshot() call does not depend on the memory model at all: for ANY
   load function and ANY fence function - whatever values the loads return - every access of the
   reader program either ends the call or strictly decreases the measure of Shm/ReaderBound.v. *)
From CB Require Import ReaderBound.

Section AnyMemory.
Variable V : Type.
Variable rd : list event -> V -> loc -> ord -> option nat -> option (Z * nat * V).
Variable fc : V -> ord -> V.
Open Scope Z_scope.

Theorem program_step_decreases c L (r : grst V) ch r' it :
  budget_ok (g_pc r) -> todo_ok c (g_pc r) ->
  gr_step rd fc c L r ch = Some (r', it, None) ->
  0 <= mu c (g_pc r') < mu c (g_pc r) /\ budget_ok (g_pc r') /\ todo_ok c (g_pc r').
Proof.
  intros HB HT H. pose proof (iter_cost_pos c) as K. unfold gr_step in H.
  destruct (g_pc r) as [| | g todo acc b | g acc b | g acc b] eqn:PC.
  - destruct (rd L (g_view r) LVer (c_r_ver c) ch) as [[[ver p] v]|]; [|discriminate].
    destruct (ver =? 0); inversion H; subst; cbn [g_pc mu budget_ok todo_ok].
    pose proof (N2Z.is_nonneg (c_retries c)). split; [nia | auto].
  - destruct (rd L (g_view r) LGen (c_r_g1 c) ch) as [[[g p] v]|]; [|discriminate].
    destruct ((g =? 0) || (g =? g_cache_gen r) || Z.odd g); [discriminate|].
    destruct (N.eqb_spec (c_retries c) 0) as [E|E]; [discriminate|].
    inversion H; subst; cbn [g_pc mu budget_ok todo_ok]. unfold iter_cost in *.
    assert (0 < Z.of_N (c_retries c)) by lia. split; [|split]; try lia; nia.
  - destruct todo as [|i todo].
    + inversion H; subst. cbn [budget_ok] in HB. pose proof (prod_nonneg c b HB).
      destruct (c_r_fence c); cbn [g_pc mu budget_ok todo_ok length]; (split; [|split]); try exact I; try lia.
    + destruct (rd L (g_view r) (LCell i) Rlx ch) as [[[x p] v]|]; [|discriminate].
      inversion H; subst. cbn [budget_ok todo_ok length] in *. pose proof (prod_nonneg c b HB).
      destruct todo as [|i' todo']; [destruct (c_r_fence c)|]; cbn [g_pc mu budget_ok todo_ok length] in *;
        (split; [|split]); try exact I; try lia.
  - cbn [budget_ok] in HB. pose proof (prod_nonneg c b HB).
    destruct (c_r_fence c); inversion H; subst; cbn [g_pc mu budget_ok todo_ok]; (split; [|split]); try exact I; try lia.
  - cbn [budget_ok] in HB.
    destruct (rd L (g_view r) LGen (c_r_g2 c) ch) as [[[g2 p] v]|]; [|discriminate].
    destruct (g2 =? g); [discriminate|].
    destruct (N.eqb_spec (N.pred b) 0) as [E|E]; [discriminate|].
    inversion H; subst; cbn [g_pc mu budget_ok todo_ok].
    assert (HB' : (0 < N.pred b)%N) by lia. pose proof (prod_nonneg c (N.pred b) HB').
    replace (Z.of_N b - 1) with ((Z.of_N (N.pred b) - 1) + 1) by lia.
    rewrite Z.mul_add_distr_r, Z.mul_1_l. unfold iter_cost in *. split; [|split]; try lia.
Qed.

(* a call from the idle state has returned (or is refused a load) within the measure of RIdle *)
Fixpoint program_call (c : cfg) (r : grst V) (inputs : list (list event * option nat)) : option (nat * rret * grst V) :=
  match inputs with
  | [] => None
  | (L, ch) :: rest =>
      match gr_step rd fc c L r ch with
      | None => None
      | Some (r', _, Some ret) => Some (1%nat, ret, r')
      | Some (r', _, None) =>
          match program_call c r' rest with
          | Some (n, ret, r'') => Some (S n, ret, r'')
          | None => None
          end
      end
  end.

Theorem program_call_bounded c : forall inputs (r : grst V) n ret r',
  budget_ok (g_pc r) -> todo_ok c (g_pc r) ->
  program_call c r inputs = Some (n, ret, r') -> Z.of_nat n <= mu c (g_pc r).
Proof.
  induction inputs as [|[L ch] rest IH]; intros r n ret r' HB HT H; cbn [program_call] in H; [discriminate|].
  destruct (gr_step rd fc c L r ch) as [[[r1 it] [x|]]|] eqn:S; [| |discriminate].
  - inversion H; subst.
    (* the measure is at least 1 in every state *)
    pose proof (iter_cost_pos c). pose proof (N2Z.is_nonneg (c_retries c)).
    destruct (g_pc r) as [| | g todo acc b | g acc b | g acc b]; cbn [mu budget_ok] in *;
      try (pose proof (prod_nonneg c b HB)); try nia; lia.
  - destruct (program_call c r1 rest) as [[[m y] r2]|] eqn:R; [|discriminate]. inversion H; subst.
    destruct (program_step_decreases c L r ch r1 it HB HT S) as (D & HB1 & HT1).
    specialize (IH r1 m ret r' HB1 HT1 R). lia.
Qed.
End AnyMemory.
