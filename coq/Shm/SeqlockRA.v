(* C02 under the release/acquire machine: every record a reader accepts is, cell for cell, the
   record of one completed write() call.  Reader-side facts (what a load may return), the reader's
   per-iteration invariant, the acceptance argument, and the lift to whole-system runs. *)
From Coq Require Import ZArith List Bool Arith NArith Lia.
From CB Require Import Gen GenProofs Machine MachineFacts SeqlockInv GenCyc.
Import ListNotations.
Open Scope nat_scope.

Section Gen.
Context {RF : RecFun}.


Lemma loc_eqb_eq a b : loc_eqb a b = true <-> a = b.
Proof.
  destruct a, b; cbn; split; intros H; try discriminate; try reflexivity.
  - apply Nat.eqb_eq in H. subst. reflexivity.
  - inversion H. apply Nat.eqb_refl.
Qed.

(* [legal L cur l p]: event p is on l and no event on l lies strictly between p and cur *)
Definition legal (L : list event) (cur : nat) (l : loc) (p : nat) : Prop :=
  exists e, ev L p = Some e /\ e_loc e = l /\ forall q f, ev L q = Some f -> e_loc f = l -> q < cur -> q <= p.

Lemma newer_in_false L l i : forall hi, newer_in L l i hi = false ->
  forall q f, i < q -> q < hi -> ev L q = Some f -> e_loc f <> l.
Proof.
  induction hi as [|h IH]; intros H q f Hq Hh Hf; [lia|].
  cbn [newer_in] in H. destruct (Nat.leb_spec (S h) (S i)); [lia|].
  apply orb_false_iff in H as [H1 H2].
  destruct (Nat.eq_dec q h) as [->|Hne].
  - unfold ev in Hf. rewrite Hf in H1. intros E. apply loc_eqb_eq in E. congruence.
  - apply (IH H2 q f); auto. lia.
Qed.

Lemma can_read_legal L v l i : can_read L v l i = true -> legal L (cur v) l i /\ coh_get v l <= i.
Proof.
  unfold can_read. destruct (nth_error L i) as [e|] eqn:E; [|discriminate]. intros H.
  apply andb_true_iff in H as [H H3]. apply andb_true_iff in H as [H1 H2].
  apply loc_eqb_eq in H1. apply Nat.leb_le in H2. apply negb_true_iff in H3.
  split; [|exact H2]. exists e. split; [exact E|]. split; [exact H1|].
  intros q f Hf Hl Hq. destruct (Nat.le_gt_cases q i) as [|Hgt]; [assumption|].
  exfalso. exact (newer_in_false L l i (cur v) H3 q f Hgt Hq Hf Hl).
Qed.

Lemma legal_antitone L c1 c2 l p : c1 <= c2 -> legal L c2 l p -> legal L c1 l p.
Proof. intros H (e & E & El & M). exists e. split; [exact E|]. split; [exact El|]. intros q f Hf Hl Hq. apply (M q f Hf Hl). lia. Qed.

Lemma legal_app L x c l p : c <= length L -> legal L c l p -> legal (L ++ x) c l p.
Proof.
  intros Hc (e & E & El & M). exists e. split; [apply ev_app_l; exact E|]. split; [exact El|].
  intros q f Hf Hl Hq. apply (M q f); auto. unfold ev in *. rewrite nth_error_app1 in Hf by lia. exact Hf.
Qed.

(* what a successful load tells us *)
Lemma do_read_spec L v l o ch x p v' : do_read L v l o ch = Some (x, p, v') ->
  exists e, ev L p = Some e /\ e_loc e = l /\ x = e_val e /\ legal L (cur v) l p /\ coh_get v l <= p /\
    cur v' = (if is_acq o then Nat.max (cur v) (e_rel e) else cur v) /\
    acq v' = Nat.max (acq v) (e_rel e) /\
    coh_gen v' = (match l with LGen => p | _ => coh_gen v end).
Proof.
  unfold do_read. intros H.
  destruct (match ch with Some i => Some i | None => latest l L end) as [i|]; [|discriminate].
  destruct (can_read L v l i) eqn:C; [|discriminate].
  destruct (nth_error L i) as [e|] eqn:E; [|discriminate].
  inversion H; subst; clear H. apply can_read_legal in C as [Lg Co].
  exists e. split; [exact E|]. destruct Lg as (e' & E' & El & M). unfold ev in E'. rewrite E in E'. inversion E'; subst e'.
  split; [exact El|]. split; [reflexivity|]. split; [exists e; auto|]. split; [exact Co|].
  destruct l; cbn; repeat split; reflexivity.
Qed.

Lemma val_at_app L x p : p < length L -> val_at (L ++ x) p = val_at L p.
Proof. intros H. unfold val_at. rewrite nth_error_app1 by exact H. reflexivity. Qed.

Lemma val_at_ev L p e : ev L p = Some e -> val_at L p = e_val e.
Proof. unfold val_at, ev. intros ->. reflexivity. Qed.

(* ------------------------------------------------------------------ the acceptance argument *)
Theorem accept_one_attempt n L q1 e1 cur1 cur2 q2 e2 (cells : list (nat * nat)) :
  LogInv n L -> GenCyc L -> (Z.of_nat (evens_upto L q2) < Z.of_nat (evens_upto L q1) + 32767)%Z ->
  ev L q1 = Some e1 -> e_loc e1 = LGen -> Z.even (e_val e1) = true -> e_val e1 <> 0%Z ->
  e_rel e1 <= cur1 -> cur1 <= cur2 ->
  (forall i p, In (i, p) cells -> exists ce, ev L p = Some ce /\ e_loc ce = LCell i /\ legal L cur1 (LCell i) p /\ e_rel ce <= cur2) ->
  (forall i p, In (i, p) cells -> i < n) ->
  legal L cur2 LGen q2 -> q1 <= q2 -> ev L q2 = Some e2 -> e_val e2 = e_val e1 ->
  0 < e_att e1 /\ e_kind e1 = KEven /\
  forall i p, In (i, p) cells -> val_at L p = nth i (recf n (e_att e1)) 0%Z.
Proof.
  intros LI GC Hwin E1 El1 Hev Hnz Hrel1 Hc12 Hcells Hlt Hleg2 Hq12 E2 Hval.
  destruct (even_gen_event_cyc n L q1 e1 LI GC E1 El1 Hev Hnz) as (K1 & A1 & V1).
  destruct Hleg2 as (e2' & E2' & El2 & M2). rewrite E2 in E2'. inversion E2'; subst e2'. clear E2'.
  assert (Hev2 : Z.even (e_val e2) = true) by (rewrite Hval; exact Hev).
  assert (Hnz2 : e_val e2 <> 0%Z) by (rewrite Hval; exact Hnz).
  destruct (even_gen_event_cyc n L q2 e2 LI GC E2 El2 Hev2 Hnz2) as (K2 & A2 & V2).
  assert (Hq : q1 = q2).
  { destruct (Nat.eq_dec q1 q2) as [|Hne]; [assumption|]. exfalso.
    assert (Hlt' : q1 < q2) by lia.
    pose proof (evens_upto_even_strict L q1 q2 e2 Hlt' E2 K2) as Hst. rewrite V1, V2 in Hval.
    pose proof (evens_upto_pos L q1 e1 E1 K1) as Hpos.
    assert (evens_upto L q1 = evens_upto L q2) by (apply gv_inj_window; [lia | lia | exact Hwin | symmetry; exact Hval]). lia. }
  subst q2. rewrite E1 in E2. inversion E2; subst e2. clear E2 Hval Hev2 Hnz2 K2 A2 V2.
  split; [exact A1|]. split; [exact K1|].
  destruct (L_even _ _ LI q1 e1 E1 K1) as [Hr1 Hall].
  intros i p Hin. destruct (Hcells i p Hin) as (ce & Ece & Elc & (ce' & Ece' & _ & Mc) & Hrelc).
  destruct (Hall i (Hlt i p Hin)) as (p' & c & Hp' & Ec & Elcc & Kc & Ac).
  assert (Hpp : p' <= p) by (apply (Mc p' c Ec Elcc); lia).
  assert (Hatt_ge : e_att e1 <= e_att ce) by (rewrite <- Ac; eapply (L_att_mono _ _ LI); eauto).
  assert (Kce : e_kind ce = KCell).
  { destruct (L_cell_kind _ _ LI p ce i Ece Elc) as [|Hin']; [assumption|].
    apply (L_init0 _ _ LI p ce Ece) in Hin' as [Hz _]. lia. }
  destruct (L_cell_rel _ _ LI p ce Ece Kce) as (qo & o & Eo & Elo & Ko & Ao & Hqo).
  assert (Hoq : qo <= q1) by (apply (M2 qo o Eo Elo); lia).
  assert (Hatt_le : e_att o <= e_att e1) by (eapply (L_att_mono _ _ LI); eauto).
  assert (Ha : e_att ce = e_att e1) by lia.
  rewrite (val_at_ev L p ce Ece). rewrite <- Ha. apply (L_cell_val _ _ LI p ce i Ece Kce Elc).
Qed.

(* ------------------------------------------------------------------ the reader's invariant *)
Definition cells_ok (L : list event) (cur1 acqv : nat) (cellpos : list (nat * nat)) (acc : list (nat * Z)) : Prop :=
  acc = map (fun ip => (fst ip, val_at L (snd ip))) cellpos /\
  forall i p, In (i, p) cellpos -> exists ce, ev L p = Some ce /\ e_loc ce = LCell i /\ legal L cur1 (LCell i) p /\ e_rel ce <= acqv.

Definition iter_inv (c : cfg) (L : list event) (v : rview) (g : Z) (g1pos : nat)
                    (cellpos : list (nat * nat)) (acc : list (nat * Z)) (todo : list nat) : Prop :=
  exists e1 cur1, ev L g1pos = Some e1 /\ e_loc e1 = LGen /\ e_val e1 = g /\ Z.even g = true /\ g <> 0%Z /\
    e_rel e1 <= cur1 /\ cur1 <= cur v /\ g1pos <= coh_gen v /\
    cells_ok L cur1 (acq v) cellpos acc /\ rev (map fst cellpos) ++ todo = c_r_order c.

Definition RInv (c : cfg) (L : list event) (r : rst) : Prop :=
  cur (r_view r) <= length L /\ acq (r_view r) <= length L /\
  match r_pc r with
  | RIdle | RVer => True
  | RCopy g todo acc b => iter_inv c L (r_view r) g (r_g1pos r) (r_cellpos r) acc todo
  | RFence g acc b => iter_inv c L (r_view r) g (r_g1pos r) (r_cellpos r) acc []
  | RReload g acc b => iter_inv c L (r_view r) g (r_g1pos r) (r_cellpos r) acc [] /\ acq (r_view r) <= cur (r_view r)
  end.

Definition rel_bounded (L : list event) : Prop := forall p e, ev L p = Some e -> e_rel e <= length L.

Lemma RInv_new c L : RInv c L (r_new c L).
Proof. unfold RInv, r_new; cbn. repeat split; lia. Qed.

(* the invariant survives whatever the writer appends *)
Lemma RInv_app c L x r : RInv c L r -> RInv c (L ++ x) r.
Proof.
  intros (Hc & Ha & H). unfold RInv. rewrite app_length. split; [lia|]. split; [lia|].
  assert (IT : forall g todo acc, iter_inv c L (r_view r) g (r_g1pos r) (r_cellpos r) acc todo ->
                                  iter_inv c (L ++ x) (r_view r) g (r_g1pos r) (r_cellpos r) acc todo).
  { intros g todo acc (e1 & cur1 & E1 & El & Ev & He & Hz & Hr & Hcu & Hco & (Hacc & Hcells) & Hord).
    exists e1, cur1. split; [apply ev_app_l; exact E1|]. repeat split; auto.
    - rewrite Hacc. apply map_ext_in. intros [i p] Hin. cbn. f_equal.
      destruct (Hcells i p Hin) as (ce & Ece & _). symmetry. apply val_at_app. eapply ev_lt; eauto.
    - intros i p Hin. destruct (Hcells i p Hin) as (ce & Ece & Elc & Lg & Hrl). exists ce.
      split; [apply ev_app_l; exact Ece|]. split; [exact Elc|]. split; [apply legal_app; [lia | exact Lg] | exact Hrl]. }
  destruct (r_pc r); auto. destruct H as [H H']. split; auto.
Qed.

Lemma negb_or3 a b c' : (a || b || c')%bool = false -> a = false /\ b = false /\ c' = false.
Proof. destruct a, b, c'; cbn; intros H; try discriminate; auto. Qed.

Theorem r_step_inv c L r ch r' it ret : safe_cfg c = true -> rel_bounded L ->
  LogInv (c_cells c) L -> GenCyc L -> RInv c L r ->
  r_step c L r ch = Some (r', it, ret) -> RInv c L r'.
Proof.
  intros Hs RB LI GC (Hcu & Hac & H) S. destruct (safe_parts c Hs) as (_ & _ & Ag1 & Ag2 & Af & _ & Pr & Hn).
  unfold is_acq_fence in Af. destruct (c_r_fence c) as [fo|] eqn:Ef; [|discriminate].
  unfold r_step in S. rewrite ?Ef in S. destruct (r_pc r) as [| | g todo acc b | g acc b | g acc b] eqn:PC.
  - (* version load *)
    destruct (do_read L (r_view r) LVer (c_r_ver c) ch) as [[[ver p] v]|] eqn:D; [|discriminate].
    apply do_read_spec in D as (e & E & _ & _ & _ & _ & Cv & Av & _).
    assert (B : cur v <= length L /\ acq v <= length L).
    { pose proof (RB p e E). rewrite Cv, Av. destruct (is_acq (c_r_ver c)); lia. }
    destruct (ver =? 0)%Z; inversion S; subst r' it ret; unfold RInv; cbn [r_view r_pc]; tauto.
  - (* first generation load *)
    destruct (do_read L (r_view r) LGen (c_r_g1 c) ch) as [[[g p] v]|] eqn:D; [|discriminate].
    apply do_read_spec in D as (e & E & El & Xv & Lg & Co & Cv & Av & Cg).
    rewrite Ag1 in Cv.
    assert (B : cur v <= length L /\ acq v <= length L) by (pose proof (RB p e E); rewrite Cv, Av; lia).
    destruct ((g =? 0)%Z || (g =? r_cache_gen r)%Z || Z.odd g)%bool eqn:T.
    + inversion S; subst r' it ret; unfold RInv; cbn [r_view r_pc]; tauto.
    + apply negb_or3 in T as (T0 & _ & To).
      destruct (N.eqb (c_retries c) 0); inversion S; subst r' it ret; unfold RInv; cbn [r_view r_pc r_g1pos r_cellpos]; [tauto|].
      split; [tauto|]. split; [tauto|].
      exists e, (cur v).
      split; [exact E|]. split; [exact El|]. split; [symmetry; exact Xv|].
      split; [rewrite <- Z.negb_odd, To; reflexivity|].
      split; [apply (proj1 (Z.eqb_neq _ _)); exact T0|].
      split; [rewrite Cv; lia|]. split; [lia|]. split; [rewrite Cg; lia|].
      split; [split; [reflexivity | intros i q []] | rewrite app_nil_l; reflexivity].
  - (* a cell load, or the no-op of a zero-cell configuration *)
    destruct todo as [|i todo].
    + inversion S; subst r' it ret; unfold RInv; cbn [r_view r_pc r_g1pos r_cellpos]. tauto.
    + destruct (do_read L (r_view r) (LCell i) Rlx ch) as [[[x p] v]|] eqn:D; [|discriminate].
      apply do_read_spec in D as (ce & Ece & Elc & Xv & Lg & _ & Cv & Av & Cg). cbn [is_acq] in Cv.
      assert (B : cur v <= length L /\ acq v <= length L) by (pose proof (RB p ce Ece); rewrite Cv, Av; lia).
      destruct H as (e1 & cur1 & E1 & El1 & Ev1 & He & Hz & Hr1 & Hc1 & Hco & (Hacc & Hcells) & Hord).
      assert (IT : forall todo', rev (map fst ((i, p) :: r_cellpos r)) ++ todo' = c_r_order c ->
                   iter_inv c L v g (r_g1pos r) ((i, p) :: r_cellpos r) ((i, x) :: acc) todo').
      { intros todo' Ho. exists e1, cur1. repeat split; auto; try lia.
        - cbn [map fst snd]. rewrite Hacc, (val_at_ev L p ce Ece), Xv. reflexivity.
        - intros j q [Hjq|Hin].
          + inversion Hjq; subst j q. exists ce. repeat split; auto; try lia. eapply legal_antitone; [|exact Lg]. lia.
          + destruct (Hcells j q Hin) as (cj & A & B' & C' & D'). exists cj. repeat split; auto. lia. }
      assert (Ho : rev (map fst ((i, p) :: r_cellpos r)) ++ todo = c_r_order c).
      { cbn [map fst rev]. rewrite <- app_assoc. exact Hord. }
      destruct todo as [|i' todo']; inversion S; subst r' it ret; unfold RInv; cbn [r_view r_pc r_g1pos r_cellpos];
        (split; [tauto|]; split; [tauto|]); apply IT; exact Ho.
  - (* the acquire fence *)
    inversion S; subst r' it ret; clear S. unfold RInv; cbn [r_view r_pc r_g1pos r_cellpos]. unfold r_fence. rewrite Af.
    cbn [cur acq coh_gen]. split; [lia|]. split; [lia|]. split; [|lia].
    destruct H as (e1 & cur1 & E1 & El1 & Ev1 & He & Hz & Hr1 & Hc1 & Hco & Hcells & Hord).
    exists e1, cur1. split; [exact E1|]. split; [exact El1|]. split; [exact Ev1|]. split; [exact He|]. split; [exact Hz|].
    split; [exact Hr1|]. split; [cbn; lia|]. split; [exact Hco|]. split; [exact Hcells | exact Hord].
  - (* the re-load *)
    destruct (do_read L (r_view r) LGen (c_r_g2 c) ch) as [[[g2 p] v]|] eqn:D; [|discriminate].
    apply do_read_spec in D as (e2 & E2 & El2 & Xv & Lg & Co & Cv & Av & Cg). rewrite Ag2 in Cv.
    assert (B : cur v <= length L /\ acq v <= length L) by (pose proof (RB p e2 E2); rewrite Cv, Av; lia).
    destruct H as ((e1 & cur1 & E1 & El1 & Ev1 & He & Hz & Hr1 & Hc1 & Hco & Hcells & Hord) & Hacq).
    destruct (g2 =? g)%Z eqn:EQ; [inversion S; subst r' it ret; unfold RInv; cbn [r_view r_pc]; tauto|].
    destruct (N.eqb (N.pred b) 0); [inversion S; subst r' it ret; unfold RInv; cbn [r_view r_pc]; tauto|].
    inversion S; subst r' it ret; clear S. unfold RInv; cbn [r_view r_pc r_g1pos r_cellpos]. split; [tauto|]. split; [tauto|].
    cbn in Co.
    destruct (Z.even g2) eqn:Even2.
    + (* adopt the even generation just read *)
      exists e2, (cur v).
      split; [exact E2|]. split; [exact El2|]. split; [symmetry; exact Xv|]. split; [exact Even2|].
      split.
      { (* it is not 0: it lies at or after an even store, so it is not an initial event, and the
           even stores carry 2, 4, ... *)
        destruct (even_gen_event_cyc _ L (r_g1pos r) e1 LI GC E1 El1) as (K1 & A1 & _); [rewrite Ev1; exact He | rewrite Ev1; exact Hz|].
        assert (Hpq : r_g1pos r <= p) by lia.
        pose proof (L_att_mono _ _ LI (r_g1pos r) p e1 e2 E1 E2 Hpq) as Hmono.
        rewrite Xv in Even2 |- *.
        destruct (L_gen_kind _ _ LI p e2 E2 El2) as [K|[K|K]].
        - pose proof (GC_odd _ GC p e2 E2 K) as V2. destruct (pre_gv_odd (evens_upto L p)) as [O _].
          rewrite <- V2, <- Z.negb_even, Even2 in O. discriminate.
        - pose proof (GC_even _ GC p e2 E2 K) as V2. rewrite V2.
          pose proof (evens_upto_pos L p e2 E2 K) as Hp1. apply (gv_pos (evens_upto L p)). lia.
        - apply (L_init0 _ _ LI p e2 E2) in K as [Hz0 _]. lia. }
      split; [rewrite Cv; lia|]. split; [lia|]. split; [rewrite Cg; lia|].
      split; [split; [reflexivity | intros i q []] | rewrite app_nil_l; reflexivity].
    + exists e1, cur1.
      split; [exact E1|]. split; [exact El1|]. split; [exact Ev1|]. split; [exact He|]. split; [exact Hz|].
      split; [exact Hr1|]. split; [rewrite Cv; lia|]. split; [rewrite Cg; lia|].
      split; [split; [reflexivity | intros i q []] | rewrite app_nil_l; reflexivity].
Qed.

(* ------------------------------------------------------------------ an accepted record is one completed write() *)
Lemma list_as_map (l : list Z) : l = map (fun i => nth i l 0%Z) (seq 0 (length l)).
Proof.
  apply (nth_ext _ _ 0%Z 0%Z).
  - rewrite map_length, seq_length. reflexivity.
  - intros k Hk. symmetry.
    rewrite (nth_indep (map (fun i => nth i l 0%Z) (seq 0 (length l))) 0%Z (nth 0 l 0%Z)) by (rewrite map_length, seq_length; exact Hk).
    rewrite (map_nth (fun i => nth i l 0%Z) (seq 0 (length l)) 0 k), seq_nth by exact Hk. reflexivity.
Qed.

Lemma assemble_rec n (acc : list (nat * Z)) a :
  (forall i, i < n -> exists x, In (i, x) acc) ->
  (forall i x, In (i, x) acc -> x = nth i (recf n a) 0%Z) ->
  assemble n acc = recf n a.
Proof.
  intros Hall Hval. rewrite (list_as_map (recf n a)), recf_len. unfold assemble. apply map_ext_in. intros i Hin. apply in_seq in Hin.
  destruct (find (fun p : nat * Z => Nat.eqb (fst p) i) acc) as [[j x]|] eqn:F.
  - apply find_some in F as [Hin' Hf]. cbn in Hf. apply Nat.eqb_eq in Hf. subst j. cbn [snd].
    apply (Hval i x Hin').
  - exfalso. destruct (Hall i ltac:(lia)) as (x & Hx). pose proof (find_none _ _ F (i, x) Hx) as N. cbn in N. rewrite Nat.eqb_refl in N. discriminate.
Qed.

Lemma is_perm_lt l n i : is_perm l n = true -> In i l -> i < n.
Proof.
  unfold is_perm. intros H Hin. apply andb_true_iff in H as [_ H3]. rewrite forallb_forall in H3.
  specialize (H3 i Hin). apply Nat.ltb_lt in H3. exact H3.
Qed.

Definition in_iteration (pc : rpc) : bool :=
  match pc with RCopy _ _ _ _ | RFence _ _ _ | RReload _ _ _ => true | _ => false end.

(* the side condition of the acceptance argument: fewer than 32767 publications completed since
   the generation store this iteration started from.  (With 32767 or more the 16-bit counter may
   show the same value again: C02_aba_witness.) *)
Definition window_ok (L : list event) (r : rst) : Prop :=
  in_iteration (r_pc r) = true -> (Z.of_nat (evens L) < Z.of_nat (evens_upto L (r_g1pos r)) + 32767)%Z.

Lemma window_of_nowrap L r : (Z.of_nat (evens L) < 32767)%Z -> window_ok L r.
Proof. intros H _. lia. Qed.

Theorem r_step_accept_pos c L r ch r' it : safe_cfg c = true -> LogInv (c_cells c) L -> GenCyc L -> window_ok L r ->
  RInv c L r -> r_step c L r ch = Some (r', it, Some RetFresh) ->
  exists e, ev L (r_g1pos r) = Some e /\ e_loc e = LGen /\ e_kind e = KEven /\ 0 < e_att e /\
            r_cache r' = recf (c_cells c) (e_att e) /\ r_g1pos r <= coh_gen (r_view r') /\
            r_cache_gen r' = e_val e /\ e_val e <> 0%Z.
Proof.
  intros Hs LI GC Hw (Hcu & Hac & H) S. destruct (safe_parts c Hs) as (_ & _ & _ & _ & _ & _ & Pr & Hn).
  destruct (accept_needs_equal_even c L r ch r' it S) as (g & acc & b & v & p & PC & D).
  rewrite PC in H. destruct H as ((e1 & cur1 & E1 & El1 & Ev1 & He & Hz & Hr1 & Hc1 & Hco & (Hacc & Hcells) & Hord) & Hacq).
  pose proof D as D'. apply do_read_spec in D' as (e2 & E2 & El2 & Xv & Lg & Co & _). cbn in Co.
  rewrite app_nil_r in Hord.
  assert (Hlt : forall i q, In (i, q) (r_cellpos r) -> i < c_cells c).
  { intros i q Hin. apply (is_perm_lt _ _ i Pr). rewrite <- Hord. apply -> in_rev. apply in_map_iff. exists (i, q). auto. }
  assert (Hev1 : Z.even (e_val e1) = true) by (rewrite Ev1; exact He).
  assert (Hnz1 : e_val e1 <> 0%Z) by (rewrite Ev1; exact Hz).
  assert (Hcells' : forall i q, In (i, q) (r_cellpos r) -> exists ce, ev L q = Some ce /\ e_loc ce = LCell i /\ legal L cur1 (LCell i) q /\ e_rel ce <= cur (r_view r)).
  { intros i q Hin. destruct (Hcells i q Hin) as (ce & A & B & C' & D2). exists ce. repeat split; auto. lia. }
  assert (Hq12 : r_g1pos r <= p) by lia.
  assert (Hval : e_val e2 = e_val e1) by (rewrite Ev1; symmetry; exact Xv).
  assert (Hwin : (Z.of_nat (evens_upto L p) < Z.of_nat (evens_upto L (r_g1pos r)) + 32767)%Z).
  { pose proof (evens_upto_le L p). unfold window_ok in Hw. rewrite PC in Hw. specialize (Hw eq_refl). lia. }
  destruct (accept_one_attempt (c_cells c) L (r_g1pos r) e1 cur1 (cur (r_view r)) p e2 (r_cellpos r)
              LI GC Hwin E1 El1 Hev1 Hnz1 Hr1 Hc1 Hcells' Hlt Lg Hq12 E2 Hval) as (A1 & K1 & Hvals).
  exists e1. split; [exact E1|]. split; [exact El1|]. split; [exact K1|]. split; [exact A1|].
  (* the cache and the view after the accepting step *)
  assert (Ecache : r_cache r' = assemble (c_cells c) acc /\ r_view r' = v /\ r_cache_gen r' = g).
  { unfold r_step in S. rewrite PC, D, Z.eqb_refl in S. inversion S. repeat split; reflexivity. }
  destruct Ecache as (Ecache & Ev' & Eg').
  split; [|split; [rewrite Ev'; apply do_read_spec in D as (e3 & E3 & _ & _ & _ & Co3 & _ & _ & Cg3); rewrite Cg3; cbn in Co3; lia | split; [rewrite Eg', Ev1; reflexivity | exact Hnz1]]].
  rewrite Ecache. apply assemble_rec.
  - intros i Hi. pose proof (is_perm_all _ _ Pr i Hi) as Hin. rewrite <- Hord in Hin. apply in_rev in Hin.
    apply in_map_iff in Hin as ([i' q] & Ei & Hin). cbn in Ei. subst i'.
    exists (val_at L q). rewrite Hacc. apply in_map_iff. exists (i, q). auto.
  - intros i x Hin. rewrite Hacc in Hin. apply in_map_iff in Hin as ([i' q] & Eq & Hin). cbn in Eq. inversion Eq; subst i' x.
    apply (Hvals i q Hin).
Qed.

Theorem r_step_accept c L r ch r' it : safe_cfg c = true -> LogInv (c_cells c) L -> GenCyc L -> window_ok L r ->
  RInv c L r -> r_step c L r ch = Some (r', it, Some RetFresh) ->
  exists a q e, 0 < a /\ ev L q = Some e /\ e_kind e = KEven /\ e_att e = a /\ r_cache r' = recf (c_cells c) a.
Proof.
  intros Hs LI GC Hw RI S. destruct (r_step_accept_pos c L r ch r' it Hs LI GC Hw RI S) as (e & E & _ & K & A & C & _).
  exists (e_att e), (r_g1pos r), e. auto.
Qed.

(* ------------------------------------------------------------------ the cached record *)
Definition published (c : cfg) (L : list event) (rec : list Z) : Prop :=
  exists a q e, 0 < a /\ ev L q = Some e /\ e_kind e = KEven /\ e_att e = a /\ rec = recf (c_cells c) a.

Definition CacheOk (c : cfg) (L : list event) (r : rst) : Prop :=
  r_cache r = repeat 0%Z (c_cells c) \/ published c L (r_cache r).

Lemma published_app c L x rec : published c L rec -> published c (L ++ x) rec.
Proof. intros (a & q & e & A & E & R). exists a, q, e. split; [exact A|]. split; [apply ev_app_l; exact E | exact R]. Qed.

Lemma CacheOk_app c L x r : CacheOk c L r -> CacheOk c (L ++ x) r.
Proof. intros [H|H]; [left; exact H | right; apply published_app, H]. Qed.

Lemma CacheOk_new c L : CacheOk c L (r_new c L).
Proof. left. reflexivity. Qed.

Theorem cache_step c L r ch r' it ret : safe_cfg c = true -> LogInv (c_cells c) L -> GenCyc L -> window_ok L r ->
  RInv c L r -> CacheOk c L r -> r_step c L r ch = Some (r', it, ret) -> CacheOk c L r'.
Proof.
  intros Hs LI GC Hw RI CO S. destruct (r_step_cache c L r ch r' it ret S) as [[-> _]|(_ & Ec & _)].
  - right. destruct (r_step_accept c L r ch r' it Hs LI GC Hw RI S) as (a & q & e & R). exists a, q, e. exact R.
  - unfold CacheOk. rewrite Ec. exact CO.
Qed.

(* ------------------------------------------------------------------ whole-system runs *)
Definition real_token (t : token) : Prop := match t with TJump _ => False | _ => True end.

Record MInv (c : cfg) (m : mstate) : Prop := {
  M_cfg : m_cfg m = c;
  M_w : WInv c (m_w m);
  M_rs : Forall (fun r => RInv c (w_log (m_w m)) r /\ CacheOk c (w_log (m_w m)) r) (m_rs m);
  M_valid : m_rs m <> [] -> header_valid (w_log (m_w m)) = true;
  M_att : w_att (m_w m) <= m_nrec m;
  M_gen : WInv4 (m_w m)
}.

Lemma MInv_init c : MInv c (m_init c).
Proof.
  constructor.
  - reflexivity.
  - apply WInv_init.
  - constructor.
  - intros H. exfalso. apply H. reflexivity.
  - cbn. lia.
  - apply WInv4_init.
Qed.

Lemma w_step_log c w r k w' it : w_step c w r k = (w', it) -> exists x, w_log w' = w_log w ++ x.
Proof.
  unfold w_step. destruct (w_pc w) as [| g | p | p [|i todo] |]; intros H.
  - inversion H; subst. exists []. rewrite app_nil_r. reflexivity.
  - inversion H; subst. eexists. reflexivity.
  - destruct (c_w_fence c); inversion H; subst; exists []; rewrite app_nil_r; reflexivity.
  - inversion H; subst. eexists. reflexivity.
  - inversion H; subst. eexists. reflexivity.
  - inversion H; subst. exists []. rewrite app_nil_r. reflexivity.
Qed.

Lemma w_step_att c w r k w' it : w_step c w r k = (w', it) ->
  w_att w' = (match w_pc w with WIdle => k | _ => w_att w end).
Proof.
  unfold w_step. destruct (w_pc w) as [| g | p | p [|i todo] |]; intros H; try (inversion H; subst; reflexivity).
  destruct (c_w_fence c); inversion H; subst; reflexivity.
Qed.

Lemma Forall_replace_nth {A} (P : A -> Prop) l j x : Forall P l -> P x -> Forall P (replace_nth l j x).
Proof.
  revert j. induction l as [|a l IH]; intros j Hl Hx; [destruct j; constructor|].
  inversion Hl; subst. destruct j; cbn; constructor; auto.
Qed.

Lemma nowrap_of c m : MInv c m -> (Z.of_nat (m_nrec m) < 32767)%Z -> (Z.of_nat (evens (w_log (m_w m))) < 32767)%Z.
Proof. intros I H. pose proof (W_evens _ _ (M_w _ _ I)). pose proof (M_att _ _ I). lia. Qed.

Theorem m_step_inv_win c m t m' o : safe_cfg c = true -> MInv c m -> real_token t ->
  m_step m t = (m', o) -> Forall (window_ok (w_log (m_w m))) (m_rs m) ->
  MInv c m' /\ m_nrec m <= m_nrec m' /\
  forall j ret rec, In (ORet j ret rec) o -> ret <> RetErr -> rec = repeat 0%Z (c_cells c) \/ published c (w_log (m_w m')) rec.
Proof.
  intros Hs I Ht St Hwin. pose proof (M_cfg _ _ I) as Ec. pose proof (M_w _ _ I) as WI. pose proof (M_rs _ _ I) as RS. pose proof (M_gen _ _ I) as WG.
  unfold m_step in St. rewrite Ec in St. destruct t as [| j ch | | | | v]; try contradiction.
  - (* writer step *)
    set (starting := match w_pc (m_w m) with WIdle => true | _ => false end) in *.
    set (k := if starting then Datatypes.S (m_nrec m) else m_nrec m) in *.
    destruct (w_step c (m_w m) (recf (c_cells c) k) k) as [w' [it|]] eqn:W; inversion St; subst m' o; clear St; cbn [m_nrec m_w] in *.
    + assert (Hk : w_pc (m_w m) = WIdle -> w_att (m_w m) < k /\ recf (c_cells c) k = recf (c_cells c) k).
      { intros E. unfold k, starting. rewrite E. pose proof (M_att _ _ I). split; [lia | reflexivity]. }
      pose proof (w_step_inv c (m_w m) _ k w' (Some it) Hs WI Hk W) as WI'.
      destruct (w_step_log _ _ _ _ _ _ W) as (x & Ex).
      split; [|split].
      * constructor; cbn [m_cfg m_w m_rs m_nrec]; auto.
        -- rewrite Ex. eapply Forall_impl; [|exact RS]. intros r [A B]. split; [apply RInv_app, A | apply CacheOk_app, B].
        -- intros NE. eapply w_step_valid; [apply (M_valid _ _ I NE) | exact W].
        -- rewrite (w_step_att _ _ _ _ _ _ W). unfold k, starting. pose proof (M_att _ _ I). destruct (w_pc (m_w m)); lia.
        -- apply (w_step_inv4 c (m_w m) _ k w' (Some it) WG W).
      * unfold k. destruct starting; lia.
      * intros j ret rec [H|[]]. discriminate.
    + split; [exact I|]. split; [lia|]. intros j ret rec [H|[]]. discriminate.
  - (* reader step *)
    destruct (nth_error (m_rs m) j) as [r|] eqn:Er.
    + destruct (r_step c (w_log (m_w m)) r ch) as [[[r' it] ret]|] eqn:R; inversion St; subst m' o; clear St; cbn [m_nrec m_w] in *.
      * pose proof (W4_log _ WG) as GC.
        assert (Hw : window_ok (w_log (m_w m)) r) by (rewrite Forall_forall in Hwin; apply Hwin; eapply nth_error_In; eauto).
        assert (Hr : RInv c (w_log (m_w m)) r /\ CacheOk c (w_log (m_w m)) r).
        { rewrite Forall_forall in RS. apply RS. eapply nth_error_In; eauto. }
        destruct Hr as [RI CO].
        pose proof (r_step_inv c _ r ch r' it ret Hs (W_rel_le _ _ WI) (W_log _ _ WI) GC RI R) as RI'.
        pose proof (cache_step c _ r ch r' it ret Hs (W_log _ _ WI) GC Hw RI CO R) as CO'.
        split; [|split; [lia|]].
        -- constructor; cbn [m_cfg m_w m_rs m_nrec]; auto.
           ++ apply Forall_replace_nth; auto.
           ++ intros NE. apply (M_valid _ _ I). intros E. rewrite E in Er. destruct j; discriminate.
           ++ apply (M_att _ _ I).
        -- intros j' ret' rec Hin Hne. apply in_app_or in Hin as [Hin|Hin].
           ++ destruct it; [destruct Hin as [H|[]]; discriminate | destruct Hin].
           ++ destruct ret as [x|]; [|destruct Hin]. destruct Hin as [H|[]]. inversion H; subst. exact CO'.
      * split; [exact I|]. split; [lia|]. intros j' ret' rec [H|[]]. discriminate.
    + inversion St; subst. split; [exact I|]. split; [lia|]. intros j' ret' rec [H|[]]. discriminate.
  - (* crash *)
    destruct (w_pc (m_w m)) eqn:PC; inversion St; subst m' o; clear St; cbn [m_nrec m_w] in *;
      try (split; [|split; [lia | intros j ret rec []]]; constructor; cbn [m_cfg m_w m_rs m_nrec]; auto;
           [apply WInv_crash, WI | apply (M_valid _ _ I) | apply (M_att _ _ I) | apply WInv4_crash, WG]).
    split; [exact I|]. split; [lia|]. intros j ret rec [H|[]]. discriminate.
  - (* restart *)
    destruct (w_pc (m_w m)) eqn:PC; inversion St; subst m' o; clear St; cbn [m_nrec m_w] in *;
      try (split; [exact I|]; split; [lia|]; intros j ret rec [H|[]]; discriminate).
    split; [|split; [lia | intros j ret rec []]].
    constructor; cbn [m_cfg m_w m_rs m_nrec]; auto.
    + apply WInv_restart, WI.
    + destruct (header_valid (w_log (m_w m))) eqn:HV.
      * destruct (w_restart_valid c (m_w m) HV) as (El & _). rewrite El.
        eapply Forall_impl; [|exact RS]. intros r [A B]. split; [apply RInv_app, A | apply CacheOk_app, B].
      * destruct (m_rs m) as [|r0 rs] eqn:Ers; [constructor|].
        exfalso. assert (NE : m_rs m <> []) by (rewrite Ers; discriminate). pose proof (M_valid _ _ I NE). congruence.
    + intros NE. pose proof (M_valid _ _ I NE) as HV. apply (w_restart_valid c (m_w m) HV).
    + unfold w_restart. destruct (header_valid (w_log (m_w m))); cbn [w_att]; [apply (M_att _ _ I) | lia].
    + apply WInv4_restart, WG.
  - (* new reader *)
    destruct (header_valid (w_log (m_w m))) eqn:HV; inversion St; subst m' o; clear St; cbn [m_nrec m_w] in *.
    + split; [|split; [lia | intros j ret rec []]].
      constructor; cbn [m_cfg m_w m_rs m_nrec]; auto.
      * apply Forall_app. split; [exact RS|]. constructor; [|constructor]. split; [apply RInv_new | apply CacheOk_new].
      * apply (M_att _ _ I).
    + split; [exact I|]. split; [lia|]. intros j ret rec [H|[]]. discriminate.
Qed.

Lemma m_step_nrec m t m' o : m_step m t = (m', o) -> m_nrec m <= m_nrec m'.
Proof.
  intros Sc. unfold m_step in Sc. destruct t as [| j ch | | | | v].
  - destruct (w_step _ _ _ _) as [w' [it|]]; inversion Sc; subst; cbn; [destruct (w_pc (m_w m)); lia | lia].
  - destruct (nth_error _ _); [destruct (r_step _ _ _ _) as [[[? ?] ?]|]|]; inversion Sc; subst; cbn; lia.
  - destruct (w_pc (m_w m)); inversion Sc; subst; cbn; lia.
  - destruct (w_pc (m_w m)); inversion Sc; subst; cbn; lia.
  - destruct (header_valid _); inversion Sc; subst; cbn; lia.
  - destruct (w_pc (m_w m)); inversion Sc; subst; cbn; lia.
Qed.

(* the special case of runs with fewer than 32767 write() calls: every window is short *)
Lemma windows_of_nowrap c m : MInv c m -> (Z.of_nat (m_nrec m) < 32767)%Z -> Forall (window_ok (w_log (m_w m))) (m_rs m).
Proof. intros I Hn. apply Forall_forall. intros r _. apply window_of_nowrap, (nowrap_of c m I Hn). Qed.

Theorem m_step_inv c m t m' o : safe_cfg c = true -> MInv c m -> real_token t ->
  m_step m t = (m', o) -> (Z.of_nat (m_nrec m') < 32767)%Z ->
  MInv c m' /\ m_nrec m <= m_nrec m' /\
  forall j ret rec, In (ORet j ret rec) o -> ret <> RetErr -> rec = repeat 0%Z (c_cells c) \/ published c (w_log (m_w m')) rec.
Proof.
  intros Hs I Ht St Hn. pose proof (m_step_nrec m t m' o St) as Hle.
  apply (m_step_inv_win c m t m' o Hs I Ht St). apply (windows_of_nowrap c m I). lia.
Qed.

(* once a reader is attached the log only grows (no wipe) and the reader list never shrinks *)
Lemma m_step_ext c m t m' o : MInv c m -> m_step m t = (m', o) -> real_token t -> m_rs m <> [] ->
  (exists x, w_log (m_w m') = w_log (m_w m) ++ x) /\ m_rs m' <> [].
Proof.
  intros I St Ht NE. pose proof (M_cfg _ _ I) as Ec. unfold m_step in St. rewrite Ec in St.
  destruct t as [| j ch | | | | v]; try contradiction.
  - destruct (w_step c (m_w m) _ _) as [w' [it|]] eqn:W; inversion St; subst m' o; cbn [m_w m_rs].
    + split; [eapply w_step_log; eauto | exact NE].
    + split; [exists []; rewrite app_nil_r; reflexivity | exact NE].
  - destruct (nth_error (m_rs m) j) as [r|] eqn:Er.
    + destruct (r_step c (w_log (m_w m)) r ch) as [[[r' it] ret]|]; inversion St; subst m' o; cbn [m_w m_rs].
      * split; [exists []; rewrite app_nil_r; reflexivity|]. intros E. apply NE.
        destruct (m_rs m); [reflexivity|]. destruct j; discriminate.
      * split; [exists []; rewrite app_nil_r; reflexivity | exact NE].
    + inversion St; subst m' o. split; [exists []; rewrite app_nil_r; reflexivity | exact NE].
  - destruct (w_pc (m_w m)); inversion St; subst m' o; cbn [m_w m_rs]; (split; [exists []; rewrite app_nil_r; reflexivity | exact NE]).
  - destruct (w_pc (m_w m)); inversion St; subst m' o; cbn [m_w m_rs]; try (split; [exists []; rewrite app_nil_r; reflexivity | exact NE]).
    split; [|exact NE]. pose proof (M_valid _ _ I NE) as HV. destruct (w_restart_valid c (m_w m) HV) as (El & _). eexists. exact El.
  - destruct (header_valid (w_log (m_w m))); inversion St; subst m' o; cbn [m_w m_rs].
    + split; [exists []; rewrite app_nil_r; reflexivity|]. intros E. apply app_eq_nil in E as [E _]. contradiction.
    + split; [exists []; rewrite app_nil_r; reflexivity | exact NE].
Qed.

Lemma m_step_oret_readers m t m' o j ret rec : m_step m t = (m', o) -> In (ORet j ret rec) o -> m_rs m <> [].
Proof.
  unfold m_step. intros St Hin. destruct t as [| j' ch | | | | v].
  - destruct (w_step _ _ _ _) as [w' [it|]]; inversion St; subst; destruct Hin as [H|[]]; discriminate.
  - destruct (nth_error (m_rs m) j') as [r|] eqn:Er.
    + intros E. rewrite E in Er. destruct j'; discriminate.
    + inversion St; subst. destruct Hin as [H|[]]; discriminate.
  - destruct (w_pc (m_w m)); inversion St; subst; try destruct Hin as [H|[]]; try discriminate; destruct Hin.
  - destruct (w_pc (m_w m)); inversion St; subst; try destruct Hin as [H|[]]; try discriminate; destruct Hin.
  - destruct (header_valid _); inversion St; subst; try destruct Hin as [H|[]]; try discriminate; destruct Hin.
  - destruct (w_pc (m_w m)); inversion St; subst; try destruct Hin as [H|[]]; try discriminate; destruct Hin.
Qed.

Theorem m_run_inv c : safe_cfg c = true -> forall ts m m' o, MInv c m -> Forall real_token ts ->
  m_run m ts = (m', o) -> (Z.of_nat (m_nrec m') < 32767)%Z ->
  MInv c m' /\ m_nrec m <= m_nrec m' /\
  (m_rs m <> [] -> (exists x, w_log (m_w m') = w_log (m_w m) ++ x) /\ m_rs m' <> []) /\
  forall j ret rec, In (ORet j ret rec) o -> ret <> RetErr ->
    rec = repeat 0%Z (c_cells c) \/ published c (w_log (m_w m')) rec.
Proof.
  intros Hs. induction ts as [|t ts IH]; intros m m' o I Hts R Hn.
  - cbn in R. inversion R; subst. split; [exact I|]. split; [lia|]. split.
    + intros NE. split; [exists []; rewrite app_nil_r; reflexivity | exact NE].
    + intros j ret rec [].
  - cbn [m_run] in R. destruct (m_step m t) as [m1 o1] eqn:S1. destruct (m_run m1 ts) as [m2 o2] eqn:R2.
    inversion R; subst m' o; clear R. inversion Hts as [|? ? Ht Hts']; subst.
    (* the bound on the number of write() calls holds at the intermediate state too *)
    assert (Hmono : forall I1 : MInv c m1, m_nrec m1 <= m_nrec m2).
    { intros I1. destruct (IH m1 m2 o2 I1 Hts' R2 Hn) as (_ & Hle & _). exact Hle. }
    assert (Pre : forall n1, m_nrec m1 = n1 -> (Z.of_nat n1 < 32767)%Z \/ ~ (Z.of_nat n1 < 32767)%Z) by (intros; lia).
    destruct (Pre (m_nrec m1) eq_refl) as [Hn1|Hn1].
    + destruct (m_step_inv c m t m1 o1 Hs I Ht S1 Hn1) as (I1 & Hle1 & Hret1).
      destruct (IH m1 m2 o2 I1 Hts' R2 Hn) as (I2 & Hle2 & Hext2 & Hret2).
      split; [exact I2|]. split; [lia|]. split.
      * intros NE. destruct (m_step_ext c m t m1 o1 I S1 Ht NE) as ((x1 & E1) & NE1).
        destruct (Hext2 NE1) as ((x2 & E2) & NE2). split; [|exact NE2]. exists (x1 ++ x2). rewrite E2, E1, app_assoc. reflexivity.
      * intros j ret rec Hin Hne. apply in_app_or in Hin as [Hin|Hin].
        -- destruct (Hret1 j ret rec Hin Hne) as [Hz|Hp]; [left; exact Hz|]. right.
           pose proof (m_step_oret_readers m t m1 o1 j ret rec S1 Hin) as NE.
           destruct (m_step_ext c m t m1 o1 I S1 Ht NE) as (_ & NE1).
           destruct (Hext2 NE1) as ((x2 & E2) & _). rewrite E2. apply published_app, Hp.
        -- apply (Hret2 j ret rec Hin Hne).
    + (* impossible: the counter only grows *)
      exfalso. apply Hn1.
      (* m_nrec m1 <= m_nrec m2 holds without the invariant: the counter is only ever incremented *)
      assert (G : forall ts0 ma mb ob, m_run ma ts0 = (mb, ob) -> m_nrec ma <= m_nrec mb).
      { clear. induction ts0 as [|t0 ts0 IH0]; intros ma mb ob R0; cbn [m_run] in R0.
        - inversion R0; subst. lia.
        - destruct (m_step ma t0) as [mc oc] eqn:Sc. destruct (m_run mc ts0) as [md od] eqn:Rd. inversion R0; subst.
          specialize (IH0 _ _ _ Rd). assert (m_nrec ma <= m_nrec mc); [|lia].
          clear - Sc. unfold m_step in Sc. destruct t0 as [| j ch | | | | v].
          + destruct (w_step _ _ _ _) as [w' [it|]]; inversion Sc; subst; cbn; [destruct (w_pc (m_w ma)); lia | lia].
          + destruct (nth_error _ _); [destruct (r_step _ _ _ _) as [[[? ?] ?]|]|]; inversion Sc; subst; cbn; lia.
          + destruct (w_pc (m_w ma)); inversion Sc; subst; cbn; lia.
          + destruct (w_pc (m_w ma)); inversion Sc; subst; cbn; lia.
          + destruct (header_valid _); inversion Sc; subst; cbn; lia.
          + destruct (w_pc (m_w ma)); inversion Sc; subst; cbn; lia. }
      specialize (G ts m1 m2 o2 R2). lia.
Qed.

(* ------------------------------------------------------------------ runs of any length *)
(* the window condition, stated on the run: at every point of the schedule, every reader that is
   inside an iteration of snapshot() started it from a generation store that fewer than 32767
   publications have followed *)
Fixpoint run_windows (m : mstate) (ts : list token) : Prop :=
  match ts with
  | [] => True
  | t :: ts' => Forall (window_ok (w_log (m_w m))) (m_rs m) /\ run_windows (fst (m_step m t)) ts'
  end.

Theorem m_run_inv_win c : safe_cfg c = true -> forall ts m m' o, MInv c m -> Forall real_token ts ->
  m_run m ts = (m', o) -> run_windows m ts ->
  MInv c m' /\
  (m_rs m <> [] -> (exists x, w_log (m_w m') = w_log (m_w m) ++ x) /\ m_rs m' <> []) /\
  forall j ret rec, In (ORet j ret rec) o -> ret <> RetErr ->
    rec = repeat 0%Z (c_cells c) \/ published c (w_log (m_w m')) rec.
Proof.
  intros Hs. induction ts as [|t ts IH]; intros m m' o I Hts R Hw.
  - cbn in R. inversion R; subst. split; [exact I|]. split.
    + intros NE. split; [exists []; rewrite app_nil_r; reflexivity | exact NE].
    + intros j ret rec [].
  - cbn [m_run] in R. destruct (m_step m t) as [m1 o1] eqn:S1. destruct (m_run m1 ts) as [m2 o2] eqn:R2.
    inversion R; subst m' o; clear R. inversion Hts as [|? ? Ht Hts']; subst.
    cbn [run_windows] in Hw. rewrite S1 in Hw. cbn [fst] in Hw. destruct Hw as [Hw0 Hw1].
    destruct (m_step_inv_win c m t m1 o1 Hs I Ht S1 Hw0) as (I1 & _ & Hret1).
    destruct (IH m1 m2 o2 I1 Hts' R2 Hw1) as (I2 & Hext2 & Hret2).
    split; [exact I2|]. split.
    + intros NE. destruct (m_step_ext c m t m1 o1 I S1 Ht NE) as ((x1 & E1) & NE1).
      destruct (Hext2 NE1) as ((x2 & E2) & NE2). split; [|exact NE2]. exists (x1 ++ x2). rewrite E2, E1, app_assoc. reflexivity.
    + intros j ret rec Hin Hne. apply in_app_or in Hin as [Hin|Hin].
      * destruct (Hret1 j ret rec Hin Hne) as [Hz|Hp]; [left; exact Hz|]. right.
        pose proof (m_step_oret_readers m t m1 o1 j ret rec S1 Hin) as NE.
        destruct (m_step_ext c m t m1 o1 I S1 Ht NE) as (_ & NE1).
        destruct (Hext2 NE1) as ((x2 & E2) & _). rewrite E2. apply published_app, Hp.
      * apply (Hret2 j ret rec Hin Hne).
Qed.

(* runs with fewer than 32767 write() calls satisfy the window condition *)
Lemma m_run_nrec : forall ts m m' o, m_run m ts = (m', o) -> m_nrec m <= m_nrec m'.
Proof.
  induction ts as [|t ts IH]; intros m m' o R; cbn [m_run] in R.
  - inversion R; subst. lia.
  - destruct (m_step m t) as [m1 o1] eqn:S1. destruct (m_run m1 ts) as [m2 o2] eqn:R2. inversion R; subst.
    pose proof (m_step_nrec _ _ _ _ S1). pose proof (IH _ _ _ R2). lia.
Qed.

Lemma run_windows_of_nowrap c : safe_cfg c = true -> forall ts m m' o, MInv c m -> Forall real_token ts ->
  m_run m ts = (m', o) -> (Z.of_nat (m_nrec m') < 32767)%Z -> run_windows m ts.
Proof.
  intros Hs. induction ts as [|t ts IH]; intros m m' o I Hts R Hn; [exact Logic.I|].
  cbn [m_run] in R. destruct (m_step m t) as [m1 o1] eqn:S1. destruct (m_run m1 ts) as [m2 o2] eqn:R2.
  inversion R; subst m' o; clear R. inversion Hts as [|? ? Ht Hts']; subst.
  pose proof (m_step_nrec _ _ _ _ S1) as L1. pose proof (m_run_nrec _ _ _ _ R2) as L2.
  cbn [run_windows]. rewrite S1. cbn [fst].
  assert (Hw0 : Forall (window_ok (w_log (m_w m))) (m_rs m)) by (apply (windows_of_nowrap c m I); lia).
  split; [exact Hw0|].
  destruct (m_step_inv_win c m t m1 o1 Hs I Ht S1 Hw0) as (I1 & _).
  apply (IH m1 m2 o2 I1 Hts' R2 Hn).
Qed.

End Gen.
