(* ClockErrorBound::compute_bound_at (clock-bound-shm/src/lib.rs), statement by statement.
   Outcome [Panic] = an arithmetic overflow / nix assert that aborts the call in a debug build. *)
From Coq Require Import ZArith Bool.
From Flocq Require Import Core BinarySingleNaN.
From CB Require Import Mach F64.
Open Scope Z_scope.

Inductive status := Unknown | Synchronized | FreeRunning.
Definition status_code (s : status) : Z := match s with Unknown => 0 | Synchronized => 1 | FreeRunning => 2 end.
Definition status_of_code (z : Z) : option status :=
  if z =? 0 then Some Unknown else if z =? 1 then Some Synchronized else if z =? 2 then Some FreeRunning else None.

Record ceb := mkceb {
  c_as_of : timespec; c_void_after : timespec; c_bound : Z; c_drift : Z; c_reserved : Z; c_status : status }.

Inductive cerr := EMalformed | ECausality.
Inductive outcome (A : Type) := Ok (a : A) | Err (e : cerr) | Panic.
Arguments Ok {A}. Arguments Err {A}. Arguments Panic {A}.

Definition GRACE : timespec := mkts 5 0.
Definition BLUR : timespec := mkts 0 1000.

Definition bind {A B} (o : option A) (f : A -> outcome B) : outcome B :=
  match o with Some a => f a | None => Panic end.

(* growth of the bound: (duration_sec * max_drift_ppb as f64) as i64
   with duration_sec = duration.num_nanoseconds() as f64 / 1e9 *)
Definition growth (elapsed_ns drift : Z) : Z :=
  to_i64 (mul (div (of_Z elapsed_ns) f1e9) (of_Z drift)).

Definition compute_bound_at (c : ceb) (real mono : timespec) : outcome (timespec * timespec * status) :=
  if 1000000000 <=? c_drift c then Err EMalformed else
  (* `as_of + GRACE` is only evaluated for Synchronized / FreeRunning *)
  let st : outcome status :=
    match c_status c with
    | Unknown => Ok Unknown
    | s => bind (ts_add (c_as_of c) GRACE) (fun lim =>
             if ts_ltb mono lim then Ok s
             else if ts_ltb mono (c_void_after c) then Ok FreeRunning else Ok Unknown)
    end in
  match st with
  | Panic => Panic | Err e => Err e
  | Ok st =>
    bind (ts_sub (c_as_of c) BLUR) (fun blur =>
    let dur : outcome timespec :=
      if ts_leb (c_as_of c) mono then bind (ts_sub mono (c_as_of c)) (fun d => Ok d)
      else if ts_ltb blur mono then Ok (mkts 0 0)
      else Err ECausality in
    match dur with
    | Panic => Panic | Err e => Err e
    | Ok d =>
      bind (ts_num_nanoseconds d) (fun dn =>
      bind (chk_i64 (c_bound c + growth dn (c_drift c))) (fun ub =>
      bind (ts_nanoseconds ub) (fun ubts =>
      bind (ts_sub real ubts) (fun earliest =>
      bind (ts_add real ubts) (fun latest =>
      Ok (earliest, latest, st))))))
    end)
  end.
