(* Generation values along every log, with no bound on the number of publications: the k-th
   completed publication stores [gv k]; the values walk the cycle 2, 4, ..., 65534, 2, ... *)
From Coq Require Import ZArith List Bool Arith Lia ZifyBool.
From CB Require Import Gen GenProofs Machine MachineFacts SeqlockInv.
Import ListNotations.
Open Scope Z_scope.
Ltac Zify.zify_post_hook ::= Z.div_mod_to_equations.

Section Gen.
Context {RF : RecFun}.


Definition gv (k : nat) : Z := match k with O => 0 | S j => 2 * (Z.of_nat j mod 32767) + 2 end.

Lemma gv_range k : 0 <= gv k < 65536.
Proof. destruct k as [|j]; cbn [gv]; lia. Qed.

Lemma gv_pos k : (0 < k)%nat -> Z.even (gv k) = true /\ gv k <> 0 /\ 2 <= gv k < 65536 /\ gv k mod 2 = 0.
Proof.
  destruct k as [|j]; [lia|]. intros _. cbn [gv]. rewrite even_mod2. repeat split; try lia.
Qed.

Lemma gv_nowrap k : Z.of_nat k < 32767 -> gv k = 2 * Z.of_nat k.
Proof. destruct k as [|j]; cbn [gv]; lia. Qed.

Lemma gv_succ k : post (pre (gv k)) = gv (S k).
Proof.
  destruct k as [|j]; [reflexivity|].
  destruct (gv_pos (S j) ltac:(lia)) as (_ & _ & R & M).
  destruct (post_pre_even_range (gv (S j)) R M) as [R' M'].
  destruct (gv_pos (S (S j)) ltac:(lia)) as (_ & _ & R2 & M2).
  apply idx_inj; try assumption.
  rewrite (post_pre_idx _ R M). unfold idx. cbn [gv]. lia.
Qed.

Lemma pre_gv_odd k : Z.odd (pre (gv k)) = true /\ 0 <= pre (gv k) < 65536.
Proof. destruct (generation_step_spec (gv k) (gv_range k)) as (O & _ & _ & _ & _ & _ & R & _). auto. Qed.

(* within a window of fewer than 32767 publications the even values are pairwise different *)
Lemma gv_inj_window k1 k2 : (0 < k1)%nat -> (k1 <= k2)%nat -> Z.of_nat k2 < Z.of_nat k1 + 32767 -> gv k1 = gv k2 -> k1 = k2.
Proof.
  destruct k1 as [|j1]; [lia|]. destruct k2 as [|j2]; [lia|]. intros _ H1 H2. cbn [gv]. intros H.
  assert (E : Z.of_nat j1 mod 32767 = Z.of_nat j2 mod 32767) by lia.
  assert (R : Z.of_nat j1 <= Z.of_nat j2 < Z.of_nat j1 + 32767) by lia.
  f_equal. clear H. lia.
Qed.

Record GenCyc (L : list event) : Prop := {
  GC_even : forall p e, ev L p = Some e -> e_kind e = KEven -> e_val e = gv (evens_upto L p);
  GC_odd : forall p e, ev L p = Some e -> e_kind e = KOdd -> e_val e = pre (gv (evens_upto L p));
  GC_latest : latest_val LGen L = gv (evens L) \/ latest_val LGen L = pre (gv (evens L))
}.

Lemma GenCyc_snoc L x : GenCyc L ->
  match e_kind x with
  | KEven => e_loc x = LGen /\ e_val x = gv (S (evens L))
  | KOdd => e_loc x = LGen /\ e_val x = pre (gv (evens L))
  | _ => loc_eqb (e_loc x) LGen = false
  end -> GenCyc (L ++ [x]).
Proof.
  intros [A B C] H. constructor.
  - intros p e He Hk. apply ev_snoc in He as [[Hp He]|[Hp ->]].
    + rewrite evens_upto_app_l by exact Hp. apply (A p e He Hk).
    + subst p. rewrite evens_upto_last. unfold is_even_kind. rewrite Hk in *. destruct H as [_ ->]. f_equal. lia.
  - intros p e He Hk. apply ev_snoc in He as [[Hp He]|[Hp ->]].
    + rewrite evens_upto_app_l by exact Hp. apply (B p e He Hk).
    + subst p. rewrite evens_upto_last. unfold is_even_kind. rewrite Hk in *. destruct H as [_ ->]. f_equal. f_equal. lia.
  - rewrite evens_app. cbn [evens]. unfold is_even_kind. destruct (e_kind x) eqn:K.
    + rewrite latest_val_snoc_other by exact H. rewrite !Nat.add_0_r. exact C.
    + destruct H as [Hl Hv]. rewrite latest_val_snoc_same by exact Hl. rewrite !Nat.add_0_r. right. exact Hv.
    + destruct H as [Hl Hv]. rewrite latest_val_snoc_same by exact Hl. left. rewrite Hv. f_equal. lia.
    + rewrite latest_val_snoc_other by exact H. rewrite !Nat.add_0_r. exact C.
    + rewrite latest_val_snoc_other by exact H. rewrite !Nat.add_0_r. exact C.
Qed.

Lemma GenCyc_init n : GenCyc (init_log n).
Proof.
  constructor.
  - intros p e H K. apply init_log_ev in H as (K' & _). congruence.
  - intros p e H K. apply init_log_ev in H as (K' & _). congruence.
  - rewrite evens_init, latest_val_init. left. reflexivity.
Qed.

Record WInv4 (w : wst) : Prop := {
  W4_log : GenCyc (w_log w);
  W4_pc : match w_pc w with
          | WLoaded g => g = gv (evens (w_log w)) \/ g = pre (gv (evens (w_log w)))
          | WOddDone p | WCopy p _ => p = pre (gv (evens (w_log w)))
          | _ => True
          end
}.

Lemma WInv4_init c : WInv4 (w_init c).
Proof.
  unfold w_init. constructor; cbn [w_log w_pc]; [|exact I].
  apply GenCyc_snoc; [apply GenCyc_init | reflexivity].
Qed.

Lemma WInv4_crash w : WInv4 w -> WInv4 (w_crash w).
Proof. intros [A B]. constructor; cbn; auto. Qed.

Lemma WInv4_restart c w : WInv4 w -> WInv4 (w_restart c w).
Proof.
  intros [A B]. unfold w_restart. destruct (header_valid (w_log w)); [|apply WInv4_init].
  constructor; cbn [w_log w_pc]; [|exact I]. unfold w_push. apply GenCyc_snoc; [exact A | reflexivity].
Qed.

Lemma evens_snoc_other L x : e_kind x <> KEven -> evens (L ++ [x]) = evens L.
Proof. intros H. rewrite evens_app. cbn [evens]. unfold is_even_kind. destruct (e_kind x); try lia. contradiction. Qed.

Theorem w_step_inv4 c w r k w' it : WInv4 w -> w_step c w r k = (w', it) -> WInv4 w'.
Proof.
  intros [A B] H. unfold w_step in H. destruct (w_pc w) as [| g | p | p [|i todo] |] eqn:Epc.
  - inversion H; subst; clear H. constructor; cbn [w_log w_pc]; [exact A | apply (GC_latest _ A)].
  - inversion H; subst; clear H.
    assert (Hp : pre g = pre (gv (evens (w_log w)))).
    { destruct B as [->| ->]; [reflexivity | apply pre_idem, gv_range]. }
    constructor; cbn [w_log w_pc].
    + unfold w_push. apply GenCyc_snoc; [exact A|]. cbn [e_kind e_loc e_val]. split; [reflexivity | exact Hp].
    + unfold w_push. rewrite evens_snoc_other by (cbn; discriminate). destruct (c_w_fence c); exact Hp.
  - destruct (c_w_fence c); inversion H; subst; clear H; constructor; cbn [w_log w_pc]; auto; rewrite ?Epc; auto.
  - inversion H; subst; clear H. constructor; cbn [w_log w_pc]; [|exact I].
    unfold w_push. apply GenCyc_snoc; [exact A|]. cbn [e_kind e_loc e_val]. split; [reflexivity|]. try rewrite B. apply gv_succ.
  - inversion H; subst; clear H. constructor; cbn [w_log w_pc].
    + unfold w_push. apply GenCyc_snoc; [exact A | reflexivity].
    + unfold w_push. rewrite evens_snoc_other by (cbn; discriminate). first [exact B | reflexivity].
  - inversion H; subst. constructor; [exact A | rewrite Epc; exact I].
Qed.

(* an even non-zero generation value can only have been stored by the even store of a completed
   write() call, and it identifies how many publications had completed - modulo the cycle *)
Lemma even_gen_event_cyc n L p e : LogInv n L -> GenCyc L ->
  ev L p = Some e -> e_loc e = LGen -> Z.even (e_val e) = true -> e_val e <> 0 ->
  e_kind e = KEven /\ (0 < e_att e)%nat /\ e_val e = gv (evens_upto L p).
Proof.
  intros LI GC E El Hev Hnz.
  destruct (L_gen_kind _ _ LI p e E El) as [K|[K|K]].
  - exfalso. pose proof (GC_odd _ GC p e E K) as V. destruct (pre_gv_odd (evens_upto L p)) as [O _].
    rewrite <- V in O. rewrite <- Z.negb_even, Hev in O. discriminate.
  - split; [exact K|]. split; [apply (L_pos _ _ LI p e E); auto | apply (GC_even _ GC p e E K)].
  - exfalso. apply Hnz. apply (L_init0 _ _ LI p e E K).
Qed.

Lemma evens_upto_pos L p e : ev L p = Some e -> e_kind e = KEven -> (1 <= evens_upto L p)%nat.
Proof.
  intros E2 K. unfold evens_upto. assert (Hp : (p < length L)%nat) by (eapply ev_lt; eauto).
  revert p E2 Hp. induction L as [|a L IH]; intros p E2 Hp; [cbn in Hp; lia|].
  destruct p as [|p]; cbn [firstn evens].
  - unfold ev in E2. cbn in E2. inversion E2; subst a. unfold is_even_kind. rewrite K. lia.
  - unfold ev in *. cbn [nth_error] in E2. cbn [length] in Hp. specialize (IH p E2 ltac:(lia)). cbn [firstn] in IH. lia.
Qed.

Lemma gv_eq_multiple k1 k2 : (0 < k1)%nat -> (k1 <= k2)%nat -> gv k1 = gv k2 ->
  exists d, 0 <= d /\ Z.of_nat k2 = Z.of_nat k1 + 32767 * d.
Proof.
  destruct k1 as [|j1]; [lia|]. destruct k2 as [|j2]; [lia|]. intros _ H1. cbn [gv]. intros H.
  exists (Z.of_nat j2 / 32767 - Z.of_nat j1 / 32767).
  assert (E : Z.of_nat j1 mod 32767 = Z.of_nat j2 mod 32767) by lia. clear H.
  assert (R : Z.of_nat j1 <= Z.of_nat j2) by lia. lia.
Qed.

End Gen.
