(* Segment layout as docs/PROTOCOL.md describes it (native = little endian on x86_64/Graviton):
     @0  magic word 0 (u32) = 0x414D5A4E      @4  magic word 1 (u32) = 0x43420200
     @8  segment size (u32)                   @12 version (u16)        @14 generation (u16)
     @16 as-of tv_sec (i64) @24 as-of tv_nsec (i64) @32 void-after tv_sec @40 void-after tv_nsec
     @48 bound (i64) @56 max drift (u32) @60 reserved (u32) @64 clock status (i32: 0/1/2) @68 padding (4)
   Bytes are integers 0..255. *)
From Coq Require Import ZArith List Bool Lia.
From CB Require Import Mach Client.
Import ListNotations.
Open Scope Z_scope.

Fixpoint le_bytes (n : nat) (x : Z) : list Z :=
  match n with O => [] | S k => (x mod 256) :: le_bytes k (x / 256) end.
Fixpoint le_value (bs : list Z) : Z :=
  match bs with [] => 0 | b :: t => b + 256 * le_value t end.

Definition enc_u (n : nat) (x : Z) : list Z := le_bytes n x.                      (* unsigned, n bytes *)
Definition enc_i64 (x : Z) : list Z := le_bytes 8 (x mod 18446744073709551616). (* two's complement *)
Definition dec_i64 (bs : list Z) : Z :=
  let u := le_value bs in if u <? 9223372036854775808 then u else u - 18446744073709551616.

Definition MAGIC0 := 1095588430.  (* 0x414D5A4E *)
Definition MAGIC1 := 1128399360.  (* 0x43420200 *)

Record header := mkhdr { h_magic0 : Z; h_magic1 : Z; h_size : Z; h_version : Z; h_generation : Z }.

Definition encode_header (h : header) : list Z :=
  enc_u 4 (h_magic0 h) ++ enc_u 4 (h_magic1 h) ++ enc_u 4 (h_size h) ++ enc_u 2 (h_version h) ++ enc_u 2 (h_generation h).

Definition encode_ceb (c : ceb) : list Z :=
  enc_i64 (ts_sec (c_as_of c)) ++ enc_i64 (ts_nsec (c_as_of c)) ++
  enc_i64 (ts_sec (c_void_after c)) ++ enc_i64 (ts_nsec (c_void_after c)) ++
  enc_i64 (c_bound c) ++ enc_u 4 (c_drift c) ++ enc_u 4 (c_reserved c) ++ enc_u 4 (status_code (c_status c)) ++ [0; 0; 0; 0].

Definition slice (bs : list Z) (off len : nat) : list Z := firstn len (skipn off bs).

Definition decode_header (bs : list Z) : header :=
  mkhdr (le_value (slice bs 0 4)) (le_value (slice bs 4 4)) (le_value (slice bs 8 4))
        (le_value (slice bs 12 2)) (le_value (slice bs 14 2)).

(* record at offset [off] of [bs]; None when the status word is not 0/1/2 *)
Definition decode_ceb (bs : list Z) (off : nat) : option ceb :=
  match status_of_code (le_value (slice bs (off + 48) 4)) with
  | None => None
  | Some st =>
      Some (mkceb (mkts (dec_i64 (slice bs off 8)) (dec_i64 (slice bs (off + 8) 8)))
                  (mkts (dec_i64 (slice bs (off + 16) 8)) (dec_i64 (slice bs (off + 24) 8)))
                  (dec_i64 (slice bs (off + 32) 8)) (le_value (slice bs (off + 40) 4))
                  (le_value (slice bs (off + 44) 4)) st)
  end.

Definition SEGSIZE := 72.
Definition fresh_header (gen : Z) : header := mkhdr MAGIC0 MAGIC1 SEGSIZE 1 gen.
