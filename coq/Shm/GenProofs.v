From Coq Require Import ZArith Lia ZifyBool Znumtheory.
From CB Require Import Gen.
Open Scope Z_scope.
Ltac Zify.zify_post_hook ::= Z.div_mod_to_equations.

Lemma even_mod2 g : Z.even g = (g mod 2 =? 0).
Proof. rewrite Zmod_even. destruct (Z.even g); reflexivity. Qed.
Lemma odd_mod2 g : Z.odd g = negb (g mod 2 =? 0).
Proof. rewrite <- Z.negb_even, even_mod2. reflexivity. Qed.

Theorem generation_step_spec : forall g, 0 <= g < 65536 ->
  Z.odd (pre g) = true /\ Z.even (post (pre g)) = true /\ post (pre g) <> 0 /\ post (pre g) <> g /\
  (65534 <= g -> post (pre g) = 2) /\ (Z.odd g = true -> pre g = g) /\
  0 <= pre g < 65536 /\ 0 <= post (pre g) < 65536.
Proof.
  intros g Hg. unfold pre, post. rewrite !odd_mod2, !even_mod2.
  destruct (g mod 2 =? 0) eqn:E.
  - destruct (((g + 1) mod 65536 + 1) mod 65536 =? 0) eqn:F; rewrite ?even_mod2, ?odd_mod2; repeat split; try lia.
  - destruct ((g + 1) mod 65536 =? 0) eqn:F; rewrite ?even_mod2, ?odd_mod2; repeat split; try lia.
Qed.

(* Even values walk a cycle of length 32767. *)
Lemma post_pre_idx e : 2 <= e < 65536 -> e mod 2 = 0 -> idx (post (pre e)) = (idx e + 1) mod 32767.
Proof.
  intros He Hev. unfold pre, post, idx. rewrite even_mod2.
  destruct (e mod 2 =? 0) eqn:E; [|lia].
  destruct (((e + 1) mod 65536 + 1) mod 65536 =? 0) eqn:F; lia.
Qed.

Lemma post_pre_even_range e : 2 <= e < 65536 -> e mod 2 = 0 ->
  2 <= post (pre e) < 65536 /\ post (pre e) mod 2 = 0.
Proof.
  intros He Hev. unfold pre, post. rewrite even_mod2.
  destruct (e mod 2 =? 0) eqn:E; [|lia].
  destruct (((e + 1) mod 65536 + 1) mod 65536 =? 0) eqn:F; lia.
Qed.

(* An interrupted update leaves an odd value; the next update adopts it and completes as the
   interrupted one would have. *)
Lemma pre_idem g : 0 <= g < 65536 -> pre (pre g) = pre g.
Proof.
  intros Hg. unfold pre. rewrite !even_mod2.
  destruct (g mod 2 =? 0) eqn:E; [|rewrite E; reflexivity].
  destruct ((g + 1) mod 65536 mod 2 =? 0) eqn:F; lia.
Qed.

Lemma idx_inj a b : 2 <= a < 65536 -> 2 <= b < 65536 -> a mod 2 = 0 -> b mod 2 = 0 -> idx a = idx b -> a = b.
Proof. unfold idx. lia. Qed.

Lemma idx_range e : 2 <= e < 65536 -> e mod 2 = 0 -> 0 <= idx e < 32767.
Proof. unfold idx. lia. Qed.
