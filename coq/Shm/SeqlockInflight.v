(* C04 (a) / C18 / C09, for sequentially consistent calls in every reachable state: while an update is
   open - begun and not completed, or left open for good by a daemon that died inside it, whatever was
   restarted over it since - the generation is odd, and a call returns after its two header loads with
   the record the client held before; a client that attaches then holds the empty record (status
   Unknown) and keeps being served it.  Nothing half-written is ever handed out, and nobody waits. *)
From Coq Require Import ZArith List Bool Arith NArith Lia.
From CB Require Import Gen GenProofs Machine MachineFacts SeqlockInv GenCyc SeqlockRA SeqlockMono SeqlockFresh.
Import ListNotations.
Open Scope nat_scope.

Section Gen.
Context {RF : RecFun}.

(* one call against a log whose latest generation event carries an odd value (or 0) *)
Theorem inflight_call c L r q e : rel_bounded L ->
  SCInv (c_cells c) L (r_view r) -> r_pc r = RIdle ->
  latest LGen L = Some q -> ev L q = Some e -> (Z.odd (e_val e) = true \/ e_val e = 0%Z) ->
  exists r', sc_run c L r 2 = Some (RetCache, r') /\ r_pc r' = RIdle /\ SCInv (c_cells c) L (r_view r') /\
    r_cache r' = r_cache r /\ r_cache_gen r' = r_cache_gen r.
Proof.
  intros RB HS Hpc Hq Ee Hodd.
  destruct (sc_read _ L (r_view r) LVer (c_r_ver c) HS RB (or_introl eq_refl)) as (pv & ev0 & v1 & Hlv & Eev & DR1 & HS1).
  cbn [sc_run]. unfold r_step at 1. rewrite Hpc, DR1.
  destruct (e_val ev0 =? 0)%Z eqn:Hv0.
  { eexists. split; [reflexivity|]. cbn [r_pc r_view r_cache r_cache_gen]. auto. }
  destruct (sc_read _ L v1 LGen (c_r_g1 c) HS1 RB (or_intror (or_introl eq_refl))) as (q' & e' & v2 & Hq' & Ee' & DR2 & HS2).
  rewrite Hq in Hq'. inversion Hq'; subst q'. rewrite Ee in Ee'. inversion Ee'; subst e'. clear Hq' Ee'.
  unfold r_step at 1. cbn [r_pc r_view r_cache r_cache_gen r_g1pos r_cellpos]. rewrite DR2.
  assert (Hc : ((e_val e =? 0)%Z || (e_val e =? r_cache_gen r)%Z || Z.odd (e_val e))%bool = true).
  { destruct Hodd as [H|H]; [rewrite H; apply orb_true_r | rewrite H; reflexivity]. }
  rewrite Hc. eexists. split; [reflexivity|]. cbn [r_pc r_view r_cache r_cache_gen]. auto.
Qed.

(* ... in every reachable state of the machine: any schedule, any legal read choices before the call,
   crashes and restarts at any access, clients attached at any time, any number of publications *)
Theorem inflight_machine c ts m o j r q e : safe_cfg c = true ->
  Forall real_token ts -> m_run (m_init c) ts = (m, o) ->
  nth_error (m_rs m) j = Some r -> r_pc r = RIdle ->
  latest LGen (w_log (m_w m)) = Some q -> ev (w_log (m_w m)) q = Some e -> (Z.odd (e_val e) = true \/ e_val e = 0%Z) ->
  exists k m' pre r', k <= 2 /\
    m_run m (repeat (TR j None) k) = (m', pre ++ [ORet j RetCache (r_cache r)]) /\ Forall is_access pre /\
    nth_error (m_rs m') j = Some r' /\ r_pc r' = RIdle /\ r_cache r' = r_cache r /\ r_cache_gen r' = r_cache_gen r /\
    m_w m' = m_w m.
Proof.
  intros Hs Hts R Er Hpc Hq Ee Hodd.
  pose proof (m_run_F c Hs ts (m_init c) m o (MInvF_init c) Hts R) as I.
  pose proof (F_w _ _ I) as WI.
  assert (HS : SCInv (c_cells c) (w_log (m_w m)) (r_view r)).
  { pose proof (F_rs _ _ I) as RS. rewrite Forall_forall in RS. apply RS. eapply nth_error_In; eauto. }
  destruct (inflight_call c (w_log (m_w m)) r q e (W_rel_le _ _ WI) HS Hpc Hq Ee Hodd) as (r' & Hrun & Hpc' & _ & Hc & Hg).
  destruct (sc_run_machine c j _ m r RetCache r' (F_cfg _ _ I) Er Hrun) as (k & m' & pre & Hk & Hm & Hpre & Er' & Ew & _).
  rewrite Hc in Hm. exists k, m', pre, r'. repeat (split; [assumption|]). assumption.
Qed.

Lemma m_run_snoc m ts t m1 o1 : m_run m ts = (m1, o1) ->
  m_run m (ts ++ [t]) = (fst (m_step m1 t), o1 ++ snd (m_step m1 t)).
Proof.
  revert m m1 o1. induction ts as [|t0 ts IH]; intros m m1 o1 R; cbn [app m_run] in *.
  - inversion R; subst. destruct (m_step m1 t) as [m2 o2]. cbn [fst snd]. rewrite app_nil_r. reflexivity.
  - destruct (m_step m t0) as [ma oa]. destruct (m_run ma ts) as [mb ob] eqn:Rb. inversion R; subst m1 o1; clear R.
    rewrite (IH ma mb ob Rb). rewrite app_assoc. reflexivity.
Qed.

(* a client that attaches while the update is open holds the empty record, and is served it *)
Theorem attach_inflight_machine c ts m o q e : safe_cfg c = true ->
  Forall real_token ts -> m_run (m_init c) ts = (m, o) -> header_valid (w_log (m_w m)) = true ->
  latest LGen (w_log (m_w m)) = Some q -> ev (w_log (m_w m)) q = Some e -> (Z.odd (e_val e) = true \/ e_val e = 0%Z) ->
  exists k m' pre, k <= 2 /\
    m_run m (TNewReader :: repeat (TR (length (m_rs m)) None) k) = (m', pre ++ [ORet (length (m_rs m)) RetCache (repeat 0%Z (c_cells c))]) /\
    Forall is_access pre /\ m_w m' = m_w m.
Proof.
  intros Hs Hts R HV Hq Ee Hodd.
  pose proof (m_run_F c Hs ts (m_init c) m o (MInvF_init c) Hts R) as I.
  set (m1 := mkm (m_w m) (m_rs m ++ [r_new c (w_log (m_w m))]) (m_nrec m) c).
  assert (S1 : m_step m TNewReader = (m1, [])) by (unfold m_step; rewrite (F_cfg _ _ I), HV; reflexivity).
  assert (R1 : m_run (m_init c) (ts ++ [TNewReader]) = (m1, o ++ [])).
  { rewrite (m_run_snoc _ _ TNewReader _ _ R), S1. reflexivity. }
  assert (Hts1 : Forall real_token (ts ++ [TNewReader])) by (apply Forall_app; split; [exact Hts | repeat constructor]).
  assert (Er : nth_error (m_rs m1) (length (m_rs m)) = Some (r_new c (w_log (m_w m)))).
  { cbn [m1 m_rs]. rewrite nth_error_app2 by lia. rewrite Nat.sub_diag. reflexivity. }
  destruct (inflight_machine c _ m1 _ (length (m_rs m)) _ q e Hs Hts1 R1 Er eq_refl Hq Ee Hodd)
    as (k & m' & pre & r' & Hk & Hm & Hpre & _ & _ & _ & _ & Ew).
  exists k, m', pre. split; [exact Hk|]. split; [|split; [exact Hpre | exact Ew]].
  cbn [m_run]. rewrite S1. fold m1. rewrite Hm. reflexivity.
Qed.

(* ------------------------------------------------------------------ an open update is an odd generation *)
(* the first generation store of every update carries an odd value, through the wrap and after any
   crash/restart pattern: so "the latest generation event is the first store of an update" - the update
   is open - is a case of the theorems above *)
Definition OddVals (L : list event) : Prop := forall p e, ev L p = Some e -> e_kind e = KOdd -> Z.odd (e_val e) = true.

Lemma OddVals_snoc L x : OddVals L -> (e_kind x = KOdd -> Z.odd (e_val x) = true) -> OddVals (L ++ [x]).
Proof. intros A HA p e He Hk. apply ev_snoc in He as [[_ He]|[_ ->]]; [apply (A p e He Hk) | apply HA, Hk]. Qed.

Lemma OddVals_init n : OddVals (init_log n).
Proof. intros p e H K. apply init_log_ev in H as (K' & _). congruence. Qed.

Lemma pre_odd g : (0 <= g < 65536)%Z -> Z.odd (pre g) = true.
Proof.
  intros Hg. unfold pre. destruct (Z.even g) eqn:E.
  - assert (g <> 65535%Z) by (intros ->; discriminate).
    rewrite Z.mod_small by lia. rewrite Z.odd_add, <- Z.negb_even, E. reflexivity.
  - rewrite <- Z.negb_even, E. reflexivity.
Qed.

Lemma w_step_oddvals c w r k w' it : WInv3 w -> OddVals (w_log w) -> w_step c w r k = (w', it) -> OddVals (w_log w').
Proof.
  intros W3 A S. pose proof (W3_pc _ W3) as Hpc. unfold w_step in S.
  destruct (w_pc w) as [| g | p | p [|i todo] |]; inversion S; subst; clear S; cbn [w_log]; try exact A.
  - apply OddVals_snoc; [exact A|]. cbn [e_kind e_val]. intros _. apply pre_odd, Hpc.
  - destruct (c_w_fence c); inversion H0; subst; cbn [w_log]; exact A.
  - apply OddVals_snoc; [exact A|]. cbn [e_kind]. discriminate.
  - apply OddVals_snoc; [exact A|]. cbn [e_kind]. discriminate.
Qed.

Lemma w_restart_oddvals c w : OddVals (w_log w) -> OddVals (w_log (w_restart c w)).
Proof.
  intros A. unfold w_restart. destruct (header_valid (w_log w)); cbn [w_log].
  - apply OddVals_snoc; [exact A|]. cbn [e_kind]. discriminate.
  - apply OddVals_snoc; [apply OddVals_init|]. cbn [e_kind]. discriminate.
Qed.

Lemma m_step_oddvals c m t m' o : MInvF c m -> OddVals (w_log (m_w m)) -> real_token t ->
  m_step m t = (m', o) -> OddVals (w_log (m_w m')).
Proof.
  intros I A Ht St. pose proof (F_cfg _ _ I) as Ec. unfold m_step in St. rewrite Ec in St.
  destruct t as [| j ch | | | | v]; try contradiction.
  - destruct (w_step c (m_w m) _ _) as [w' [it|]] eqn:W; inversion St; subst m' o; clear St; [|exact A].
    cbn [m_w]. apply (w_step_oddvals c _ _ _ _ _ (F_w3 _ _ I) A W).
  - destruct (nth_error (m_rs m) j) as [r|]; [|inversion St; subst; exact A].
    destruct (r_step c (w_log (m_w m)) r ch) as [[[r' it] ret]|]; inversion St; subst m' o; exact A.
  - destruct (w_pc (m_w m)); inversion St; subst m' o; exact A.
  - destruct (w_pc (m_w m)); inversion St; subst m' o; clear St; try exact A.
    cbn [m_w]. apply w_restart_oddvals, A.
  - destruct (header_valid (w_log (m_w m))); inversion St; subst m' o; exact A.
Qed.

Lemma m_run_oddvals c : safe_cfg c = true -> forall ts m m' o, MInvF c m -> OddVals (w_log (m_w m)) ->
  Forall real_token ts -> m_run m ts = (m', o) -> OddVals (w_log (m_w m')).
Proof.
  intros Hs. induction ts as [|t ts IH]; intros m m' o I A Ht R; cbn [m_run] in R.
  - inversion R; subst. exact A.
  - destruct (m_step m t) as [m1 o1] eqn:S1. destruct (m_run m1 ts) as [m2 o2] eqn:R2. inversion R; subst m' o; clear R.
    inversion Ht as [|? ? Ht1 Ht2]; subst.
    apply (IH m1 m2 o2 (m_step_F c m t m1 o1 Hs I Ht1 S1) (m_step_oddvals c m t m1 o1 I A Ht1 S1) Ht2 R2).
Qed.

Theorem open_update_is_odd c ts m o q e : safe_cfg c = true -> Forall real_token ts ->
  m_run (m_init c) ts = (m, o) -> ev (w_log (m_w m)) q = Some e -> e_kind e = KOdd -> Z.odd (e_val e) = true.
Proof.
  intros Hs Hts R Ee K.
  assert (A0 : OddVals (w_log (m_w (m_init c)))).
  { unfold m_init, w_init. cbn [m_w w_log]. apply OddVals_snoc; [apply OddVals_init|]. cbn [e_kind]. discriminate. }
  exact (m_run_oddvals c Hs ts (m_init c) m o (MInvF_init c) A0 Hts R q e Ee K).
Qed.

End Gen.
