(* C04 (a) / C18 / C09, for sequentially consistent calls in every reachable state: while an update is
   open - begun and not completed, or left open for good by a daemon that died inside it, whatever was
   restarted over it since - the generation is odd, and a call returns after its two header loads with
   the record the client held before; a client that attaches then holds the empty record (status
   Unknown) and keeps being served it.  Nothing half-written is ever handed out, and nobody waits. *)
From Coq Require Import ZArith List Bool Arith NArith Lia.
From CB Require Import Gen GenProofs Machine MachineFacts SeqlockInv GenCyc SeqlockRA SeqlockMono SeqlockFresh.
Import ListNotations.
Open Scope nat_scope.

Section Gen.
Context {RF : RecFun}.

(* one call against a log whose latest generation event carries an odd value (or 0) *)
Theorem inflight_call c L r q e : rel_bounded L ->
  SCInv (c_cells c) L (r_view r) -> r_pc r = RIdle ->
  latest LGen L = Some q -> ev L q = Some e -> (Z.odd (e_val e) = true \/ e_val e = 0%Z) ->
  exists r', sc_run c L r 2 = Some (RetCache, r') /\ r_pc r' = RIdle /\ SCInv (c_cells c) L (r_view r') /\
    r_cache r' = r_cache r /\ r_cache_gen r' = r_cache_gen r.
Proof.
  intros RB HS Hpc Hq Ee Hodd.
  destruct (sc_read _ L (r_view r) LVer (c_r_ver c) HS RB (or_introl eq_refl)) as (pv & ev0 & v1 & Hlv & Eev & DR1 & HS1).
  cbn [sc_run]. unfold r_step at 1. rewrite Hpc, DR1.
  destruct (e_val ev0 =? 0)%Z eqn:Hv0.
  { eexists. split; [reflexivity|]. cbn [r_pc r_view r_cache r_cache_gen]. auto. }
  destruct (sc_read _ L v1 LGen (c_r_g1 c) HS1 RB (or_intror (or_introl eq_refl))) as (q' & e' & v2 & Hq' & Ee' & DR2 & HS2).
  rewrite Hq in Hq'. inversion Hq'; subst q'. rewrite Ee in Ee'. inversion Ee'; subst e'. clear Hq' Ee'.
  unfold r_step at 1. cbn [r_pc r_view r_cache r_cache_gen r_g1pos r_cellpos]. rewrite DR2.
  assert (Hc : ((e_val e =? 0)%Z || (e_val e =? r_cache_gen r)%Z || Z.odd (e_val e))%bool = true).
  { destruct Hodd as [H|H]; [rewrite H; apply orb_true_r | rewrite H; reflexivity]. }
  rewrite Hc. eexists. split; [reflexivity|]. cbn [r_pc r_view r_cache r_cache_gen]. auto.
Qed.

(* ... in every reachable state of the machine: any schedule, any legal read choices before the call,
   crashes and restarts at any access, clients attached at any time, any number of publications *)
Theorem inflight_machine c ts m o j r q e : safe_cfg c = true ->
  Forall real_token ts -> m_run (m_init c) ts = (m, o) ->
  nth_error (m_rs m) j = Some r -> r_pc r = RIdle ->
  latest LGen (w_log (m_w m)) = Some q -> ev (w_log (m_w m)) q = Some e -> (Z.odd (e_val e) = true \/ e_val e = 0%Z) ->
  exists k m' pre r', k <= 2 /\
    m_run m (repeat (TR j None) k) = (m', pre ++ [ORet j RetCache (r_cache r)]) /\ Forall is_access pre /\
    nth_error (m_rs m') j = Some r' /\ r_pc r' = RIdle /\ r_cache r' = r_cache r /\ r_cache_gen r' = r_cache_gen r /\
    m_w m' = m_w m.
Proof.
  intros Hs Hts R Er Hpc Hq Ee Hodd.
  pose proof (m_run_F c Hs ts (m_init c) m o (MInvF_init c) Hts R) as I.
  pose proof (F_w _ _ I) as WI.
  assert (HS : SCInv (c_cells c) (w_log (m_w m)) (r_view r)).
  { pose proof (F_rs _ _ I) as RS. rewrite Forall_forall in RS. apply RS. eapply nth_error_In; eauto. }
  destruct (inflight_call c (w_log (m_w m)) r q e (W_rel_le _ _ WI) HS Hpc Hq Ee Hodd) as (r' & Hrun & Hpc' & _ & Hc & Hg).
  destruct (sc_run_machine c j _ m r RetCache r' (F_cfg _ _ I) Er Hrun) as (k & m' & pre & Hk & Hm & Hpre & Er' & Ew & _).
  rewrite Hc in Hm. exists k, m', pre, r'. repeat (split; [assumption|]). assumption.
Qed.

Lemma m_run_snoc m ts t m1 o1 : m_run m ts = (m1, o1) ->
  m_run m (ts ++ [t]) = (fst (m_step m1 t), o1 ++ snd (m_step m1 t)).
Proof.
  revert m m1 o1. induction ts as [|t0 ts IH]; intros m m1 o1 R; cbn [app m_run] in *.
  - inversion R; subst. destruct (m_step m1 t) as [m2 o2]. cbn [fst snd]. rewrite app_nil_r. reflexivity.
  - destruct (m_step m t0) as [ma oa]. destruct (m_run ma ts) as [mb ob] eqn:Rb. inversion R; subst m1 o1; clear R.
    rewrite (IH ma mb ob Rb). rewrite app_assoc. reflexivity.
Qed.

(* a client that attaches while the update is open holds the empty record, and is served it *)
Theorem attach_inflight_machine c ts m o q e : safe_cfg c = true ->
  Forall real_token ts -> m_run (m_init c) ts = (m, o) -> header_valid (w_log (m_w m)) = true ->
  latest LGen (w_log (m_w m)) = Some q -> ev (w_log (m_w m)) q = Some e -> (Z.odd (e_val e) = true \/ e_val e = 0%Z) ->
  exists k m' pre, k <= 2 /\
    m_run m (TNewReader :: repeat (TR (length (m_rs m)) None) k) = (m', pre ++ [ORet (length (m_rs m)) RetCache (repeat 0%Z (c_cells c))]) /\
    Forall is_access pre /\ m_w m' = m_w m.
Proof.
  intros Hs Hts R HV Hq Ee Hodd.
  pose proof (m_run_F c Hs ts (m_init c) m o (MInvF_init c) Hts R) as I.
  set (m1 := mkm (m_w m) (m_rs m ++ [r_new c (w_log (m_w m))]) (m_nrec m) c).
  assert (S1 : m_step m TNewReader = (m1, [])) by (unfold m_step; rewrite (F_cfg _ _ I), HV; reflexivity).
  assert (R1 : m_run (m_init c) (ts ++ [TNewReader]) = (m1, o ++ [])).
  { rewrite (m_run_snoc _ _ TNewReader _ _ R), S1. reflexivity. }
  assert (Hts1 : Forall real_token (ts ++ [TNewReader])) by (apply Forall_app; split; [exact Hts | repeat constructor]).
  assert (Er : nth_error (m_rs m1) (length (m_rs m)) = Some (r_new c (w_log (m_w m)))).
  { cbn [m1 m_rs]. rewrite nth_error_app2 by lia. rewrite Nat.sub_diag. reflexivity. }
  destruct (inflight_machine c _ m1 _ (length (m_rs m)) _ q e Hs Hts1 R1 Er eq_refl Hq Ee Hodd)
    as (k & m' & pre & r' & Hk & Hm & Hpre & _ & _ & _ & _ & Ew).
  exists k, m', pre. split; [exact Hk|]. split; [|split; [exact Hpre | exact Ew]].
  cbn [m_run]. rewrite S1. fold m1. rewrite Hm. reflexivity.
Qed.

End Gen.
