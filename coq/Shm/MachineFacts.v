(* Elementary facts about the machine of Shm/Machine.v used by C03 / C04 / C02: what the writer
   stores, header validity across steps, crashes and restarts, and what a reader step may change. *)
From Coq Require Import ZArith List Bool Arith NArith Lia.
From CB Require Import Gen GenProofs Machine.
Import ListNotations.
Open Scope Z_scope.

Lemma pre_nonzero g : pre g <> 0 \/ Z.odd g = true /\ g = 0 -> pre g <> 0.
Proof. intros [H|[H ->]]; [exact H | discriminate H]. Qed.

Lemma pre_never_zero g : pre g <> 0.
Proof.
  unfold pre. destruct (Z.even g) eqn:E.
  - intros H. assert (Hm : (g + 1) mod 65536 = 0) by exact H.
    apply Z.mod_divide in Hm; [|lia]. destruct Hm as [k Hk].
    assert (Z.even (g + 1) = true) by (rewrite Hk, Z.even_mul; reflexivity || (rewrite orb_true_r; reflexivity)).
    rewrite Z.even_add, E in H0. discriminate.
  - intros ->. discriminate.
Qed.

Lemma post_never_zero p : post p <> 0.
Proof. unfold post. cbv zeta. destruct ((p + 1) mod 65536 =? 0) eqn:E; [lia | apply Z.eqb_neq; exact E]. Qed.

(* [latest] on an extended log *)
Lemma latest_from_app l : forall L1 L2 base acc,
  latest_from l (L1 ++ L2) base acc = latest_from l L2 (base + length L1) (latest_from l L1 base acc).
Proof.
  induction L1 as [|e L1 IH]; intros L2 base acc; cbn [app latest_from length].
  - rewrite Nat.add_0_r. reflexivity.
  - rewrite IH. f_equal. lia.
Qed.

Lemma latest_snoc l L e :
  latest l (L ++ [e]) = if loc_eqb (e_loc e) l then Some (length L) else latest l L.
Proof. unfold latest. rewrite latest_from_app. cbn [latest_from]. rewrite Nat.add_0_l. reflexivity. Qed.

Lemma latest_lt l : forall L base acc i, latest_from l L base acc = Some i ->
  (acc = Some i \/ (base <= i < base + length L)%nat).
Proof.
  induction L as [|e L IH]; intros base acc i H; cbn [latest_from length] in *; [left; exact H|].
  apply IH in H. destruct H as [H|H]; [|right; lia].
  destruct (loc_eqb (e_loc e) l); [inversion H; right; lia | left; exact H].
Qed.

Lemma latest_val_snoc_same l L e : e_loc e = l -> latest_val l (L ++ [e]) = e_val e.
Proof.
  intros <-. unfold latest_val. rewrite latest_snoc.
  assert (loc_eqb (e_loc e) (e_loc e) = true) as -> by (destruct (e_loc e); cbn; auto using Nat.eqb_refl).
  unfold val_at. rewrite nth_error_app2 by lia. rewrite Nat.sub_diag. reflexivity.
Qed.

Lemma latest_val_snoc_other l L e : loc_eqb (e_loc e) l = false -> latest_val l (L ++ [e]) = latest_val l L.
Proof.
  intros H. unfold latest_val. rewrite latest_snoc, H.
  destruct (latest l L) as [i|] eqn:E; [|reflexivity].
  unfold val_at. apply latest_lt in E. destruct E as [E|E]; [discriminate|].
  rewrite nth_error_app1 by (cbn in E; lia). reflexivity.
Qed.

(* ---- header validity is preserved by everything the writer can do, crashes included ---- *)
Lemma w_step_valid c w r k w' it :
  header_valid (w_log w) = true -> w_step c w r k = (w', it) -> header_valid (w_log w') = true.
Proof.
  unfold header_valid, w_step. intros H S.
  apply andb_true_iff in H as [Hv Hg].
  destruct (w_pc w) as [| g | p | p [|i todo] |]; try (inversion S; subst; cbn [w_log]; rewrite Hv, Hg; reflexivity).
  - inversion S; subst; cbn [w_log]. unfold w_push.
    rewrite latest_val_snoc_other by reflexivity. rewrite latest_val_snoc_same by reflexivity.
    rewrite Hv. cbn [andb]. apply negb_true_iff, Z.eqb_neq, pre_never_zero.
  - destruct (c_w_fence c); inversion S; subst; cbn [w_log]; rewrite Hv, Hg; reflexivity.
  - inversion S; subst; cbn [w_log]. unfold w_push.
    rewrite latest_val_snoc_other by reflexivity. rewrite latest_val_snoc_same by reflexivity.
    rewrite Hv. cbn [andb]. apply negb_true_iff, Z.eqb_neq, post_never_zero.
  - inversion S; subst; cbn [w_log]. unfold w_push.
    rewrite !latest_val_snoc_other by reflexivity. rewrite Hv, Hg. reflexivity.
Qed.

Lemma w_crash_log w : w_log (w_crash w) = w_log w. Proof. reflexivity. Qed.

(* a valid segment is taken over in place: the only store is version := 1 *)
Lemma w_restart_valid c w : header_valid (w_log w) = true ->
  w_log (w_restart c w) = w_log w ++ [mkev LVer 1 (w_relview w) (w_att w) KVer] /\
  header_valid (w_log (w_restart c w)) = true /\
  latest_val LGen (w_log (w_restart c w)) = latest_val LGen (w_log w) /\
  (forall i, latest_val (LCell i) (w_log (w_restart c w)) = latest_val (LCell i) (w_log w)).
Proof.
  intros H. unfold w_restart. rewrite H. cbn [w_log]. unfold w_push. cbn [is_rel].
  split; [reflexivity|]. unfold header_valid in *. apply andb_true_iff in H as [Hv Hg].
  rewrite latest_val_snoc_same by reflexivity. rewrite !latest_val_snoc_other by reflexivity.
  rewrite Hg. repeat split; try reflexivity. intros i. rewrite latest_val_snoc_other by reflexivity. reflexivity.
Qed.

(* an update started from an odd generation (left by a crash) adopts it *)
Lemma adopt_odd c w r k : w_pc w = WIdle -> Z.odd (latest_val LGen (w_log w)) = true ->
  let w1 := fst (w_step c w r k) in let w2 := fst (w_step c w1 r k) in
  latest_val LGen (w_log w2) = latest_val LGen (w_log w).
Proof.
  intros PC Hodd. cbv zeta. unfold w_step at 2. rewrite PC. cbn [fst].
  unfold w_step. cbn [w_pc w_log w_att w_rec w_relview fst]. unfold w_push.
  rewrite latest_val_snoc_same by reflexivity. cbn [e_val].
  unfold pre. rewrite <- Z.negb_odd, Hodd. reflexivity.
Qed.

(* ---- what a reader step can do to the reader's cache ---- *)
Lemma r_step_cache c L r ch r' it ret :
  r_step c L r ch = Some (r', it, ret) ->
  (ret = Some RetFresh /\ exists g acc b, r_pc r = RReload g acc b /\ r_cache r' = assemble (c_cells c) acc /\ r_cache_gen r' = g) \/
  (ret <> Some RetFresh /\ r_cache r' = r_cache r /\ r_cache_gen r' = r_cache_gen r).
Proof.
  unfold r_step. intros H.
  destruct (r_pc r) as [| | g todo acc b | g acc b | g acc b].
  - destruct (do_read L (r_view r) LVer (c_r_ver c) ch) as [[[ver p] v]|]; [|discriminate].
    destruct (ver =? 0); inversion H; subst; right; repeat split; discriminate || reflexivity.
  - destruct (do_read L (r_view r) LGen (c_r_g1 c) ch) as [[[g p] v]|]; [|discriminate].
    destruct ((g =? 0) || (g =? r_cache_gen r) || Z.odd g); [inversion H; subst; right; repeat split; discriminate || reflexivity|].
    destruct (N.eqb (c_retries c) 0); inversion H; subst; right; repeat split; discriminate || reflexivity.
  - destruct todo as [|i todo].
    + inversion H; subst; right; repeat split; discriminate || reflexivity.
    + destruct (do_read L (r_view r) (LCell i) Rlx ch) as [[[x p] v]|]; [|discriminate].
      inversion H; subst; right; repeat split; discriminate || reflexivity.
  - destruct (c_r_fence c); inversion H; subst; right; repeat split; discriminate || reflexivity.
  - destruct (do_read L (r_view r) LGen (c_r_g2 c) ch) as [[[g2 p] v]|]; [|discriminate].
    destruct (g2 =? g) eqn:E.
    + inversion H; subst. left. split; [reflexivity|]. exists g, acc, b. repeat split; reflexivity.
    + destruct (N.eqb (N.pred b) 0); inversion H; subst; right; repeat split; discriminate || reflexivity.
Qed.

(* the record is accepted only when the re-loaded generation equals the tracked one, which is even
   and non-zero *)
Lemma accept_needs_equal_even c L r ch r' it :
  r_step c L r ch = Some (r', it, Some RetFresh) ->
  exists g acc b v p, r_pc r = RReload g acc b /\ do_read L (r_view r) LGen (c_r_g2 c) ch = Some (g, p, v).
Proof.
  unfold r_step. intros H.
  destruct (r_pc r) as [| | g todo acc b | g acc b | g acc b].
  - destruct (do_read L (r_view r) LVer (c_r_ver c) ch) as [[[ver p] v]|]; [|discriminate].
    destruct (ver =? 0); discriminate.
  - destruct (do_read L (r_view r) LGen (c_r_g1 c) ch) as [[[g p] v]|]; [|discriminate].
    destruct ((g =? 0) || (g =? r_cache_gen r) || Z.odd g); [discriminate|].
    destruct (N.eqb (c_retries c) 0); discriminate.
  - destruct todo as [|i todo]; [discriminate|].
    destruct (do_read L (r_view r) (LCell i) Rlx ch) as [[[x p] v]|]; discriminate.
  - destruct (c_r_fence c); discriminate.
  - destruct (do_read L (r_view r) LGen (c_r_g2 c) ch) as [[[g2 p] v]|] eqn:D; [|discriminate].
    destruct (Z.eqb_spec g2 g) as [->|N].
    + exists g, acc, b, v, p. split; [reflexivity | reflexivity].
    + destruct (N.eqb (N.pred b) 0); discriminate.
Qed.
