(* Opening a segment file (ShmReader::new: FdGuard::new, ShmHeader::read + is_valid, mmap, size
   check) and what the daemon's start-up plus first publication leaves in the file
   (ShmWriter::new: is_usable_segment / wipe / extend / mmap / version := 1, then write()). *)
From Coq Require Import ZArith List Bool Lia.
From CB Require Import Mach Client Gen Layout.
Import ListNotations.
Open Scope Z_scope.

(* FNoPath e: the path cannot be resolved - a component is not a directory (ENOTDIR), a symlink
   loop (ELOOP), a name that is too long (ENAMETOOLONG), ...: open(2) fails with that errno *)
Inductive fileobj := FMissing | FDir | FFile (bytes : list Z) | FNoPath (errno : Z).

Inductive okind := KNotInitialized | KMalformed | KSyscall (errno : Z) (origin : Z).
(* origin: 1 = "open", 2 = "read SHM segment", 3 = "mmap SHM segment" *)
Definition ENOENT := 2. Definition EISDIR := 21.

Inductive open_result := OpenOk (h : header) | OpenErr (k : okind).

Definition reader_open (f : fileobj) : open_result :=
  match f with
  | FMissing => OpenErr (KSyscall ENOENT 1)
  | FDir => OpenErr (KSyscall EISDIR 2)
  | FNoPath e => OpenErr (KSyscall e 1)
  | FFile bs =>
      if Nat.ltb (length bs) 16 then OpenErr KNotInitialized else
      let h := decode_header bs in
      if negb ((h_magic0 h =? MAGIC0) && (h_magic1 h =? MAGIC1)) then OpenErr KNotInitialized
      else if h_version h =? 0 then OpenErr KNotInitialized
      else if h_generation h =? 0 then OpenErr KNotInitialized
      else if h_size h <? 16 then OpenErr KMalformed          (* is_well_formed, before mmap *)
      else if h_size h <? 72 then OpenErr KMalformed          (* after mmap, before the record pointer is formed *)
      else OpenOk h
  end.

(* bytes [0, n) of bs, zero-extended *)
Definition pad_to (bs : list Z) (n : nat) : list Z := bs ++ repeat 0 (n - length bs).

(* file content after ShmWriter::new + one complete write(r), writer dropped.
   None: the daemon cannot start (the path is a directory). *)
Definition after_first_publication (f : fileobj) (r : ceb) : option (list Z) :=
  match f with
  | FDir => None
  | FNoPath _ => None
  | _ =>
    match reader_open f with
    | OpenOk h =>
        match f with
        | FFile bs =>
            let bs' := pad_to bs 72 in
            Some (firstn 12 bs' ++ enc_u 2 1 ++ enc_u 2 (post (pre (h_generation h))) ++ encode_ceb r ++ skipn 72 bs')
        | _ => None
        end
    | OpenErr _ => Some (encode_header (fresh_header 2) ++ encode_ceb r)
    end
  end.

(* ------------------------------------------------------------------ C04: ShmWriter::wipe, write by write *)
(* File::create (O_CREAT | O_TRUNC), then one write(2) per header field, then the zeroed body.
   A process death between (or inside) these writes leaves a prefix of the final image. *)
Definition wipe_header : header := mkhdr MAGIC0 MAGIC1 SEGSIZE 0 0.
Definition wipe_image : list Z := encode_header wipe_header ++ repeat 0 56.
Definition wipe_writes : list (list Z) :=
  [enc_u 4 MAGIC0; enc_u 4 MAGIC1; enc_u 4 SEGSIZE; enc_u 2 0; enc_u 2 0; repeat 0 56].

Definition is_open_ok (r : open_result) : bool := match r with OpenOk _ => true | OpenErr _ => false end.

(* every state a death during [writes] (into a truncated file) can leave behind is refused by readers *)
Definition crash_states_refused (writes : list (list Z)) : bool :=
  let img := concat writes in
  forallb (fun n => negb (is_open_ok (reader_open (FFile (firstn n img))))) (seq 0 (S (length img))).
