(* Well-formedness of every log the writer program can produce under a safe configuration,
   including crashes at any step and restarts (take-over in place or wipe).  The facts are stated
   about the ghost fields of the events (write-call number, kind) and about the values. *)
From Coq Require Import ZArith List Bool Arith NArith Lia.
From CB Require Import Gen GenProofs Machine MachineFacts.
Import ListNotations.
Open Scope nat_scope.

Section Gen.
Context {RF : RecFun}.


Definition ev (L : list event) (p : nat) : option event := nth_error L p.

Lemma ev_snoc L x p e : ev (L ++ [x]) p = Some e ->
  (p < length L /\ ev L p = Some e) \/ (p = length L /\ e = x).
Proof.
  unfold ev. intros H. destruct (Nat.lt_ge_cases p (length L)) as [Hlt|Hge].
  - left. split; auto. rewrite nth_error_app1 in H; auto.
  - right. rewrite nth_error_app2 in H by lia.
    destruct (p - length L) as [|k] eqn:E.
    + cbn in H. inversion H. split; [lia | reflexivity].
    + cbn in H. destruct k; discriminate.
Qed.

Lemma ev_app_l L x p e : ev L p = Some e -> ev (L ++ x) p = Some e.
Proof. unfold ev. intros H. rewrite nth_error_app1; auto. apply nth_error_Some. congruence. Qed.

Lemma ev_lt L p e : ev L p = Some e -> p < length L.
Proof. unfold ev. intros H. apply nth_error_Some. congruence. Qed.

Lemma ev_last L x : ev (L ++ [x]) (length L) = Some x.
Proof. unfold ev. rewrite nth_error_app2 by lia. rewrite Nat.sub_diag. reflexivity. Qed.

(* completed updates *)
Definition is_even_kind (e : event) : nat := match e_kind e with KEven => 1 | _ => 0 end.
Fixpoint evens (L : list event) : nat := match L with [] => 0 | e :: t => is_even_kind e + evens t end.
Definition evens_upto (L : list event) (p : nat) : nat := evens (firstn (S p) L).

Lemma evens_app L1 L2 : evens (L1 ++ L2) = evens L1 + evens L2.
Proof. induction L1 as [|e L1 IH]; cbn [app evens]; [reflexivity | rewrite IH; lia]. Qed.

Lemma evens_firstn_le L k : evens (firstn k L) <= evens L.
Proof. rewrite <- (firstn_skipn k L) at 2. rewrite evens_app. lia. Qed.

Lemma evens_upto_app_l L x p : p < length L -> evens_upto (L ++ x) p = evens_upto L p.
Proof. intros H. unfold evens_upto. rewrite firstn_app. replace (S p - length L) with 0 by lia. cbn [firstn]. rewrite app_nil_r. reflexivity. Qed.

Lemma evens_upto_last L x : evens_upto (L ++ [x]) (length L) = evens L + is_even_kind x.
Proof.
  unfold evens_upto. rewrite firstn_app. replace (S (length L) - length L) with 1 by lia.
  rewrite firstn_all2 by lia. cbn [firstn]. rewrite evens_app. cbn [evens]. lia.
Qed.

Lemma evens_upto_le L p : evens_upto L p <= evens L.
Proof. apply evens_firstn_le. Qed.

Lemma evens_upto_mono L p q : p <= q -> evens_upto L p <= evens_upto L q.
Proof.
  intros H. unfold evens_upto. replace (firstn (S p) L) with (firstn (S p) (firstn (S q) L)).
  - apply evens_firstn_le.
  - rewrite firstn_firstn. f_equal. lia.
Qed.

Lemma evens_upto_even_strict L p q e : p < q -> ev L q = Some e -> e_kind e = KEven -> evens_upto L p < evens_upto L q.
Proof.
  intros H E K. unfold evens_upto.
  assert (Hq : q < length L) by (eapply ev_lt; eauto).
  assert (S1 : firstn (S q) L = firstn q L ++ [e]).
  { unfold ev in E. revert q E Hq H. clear. revert p. induction L as [|a L IH]; intros p q E Hq H; [cbn in Hq; lia|].
    destruct q as [|q]; [lia|]. cbn [nth_error] in E. cbn [firstn app]. f_equal.
    destruct q as [|q']; [destruct L; cbn in *; inversion E; reflexivity|].
    apply (IH 0); cbn in *; auto; lia. }
  rewrite S1, evens_app. cbn [evens]. unfold is_even_kind at 1. rewrite K.
  assert (evens (firstn (S p) L) <= evens (firstn q L)).
  { replace (firstn (S p) L) with (firstn (S p) (firstn q L)) by (rewrite firstn_firstn; f_equal; lia). apply evens_firstn_le. }
  lia.
Qed.

(* ------------------------------------------------------------------ the log invariant *)
Record LogInv (n : nat) (L : list event) : Prop := {
  L_att_mono : forall p q e f, ev L p = Some e -> ev L q = Some f -> p <= q -> e_att e <= e_att f;
  L_pos : forall p e, ev L p = Some e -> (e_kind e = KOdd \/ e_kind e = KEven \/ e_kind e = KCell) -> 0 < e_att e;
  L_init0 : forall p e, ev L p = Some e -> e_kind e = KInit -> e_att e = 0 /\ e_val e = 0%Z;
  L_cell_kind : forall p e i, ev L p = Some e -> e_loc e = LCell i -> e_kind e = KCell \/ e_kind e = KInit;
  L_gen_kind : forall p e, ev L p = Some e -> e_loc e = LGen -> e_kind e = KOdd \/ e_kind e = KEven \/ e_kind e = KInit;
  L_kind_gen : forall p e, ev L p = Some e -> (e_kind e = KOdd \/ e_kind e = KEven) -> e_loc e = LGen;
  L_cell_rel : forall p e, ev L p = Some e -> e_kind e = KCell ->
      exists q o, ev L q = Some o /\ e_loc o = LGen /\ e_kind o = KOdd /\ e_att o = e_att e /\ q < e_rel e;
  L_even : forall q e, ev L q = Some e -> e_kind e = KEven ->
      q < e_rel e /\ forall i, i < n -> exists p c, p < q /\ ev L p = Some c /\ e_loc c = LCell i /\ e_kind c = KCell /\ e_att c = e_att e;
  L_cell_val : forall p e i, ev L p = Some e -> e_kind e = KCell -> e_loc e = LCell i -> e_val e = nth i (recf n (e_att e)) 0%Z;
  L_gen_val : (Z.of_nat (evens L) < 32767)%Z -> forall p e, ev L p = Some e -> e_loc e = LGen ->
      e_val e = match e_kind e with
                | KOdd => (2 * Z.of_nat (evens_upto L p) + 1)%Z
                | KEven => (2 * Z.of_nat (evens_upto L p))%Z
                | _ => 0%Z
                end;
  L_latest : (Z.of_nat (evens L) < 32767)%Z ->
      latest_val LGen L = (2 * Z.of_nat (evens L))%Z \/ latest_val LGen L = (2 * Z.of_nat (evens L) + 1)%Z
}.

(* what must hold of an event appended to a well-formed log *)
Definition new_ok (n : nat) (L : list event) (x : event) : Prop :=
  (forall p f, ev L p = Some f -> e_att f <= e_att x) /\
  match e_kind x with
  | KInit => False
  | KVer => e_loc x = LVer
  | KOdd => e_loc x = LGen /\ 0 < e_att x /\ ((Z.of_nat (evens L) < 32767)%Z -> e_val x = (2 * Z.of_nat (evens L) + 1)%Z)
  | KEven => e_loc x = LGen /\ 0 < e_att x /\ length L < e_rel x /\
             (forall i, i < n -> exists p c, ev L p = Some c /\ e_loc c = LCell i /\ e_kind c = KCell /\ e_att c = e_att x) /\
             ((Z.of_nat (evens L) + 1 < 32767)%Z -> e_val x = (2 * Z.of_nat (evens L + 1))%Z)
  | KCell => (exists i, e_loc x = LCell i /\ e_val x = nth i (recf n (e_att x)) 0%Z) /\ 0 < e_att x /\
             (exists q o, ev L q = Some o /\ e_loc o = LGen /\ e_kind o = KOdd /\ e_att o = e_att x /\ q < e_rel x)
  end.

Lemma loc_eqb_refl l : loc_eqb l l = true.
Proof. destruct l; cbn; auto using Nat.eqb_refl. Qed.

Lemma LogInv_snoc n L x : LogInv n L -> new_ok n L x -> LogInv n (L ++ [x]).
Proof.
  intros I [HA HK]. constructor.
  - intros p q e f He Hf Hpq. apply ev_snoc in He as [[Hp He]|[Hp ->]]; apply ev_snoc in Hf as [[Hq Hf]|[Hq ->]]; try lia.
    + eapply (L_att_mono _ _ I); eauto.
    + eapply HA; eauto.
  - intros p e He Hk. apply ev_snoc in He as [[Hp He]|[Hp ->]]; [eapply (L_pos _ _ I); eauto|].
    destruct Hk as [K|[K|K]]; rewrite K in HK; cbv beta iota in HK; tauto.
  - intros p e He Hk. apply ev_snoc in He as [[Hp He]|[Hp ->]]; [eapply (L_init0 _ _ I); eauto|]. rewrite Hk in HK; cbv beta iota in HK. contradiction.
  - intros p e i He Hl. apply ev_snoc in He as [[Hp He]|[Hp ->]]; [eapply (L_cell_kind _ _ I); eauto|].
    destruct (e_kind x); try (destruct HK as [HK _]; rewrite HK in Hl; discriminate); try contradiction; try (rewrite HK in Hl; discriminate). left; reflexivity.
  - intros p e He Hl. apply ev_snoc in He as [[Hp He]|[Hp ->]]; [eapply (L_gen_kind _ _ I); eauto|].
    destruct (e_kind x); auto; try contradiction.
    + destruct HK as [[i [Hi _]] _]. rewrite Hi in Hl. discriminate.
    + rewrite HK in Hl. discriminate.
  - intros p e He Hk. apply ev_snoc in He as [[Hp He]|[Hp ->]]; [eapply (L_kind_gen _ _ I); eauto|].
    destruct Hk as [K|K]; rewrite K in HK; cbv beta iota in HK; tauto.
  - intros p e He Hk. apply ev_snoc in He as [[Hp He]|[Hp ->]].
    + destruct (L_cell_rel _ _ I p e He Hk) as (q & o & Ho & R). exists q, o. split; [apply ev_app_l; exact Ho | exact R].
    + rewrite Hk in HK; cbv beta iota in HK. destruct HK as (_ & _ & q & o & Ho & R). exists q, o. split; [apply ev_app_l; exact Ho | exact R].
  - intros q e He Hk. apply ev_snoc in He as [[Hq He]|[Hq ->]].
    + destruct (L_even _ _ I q e He Hk) as [R C]. split; [exact R|]. intros i Hi. destruct (C i Hi) as (p & c & Hp & Hc & R').
      exists p, c. split; [exact Hp|]. split; [apply ev_app_l; exact Hc | exact R'].
    + rewrite Hk in HK; cbv beta iota in HK. destruct HK as (_ & _ & R & C & _). split; [lia|]. intros i Hi. destruct (C i Hi) as (p & c & Hc & R').
      exists p, c. split; [subst q; eapply ev_lt; eauto|]. split; [apply ev_app_l; exact Hc | exact R'].
  - intros p e i He Hk Hl. apply ev_snoc in He as [[Hp He]|[Hp ->]]; [eapply (L_cell_val _ _ I); eauto|].
    rewrite Hk in HK; cbv beta iota in HK. destruct HK as ((j & Hj & Hv) & _). rewrite Hj in Hl. inversion Hl; subst j. exact Hv.
  - intros NW p e He Hl. rewrite evens_app in NW. cbn [evens] in NW.
    apply ev_snoc in He as [[Hp He]|[Hp ->]].
    + rewrite evens_upto_app_l by exact Hp. apply (L_gen_val _ _ I); auto. lia.
    + subst p. rewrite evens_upto_last. unfold is_even_kind in *.
      destruct (e_kind x) eqn:K.
      * contradiction.
      * destruct HK as (_ & _ & V). rewrite Nat.add_0_r. apply V. lia.
      * destruct HK as (_ & _ & _ & _ & V). rewrite V by lia. reflexivity || (f_equal; lia).
      * destruct HK as ((i & Hi & _) & _). rewrite Hi in Hl. discriminate.
      * rewrite HK in Hl. discriminate.
  - intros NW. rewrite evens_app in *. cbn [evens] in *. unfold is_even_kind in *.
    destruct (e_kind x) eqn:K.
    + contradiction.
    + destruct HK as (Hl & _ & V). rewrite latest_val_snoc_same by exact Hl. rewrite !Nat.add_0_r in *. right. apply V. lia.
    + destruct HK as (Hl & _ & _ & _ & V). rewrite latest_val_snoc_same by exact Hl. left.
      replace (evens L + (1 + 0)) with (evens L + 1) by lia. apply V. lia.
    + destruct HK as ((i & Hi & _) & _). rewrite latest_val_snoc_other by (rewrite Hi; reflexivity).
      rewrite !Nat.add_0_r in *. apply (L_latest _ _ I). lia.
    + rewrite latest_val_snoc_other by (rewrite HK; reflexivity). rewrite !Nat.add_0_r in *. apply (L_latest _ _ I). lia.
Qed.

(* ------------------------------------------------------------------ the writer's state invariant *)
Definition odd_of (L : list event) (a bound : nat) : Prop :=
  exists q o, ev L q = Some o /\ e_loc o = LGen /\ e_kind o = KOdd /\ e_att o = a /\ q < bound.

Lemma odd_of_app L x a b : odd_of L a b -> odd_of (L ++ x) a b.
Proof. intros (q & o & E & R). exists q, o. split; [apply ev_app_l; exact E | exact R]. Qed.

Lemma odd_of_weaken L a b b' : b <= b' -> odd_of L a b -> odd_of L a b'.
Proof. intros H (q & o & E & A & B & C & D). exists q, o. repeat split; auto. lia. Qed.

Record WInv (c : cfg) (w : wst) : Prop := {
  W_log : LogInv (c_cells c) (w_log w);
  W_att_le : forall p e, ev (w_log w) p = Some e -> e_att e <= w_att w;
  W_relview : w_relview w <= length (w_log w);
  W_rel_le : forall p e, ev (w_log w) p = Some e -> e_rel e <= length (w_log w);
  W_evens : evens (w_log w) <= w_att w;
  W_pc : match w_pc w with
         | WIdle | WDead => True
         | WLoaded g => g = latest_val LGen (w_log w) /\ w_rec w = recf (c_cells c) (w_att w) /\ 0 < w_att w /\ evens (w_log w) < w_att w
         | WOddDone p =>
             w_rec w = recf (c_cells c) (w_att w) /\ 0 < w_att w /\ evens (w_log w) < w_att w /\ odd_of (w_log w) (w_att w) (length (w_log w)) /\
             ((Z.of_nat (evens (w_log w)) < 32767)%Z -> p = (2 * Z.of_nat (evens (w_log w)) + 1)%Z)
         | WCopy p todo =>
             w_rec w = recf (c_cells c) (w_att w) /\ 0 < w_att w /\ evens (w_log w) < w_att w /\ odd_of (w_log w) (w_att w) (w_relview w) /\
             ((Z.of_nat (evens (w_log w)) < 32767)%Z -> p = (2 * Z.of_nat (evens (w_log w)) + 1)%Z) /\
             exists done, c_w_order c = done ++ todo /\
               forall i, In i done -> exists pos ce, ev (w_log w) pos = Some ce /\ e_loc ce = LCell i /\ e_kind ce = KCell /\ e_att ce = w_att w
         end
}.

(* generation arithmetic without wrap *)
Lemma pre_no_wrap E g : (0 <= E < 32767)%Z -> (g = 2 * E \/ g = 2 * E + 1)%Z -> pre g = (2 * E + 1)%Z.
Proof.
  intros HE [-> | ->]; unfold pre.
  - replace (Z.even (2 * E)) with true by (symmetry; rewrite Z.even_mul; reflexivity). rewrite Z.mod_small; lia.
  - replace (Z.even (2 * E + 1)) with false; [reflexivity|]. symmetry. rewrite Z.even_add, Z.even_mul. reflexivity.
Qed.

Lemma post_no_wrap E : (0 <= E)%Z -> (E + 1 < 32767)%Z -> post (2 * E + 1) = (2 * (E + 1))%Z.
Proof.
  intros H0 H. unfold post. cbv zeta. rewrite Z.mod_small by lia.
  destruct (Z.eqb_spec (2 * E + 1 + 1) 0); lia.
Qed.

(* boolean permutation check -> every index below n occurs *)
Lemma mem_nat_In x l : mem_nat x l = true <-> In x l.
Proof.
  induction l as [|y l IH]; cbn; [split; [discriminate | tauto]|].
  rewrite orb_true_iff, IH, Nat.eqb_eq. split; intros [H|H]; auto.
Qed.

Lemma nodup_nat_NoDup l : nodup_nat l = true -> NoDup l.
Proof.
  induction l as [|x l IH]; cbn; intros H; [constructor|].
  apply andb_true_iff in H as [H1 H2]. constructor; [|apply IH, H2].
  intros Hin. apply mem_nat_In in Hin. rewrite Hin in H1. discriminate.
Qed.

Lemma is_perm_all l n : is_perm l n = true -> forall i, i < n -> In i l.
Proof.
  unfold is_perm. intros H i Hi. apply andb_true_iff in H as [H H3]. apply andb_true_iff in H as [H1 H2].
  apply Nat.eqb_eq in H1. apply nodup_nat_NoDup in H2.
  assert (Hincl : incl l (seq 0 n)).
  { intros x Hx. apply in_seq. rewrite forallb_forall in H3. specialize (H3 x Hx). apply Nat.ltb_lt in H3. lia. }
  assert (Hrev : incl (seq 0 n) l).
  { apply NoDup_length_incl; auto. rewrite seq_length. lia. }
  apply Hrev, in_seq. lia.
Qed.

Lemma safe_parts c : safe_cfg c = true ->
  is_rel_fence (c_w_fence c) = true /\ is_rel (c_w_even c) = true /\ is_acq (c_r_g1 c) = true /\ is_acq (c_r_g2 c) = true /\
  is_acq_fence (c_r_fence c) = true /\ is_perm (c_w_order c) (c_cells c) = true /\ is_perm (c_r_order c) (c_cells c) = true /\ 0 < c_cells c.
Proof.
  unfold safe_cfg. intros H. repeat (apply andb_true_iff in H as [H ?]). apply Nat.ltb_lt in H0. repeat split; assumption.
Qed.

Lemma init_log_ev n p e : ev (init_log n) p = Some e -> e_kind e = KInit /\ e_att e = 0 /\ e_val e = 0%Z /\ e_rel e = 0.
Proof.
  unfold init_log, ev. destruct p as [|[|p]]; cbn [nth_error].
  - intros H; inversion H; auto.
  - intros H; inversion H; auto.
  - intros H. apply nth_error_In in H. apply in_map_iff in H as (i & <- & _). auto.
Qed.

Lemma evens_init n : evens (init_log n) = 0.
Proof.
  unfold init_log. cbn [evens is_even_kind e_kind]. induction (seq 0 n) as [|i l IH]; cbn; auto.
Qed.

Lemma latest_val_init n : latest_val LGen (init_log n) = 0%Z.
Proof.
  unfold latest_val. destruct (latest LGen (init_log n)) as [i|] eqn:E; [|reflexivity].
  unfold val_at. destruct (nth_error (init_log n) i) as [e|] eqn:E2; [|reflexivity].
  apply init_log_ev in E2. tauto.
Qed.

Lemma LogInv_init n : LogInv n (init_log n).
Proof.
  constructor; intros.
  - apply init_log_ev in H, H0. lia.
  - apply init_log_ev in H as (K & _). destruct H0 as [E|[E|E]]; congruence.
  - apply init_log_ev in H. tauto.
  - apply init_log_ev in H. tauto.
  - apply init_log_ev in H. tauto.
  - apply init_log_ev in H as (K & _). destruct H0 as [E|E]; congruence.
  - apply init_log_ev in H as (K & _). congruence.
  - apply init_log_ev in H as (K & _). congruence.
  - apply init_log_ev in H as (K & _). congruence.
  - apply init_log_ev in H0 as (K & _ & V & _). rewrite K. exact V.
  - rewrite evens_init, latest_val_init. left. reflexivity.
Qed.

Lemma WInv_init c : WInv c (w_init c).
Proof.
  unfold w_init. constructor; cbn [w_log w_att w_relview w_pc].
  - apply LogInv_snoc; [apply LogInv_init|]. split; [|reflexivity]. intros p f H. apply init_log_ev in H. cbn. lia.
  - intros p e H. apply ev_snoc in H as [[_ H]|[_ ->]]; [apply init_log_ev in H; lia | cbn; lia].
  - rewrite app_length. lia.
  - intros p e H. rewrite app_length. apply ev_snoc in H as [[_ H]|[_ ->]]; [apply init_log_ev in H; lia | cbn; lia].
  - rewrite evens_app, evens_init. cbn. lia.
  - exact I.
Qed.

Lemma WInv_crash c w : WInv c w -> WInv c (w_crash w).
Proof. intros I. destruct I. constructor; cbn; auto. Qed.

Lemma WInv_restart c w : WInv c w -> WInv c (w_restart c w).
Proof.
  intros I. unfold w_restart. destruct (header_valid (w_log w)); [|apply WInv_init].
  constructor; cbn [w_log w_att w_relview w_pc]; unfold w_push; cbn [is_rel].
  - apply LogInv_snoc; [apply (W_log _ _ I)|]. split; [|reflexivity]. cbn. apply (W_att_le _ _ I).
  - intros p e H. apply ev_snoc in H as [[_ H]|[_ ->]]; [eapply (W_att_le _ _ I); eauto | cbn; lia].
  - rewrite app_length. pose proof (W_relview _ _ I). lia.
  - intros p e H. rewrite app_length. apply ev_snoc in H as [[_ H]|[_ ->]]; [apply (W_rel_le _ _ I) in H; lia | cbn; pose proof (W_relview _ _ I); lia].
  - rewrite evens_app. cbn. pose proof (W_evens _ _ I). lia.
  - trivial.
Qed.

Theorem w_step_inv c w r k w' it : safe_cfg c = true -> WInv c w ->
  (w_pc w = WIdle -> w_att w < k /\ r = recf (c_cells c) k) ->
  w_step c w r k = (w', it) -> WInv c w'.
Proof.
  intros Hs I Hk H. destruct (safe_parts c Hs) as (Sf & Se & _ & _ & _ & Pw & _ & Hn).
  pose proof (W_log _ _ I) as LI. pose proof (W_att_le _ _ I) as AL. pose proof (W_relview _ _ I) as RV. pose proof (W_pc _ _ I) as PC.
  pose proof (W_rel_le _ _ I) as RL. pose proof (W_evens _ _ I) as EV.
  unfold w_step in H. destruct (w_pc w) as [| g | p | p [|i todo] |] eqn:Epc.
  - (* load *)
    destruct (Hk eq_refl) as (K1 & ->). inversion H; subst; clear H.
    constructor; cbn [w_log w_att w_relview w_pc w_rec]; auto; try lia.
    + intros p e He. specialize (AL p e He). lia.
    + repeat split; auto; lia.
  - (* odd store *)
    destruct PC as (Eg & Er & Ha & Ev'). inversion H; subst; clear H.
    set (x := mkev LGen (pre (latest_val LGen (w_log w))) (if is_rel (c_w_odd c) then S (length (w_log w)) else w_relview w) (w_att w) KOdd).
    assert (NO : new_ok (c_cells c) (w_log w) x).
    { split; [exact AL|]. unfold x; cbn [e_kind e_loc e_att e_rel e_val]. split; [reflexivity|]. split; [exact Ha|]. intros NW.
      apply pre_no_wrap; [lia|]. apply (L_latest _ _ LI NW). }
    assert (OD : odd_of (w_log w ++ [x]) (w_att w) (length (w_log w ++ [x]))).
    { exists (length (w_log w)), x. rewrite ev_last, app_length. cbn. repeat split; auto. lia. }
    assert (PV : (Z.of_nat (evens (w_log w ++ [x])) < 32767)%Z -> pre (latest_val LGen (w_log w)) = (2 * Z.of_nat (evens (w_log w ++ [x])) + 1)%Z).
    { rewrite evens_app. cbn [evens is_even_kind e_kind x]. rewrite !Nat.add_0_r. intros NW.
      apply pre_no_wrap; [lia|]. apply (L_latest _ _ LI NW). }
    unfold is_rel_fence in Sf. destruct (c_w_fence c) as [o|] eqn:Ef; [|discriminate].
    constructor; cbn [w_log w_att w_relview w_pc w_rec]; unfold w_push; fold x.
    + apply LogInv_snoc; assumption.
    + intros p e He. apply ev_snoc in He as [[_ He]|[_ ->]]; [eapply AL; eauto | cbn; lia].
    + rewrite app_length. lia.
    + intros p e He. rewrite app_length. apply ev_snoc in He as [[_ He]|[_ ->]]; [apply RL in He; lia | unfold x; cbn [e_rel]; destruct (is_rel (c_w_odd c)); cbn; lia].
    + rewrite evens_app. cbn. lia.
    + repeat split; auto. rewrite evens_app. cbn. lia.
  - (* fence *)
    destruct PC as (Er & Ha & Ev' & OD & PV). unfold is_rel_fence in Sf. destruct (c_w_fence c) as [o|] eqn:Ef; [|discriminate].
    inversion H; subst; clear H. rewrite Sf.
    constructor; cbn [w_log w_att w_relview w_pc w_rec]; auto.
    repeat split; auto. exists []. split; [reflexivity|]. intros i [].
  - (* even store *)
    destruct PC as (Er & Ha & Ev' & OD & PV & done & Eo & Hdone). rewrite app_nil_r in Eo. inversion H; subst; clear H.
    set (x := mkev LGen (post p) (if is_rel (c_w_even c) then S (length (w_log w)) else w_relview w) (w_att w) KEven).
    assert (NO : new_ok (c_cells c) (w_log w) x).
    { split; [exact AL|]. unfold x; cbn [e_kind e_loc e_att e_rel e_val]. split; [reflexivity|]. split; [exact Ha|]. split; [rewrite Se; lia|]. split.
      - intros i Hi. pose proof (is_perm_all _ _ Pw i Hi) as Hin.
        destruct (Hdone i Hin) as (pos & ce & E1 & E2 & E3 & E4). exists pos, ce. auto.
      - intros NW. rewrite PV by lia. rewrite post_no_wrap by lia. f_equal. lia. }
    constructor; cbn [w_log w_att w_relview w_pc w_rec]; unfold w_push; fold x.
    + apply LogInv_snoc; assumption.
    + intros q e He. apply ev_snoc in He as [[_ He]|[_ ->]]; [eapply AL; eauto | cbn; lia].
    + rewrite app_length. lia.
    + intros q e He. rewrite app_length. apply ev_snoc in He as [[_ He]|[_ ->]]; [apply RL in He; lia | unfold x; cbn [e_rel]; rewrite Se; cbn; lia].
    + rewrite evens_app. cbn. lia.
    + trivial.
  - (* cell store *)
    destruct PC as (Er & Ha & Ev' & OD & PV & done & Eo & Hdone). inversion H; subst; clear H.
    set (x := mkev (LCell i) (nth i (w_rec w) 0%Z) (w_relview w) (w_att w) KCell).
    assert (NO : new_ok (c_cells c) (w_log w) x).
    { split; [exact AL|]. unfold x; cbn [e_kind e_loc e_att e_rel e_val]. split; [exists i; split; [reflexivity | rewrite Er; reflexivity]|]. split; [exact Ha|].
      destruct OD as (q & o & E1 & E2 & E3 & E4 & E5). exists q, o. auto. }
    constructor; cbn [w_log w_att w_relview w_pc w_rec]; unfold w_push; cbn [is_rel]; fold x.
    + apply LogInv_snoc; assumption.
    + intros q e He. apply ev_snoc in He as [[_ He]|[_ ->]]; [eapply AL; eauto | cbn; lia].
    + rewrite app_length. lia.
    + intros q e He. rewrite app_length. apply ev_snoc in He as [[_ He]|[_ ->]]; [apply RL in He; lia | cbn; lia].
    + rewrite evens_app. cbn. lia.
    + split; [exact Er|]. split; [exact Ha|]. split; [rewrite evens_app; cbn; lia|]. split; [apply odd_of_app, OD|]. split.
      * rewrite evens_app. cbn [evens is_even_kind e_kind x]. rewrite !Nat.add_0_r. exact PV.
      * exists (done ++ [i]). split; [rewrite <- app_assoc; exact Eo|].
        intros j Hj. apply in_app_or in Hj as [Hj|[<-|[]]].
        -- destruct (Hdone j Hj) as (pos & ce & E1 & R). exists pos, ce. split; [apply ev_app_l; exact E1 | exact R].
        -- exists (length (w_log w)), x. rewrite ev_last. cbn. auto.
  - inversion H; subst. exact I.
Qed.

End Gen.
