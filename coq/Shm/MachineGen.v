(* The machine of Shm/Machine.v against the standard view-based operational semantics of C11
   release/acquire (per-location timestamps, thread views [cur] <= [acq], message views; Kang et
   al., "A promising semantics for relaxed-memory concurrency", POPL 2017, without promises, RMWs
   and SC fences, which the segment protocol does not use).

   With a single writer the modification order of every location is the order of the writer's log,
   so the timestamp of a message is its position in the log.  A standard view is a function from
   locations to timestamps.  The machine of Machine.v represents a reader's view by two log
   prefixes ([cur], [acq]) and per-location coherence floors.  This file defines the standard
   reader transitions over standard views ([g_read], [g_fence]), the abstraction [alpha] from the
   prefix representation to standard views, and proves that [do_read] / [r_fence] are exactly the
   standard transitions under [alpha]: the same choices are enabled, they return the same value,
   and the resulting views correspond (lock-step bisimulation through a function).  The same is
   proved for the whole reader program ([r_step]) by writing it once over an abstract view
   interface.  For the writer, the view the standard semantics attaches to each message is shown to
   be the one encoded by the event's [e_rel] field. *)
From Coq Require Import ZArith List Bool Arith NArith Lia.
From CB Require Import Gen GenProofs Machine MachineFacts SeqlockInv GenCyc SeqlockRA SeqlockMono SeqlockFresh.
Import ListNotations.
Open Scope nat_scope.

(* ------------------------------------------------------------------ standard views *)
Definition gview := loc -> nat.
Definition gbot : gview := fun _ => 0.
Definition gjoin (a b : gview) : gview := fun l => Nat.max (a l) (b l).
Definition gpoint (l : loc) (i : nat) : gview := fun l' => if loc_eqb l' l then i else 0.
Definition gle (a b : gview) : Prop := forall l, a l <= b l.
Definition geqv (a b : gview) : Prop := forall l, a l = b l.

(* the latest message on l among the first n of the log (timestamp 0 when there is none: the
   initial message of a location is its first event, so 0 forbids nothing) *)
Definition lat (L : list event) (l : loc) (n : nat) : nat :=
  match latest l (firstn n L) with Some i => i | None => 0 end.
Definition prefix_view (L : list event) (n : nat) : gview := fun l => lat L l n.

(* the view carried by the message at position p *)
Definition mview (L : list event) (p : nat) (e : event) : gview :=
  gjoin (prefix_view L (e_rel e)) (gpoint (e_loc e) p).

Record gthread := mkg { gcur : gview; gacq : gview }.
Definition gteq (s t : gthread) : Prop := geqv (gcur s) (gcur t) /\ geqv (gacq s) (gacq t).

(* a load of l with ordering o reading the message at position i *)
Definition g_read (L : list event) (t : gthread) (l : loc) (o : ord) (i : nat) : option (Z * gthread) :=
  match nth_error L i with
  | Some e =>
      if loc_eqb (e_loc e) l && Nat.leb (gcur t l) i then
        let pt := gpoint l i in
        let mv := mview L i e in
        Some (e_val e, mkg (gjoin (gjoin (gcur t) pt) (if is_acq o then mv else gbot))
                           (gjoin (gjoin (gacq t) pt) mv))
      else None
  | None => None
  end.

Definition g_fence (t : gthread) (o : ord) : gthread := if is_acq o then mkg (gacq t) (gacq t) else t.

(* ------------------------------------------------------------------ abstraction *)
Definition alpha (L : list event) (v : rview) : gthread :=
  mkg (fun l => Nat.max (coh_get v l) (lat L l (cur v)))
      (fun l => Nat.max (coh_get v l) (lat L l (acq v))).

(* well-formed prefix view: [cur] inside [acq]; a floor exists for every cell that is read *)
Definition cell_ok (v : rview) (l : loc) : Prop :=
  match l with LCell k => k < length (coh_cell v) | _ => True end.
Definition vwf (v : rview) : Prop := cur v <= acq v.

(* ------------------------------------------------------------------ [lat] *)
Lemma ev_firstn L : forall n q, ev (firstn n L) q = if q <? n then ev L q else None.
Proof.
  unfold ev. induction L as [|x L IH]; intros n q.
  - rewrite firstn_nil. destruct q; destruct (_ <? _); reflexivity.
  - destruct n as [|n]; [destruct q; reflexivity|]. destruct q as [|q]; [reflexivity|].
    cbn [firstn nth_error]. rewrite IH. reflexivity.
Qed.

Lemma lat_le_iff L l n i :
  lat L l n <= i <-> (forall q f, ev L q = Some f -> e_loc f = l -> q < n -> q <= i).
Proof.
  unfold lat. split.
  - intros H q f Hf Hl Hq.
    assert (E : ev (firstn n L) q = Some f).
    { rewrite ev_firstn. apply Nat.ltb_lt in Hq. rewrite Hq. exact Hf. }
    destruct (latest_exists l _ q f E Hl) as (p' & Hp & Hle). rewrite Hp in H. lia.
  - intros H. destruct (latest l (firstn n L)) as [p|] eqn:E; [|lia].
    apply latest_spec in E as (e & Ee & El & _). rewrite ev_firstn in Ee.
    destruct (Nat.ltb_spec p n); [|discriminate]. apply (H p e Ee El). assumption.
Qed.

Lemma lat_mono L l a b : a <= b -> lat L l a <= lat L l b.
Proof.
  intros H. apply lat_le_iff. intros q f Hf Hl Hq.
  assert (K : lat L l b <= lat L l b) by lia.
  rewrite lat_le_iff in K. apply (K q f Hf Hl). lia.
Qed.

Lemma lat_max L l a b : lat L l (Nat.max a b) = Nat.max (lat L l a) (lat L l b).
Proof.
  destruct (Nat.le_ge_cases a b) as [H|H].
  - rewrite (Nat.max_r a b H). pose proof (lat_mono L l a b H). lia.
  - rewrite (Nat.max_l a b H). pose proof (lat_mono L l b a H). lia.
Qed.

(* ------------------------------------------------------------------ enabledness *)
Lemma can_read_iff L v l i :
  can_read L v l i = true <->
  exists e, ev L i = Some e /\ e_loc e = l /\ Nat.max (coh_get v l) (lat L l (cur v)) <= i.
Proof.
  split.
  - intros H. apply can_read_legal in H as [(e & E & El & M) Hc].
    exists e. split; [exact E|]. split; [exact El|].
    apply Nat.max_lub; [exact Hc|]. apply lat_le_iff. intros q f Hf Hl Hq. apply (M q f Hf Hl Hq).
  - intros (e & E & El & H). unfold can_read. unfold ev in E. rewrite E.
    assert (Hc : coh_get v l <= i) by lia. assert (Hl : lat L l (cur v) <= i) by lia.
    rewrite El, loc_eqb_refl. cbn [andb]. apply Nat.leb_le in Hc. rewrite Hc. cbn [andb].
    apply negb_true_iff. revert Hl. intros Hl. rewrite lat_le_iff in Hl.
    assert (K : forall hi, hi <= cur v -> newer_in L l i hi = false).
    { induction hi as [|h IH]; intros Hh; [reflexivity|]. cbn [newer_in].
      destruct (Nat.leb_spec (S h) (S i)); [reflexivity|]. rewrite IH by lia. rewrite orb_false_r.
      destruct (nth_error L h) as [f|] eqn:Ef; [|reflexivity].
      destruct (loc_eqb (e_loc f) l) eqn:Efl; [|reflexivity]. exfalso.
      apply loc_eqb_eq in Efl. specialize (Hl h f Ef Efl). lia. }
    apply K. lia.
Qed.

(* ------------------------------------------------------------------ floors *)
Lemma upd_nth_nth : forall (c : list nat) k x j, k < length c ->
  nth j (upd_nth c k x) 0 = if Nat.eqb j k then x else nth j c 0.
Proof.
  induction c as [|h t IH]; intros k x j Hk; [cbn in Hk; lia|].
  destruct k as [|k]; destruct j as [|j]; cbn [upd_nth nth Nat.eqb]; try reflexivity.
  apply IH. cbn in Hk. lia.
Qed.

Lemma upd_nth_length : forall (c : list nat) k x, length (upd_nth c k x) = length c.
Proof. induction c as [|h t IH]; intros [|k] x; cbn; auto. Qed.

Lemma coh_get_set v l i l' : cell_ok v l ->
  coh_get (coh_set v l i) l' = if loc_eqb l' l then i else coh_get v l'.
Proof.
  intros Hok. destruct l as [| |k]; destruct l' as [| |k']; cbn [coh_set coh_get loc_eqb coh_ver coh_gen coh_cell]; try reflexivity.
  cbn in Hok. apply upd_nth_nth. exact Hok.
Qed.

Lemma coh_set_cur v l i : cur (coh_set v l i) = cur v /\ acq (coh_set v l i) = acq v.
Proof. destruct l; split; reflexivity. Qed.

Lemma coh_set_cell_ok v l i l' : cell_ok v l' -> cell_ok (coh_set v l i) l'.
Proof.
  destruct l' as [| |k']; cbn; auto. destruct l; cbn [coh_set coh_cell]; auto. rewrite upd_nth_length. auto.
Qed.

(* ------------------------------------------------------------------ loads *)
Theorem do_read_is_standard_read L v l o i x j v' :
  vwf v -> cell_ok v l ->
  do_read L v l o (Some i) = Some (x, j, v') ->
  j = i /\ vwf v' /\ (forall l', cell_ok v l' -> cell_ok v' l') /\
  exists t', g_read L (alpha L v) l o i = Some (x, t') /\ gteq t' (alpha L v').
Proof.
  intros W Hok H. unfold do_read in H.
  destruct (can_read L v l i) eqn:C; [|discriminate].
  destruct (nth_error L i) as [e|] eqn:E; [|discriminate].
  inversion H; subst x j v'; clear H.
  apply can_read_iff in C as (e' & E' & El & Hle). unfold ev in E'. rewrite E in E'. inversion E'; subst e'; clear E'.
  destruct (coh_set_cur v l i) as [Hcu Hac].
  split; [reflexivity|]. split.
  { unfold vwf in *. cbn [cur acq]. rewrite Hcu, Hac. destruct (is_acq o); lia. }
  split.
  { intros l' Hl'. apply (coh_set_cell_ok v l i l') in Hl'. destruct l'; cbn in *; auto. }
  unfold g_read. rewrite E, El, loc_eqb_refl. cbn [andb alpha gcur gacq].
  apply Nat.leb_le in Hle. rewrite Hle. apply Nat.leb_le in Hle.
  eexists. split; [reflexivity|].
  assert (Hlat : lat L l (cur v) <= i) by lia.
  assert (Hlata : forall l', coh_get (mkv (if is_acq o then Nat.max (cur (coh_set v l i)) (e_rel e) else cur (coh_set v l i))
                    (Nat.max (acq (coh_set v l i)) (e_rel e)) (coh_ver (coh_set v l i)) (coh_gen (coh_set v l i)) (coh_cell (coh_set v l i))) l'
                  = if loc_eqb l' l then i else coh_get v l').
  { intros l'. rewrite <- (coh_get_set v l i l' Hok). destruct l'; reflexivity. }
  split; intros l'; cbn [gcur gacq alpha]; unfold gjoin, gpoint, mview, prefix_view, gjoin, gpoint, gbot;
    rewrite Hlata; cbn [cur acq]; rewrite ?Hcu, ?Hac, El.
  - destruct (loc_eqb l' l) eqn:Ell.
    + apply loc_eqb_eq in Ell. subst l'. assert (Rf : loc_eqb l l = true) by (apply loc_eqb_eq; reflexivity). destruct (is_acq o); cbv beta iota; rewrite ?Rf, ?lat_max; lia.
    + destruct (is_acq o); cbv beta iota; rewrite ?Ell, ?lat_max; lia.
  - destruct (loc_eqb l' l) eqn:Ell.
    + apply loc_eqb_eq in Ell. subst l'. assert (Rf : loc_eqb l l = true) by (apply loc_eqb_eq; reflexivity). rewrite ?Rf, lat_max. lia.
    + rewrite lat_max. lia.
Qed.

(* the same choice is refused by both, or accepted by both *)
Theorem do_read_enabled_iff L v l o i :
  do_read L v l o (Some i) = None <-> g_read L (alpha L v) l o i = None.
Proof.
  unfold do_read, g_read. cbn [alpha gcur].
  destruct (nth_error L i) as [e|] eqn:E.
  - destruct (can_read L v l i) eqn:C.
    + apply can_read_iff in C as (e' & E' & El & Hle). unfold ev in E'. rewrite E in E'. inversion E'; subst e'.
      rewrite El. assert (Rf : loc_eqb l l = true) by (apply loc_eqb_eq; reflexivity). rewrite Rf.
      apply Nat.leb_le in Hle. rewrite Hle. cbn [andb]. split; discriminate.
    + destruct (loc_eqb (e_loc e) l && (Nat.max (coh_get v l) (lat L l (cur v)) <=? i)) eqn:G; [|split; reflexivity].
      exfalso. apply andb_true_iff in G as [G1 G2]. apply loc_eqb_eq in G1. apply Nat.leb_le in G2.
      assert (C' : can_read L v l i = true) by (apply can_read_iff; exists e; auto).
      congruence.
  - destruct (can_read L v l i); split; reflexivity.
Qed.

(* the "no choice" load of the sequentially consistent runs reads the latest message *)
Lemma do_read_none L v l o :
  do_read L v l o None = match latest l L with Some i => do_read L v l o (Some i) | None => None end.
Proof. unfold do_read. destruct (latest l L); reflexivity. Qed.

(* ------------------------------------------------------------------ fences *)
Theorem r_fence_is_standard_fence L v o :
  vwf v -> vwf (r_fence v o) /\ (forall l, cell_ok v l -> cell_ok (r_fence v o) l) /\
           gteq (g_fence (alpha L v) o) (alpha L (r_fence v o)).
Proof.
  intros W. unfold r_fence, g_fence, vwf in *. destruct (is_acq o).
  - split; [cbn [cur acq]; lia|]. split; [intros l H; destruct l; exact H|].
    split; intros l; cbn [alpha gcur gacq cur acq]; rewrite ?(Nat.max_r _ _ W);
      (replace (coh_get {| cur := acq v; acq := acq v; coh_ver := coh_ver v; coh_gen := coh_gen v; coh_cell := coh_cell v |} l)
         with (coh_get v l) by (destruct l; reflexivity)); reflexivity.
  - split; [exact W|]. split; [auto|]. split; intros l; reflexivity.
Qed.

(* a client that has just mapped the segment has synchronised with everything written so far *)
Lemma r_new_is_full_view c L :
  vwf (r_view (r_new c L)) /\ (forall k, k < c_cells c -> cell_ok (r_view (r_new c L)) (LCell k)) /\
  gteq (alpha L (r_view (r_new c L))) (mkg (prefix_view L (length L)) (prefix_view L (length L))).
Proof.
  unfold r_new, vwf. cbn [r_view cur acq]. split; [lia|]. split.
  - intros k Hk. cbn. rewrite repeat_length. exact Hk.
  - split; intros l; cbn [alpha gcur gacq cur acq]; unfold prefix_view;
      (assert (Z0 : coh_get (mkv (length L) (length L) 0 0 (repeat 0 (c_cells c))) l = 0);
       [destruct l as [| |k]; cbn [coh_get coh_ver coh_gen coh_cell]; try reflexivity;
        destruct (Nat.lt_ge_cases k (c_cells c)) as [Hk|Hk];
        [apply nth_repeat | apply nth_overflow; rewrite repeat_length; exact Hk] | rewrite Z0; reflexivity]).
Qed.

(* the standard transitions do not distinguish pointwise-equal views *)
Lemma g_read_respects L s t l o i : gteq s t ->
  match g_read L s l o i, g_read L t l o i with
  | Some (x, s'), Some (y, t') => x = y /\ gteq s' t'
  | None, None => True
  | _, _ => False
  end.
Proof.
  intros [Hc Ha]. unfold g_read. destruct (nth_error L i) as [e|]; [|exact I].
  rewrite (Hc l). destruct (loc_eqb (e_loc e) l && (gcur t l <=? i)); [|exact I].
  split; [reflexivity|]. split; intros l'; cbn [gcur gacq]; unfold gjoin; rewrite ?(Hc l'), ?(Ha l'); reflexivity.
Qed.

Lemma g_fence_respects s t o : gteq s t -> gteq (g_fence s o) (g_fence t o).
Proof. intros [Hc Ha]. unfold g_fence. destruct (is_acq o); split; cbn [gcur gacq]; assumption. Qed.

Lemma gteq_refl t : gteq t t. Proof. split; intros l; reflexivity. Qed.
Lemma gteq_sym s t : gteq s t -> gteq t s. Proof. intros [A B]. split; intros l; symmetry; auto. Qed.
Lemma gteq_trans s t u : gteq s t -> gteq t u -> gteq s u.
Proof. intros [A B] [C D]. split; intros l; [rewrite (A l) | rewrite (B l)]; auto. Qed.

(* ------------------------------------------------------------------ the reader program, once *)
(* [r_step] written over an abstract view with a load and a fence; [r_step] itself is the instance
   at prefix views (proved below by computation), the standard machine is the instance at
   standard views. *)
Section Program.
Variable V : Type.
Variable rd : list event -> V -> loc -> ord -> option nat -> option (Z * nat * V).
Variable fc : V -> ord -> V.

Record grst := mkgr { g_view : V; g_pc : rpc; g_cache : list Z; g_cache_gen : Z;
                      g_g1pos : nat; g_cellpos : list (nat * nat) }.

Definition gr_step (c : cfg) (L : list event) (r : grst) (choice : option nat) : option (grst * option titem * option rret) :=
  match g_pc r with
  | RIdle =>
      match rd L (g_view r) LVer (c_r_ver c) choice with
      | None => None
      | Some (ver, _, v) =>
          let it := Some (mkti ALoad LVer (c_r_ver c) ver) in
          if (ver =? 0)%Z then Some (mkgr v RIdle (g_cache r) (g_cache_gen r) (g_g1pos r) (g_cellpos r), it, Some RetCache)
          else Some (mkgr v RVer (g_cache r) (g_cache_gen r) (g_g1pos r) (g_cellpos r), it, None)
      end
  | RVer =>
      match rd L (g_view r) LGen (c_r_g1 c) choice with
      | None => None
      | Some (g, p, v) =>
          let it := Some (mkti ALoad LGen (c_r_g1 c) g) in
          if (g =? 0)%Z || (g =? g_cache_gen r)%Z || Z.odd g then
            Some (mkgr v RIdle (g_cache r) (g_cache_gen r) (g_g1pos r) (g_cellpos r), it, Some RetCache)
          else if N.eqb (c_retries c) 0 then
            Some (mkgr v RIdle (g_cache r) (g_cache_gen r) p [], it, Some RetErr)
          else Some (mkgr v (RCopy g (c_r_order c) [] (c_retries c)) (g_cache r) (g_cache_gen r) p [], it, None)
      end
  | RCopy g (i :: todo) acc b =>
      match rd L (g_view r) (LCell i) Rlx choice with
      | None => None
      | Some (x, p, v) =>
          let acc' := (i, x) :: acc in
          let pc := match todo with
                    | [] => (match c_r_fence c with Some _ => RFence g acc' b | None => RReload g acc' b end)
                    | _ => RCopy g todo acc' b
                    end in
          Some (mkgr v pc (g_cache r) (g_cache_gen r) (g_g1pos r) ((i, p) :: g_cellpos r),
                Some (mkti ACellR (LCell i) Rlx x), None)
      end
  | RCopy g [] acc b =>
      Some (mkgr (g_view r) (match c_r_fence c with Some _ => RFence g acc b | None => RReload g acc b end)
                 (g_cache r) (g_cache_gen r) (g_g1pos r) (g_cellpos r), None, None)
  | RFence g acc b =>
      match c_r_fence c with
      | Some o => Some (mkgr (fc (g_view r) o) (RReload g acc b) (g_cache r) (g_cache_gen r) (g_g1pos r) (g_cellpos r),
                        Some (mkti AFence LGen o 0), None)
      | None => Some (mkgr (g_view r) (RReload g acc b) (g_cache r) (g_cache_gen r) (g_g1pos r) (g_cellpos r), None, None)
      end
  | RReload g acc b =>
      match rd L (g_view r) LGen (c_r_g2 c) choice with
      | None => None
      | Some (g2, p, v) =>
          let it := Some (mkti ALoad LGen (c_r_g2 c) g2) in
          if (g2 =? g)%Z then
            Some (mkgr v RIdle (assemble (c_cells c) acc) g (g_g1pos r) (g_cellpos r), it, Some RetFresh)
          else
            let g' := if Z.even g2 then g2 else g in
            let p' := if Z.even g2 then p else g_g1pos r in
            let b' := N.pred b in
            if N.eqb b' 0 then Some (mkgr v RIdle (g_cache r) (g_cache_gen r) p' [], it, Some RetErr)
            else Some (mkgr v (RCopy g' (c_r_order c) [] b') (g_cache r) (g_cache_gen r) p' [], it, None)
      end
  end.
End Program.

Arguments mkgr {V}. Arguments g_view {V}. Arguments g_pc {V}. Arguments g_cache {V}.
Arguments g_cache_gen {V}. Arguments g_g1pos {V}. Arguments g_cellpos {V}. Arguments gr_step {V}.

(* the machine's reader is this program over prefix views *)
Definition to_g (r : rst) : grst rview :=
  mkgr (r_view r) (r_pc r) (r_cache r) (r_cache_gen r) (r_g1pos r) (r_cellpos r).
Definition of_g (r : grst rview) : rst :=
  mkr (g_view r) (g_pc r) (g_cache r) (g_cache_gen r) (g_g1pos r) (g_cellpos r).

Theorem r_step_is_the_program c L r ch :
  r_step c L r ch =
  match gr_step do_read r_fence c L (to_g r) ch with
  | Some (r', it, ret) => Some (of_g r', it, ret)
  | None => None
  end.
Proof.
  unfold r_step, gr_step, to_g. cbn [g_view g_pc g_cache g_cache_gen g_g1pos g_cellpos].
  destruct (r_pc r) as [| | g [|i todo] acc b | g acc b | g acc b].
  - destruct (do_read L (r_view r) LVer (c_r_ver c) ch) as [[[ver q] v]|]; [|reflexivity]. destruct (ver =? 0)%Z; reflexivity.
  - destruct (do_read L (r_view r) LGen (c_r_g1 c) ch) as [[[g q] v]|]; [|reflexivity].
    destruct ((g =? 0)%Z || (g =? r_cache_gen r)%Z || Z.odd g); [reflexivity|]. destruct (N.eqb (c_retries c) 0); reflexivity.
  - reflexivity.
  - destruct (do_read L (r_view r) (LCell i) Rlx ch) as [[[x q] v]|]; reflexivity.
  - destruct (c_r_fence c); reflexivity.
  - destruct (do_read L (r_view r) LGen (c_r_g2 c) ch) as [[[g2 q] v]|]; [|reflexivity].
    destruct (g2 =? g)%Z; [reflexivity|]. destruct (N.eqb (N.pred b) 0); reflexivity.
Qed.

(* the standard machine's load, with the same choice convention *)
Definition g_rd (L : list event) (t : gthread) (l : loc) (o : ord) (choice : option nat) : option (Z * nat * gthread) :=
  match (match choice with Some i => Some i | None => latest l L end) with
  | Some i => match g_read L t l o i with Some (x, t') => Some (x, i, t') | None => None end
  | None => None
  end.

(* states of the two instances that correspond *)
Definition sim (c : cfg) (L : list event) (r : grst rview) (s : grst gthread) : Prop :=
  vwf (g_view r) /\ (forall k, k < c_cells c -> cell_ok (g_view r) (LCell k)) /\
  gteq (g_view s) (alpha L (g_view r)) /\
  g_pc s = g_pc r /\ g_cache s = g_cache r /\ g_cache_gen s = g_cache_gen r /\
  g_g1pos s = g_g1pos r /\ g_cellpos s = g_cellpos r.

Lemma rd_sim c L v t l o ch : vwf v -> cell_ok v l -> (forall k, k < c_cells c -> cell_ok v (LCell k)) -> gteq t (alpha L v) ->
  match do_read L v l o ch, g_rd L t l o ch with
  | Some (x, p, v'), Some (y, q, t') => x = y /\ p = q /\ vwf v' /\ (forall k, k < c_cells c -> cell_ok v' (LCell k)) /\ gteq t' (alpha L v')
  | None, None => True
  | _, _ => False
  end.
Proof.
  intros W Hok Hcells Ht. unfold g_rd.
  assert (K : forall i, match do_read L v l o (Some i), (match g_read L t l o i with Some (x, t') => Some (x, i, t') | None => None end) with
               | Some (x, p, v'), Some (y, q, t') => x = y /\ p = q /\ vwf v' /\ (forall k, k < c_cells c -> cell_ok v' (LCell k)) /\ gteq t' (alpha L v')
               | None, None => True | _, _ => False end).
  { intros i. pose proof (g_read_respects L t (alpha L v) l o i Ht) as R.
    destruct (do_read L v l o (Some i)) as [[[x p] v']|] eqn:D.
    - destruct (do_read_is_standard_read L v l o i x p v' W Hok D) as (-> & W' & Hc' & t'' & G & E).
      rewrite G in R. destruct (g_read L t l o i) as [[y t']|]; [|contradiction]. destruct R as [-> R].
      split; [reflexivity|]. split; [reflexivity|]. split; [exact W'|]. split; [intros k Hk; apply Hc', Hcells, Hk|].
      eapply gteq_trans; [exact R | exact E].
    - apply do_read_enabled_iff in D. rewrite D in R. destruct (g_read L t l o i) as [[y t']|]; [contradiction | exact I]. }
  destruct ch as [i|]; [apply K|]. rewrite do_read_none.
  destruct (latest l L) as [i|]; [apply K | exact I].
Qed.

Definition pc_ok (c : cfg) (pc : rpc) : Prop :=
  match pc with RCopy _ todo _ _ => forall i, In i todo -> i < c_cells c | _ => True end.

Definition sim_ok (c : cfg) (L : list event) (r : grst rview) (s : grst gthread) : Prop :=
  sim c L r s /\ pc_ok c (g_pc r).

Ltac sim_intro :=
  match goal with
  | H : sim_ok _ _ _ _ |- _ =>
      destruct H as [(W & Hc & Hv & Hpc & Hca & Hcg & Hg1 & Hcp) Hok]
  end.

Ltac close_sim W' Hc' E :=
  unfold sim_ok, sim; cbn [g_view g_pc g_cache g_cache_gen g_g1pos g_cellpos];
  split; [split; [exact W'|]; split; [exact Hc'|]; split; [exact E|]; repeat split; auto | ].

(* the reader program over prefix views and over standard views: same steps enabled, same trace
   item, same result, corresponding states *)
Theorem reader_program_bisim c L r s ch :
  (forall i, In i (c_r_order c) -> i < c_cells c) ->
  sim_ok c L r s ->
  match gr_step do_read r_fence c L r ch, gr_step g_rd g_fence c L s ch with
  | Some (r', it, ret), Some (s', it', ret') => it = it' /\ ret = ret' /\ sim_ok c L r' s'
  | None, None => True
  | _, _ => False
  end.
Proof.
  intros Hord S. sim_intro. unfold gr_step. rewrite Hpc, Hca, Hcg, Hg1, Hcp.
  destruct (g_pc r) as [| | g [|i todo] acc b | g acc b | g acc b] eqn:PC.
  - (* version *)
    pose proof (rd_sim c L (g_view r) (g_view s) LVer (c_r_ver c) ch W I Hc Hv) as R.
    destruct (do_read L (g_view r) LVer (c_r_ver c) ch) as [[[x p] v']|];
      destruct (g_rd L (g_view s) LVer (c_r_ver c) ch) as [[[y q] t']|]; try contradiction; [|exact I].
    destruct R as (-> & -> & W' & Hc' & E).
    destruct (y =? 0)%Z; (split; [reflexivity|]; split; [reflexivity|]); close_sim W' Hc' E; exact I.
  - (* first generation load *)
    pose proof (rd_sim c L (g_view r) (g_view s) LGen (c_r_g1 c) ch W I Hc Hv) as R.
    destruct (do_read L (g_view r) LGen (c_r_g1 c) ch) as [[[x p] v']|];
      destruct (g_rd L (g_view s) LGen (c_r_g1 c) ch) as [[[y q] t']|]; try contradiction; [|exact I].
    destruct R as (-> & -> & W' & Hc' & E).
    destruct ((y =? 0)%Z || (y =? g_cache_gen r)%Z || Z.odd y).
    + split; [reflexivity|]. split; [reflexivity|]. close_sim W' Hc' E. exact I.
    + destruct (N.eqb (c_retries c) 0).
      * split; [reflexivity|]. split; [reflexivity|]. close_sim W' Hc' E. exact I.
      * split; [reflexivity|]. split; [reflexivity|]. close_sim W' Hc' E. exact Hord.
  - (* no cells *)
    split; [reflexivity|]. split; [reflexivity|]. close_sim W Hc Hv. destruct (c_r_fence c); exact I.
  - (* one cell *)
    assert (Hi : i < c_cells c) by (apply Hok; left; reflexivity).
    pose proof (rd_sim c L (g_view r) (g_view s) (LCell i) Rlx ch W (Hc i Hi) Hc Hv) as R.
    destruct (do_read L (g_view r) (LCell i) Rlx ch) as [[[x p] v']|];
      destruct (g_rd L (g_view s) (LCell i) Rlx ch) as [[[y q] t']|]; try contradiction; [|exact I].
    destruct R as (-> & -> & W' & Hc' & E).
    split; [reflexivity|]. split; [reflexivity|]. close_sim W' Hc' E.
    destruct todo as [|j todo']; [destruct (c_r_fence c); exact I|].
    intros k Hk. apply Hok. right. exact Hk.
  - (* fence *)
    destruct (c_r_fence c) as [o|].
    + destruct (r_fence_is_standard_fence L (g_view r) o W) as (W' & Hc' & E).
      pose proof (gteq_trans _ _ _ (g_fence_respects _ _ o Hv) E) as E'.
      split; [reflexivity|]. split; [reflexivity|].
      assert (Hc'' : forall k, k < c_cells c -> cell_ok (r_fence (g_view r) o) (LCell k)) by (intros k Hk; apply Hc', Hc, Hk).
      close_sim W' Hc'' E'. exact I.
    + split; [reflexivity|]. split; [reflexivity|]. close_sim W Hc Hv. exact I.
  - (* second generation load *)
    pose proof (rd_sim c L (g_view r) (g_view s) LGen (c_r_g2 c) ch W I Hc Hv) as R.
    destruct (do_read L (g_view r) LGen (c_r_g2 c) ch) as [[[x p] v']|];
      destruct (g_rd L (g_view s) LGen (c_r_g2 c) ch) as [[[y q] t']|]; try contradiction; [|exact I].
    destruct R as (-> & -> & W' & Hc' & E).
    destruct (y =? g)%Z.
    + split; [reflexivity|]. split; [reflexivity|]. close_sim W' Hc' E. exact I.
    + destruct (N.eqb (N.pred b) 0).
      * split; [reflexivity|]. split; [reflexivity|]. close_sim W' Hc' E. exact I.
      * split; [reflexivity|]. split; [reflexivity|]. close_sim W' Hc' E. exact Hord.
Qed.

(* a new client, in both representations *)
Lemma new_reader_sim c L :
  sim_ok c L (to_g (r_new c L))
    (mkgr (mkg (prefix_view L (length L)) (prefix_view L (length L))) RIdle (repeat 0%Z (c_cells c)) 0%Z 0 []).
Proof.
  destruct (r_new_is_full_view c L) as (W & Hc & E).
  split; [|exact I]. unfold sim, to_g. cbn [g_view g_pc g_cache g_cache_gen g_g1pos g_cellpos].
  split; [exact W|]. split; [exact Hc|]. split; [apply gteq_sym, E|]. repeat split; reflexivity.
Qed.

(* ------------------------------------------------------------------ the log grows between steps *)
Definition rel_pos (L : list event) : Prop := forall p e, ev L p = Some e -> e_rel e <= S p.

Lemma lat_app L x l n : n <= length L -> lat (L ++ x) l n = lat L l n.
Proof.
  intros H. unfold lat. rewrite firstn_app. replace (n - length L) with 0 by lia.
  cbn [firstn]. rewrite app_nil_r. reflexivity.
Qed.

Lemma alpha_app L x v : vwf v -> acq v <= length L -> gteq (alpha (L ++ x) v) (alpha L v).
Proof.
  intros W H. unfold vwf in W. split; intros l; cbn [alpha gcur gacq]; rewrite lat_app by lia; reflexivity.
Qed.

(* timestamps and message views are stable: what was published is never revised *)
Lemma mview_app L x p e : e_rel e <= length L -> geqv (mview (L ++ x) p e) (mview L p e).
Proof. intros H l. unfold mview, gjoin, prefix_view. rewrite lat_app by exact H. reflexivity. Qed.

Lemma do_read_bounded L v l o ch x p v' : rel_pos L -> acq v <= length L ->
  do_read L v l o ch = Some (x, p, v') -> acq v' <= length L.
Proof.
  intros RP H D. apply do_read_spec in D as (e & E & _ & _ & _ & _ & _ & Ha & _).
  rewrite Ha. pose proof (RP p e E). apply ev_lt in E. lia.
Qed.

Lemma sim_ok_app c L x r s : acq (g_view r) <= length L -> sim_ok c L r s -> sim_ok c (L ++ x) r s.
Proof.
  intros H S. sim_intro. split; [|exact Hok]. split; [exact W|]. split; [exact Hc|].
  split; [|repeat split; assumption].
  eapply gteq_trans; [exact Hv|]. apply gteq_sym, alpha_app; assumption.
Qed.

Lemma gr_step_bounded c L r ch r' it ret : rel_pos L -> acq (g_view r) <= length L ->
  gr_step do_read r_fence c L r ch = Some (r', it, ret) -> acq (g_view r') <= length L.
Proof.
  intros RP H. unfold gr_step.
  destruct (g_pc r) as [| | g [|i todo] acc b | g acc b | g acc b].
  - destruct (do_read L (g_view r) LVer (c_r_ver c) ch) as [[[ver q] v]|] eqn:D; [|discriminate].
    apply (do_read_bounded L _ _ _ _ _ _ _ RP H) in D.
    destruct (ver =? 0)%Z; intros E; inversion E; subst; exact D.
  - destruct (do_read L (g_view r) LGen (c_r_g1 c) ch) as [[[g q] v]|] eqn:D; [|discriminate].
    apply (do_read_bounded L _ _ _ _ _ _ _ RP H) in D.
    destruct ((g =? 0)%Z || (g =? g_cache_gen r)%Z || Z.odd g); [intros E; inversion E; subst; exact D|].
    destruct (N.eqb (c_retries c) 0); intros E; inversion E; subst; exact D.
  - intros E; inversion E; subst; exact H.
  - destruct (do_read L (g_view r) (LCell i) Rlx ch) as [[[x q] v]|] eqn:D; [|discriminate].
    apply (do_read_bounded L _ _ _ _ _ _ _ RP H) in D. intros E; inversion E; subst; exact D.
  - destruct (c_r_fence c) as [o|]; intros E; inversion E; subst; cbn [g_view]; [|exact H].
    unfold r_fence. destruct (is_acq o); cbn [acq]; exact H.
  - destruct (do_read L (g_view r) LGen (c_r_g2 c) ch) as [[[g2 q] v]|] eqn:D; [|discriminate].
    apply (do_read_bounded L _ _ _ _ _ _ _ RP H) in D.
    destruct (g2 =? g)%Z; [intros E; inversion E; subst; exact D|].
    destruct (N.eqb (N.pred b) 0); intros E; inversion E; subst; exact D.
Qed.

(* whole executions of one reader while the writer keeps appending: each step first extends the
   log by [x], then performs one access with the given choice *)
Fixpoint gr_run {V} (rd : list event -> V -> loc -> ord -> option nat -> option (Z * nat * V)) (fc : V -> ord -> V)
    (c : cfg) (L : list event) (r : grst V) (steps : list (list event * option nat))
    : option (list event * grst V * list (option titem * option rret)) :=
  match steps with
  | [] => Some (L, r, [])
  | (x, ch) :: rest =>
      match gr_step rd fc c (L ++ x) r ch with
      | None => None
      | Some (r', it, ret) =>
          match gr_run rd fc c (L ++ x) r' rest with
          | None => None
          | Some (L', r'', tr) => Some (L', r'', (it, ret) :: tr)
          end
      end
  end.

Fixpoint final_log (L : list event) (steps : list (list event * option nat)) : list event :=
  match steps with [] => L | (x, _) :: rest => final_log (L ++ x) rest end.

Lemma rel_pos_prefix L x : rel_pos (L ++ x) -> rel_pos L.
Proof. intros H p e E. apply (H p e). apply ev_app_l. exact E. Qed.

Lemma final_log_prefix : forall steps L, exists y, final_log L steps = L ++ y.
Proof.
  induction steps as [|[x ch] rest IH]; intros L; cbn [final_log]; [exists []; rewrite app_nil_r; reflexivity|].
  destruct (IH (L ++ x)) as [y Hy]. exists (x ++ y). rewrite Hy, app_assoc. reflexivity.
Qed.

(* Every execution of the reader program on the machine of Machine.v is, access for access, an
   execution of the same program on the standard view machine, and conversely: the same choices
   are possible, the same values are loaded, the same results are returned. *)
Theorem reader_runs_are_standard_runs c : (forall i, In i (c_r_order c) -> i < c_cells c) ->
  forall steps L r s, rel_pos (final_log L steps) -> acq (g_view r) <= length L -> sim_ok c L r s ->
  match gr_run do_read r_fence c L r steps, gr_run g_rd g_fence c L s steps with
  | Some (L1, r', tr), Some (L2, s', tr') => L1 = L2 /\ tr = tr' /\ sim_ok c L1 r' s'
  | None, None => True
  | _, _ => False
  end.
Proof.
  intros Hord. induction steps as [|[x ch] rest IH]; intros L r s RP HB S; cbn [gr_run].
  - split; [reflexivity|]. split; [reflexivity | exact S].
  - cbn [final_log] in RP.
    assert (RPx : rel_pos (L ++ x)).
    { destruct (final_log_prefix rest (L ++ x)) as [y Hy]. rewrite Hy in RP. apply rel_pos_prefix in RP. exact RP. }
    assert (HB' : acq (g_view r) <= length (L ++ x)) by (rewrite app_length; lia).
    pose proof (reader_program_bisim c (L ++ x) r s ch Hord (sim_ok_app c L x r s HB S)) as B.
    destruct (gr_step do_read r_fence c (L ++ x) r ch) as [[[r1 it] ret]|] eqn:G1;
      destruct (gr_step g_rd g_fence c (L ++ x) s ch) as [[[s1 it'] ret']|]; try contradiction; [|exact I].
    destruct B as (-> & -> & S1).
    pose proof (gr_step_bounded c (L ++ x) r ch r1 it' ret' RPx HB' G1) as HB1.
    specialize (IH (L ++ x) r1 s1 RP HB1 S1).
    destruct (gr_run do_read r_fence c (L ++ x) r1 rest) as [[[L1 r2] tr]|];
      destruct (gr_run g_rd g_fence c (L ++ x) s1 rest) as [[[L2 s2] tr']|]; try contradiction; [|exact I].
    destruct IH as (-> & -> & S2). split; [reflexivity|]. split; [reflexivity | exact S2].
Qed.

(* ------------------------------------------------------------------ the writer *)
(* standard writer thread: its current view and the view at its last release fence *)
Record gwriter := mkgw { wcur : gview; wrel : gview }.
Definition gweq (a b : gwriter) : Prop := geqv (wcur a) (wcur b) /\ geqv (wrel a) (wrel b).

(* a store of l with ordering o at the new timestamp p: new thread state, view of the message *)
Definition gw_store (g : gwriter) (l : loc) (o : ord) (p : nat) : gwriter * gview :=
  let c' := gjoin (wcur g) (gpoint l p) in
  (mkgw c' (wrel g), gjoin (if is_rel o then c' else wrel g) (gpoint l p)).
Definition gw_fence (g : gwriter) (o : ord) : gwriter := if is_rel o then mkgw (wcur g) (wcur g) else g.

(* the machine's writer state as a standard thread: it has seen all of its own log; its release
   view is the prefix recorded at the last release fence *)
Definition walpha (L : list event) (relview : nat) : gwriter :=
  mkgw (prefix_view L (length L)) (prefix_view L relview).

Lemma lat_le L l n : lat L l n <= n.
Proof.
  unfold lat. destruct (latest l (firstn n L)) as [p|] eqn:E; [|lia].
  apply latest_spec in E as (e & Ee & _). apply ev_lt in Ee. rewrite firstn_length in Ee. lia.
Qed.

Lemma lat_snoc_full L e l :
  lat (L ++ [e]) l (S (length L)) = if loc_eqb (e_loc e) l then length L else lat L l (length L).
Proof.
  unfold lat. rewrite firstn_all2 by (rewrite app_length; cbn; lia). rewrite latest_snoc.
  destruct (loc_eqb (e_loc e) l); [reflexivity|]. rewrite firstn_all. reflexivity.
Qed.

Lemma loc_eqb_sym a b : loc_eqb a b = loc_eqb b a.
Proof. destruct a, b; cbn; try reflexivity. apply Nat.eqb_sym. Qed.

Theorem w_push_is_standard_store w l v o k att :
  w_relview w <= length (w_log w) ->
  exists e, w_push w l v o k att = w_log w ++ [e] /\ e_loc e = l /\ e_val e = v /\
    geqv (mview (w_log w ++ [e]) (length (w_log w)) e)
         (snd (gw_store (walpha (w_log w) (w_relview w)) l o (length (w_log w)))) /\
    gweq (walpha (w_log w ++ [e]) (w_relview w))
         (fst (gw_store (walpha (w_log w) (w_relview w)) l o (length (w_log w)))).
Proof.
  intros H. unfold w_push. eexists. split; [reflexivity|]. cbn [e_loc e_val]. split; [reflexivity|]. split; [reflexivity|].
  set (L := w_log w) in *. set (p := length L).
  split.
  - intros l'. unfold mview, gw_store, walpha, gjoin, gpoint, prefix_view. cbn [snd wcur wrel e_rel e_loc].
    destruct (is_rel o).
    + rewrite lat_snoc_full. cbn [e_loc]. rewrite (loc_eqb_sym l l').
      pose proof (lat_le L l' (length L)). fold p in H0 |- *. destruct (loc_eqb l' l); lia.
    + rewrite lat_app by exact H. reflexivity.
  - split; intros l'; unfold gw_store, walpha, gjoin, gpoint, prefix_view; cbn [fst wcur wrel].
    + rewrite app_length. cbn [length]. rewrite Nat.add_1_r. rewrite lat_snoc_full. cbn [e_loc]. rewrite (loc_eqb_sym l l').
      pose proof (lat_le L l' (length L)). fold p in H0 |- *. destruct (loc_eqb l' l); lia.
    + rewrite lat_app by exact H. reflexivity.
Qed.

(* every access of write() is the standard access: stores carry the standard message view, the
   release fence moves the release view, and nothing else touches the views *)
Theorem writer_step_is_standard c w r k w' it :
  w_relview w <= length (w_log w) -> w_step c w r k = (w', it) ->
  w_relview w' <= length (w_log w') /\
  ( (w_log w' = w_log w /\ w_relview w' = w_relview w)
    \/ (exists o, it = Some (mkti AFence LGen o 0) /\ w_log w' = w_log w /\
          gweq (walpha (w_log w') (w_relview w')) (gw_fence (walpha (w_log w) (w_relview w)) o))
    \/ (exists e o ak, it = Some (mkti ak (e_loc e) o (e_val e)) /\ w_log w' = w_log w ++ [e] /\ w_relview w' = w_relview w /\
          geqv (mview (w_log w') (length (w_log w)) e)
               (snd (gw_store (walpha (w_log w) (w_relview w)) (e_loc e) o (length (w_log w)))) /\
          gweq (walpha (w_log w') (w_relview w'))
               (fst (gw_store (walpha (w_log w) (w_relview w)) (e_loc e) o (length (w_log w))))) ).
Proof.
  intros H S. unfold w_step in S.
  destruct (w_pc w) as [| g | p | p [|i todo] |].
  - inversion S; subst; cbn [w_log w_relview]. split; [exact H|]. left. split; reflexivity.
  - inversion S; subst; cbn [w_log w_relview].
    destruct (w_push_is_standard_store w LGen (pre g) (c_w_odd c) KOdd (w_att w) H) as (e & Ep & El & Ev & M & G).
    rewrite Ep. split; [rewrite app_length; lia|]. right. right.
    exists e, (c_w_odd c), AStore. split; [rewrite El, Ev; reflexivity|]. split; [reflexivity|]. split; [reflexivity|]. split; [rewrite El; exact M | rewrite El; exact G].
  - destruct (c_w_fence c) as [o|]; inversion S; subst; cbn [w_log w_relview].
    + split; [destruct (is_rel o); lia|]. right. left. exists o. split; [reflexivity|]. split; [reflexivity|].
      unfold gw_fence, walpha. destruct (is_rel o); split; intros l; cbn [wcur wrel]; reflexivity.
    + split; [exact H|]. left. split; reflexivity.
  - inversion S; subst; cbn [w_log w_relview].
    destruct (w_push_is_standard_store w LGen (post p) (c_w_even c) KEven (w_att w) H) as (e & Ep & El & Ev & M & G).
    rewrite Ep. split; [rewrite app_length; lia|]. right. right.
    exists e, (c_w_even c), AStore. split; [rewrite El, Ev; reflexivity|]. split; [reflexivity|]. split; [reflexivity|]. split; [rewrite El; exact M | rewrite El; exact G].
  - inversion S; subst; cbn [w_log w_relview].
    destruct (w_push_is_standard_store w (LCell i) (nth i (w_rec w) 0%Z) Rlx KCell (w_att w) H) as (e & Ep & El & Ev & M & G).
    rewrite Ep. split; [rewrite app_length; lia|]. right. right.
    exists e, Rlx, ACellW. split; [rewrite El, Ev; reflexivity|]. split; [reflexivity|]. split; [reflexivity|]. split; [rewrite El; exact M | rewrite El; exact G].
  - inversion S; subst. split; [exact H|]. left. split; reflexivity.
Qed.

(* a thread that has seen the whole log can only load the latest message of a location: the
   writer's own generation load, and a client that has just mapped the segment *)
Theorem full_view_reads_latest L l o i x t' :
  g_read L (mkg (prefix_view L (length L)) (prefix_view L (length L))) l o i = Some (x, t') -> latest l L = Some i.
Proof.
  unfold g_read. destruct (nth_error L i) as [e|] eqn:E; [|discriminate].
  destruct (loc_eqb (e_loc e) l && (gcur (mkg (prefix_view L (length L)) (prefix_view L (length L))) l <=? i)) eqn:G; [|discriminate].
  intros _. apply andb_true_iff in G as [G1 G2]. apply loc_eqb_eq in G1. apply Nat.leb_le in G2.
  cbn [gcur] in G2. unfold prefix_view, lat in G2. rewrite firstn_all in G2.
  destruct (latest_exists l L i e E G1) as (p' & Hp & Hle). rewrite Hp in G2. rewrite Hp. f_equal. lia.
Qed.

(* the hypothesis on the log is an invariant of the machine's writer (SeqlockFresh.LogInv2) *)
Lemma LogInv2_rel_pos L : LogInv2 L -> rel_pos L.
Proof. intros I p e E. exact (L2_rel_pos L I p e E). Qed.

(* ------------------------------------------------------------------ the premises are satisfiable *)
(* one complete publication under the configuration of the code, then one complete snapshot() by
   a client that attached before it: 11 accesses each *)
Definition demo_log0 : list event := w_log (w_init fixed_cfg).
Definition demo_log1 : list event := w_log (m_w (fst (m_run_std (m_init fixed_cfg) (repeat TW 11)))).
Definition demo_steps : list (list event * option nat) :=
  (skipn (length demo_log0) demo_log1, None) :: repeat ([], None) 10.

Example demo_run_prefix_machine :
  match gr_run do_read r_fence fixed_cfg demo_log0 (to_g (r_new fixed_cfg demo_log0)) demo_steps with
  | Some (L, r, tr) => L = demo_log1 /\ g_cache r = rec_of 7 1 /\ last tr (None, None) = (Some (mkti ALoad LGen Acq 2), Some RetFresh)
  | None => False
  end.
Proof. vm_compute. repeat split; reflexivity. Qed.

Example demo_premises :
  (forall i, In i (c_r_order fixed_cfg) -> i < c_cells fixed_cfg) /\
  acq (g_view (to_g (r_new fixed_cfg demo_log0))) <= length demo_log0.
Proof. split; [intros i H; vm_compute in H; cbn; lia | vm_compute; lia]. Qed.
